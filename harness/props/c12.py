"""C12 — concurrent calls from many threads return exactly the single-threaded results.

Level `other`: the LOGIC part (interleaving independence under confinement, lock discipline of the three
release idioms, no shared writes over the extracted object table) is proved in Lean
(Properties/C12.lean); the RUNTIME part is validated here by thread stress on the freshly built code.

Case kinds
  stress  {threads, calls:[[kernel, seed, size]...], shared, reps, switch, reset_perimeter}
          run in a child process (a crash must not take the check down): sequential results first, then the
          same calls from `threads` barrier-aligned threads; every result compared bit-for-bit.
  model   block of generated programs/schedules and skeleton paths run through the Lean driver and
          compared with an independent Python evaluation (keeps the proved definitions live).
  sites   the translator's table of gil_release sites run through the driver's skeleton checker.
  selftest (only with VERIF_C12_SELFTEST=1) a deliberately thread-hostile "kernel" that must be caught.
"""
from __future__ import annotations
import json, os, subprocess, sys
from pathlib import Path
from .. import core

ID = 'C12'
FOUNDATIONS = ['harness.foundation.cscalar']   # ties of the C++ helper functions the model rests on (generated from their text)
LEVEL = 'other'
RULE = ('corpus (perimeter first-use race, raising mix, reference-count race probes); then per seed: thread-stress '
        'cases = mixes of 3-8 calls drawn from all GIL-releasing kernels reachable from the public API, '
        '2..32 barrier-aligned threads x distinct|shared read-only inputs x sizes 8..96 x interpreter switch '
        'interval {default, 1e-6}; each thread runs the whole mix `reps` times in rotated order. '
        'Model cases = random programs/schedules (confined and not) and all skeleton paths through the Lean driver. '
        'Non-trivial = at least two threads really ran the mix and at least one call returned a non-constant array; '
        'distinct = distinct (mix, threads, shared, switch).')
ASSUMPTIONS = [
    'PROVED (Lean, about the model): T1 C12_interleaving_independent* / C12_schedule_independent / C12_shared_unchanged / '
    'C12_no_observation_of_others; T2 C12_gil_discipline_* ; T2/T3 over the tables extracted from the current sources: '
    'C12_release_sites_disciplined, C12_no_shared_writes, C12_python_globals_benign (no exception list); T4 about the '
    'address-level access programs of erode / convolve / label / cwatershed / labeled_foldl (and, second table, dilate / '
    'rank_filter / template_match / cooccurence / dist_transform / borders / thin / zoom_shift): C12_kernel_confined, '
    'C12_more_kernels_confined, C12_kernel_roles_wellformed, C12_more_kernels_roles_ok, C12_concurrent_kernels_independent, '
    'C12_concurrent_calls_independent, C12_exception_paths_release_nothing, value ties '
    'C12_{erode,convolve,labeled_fold,label,cwatershed,template_match,rank_filter,dilate,cooccurence,borders}_program_computes_model '
    '(distance / thin / zoom_shift: read/write sets only)',
    'VALIDATED ONLY (thread stress samples schedules, it does not enumerate them): that the compiled kernels perform the '
    'accesses of those access programs, i.e. are confined (touch only their arguments, outputs and locals), data races '
    'inside C++ and CPython/numpy guarantees',
    'inputs are valid for every kernel (C-contiguous, non-empty, matching ranks): crashes on malformed input belong to C11',
    'shared inputs are marked read-only where the wrapper accepts read-only arrays (else shared but writeable, never written)',
    'results are compared bit-for-bit (dtype, shape, bytes; NaN patterns included), exceptions by type and message',
    'the lexical extraction of gil_release sites does not see wrappers copied by value below a released region',
]
TRUSTED = ['CPython threading / sys.setswitchinterval, numpy', 'translator/statics.py (regex + python ast extraction)',
           'sys.getrefcount as observation of lost reference-count updates']
EXPLANATION = ('Lean proves why the property holds on the model (confinement + lock discipline + no shared writes, the '
               'last over tables regenerated from the sources on every run); the stress run validates the model against '
               'the real build and searches for failing inputs.')

PY = core.PY

# ------------------------------------------------------------------------------------------------
# kernels (child side). Every entry: name -> (function of an Inputs object, tuple of input attribute names)


class Inputs:
    """deterministic inputs for one call spec; arrays are created lazily and cached"""

    def __init__(self, seed: int, size: int, readonly: bool):
        import numpy as np
        self.seed, self.size, self.readonly = seed, size, readonly
        self._np = np
        self._cache = {}

    def _rs(self, salt):
        return self._np.random.RandomState((self.seed * 1000003 + salt) % (2 ** 31 - 1))

    def get(self, name):
        if name not in self._cache:
            a = getattr(self, '_mk_' + name)()
            a = self._np.ascontiguousarray(a)
            if self.readonly:
                a.setflags(write=False)
            self._cache[name] = a
        return self._cache[name]

    def arrays(self):
        return dict(self._cache)

    # uint8 image with smooth blobs + noise
    def _mk_f(self):
        np = self._np
        n = self.size
        r = self._rs(1)
        y, x = np.mgrid[:n, :n]
        g = np.zeros((n, n))
        for _ in range(4):
            cy, cx, s = r.randint(0, n), r.randint(0, n), r.uniform(n / 8 + 1, n / 3 + 2)
            g += np.exp(-((y - cy) ** 2 + (x - cx) ** 2) / (2 * s * s))
        g = 200 * g / g.max() + r.randint(0, 40, (n, n))
        return g.astype(np.uint8)

    def _mk_b(self):
        return self.get('f') > 110

    def _mk_b8(self):
        return (self.get('f') > 110).astype(self._np.uint8)

    def _mk_fl(self):
        return self.get('f').astype(self._np.float64) + self._rs(2).randint(0, 8, (self.size,) * 2) / 8.0

    def _mk_integ(self):
        # an integral image handed to SURF as such (is_integral=True): the array the native pyramid code reads
        import mahotas.features.surf as _s
        n = max(self.size, 40)
        return _s.integral(self._rs(11).rand(n, n))

    def _mk_f32(self):
        return self.get('f').astype(self._np.float32)

    def _mk_m(self):
        np = self._np
        m = np.zeros((self.size,) * 2, np.int64)
        r = self._rs(3)
        for k in range(1, 5):
            m[r.randint(0, self.size), r.randint(0, self.size)] = k
        return m

    def _mk_lab(self):
        np = self._np
        n = self.size
        r = self._rs(4)
        lab = np.zeros((n, n), np.int32)
        for k in range(1, 6):
            y0, x0 = r.randint(0, n - 1), r.randint(0, n - 1)
            lab[y0:y0 + r.randint(1, n // 2 + 2), x0:x0 + r.randint(1, n // 2 + 2)] = k
        return lab

    def _mk_neg(self):
        return self.get('f').astype(self._np.int32) - 100

    def _mk_rgb(self):
        np = self._np
        return np.dstack([self.get('f'), self.get('f')[::-1], self.get('f').T]).astype(np.uint8)

    def _mk_w3(self):
        return self._rs(5).randint(-2, 3, (3, 3)).astype(self._np.float64)

    def _mk_w1(self):
        return self._np.array([1., 2., 1., 0., -1.])

    def _mk_tmpl(self):
        f = self.get('f')
        k = max(2, min(4, self.size // 4))
        return f[1:1 + k, 2:2 + k].copy()

    def _mk_bc3(self):
        return self._np.array([[0, 1, 0], [1, 1, 1], [0, 1, 1]], self._np.uint8)

    def _mk_hm(self):
        return self._np.array([[0, 1, 2], [1, 1, 1], [2, 1, 0]], self._np.uint8)

    def _mk_poly(self):
        n = self.size
        return self._np.array([[1, 1], [1, n - 2], [n - 2, n // 2]], self._np.intp)


def _kernels():
    import numpy as np
    import mahotas as mh
    import mahotas.features, mahotas.features.surf, mahotas.features.texture, mahotas.labeled
    import mahotas.interpolate, mahotas.polygon, mahotas.segmentation, mahotas.thresholding
    import mahotas._convolve, mahotas._center_of_mass, mahotas._convex, mahotas._interpolate
    K = {}

    def reg(name, uses, fn):
        K[name] = (fn, tuple(uses))

    g = lambda I, n: I.get(n)
    reg('erode', ['b'], lambda I: mh.erode(g(I, 'b')))
    reg('erode_u8', ['f'], lambda I: mh.erode(g(I, 'f')))
    # the structuring element itself is an input shared by the concurrent calls
    reg('erode_shared_bc', ['f', 'bc3'], lambda I: mh.erode(g(I, 'f'), g(I, 'bc3')))
    # extrema / rank filters with an explicit structuring element of the image's dtype (passed through uncopied)
    reg('locmax_shared_bc', ['f', 'bc3'], lambda I: mh.locmax(g(I, 'f'), g(I, 'bc3')))
    reg('regmin_shared_bc', ['f', 'bc3'], lambda I: mh.regmin(g(I, 'f'), g(I, 'bc3')))
    reg('median_shared_bc', ['f', 'bc3'], lambda I: mh.median_filter(g(I, 'f'), g(I, 'bc3')))
    reg('dilate', ['f'], lambda I: mh.dilate(g(I, 'f')))
    reg('dilate_b', ['b'], lambda I: mh.dilate(g(I, 'b'), np.ones((3, 3), bool)))
    reg('open', ['b'], lambda I: mh.open(g(I, 'b')))
    reg('close', ['f'], lambda I: mh.close(g(I, 'f')))
    reg('cwatershed', ['f', 'm'], lambda I: mh.cwatershed(g(I, 'f'), g(I, 'm')))
    # the labels only: the `lines` output of return_lines=True is not initialised by the kernel where no line
    # is drawn (DESIGN section 6 finding 7, owned by C04) and differs from call to call even sequentially
    reg('cwatershed_lines', ['f', 'm'], lambda I: mh.cwatershed(g(I, 'f'), g(I, 'm'), return_lines=True)[0])
    reg('hitmiss', ['b8', 'hm'], lambda I: mh.hitmiss(g(I, 'b8'), g(I, 'hm')))
    reg('majority_filter', ['b'], lambda I: mh.majority_filter(g(I, 'b'), 3))
    reg('locmax', ['f'], lambda I: mh.locmax(g(I, 'f')))
    reg('regmax', ['f'], lambda I: mh.regmax(g(I, 'f')))
    reg('regmin', ['f'], lambda I: mh.regmin(g(I, 'f')))
    reg('close_holes', ['b'], lambda I: mh.close_holes(g(I, 'b')))
    reg('distance', ['b'], lambda I: mh.distance(g(I, 'b')))
    reg('thin', ['b'], lambda I: mh.thin(g(I, 'b')))
    reg('bwperim', ['b'], lambda I: mh.bwperim(g(I, 'b')))
    reg('borders', ['lab'], lambda I: mh.labeled.borders(g(I, 'lab')))
    reg('border', ['lab'], lambda I: mh.labeled.border(g(I, 'lab'), 1, 2))
    reg('label', ['b'], lambda I: mh.label(g(I, 'b')))
    reg('labeled_sum', ['f', 'lab'], lambda I: mh.labeled_sum(g(I, 'f'), g(I, 'lab')))
    reg('labeled_max', ['f', 'lab'], lambda I: mh.labeled.labeled_max(g(I, 'f'), g(I, 'lab')))
    reg('labeled_size', ['lab'], lambda I: mh.labeled.labeled_size(g(I, 'lab')))
    reg('bbox', ['b'], lambda I: mh.bbox(g(I, 'b')))
    reg('labeled_bbox', ['lab'], lambda I: mh.labeled.bbox(g(I, 'lab')))
    reg('relabel', ['lab'], lambda I: mh.labeled.relabel(g(I, 'lab')))
    reg('remove_bordering', ['lab'], lambda I: mh.labeled.remove_bordering(g(I, 'lab')))
    reg('remove_regions', ['lab'], lambda I: mh.labeled.remove_regions(g(I, 'lab'), [2, 3]))
    reg('is_same_labeling', ['lab'], lambda I: mh.labeled.is_same_labeling(g(I, 'lab'), g(I, 'lab') * 2))
    reg('perimeter', ['b'], lambda I: mh.labeled.perimeter(g(I, 'b')))
    reg('convolve', ['fl', 'w3'], lambda I: mh.convolve(g(I, 'fl'), g(I, 'w3')))
    reg('convolve_u8', ['f'], lambda I: mh.convolve(g(I, 'f'), np.ones((3, 3), np.uint8), mode='reflect'))
    reg('convolve1d', ['fl', 'w1'], lambda I: mh.convolve1d(g(I, 'fl'), g(I, 'w1'), 1))
    reg('gaussian_filter', ['fl'], lambda I: mh.gaussian_filter(g(I, 'fl'), 2.))
    # the derivative orders of the same sigma (their weights are derived in place from the smoothing window)
    reg('gaussian_filter_d1', ['fl'], lambda I: mh.gaussian_filter(g(I, 'fl'), 2., order=1))
    reg('gaussian_filter_d01', ['fl'], lambda I: mh.gaussian_filter(g(I, 'fl'), 2., order=(0, 1)))
    reg('gaussian_filter1d_d2', ['fl'], lambda I: mh.gaussian_filter1d(g(I, 'fl'), 2., axis=0, order=2))
    reg('median_filter', ['f'], lambda I: mh.median_filter(g(I, 'f')))
    reg('rank_filter', ['f'], lambda I: mh.rank_filter(g(I, 'f'), np.ones((3, 3), bool), 2))
    reg('mean_filter', ['fl'], lambda I: mh.mean_filter(g(I, 'fl'), np.ones((3, 3))))
    reg('template_match', ['f', 'tmpl'], lambda I: mh.template_match(g(I, 'f'), g(I, 'tmpl')))
    reg('find', ['f', 'tmpl'], lambda I: mh.find(g(I, 'f'), g(I, 'tmpl')))
    reg('daubechies', ['fl'], lambda I: mh.daubechies(g(I, 'fl'), 'D4'))
    reg('idaubechies', ['fl'], lambda I: mh.idaubechies(g(I, 'fl'), 'D6'))
    reg('haar', ['fl'], lambda I: mh.haar(g(I, 'fl')))
    reg('ihaar', ['fl'], lambda I: mh.ihaar(g(I, 'fl')))
    reg('haralick', ['f'], lambda I: mh.features.haralick(g(I, 'f')))
    reg('cooccurence', ['f'], lambda I: mh.features.texture.cooccurence(g(I, 'f'), 1))
    reg('lbp', ['f'], lambda I: mh.features.lbp(g(I, 'f'), 2, 8))
    reg('zernike_moments', ['f'], lambda I: mh.features.zernike_moments(g(I, 'f'), I.size / 2.5, degree=6))
    reg('surf', ['f'], lambda I: mh.features.surf.surf(g(I, 'f')))
    reg('surf_integral', ['f'], lambda I: mh.features.surf.integral(g(I, 'f').copy()))
    reg('surf_interest_points', ['f'], lambda I: mh.features.surf.interest_points(g(I, 'f'), 2, 4, 1))
    reg('surf_interest_points_integral', ['integ'], lambda I: mh.features.surf.interest_points(g(I, 'integ'), is_integral=True))
    reg('surf_descriptors', ['fl'], lambda I: mh.features.surf.descriptors(
        g(I, 'fl'), np.array([[I.size / 2., I.size / 2., 2., 10., 1.], [I.size / 3., I.size / 2., 2.5, 12., -1.]]),
        is_integral=False))
    reg('shift', ['fl'], lambda I: mh.interpolate.shift(g(I, 'fl'), [1.5, -0.5]))
    reg('zoom', ['fl'], lambda I: mh.interpolate.zoom(g(I, 'fl'), 1.5))
    reg('spline_filter', ['fl'], lambda I: mh.interpolate.spline_filter(g(I, 'fl'), 3))
    reg('center_of_mass', ['fl'], lambda I: mh.center_of_mass(g(I, 'fl')))
    reg('center_of_mass_labels', ['fl', 'lab'], lambda I: mh.center_of_mass(g(I, 'fl'), g(I, 'lab')))
    reg('convexhull', ['b'], lambda I: mh.polygon.convexhull(g(I, 'b')))
    reg('fill_convexhull', ['b'], lambda I: mh.polygon.fill_convexhull(g(I, 'b')))
    reg('fill_polygon', ['poly'], lambda I: _fill_polygon(mh, np, I))
    reg('fullhistogram', ['f'], lambda I: mh.fullhistogram(g(I, 'f')))
    reg('otsu', ['f'], lambda I: mh.otsu(g(I, 'f')))
    reg('rc', ['f'], lambda I: mh.rc(g(I, 'f')))
    reg('slic', ['rgb'], lambda I: mh.segmentation.slic(g(I, 'rgb'), max(4, I.size // 4)))
    reg('euler', ['b'], lambda I: mh.euler(g(I, 'b')))
    # direct native entry points on a shared input (reference-count probes: cheap, many calls per second)
    reg('native_center_of_mass', ['fl'], lambda I: mahotas._center_of_mass.center_of_mass(g(I, 'fl'), None))
    reg('native_convexhull', ['b'], lambda I: mahotas._convex.convexhull(g(I, 'b')))
    # calls that raise ...
    # ... inside a kernel while the lock is released (PythonException carried to the catch site)
    reg('raise_cooccurence_negative', ['neg'], lambda I: mh.features.texture.cooccurence(g(I, 'neg'), 0))
    reg('raise_native_convolve_mode', ['fl', 'w3'], lambda I: mahotas._convolve.convolve(
        g(I, 'fl'), g(I, 'w3'), np.empty_like(g(I, 'fl')), 77))
    reg('raise_native_spline_order', ['fl'], lambda I: mahotas._interpolate.spline_filter1d(g(I, 'fl').copy(), 7, 0))
    # ... in the Python wrappers / native validation (lock held)
    reg('raise_wrapper_spline_order', ['fl'], lambda I: mh.interpolate.spline_filter1d(g(I, 'fl'), order=7))
    reg('raise_wrapper_erode_ndim', ['b'], lambda I: mh.erode(g(I, 'b'), np.ones((3, 3, 3), bool)))
    reg('raise_wrapper_convolve_mode', ['fl', 'w3'], lambda I: mh.convolve(g(I, 'fl'), g(I, 'w3'), mode='nosuch'))
    reg('raise_wrapper_thin_ndim', ['fl'], lambda I: mh.thin(np.zeros((3, 3, 3), bool)))
    reg('raise_native_type', ['fl'], lambda I: mahotas._convolve.convolve(g(I, 'fl'), np.ones((3, 3), np.float32),
                                                                          np.empty_like(g(I, 'fl')), 0))
    from . import c12_extra            # the other properties' functions (used by harness/foundation/concurrent.py)
    c12_extra.register(reg, g, mh, np)
    return K


def _fill_polygon(mh, np, I):
    canvas = np.zeros((I.size, I.size), bool)
    mh.polygon.fill_polygon([tuple(int(v) for v in p) for p in I.get('poly')], canvas)
    return canvas


RAISING = ['raise_cooccurence_negative', 'raise_native_convolve_mode', 'raise_native_spline_order',
           'raise_wrapper_spline_order', 'raise_wrapper_erode_ndim', 'raise_wrapper_convolve_mode', 'raise_wrapper_thin_ndim', 'raise_native_type']
IN_KERNEL_RAISING = RAISING[:3]
NATIVE_PROBES = ['native_center_of_mass', 'native_convexhull']
# kernels drawn for random mixes (names only: the registry itself lives in the child)
REGULAR = ['erode', 'erode_u8', 'erode_shared_bc', 'locmax_shared_bc', 'regmin_shared_bc', 'median_shared_bc', 'dilate', 'dilate_b', 'open', 'close', 'cwatershed', 'cwatershed_lines', 'hitmiss',
           'majority_filter', 'locmax', 'regmax', 'regmin', 'close_holes', 'distance', 'thin', 'bwperim', 'borders',
           'border', 'label', 'labeled_sum', 'labeled_max', 'labeled_size', 'bbox', 'labeled_bbox', 'relabel',
           'remove_bordering', 'remove_regions', 'is_same_labeling', 'perimeter', 'convolve', 'convolve_u8',
           'convolve1d', 'gaussian_filter', 'gaussian_filter_d1', 'gaussian_filter_d01', 'gaussian_filter1d_d2',
           'median_filter', 'rank_filter', 'mean_filter', 'template_match', 'find',
           'daubechies', 'idaubechies', 'haar', 'ihaar', 'haralick', 'cooccurence', 'lbp', 'zernike_moments', 'surf',
           'surf_integral', 'surf_interest_points', 'surf_interest_points_integral', 'surf_descriptors', 'shift', 'zoom', 'spline_filter',
           'center_of_mass', 'center_of_mass_labels', 'convexhull', 'fill_convexhull', 'fill_polygon', 'fullhistogram',
           'otsu', 'rc', 'slic', 'euler']
FAMILY = {}
for _k in REGULAR + RAISING + NATIVE_PROBES:
    FAMILY[_k] = ('raising' if _k.startswith('raise_') else
                  'morphology' if _k in ('erode', 'erode_u8', 'erode_shared_bc', 'locmax_shared_bc', 'regmin_shared_bc', 'median_shared_bc', 'dilate', 'dilate_b', 'open', 'close', 'hitmiss',
                                         'majority_filter', 'locmax', 'regmax', 'regmin', 'close_holes', 'thin',
                                         'bwperim', 'euler') else
                  'watershed' if _k.startswith('cwatershed') else
                  'distance' if _k == 'distance' else
                  'label' if _k in ('label', 'borders', 'border', 'labeled_sum', 'labeled_max', 'labeled_size', 'bbox',
                                    'labeled_bbox', 'relabel', 'remove_bordering', 'remove_regions', 'is_same_labeling',
                                    'perimeter', 'slic') else
                  'filters' if _k in ('convolve', 'convolve_u8', 'convolve1d', 'gaussian_filter', 'gaussian_filter_d1',
                                      'gaussian_filter_d01', 'gaussian_filter1d_d2', 'median_filter',
                                      'rank_filter', 'mean_filter', 'template_match', 'find', 'daubechies',
                                      'idaubechies', 'haar', 'ihaar') else
                  'texture' if _k in ('haralick', 'cooccurence', 'lbp', 'zernike_moments') else
                  'surf' if _k.startswith('surf') else
                  'interpolation' if _k in ('shift', 'zoom', 'spline_filter') else 'measure')

# gil_release sites whose wrappers are built inside the released region  ->  kernels that exercise them
SITE_KERNELS = {'convexhull': ['convexhull', 'native_convexhull', 'fill_convexhull'],
                'py_center_of_mass': ['center_of_mass', 'center_of_mass_labels', 'native_center_of_mass'],
                'py_descriptors': ['surf_descriptors', 'surf']}


# ------------------------------------------------------------------------------------------------
# child: the actual stress run

def _canon(x):
    """bit-exact canonical form of a result"""
    import numpy as np
    if isinstance(x, np.ndarray):
        return ('nd', str(x.dtype), tuple(x.shape), np.ascontiguousarray(x).tobytes())
    if isinstance(x, (tuple, list)):
        return (type(x).__name__,) + tuple(_canon(v) for v in x)
    if isinstance(x, np.generic):
        return ('np', str(x.dtype), x.tobytes())
    if isinstance(x, float):
        import struct
        return ('float', struct.pack('<d', x))
    if isinstance(x, complex):
        import struct
        return ('complex', struct.pack('<dd', x.real, x.imag))
    return (type(x).__name__, repr(x))


def _call(fn, I):
    try:
        return ('ok', _canon(fn(I)))
    except BaseException as e:  # noqa
        r = ('exc', type(e).__name__, str(e))
        # the thread must still be able to run Python (lock re-acquired): touch the interpreter
        _ = len(repr(r))
        return r


def _describe(r):
    if r is None:
        return 'missing'
    if r[0] == 'exc':
        return f'raised {r[1]}: {r[2][:120]}'
    c = r[1]
    if c[0] == 'np':
        import numpy as np
        return f'{c[1]}({np.frombuffer(c[2], dtype=c[1])[0]!r})'
    if c[0] == 'nd':
        import hashlib
        return f'ndarray {c[1]} {c[2]} sha1={hashlib.sha1(c[3]).hexdigest()[:12]}'
    return repr(c)[:160]


def _selftest_kernel():
    """a deliberately thread-hostile kernel: result staged through a module-level scratch buffer while numpy
    releases the lock — must be caught by the stress run (used only by the self-test)"""
    import numpy as np
    import mahotas as mh
    scratch = {'buf': None}

    def hostile(I):
        scratch['buf'] = I.get('fl') * (1 + I.seed % 7)
        mh.gaussian_filter(I.get('fl'), 1.5)           # releases the lock: another thread overwrites the buffer
        return scratch['buf'].sum()
    return hostile


def run_stress(case):
    import gc, threading, time
    import numpy as np
    import mahotas as mh, mahotas.labeled
    K = _kernels()
    if case.get('selftest'):
        K['selftest_hostile'] = (_selftest_kernel(), ('fl',))
    nthreads, reps, shared = int(case['threads']), int(case['reps']), bool(case['shared'])
    calls = [tuple(c) for c in case['calls']]
    findings, tags = [], {}
    for name, _, _ in calls:
        if name not in K:
            raise core.Infra(f'unknown kernel {name}')

    def fresh(readonly):
        return [Inputs(seed, size, readonly) for (_, seed, size) in calls]

    # ---- sequential reference (on its own inputs, built the same way)
    ro_flags = []
    ref_inputs = []
    seq = []
    for (name, seed, size) in calls:
        I = Inputs(seed, size, shared and not case.get('rw'))     # rw: shared by the threads but not FLAGGED read-only
        r = _call(K[name][0], I)
        ro = shared
        if shared and r[0] == 'exc' and not name.startswith('raise_'):
            # this wrapper rejects read-only arrays (C08's business): share the array writeable instead
            I = Inputs(seed, size, False)
            r = _call(K[name][0], I)
            ro = False
        ro_flags.append(ro)
        ref_inputs.append(I)
        seq.append(r)
    # determinism of the reference itself (a kernel reading uninitialised memory would differ run to run)
    seq2 = [_call(K[name][0], I) for (name, _, _), I in zip(calls, ref_inputs)]
    unstable = {i for i, (a, b) in enumerate(zip(seq, seq2)) if a != b}
    snapshots = [{k: v.copy() for k, v in I.arrays().items()} for I in ref_inputs]
    def _nc(c):
        if c[0] == 'nd':
            return len(set(c[3])) > 1
        if c[0] in ('tuple', 'list'):
            return any(_nc(v) for v in c[1:])
        return False
    nonconst = any(r[0] == 'ok' and _nc(r[1]) for r in seq)

    # ---- concurrent run
    if shared:
        per_thread = [ref_inputs] * nthreads
    else:
        per_thread = [[Inputs(seed, size, False) for (_, seed, size) in calls] for _ in range(nthreads)]
        for Is in per_thread:                       # build the arrays before the threads start
            for (name, _, _), I in zip(calls, Is):
                for u in K[name][1]:
                    I.get(u)
    if shared:
        for (name, _, _), I in zip(calls, ref_inputs):
            for u in K[name][1]:
                I.get(u)
    gc.collect()
    refc0 = [{k: sys.getrefcount(v) for k, v in I.arrays().items()} for I in ref_inputs] if shared else None
    magic0 = sys.getrefcount(mh.labeled._perimeter_magic)    # module-level array every perimeter() call passes to convolve
    rounds = int(case.get('rounds', 1))
    results = [[None] * (rounds * reps * len(calls)) for _ in range(nthreads)]
    started = [0]
    old_sw = sys.getswitchinterval()
    hung = []

    def work(t, rnd, barrier):
        Is = per_thread[t]
        try:
            barrier.wait(timeout=60)
        except threading.BrokenBarrierError:
            return
        started[0] += 1
        n = len(calls)
        for rep in range(reps):
            for j in range(n):
                i = (j + t) % n                     # rotated order: different kernels overlap
                results[t][(rnd * reps + rep) * n + i] = _call(K[calls[i][0]][0], Is[i])

    t0 = time.time()
    deadline = t0 + float(case.get('timeout', 300))
    for rnd in range(rounds):
        if case.get('reset_perimeter'):
            mh.labeled._perimeter_values = None      # first-use race of the lazily initialised module global
        barrier = threading.Barrier(nthreads)
        if case.get('switch'):
            sys.setswitchinterval(float(case['switch']))
        try:
            ths = [threading.Thread(target=work, args=(t, rnd, barrier), daemon=True) for t in range(nthreads)]
            for th in ths:
                th.start()
            for th in ths:
                th.join(max(0.1, deadline - time.time()))
            hung = [i for i, th in enumerate(ths) if th.is_alive()]
        finally:
            sys.setswitchinterval(old_sw)
        if hung:
            break
    if hung:
        findings.append(dict(kind='property', key='hang:' + '+'.join(sorted({c[0] for c in calls})),
                             detail=dict(threads_alive=hung, note='threads did not finish: lock not re-acquired or deadlock')))
        return dict(findings=findings, nontrivial=False, sig=None, tags=dict(kind='stress', outcome='hang'))

    # ---- compare
    n = len(calls)
    seen = set()
    mism = 0
    for t in range(nthreads):
        for idx, r in enumerate(results[t]):
            i = idx % n
            name = calls[i][0]
            if i in unstable:
                continue
            if r != seq[i]:
                mism += 1
                both_exc = r is not None and r[0] == 'exc' and seq[i][0] == 'exc'
                one_exc = (r is not None and r[0] == 'exc') != (seq[i][0] == 'exc')
                key = ('exception-mismatch:' if (both_exc or one_exc) else 'thread-mismatch:') + name
                if name == 'perimeter' and case.get('reset_perimeter'):
                    key = 'thread-mismatch:perimeter-first-use'
                if key not in seen:
                    seen.add(key)
                    findings.append(dict(kind='property', key=key, detail=dict(
                        kernel=name, thread=t, call_index=idx // n, sequential=_describe(seq[i]), concurrent=_describe(r),
                        threads=nthreads, shared=shared)))
    for i in unstable:
        findings.append(dict(kind='model', key='sequential-nondeterministic:' + calls[i][0],
                             detail=dict(first=_describe(seq[i]), second=_describe(seq2[i]))))
    # shared (and reference) inputs unchanged
    for (name, _, _), I, snap in zip(calls, ref_inputs, snapshots):
        for k, v in I.arrays().items():
            if k in snap and not (v.dtype == snap[k].dtype and v.shape == snap[k].shape and v.tobytes() == snap[k].tobytes()):
                findings.append(dict(kind='property', key='shared-input-modified:' + name, detail=dict(array=k)))
    # reference counts of the shared arrays: lost updates = interpreter state touched without the lock
    drift_total = 0
    if shared:
        del results, r
        gc.collect()
        for (name, _, _), I, before in zip(calls, ref_inputs, refc0):
            for k, v in I.arrays().items():
                if k in before and k in K[name][1]:
                    d = sys.getrefcount(v) - before[k]
                    if d != 0:
                        drift_total += abs(d)
                        key = 'refcount-race:' + name
                        if key not in seen:
                            seen.add(key)
                            findings.append(dict(kind='property', key=key, detail=dict(
                                kernel=name, array=k, refcount_before=before[k], refcount_after=before[k] + d,
                                threads=nthreads, calls_per_thread=reps * rounds,
                                note='sys.getrefcount of a shared input changed across the concurrent run '
                                     '(single-threaded runs leave it unchanged): Py_INCREF/Py_DECREF executed '
                                     'without the interpreter lock')))
    if any(c[0] == 'perimeter' for c in calls):
        gc.collect()
        d = sys.getrefcount(mh.labeled._perimeter_magic) - magic0
        if d != 0:
            findings.append(dict(kind='property', key='refcount-race:perimeter', detail=dict(
                array='mahotas.labeled._perimeter_magic', refcount_before=magic0, refcount_after=magic0 + d,
                threads=nthreads, note='module-level weights array shared by all concurrent perimeter() calls: its '
                'reference count is changed by filter_iterator without the interpreter lock')))
    fams = sorted({FAMILY.get(c[0], 'other') for c in calls})
    tags = dict(kind='stress', threads=nthreads, shared=('shared-ro' if shared and all(ro_flags) else
                                                         'shared-mixed' if shared else 'distinct'),
                switch=('1e-6' if case.get('switch') else 'default'), ncalls=len(calls),
                raising=('in-kernel' if any(c[0] in IN_KERNEL_RAISING for c in calls) else
                         'wrapper' if any(c[0].startswith('raise_') for c in calls) else 'none'),
                size=('<=16' if max(c[2] for c in calls) <= 16 else '<=48' if max(c[2] for c in calls) <= 48 else '<=96'),
                families='+'.join(fams) if len(fams) <= 3 else f'{len(fams)}-families',
                first_use=bool(case.get('reset_perimeter')))
    return dict(findings=findings, nontrivial=bool(started[0] >= 2 and nonconst),
                sig=json.dumps([case['calls'], nthreads, shared, case.get('switch')]), tags=tags,
                n=nthreads * reps * rounds * len(calls), kernels=sorted({c[0] for c in calls}),
                exceptions=sum(1 for r0 in seq if r0[0] == 'exc'))


def _child_main():
    cases = json.loads(sys.stdin.read())
    import warnings
    warnings.simplefilter('ignore')
    out = []
    for c in cases:
        out.append(run_stress(c))
        sys.stdout.write('RESULT ' + json.dumps(out[-1], default=str) + '\n')
        sys.stdout.flush()


# ------------------------------------------------------------------------------------------------
# parent side

def _impl_path():
    import mahotas
    return str(Path(mahotas.__file__).resolve().parent.parent)


def _run_child(cases, timeout):
    env = dict(os.environ)
    env['PYTHONPATH'] = _impl_path() + os.pathsep + str(core.VERIF)
    env.setdefault('OMP_NUM_THREADS', '1')
    env.setdefault('OPENBLAS_NUM_THREADS', '1')
    try:
        r = subprocess.run([PY, '-X', 'faulthandler', '-m', 'harness.props.c12', '--child'], input=json.dumps(cases),
                           stdout=subprocess.PIPE, stderr=subprocess.PIPE, text=True, env=env, timeout=timeout,
                           cwd=str(core.VERIF))
        rc, out, err = r.returncode, r.stdout, r.stderr
    except subprocess.TimeoutExpired as e:
        rc, out, err = 'timeout', (e.stdout or b'').decode() if isinstance(e.stdout, bytes) else (e.stdout or ''), ''
    res = [json.loads(l[7:]) for l in out.splitlines() if l.startswith('RESULT ')]
    return rc, res, err


def _eval_stress(cases):
    """run in a child; if it dies, isolate the case"""
    if not cases:
        return []
    budget = sum(float(c.get('timeout', 300)) for c in cases) + 60
    rc, res, err = _run_child(cases, budget)
    if rc == 0 and len(res) == len(cases):
        return res
    out = list(res)
    bad = cases[len(res)]
    # the case after the last reported result killed the child (or hung it): the finding is keyed by its mix;
    # a concurrency crash is probabilistic, so the isolated re-run only adds information
    rc1, res1, err1 = _run_child([bad], float(bad.get('timeout', 300)) + 60)
    if rc == 1 and 'Infra' in err:
        raise core.Infra(err[-2000:])
    names = '+'.join(sorted({c[0] for c in bad['calls']}))
    f = dict(kind='property', key='crash:' + names, detail=dict(
        returncode=str(rc), stderr=err[-1500:], reproduced_alone=not (rc1 == 0 and len(res1) == 1),
        note='the child process died (signal / timeout) while running this case'))
    if rc1 == 0 and len(res1) == 1:
        res1[0]['findings'].append(f)
        out.append(res1[0])
    else:
        out.append(dict(findings=[f], nontrivial=False, sig=None, tags=dict(kind='stress', outcome='crash')))
    return out + _eval_stress(cases[len(out):])


# ---- model cases -------------------------------------------------------------------------------

_OPS = {0: lambda vs, c: c + sum(vs),
        1: lambda vs, c: max([c] + list(vs)),
        3: lambda vs, c: c}


def _op(code, vs, c):
    if code == 2:
        a = c
        for b in vs:
            a = (a * 31 + b) % 1000003
        return a
    return _OPS.get(code, _OPS[3])(vs, c)


def _reg_rank(r):
    return 1 if r == -1 else 2 if r < -1 else 3 + r


def _init_val(seed, region, idx):
    return (seed * 7919 + _reg_rank(region) * 104729 + idx * 1299709) % 1000


def _py_sched(mc):
    """independent evaluation of a sched case: returns (inter, solo, confined, complete, sharedsame, pcs)"""
    nth, nloc, seed = mc['nthreads'], mc['nloc'], mc['seed']
    steps = mc['steps']                 # list of (thread, dreg, didx, op, c, [(sreg, sidx)...])
    progs = {t: [s for s in steps if s[0] == t] for t in range(nth)}

    def norm(r):
        return -2 if r < -1 else r

    def run(order, only=None):
        mem = {}
        pcs = {t: 0 for t in range(nth)}

        def rd(r, i):
            return mem.get((norm(r), i), _init_val(seed, r, i))
        for t in order:
            if only is not None and t != only:
                continue
            p = progs.get(t, [])
            if pcs.get(t, 0) < len(p):
                s = p[pcs[t]]
                vs = [rd(r, i) for (r, i) in s[5]]
                mem[(norm(s[1]), s[2])] = _op(s[3], vs, s[4])
                pcs[t] += 1
        return mem, pcs, rd
    mem, pcs, rd = run(mc['sched'])
    inter = [rd(t, i) for t in range(nth) for i in range(nloc)]
    solo = []
    for t in range(nth):
        m2, _, rd2 = run(mc['sched'], only=t)
        solo += [rd2(t, i) for i in range(nloc)]
    confined = all(s[1] == s[0] and all(r == s[0] or r == -1 for (r, _) in s[5]) for s in steps)
    complete = all(len(progs[t]) <= mc['sched'].count(t) for t in range(nth))
    shared = [rd(-1, i) for i in range(nloc)]
    sharedsame = shared == [_init_val(seed, -1, i) for i in range(nloc)]
    return inter, solo, confined, complete, sharedsame, [pcs[t] for t in range(nth)]


def _sched_line(mc):
    flat = []
    for s in mc['steps']:
        flat += [s[0], s[1], s[2], s[3], s[4], len(s[5])]
        for (r, i) in s[5]:
            flat += [r, i]
    return (f"c12 kind=sched nthreads={mc['nthreads']} nloc={mc['nloc']} seed={mc['seed']} "
            f"progs={core.fmt_ints(flat)} sched={core.fmt_ints(mc['sched'])}")


def _py_skeleton(idiom, n, wrap, outcome):
    """independent transliteration of the three idioms -> (trace string, disciplined?)"""
    kind, k = outcome
    w = ['i'] if wrap else []
    tr = ['v', 'r'] + w
    if kind == 'finish':
        tr += ['k'] * n + w + ['a', 'i', 'x']
    elif kind == 'throw':
        tr += ['k'] * min(k, n) + ['t'] + w + ['a']
        tr += ['i', 'x'] if idiom in 'ac' else []
    else:
        tr += ['k'] * min(k, n) + ['a', 'i'] + w + ['x']
    held, ok = True, True
    for j, e in enumerate(tr):
        if e == 'r':
            ok &= held
            held = False
        elif e == 'a':
            ok &= not held
            held = True
        elif e in 'vi':
            ok &= held
        elif e == 'x':
            ok &= held and j == len(tr) - 1
    ok &= bool(tr) and tr[-1] == 'x'
    return ','.join(tr), ok


def _eval_model(case):
    import random
    rng = random.Random(case['seed'])
    findings = []
    lines, expect = [], []
    for _ in range(case['nsched']):
        nth = rng.randint(1, 5)
        nloc = rng.randint(1, 4)
        confined = rng.random() < 0.7
        steps = []
        for t in range(nth):
            for _s in range(rng.randint(0, 6)):
                if confined or rng.random() < 0.6:
                    dreg = t
                else:
                    dreg = rng.choice([-1, -2, rng.randrange(nth)])
                srcs = []
                for _k in range(rng.randint(0, 3)):
                    if confined or rng.random() < 0.7:
                        srcs.append((rng.choice([t, -1]), rng.randrange(nloc)))
                    else:
                        srcs.append((rng.choice([-1, -2, rng.randrange(nth)]), rng.randrange(nloc)))
                steps.append((t, dreg, rng.randrange(nloc), rng.randint(0, 3), rng.randint(-5, 50), srcs))
        total = len(steps)
        sched = [s[0] for s in steps]
        rng.shuffle(sched)
        style = rng.random()
        if style < 0.3:
            sched = sched[:rng.randint(0, total)]                      # prefix
        elif style < 0.5:
            sched += [rng.randrange(nth + 1) for _ in range(rng.randint(0, 5))]   # extra turns, unknown thread ids
        mc = dict(nthreads=nth, nloc=nloc, seed=rng.randint(0, 999), steps=steps, sched=sched)
        lines.append(_sched_line(mc))
        expect.append(('sched', mc))
    for idiom in 'abc':
        for n in (0, 1, 2, case.get('maxsteps', 5)):
            for wrap in (0, 1):
                for outcome in [('finish', 0)] + [('throw', k) for k in (0, 1, n, n + 2)] + [('error', k) for k in (0, n)]:
                    a = f'c12 kind=skeleton idiom={idiom} steps={n} wrap={wrap}'
                    if outcome[0] == 'throw':
                        a += f' throwat={outcome[1]}'
                    elif outcome[0] == 'error':
                        a += f' errat={outcome[1]}'
                    lines.append(a)
                    expect.append(('skel', (idiom, n, wrap, outcome)))
    drv = core.drive(lines)
    nontriv = 0
    for line, (kind, e), d in zip(lines, expect, drv):
        if 'error' in d:
            findings.append(dict(kind='model', key='driver-error', detail=dict(line=line, out=d)))
            continue
        if kind == 'sched':
            inter, solo, conf, compl, sharedsame, pcs = _py_sched(e)
            got = (core.ints(d['inter']), core.ints(d['solo']), d['confined'] == '1', d['complete'] == '1',
                   d['sharedsame'] == '1', core.ints(d['pcs']))
            if got != (inter, solo, conf, compl, sharedsame, pcs):
                findings.append(dict(kind='model', key='sched-model-vs-python', detail=dict(
                    line=line, driver=d, python=dict(inter=inter, solo=solo, confined=conf, complete=compl,
                                                     sharedsame=sharedsame, pcs=pcs))))
            elif conf and (d['equal'] != '1' or not sharedsame):
                # would contradict the theorem C12_interleaving_independent on the very definitions it is about
                findings.append(dict(kind='model', key='theorem-T1-contradicted', detail=dict(line=line, driver=d)))
            if inter != solo:
                nontriv += 1
        else:
            idiom, n, wrap, outcome = e
            tr, ok = _py_skeleton(idiom, n, wrap, outcome)
            possible = outcome[0] == 'finish' or (outcome[0] == 'throw' and idiom in 'ac') or (outcome[0] == 'error' and idiom == 'b')
            if d['trace'] != tr or (d['ok'] == '1') != ok or (d['possible'] == '1') != possible:
                findings.append(dict(kind='model', key='skeleton-model-vs-python', detail=dict(
                    line=line, driver=d, python=dict(trace=tr, ok=ok, possible=possible))))
            elif possible and not wrap and not ok:
                findings.append(dict(kind='model', key='theorem-T2-contradicted', detail=dict(line=line, driver=d)))
    return dict(findings=findings[:10], n=len(lines), nontrivial_n=nontriv, nontrivial=False, sig=None,
                tags=dict(kind='model-block'))


def _eval_sites(case):
    """the translator's gil_release table through the driver's skeleton checker"""
    from translator import statics
    sites = statics.extract_gil_sites(core.REPO)
    lines = []
    for s in sites:
        lines.append(f"c12 kind=skeleton idiom={s['idiom']} steps=3 wrap={1 if s['wraps'] else 0}")
        if s['idiom'] in 'ac':
            lines.append(f"c12 kind=skeleton idiom={s['idiom']} steps=3 wrap={1 if s['wraps'] else 0} throwat=1")
        else:
            lines.append(f"c12 kind=skeleton idiom={s['idiom']} steps=3 wrap={1 if s['wraps'] else 0} errat=1")
    drv = core.drive(lines)
    findings = []
    for s, d0, d1 in zip(sites, drv[0::2], drv[1::2]):
        ok = d0.get('ok') == '1' and d1.get('ok') == '1'
        where = f"{s['file'].split('/')[-1]}:{s['func']}"
        if s['interp_calls']:
            findings.append(dict(kind='property', key='interp-call-while-released:' + where,
                                 detail=dict(site=s, note='Python C-API call lexically inside a released region')))
        elif not ok:
            findings.append(dict(kind='property', key='refcount-unlocked:' + where, detail=dict(
                site=s, trace=d0.get('trace'),
                note='a reference-counted array wrapper is constructed inside the released region: Py_INCREF/Py_DECREF '
                     'of a (possibly shared) input without the interpreter lock; exercised by ' +
                     ','.join(SITE_KERNELS.get(s['func'], ['?'])))))
        if (s['wraps'] == 0) != ok and not s['interp_calls']:
            findings.append(dict(kind='model', key='site-skeleton-disagreement:' + where, detail=dict(site=s, d0=d0, d1=d1)))
    hw = [s for s in sites if s.get('helper_wraps')]
    if hw:
        findings.append(dict(kind='property', key='refcount-unlocked:_filters.h:filter_iterator', detail=dict(
            kernels=[f"{s['file'].split('/')[-1]}:{s['func']}" for s in hw],
            note='the constructor of filter_iterator builds numpy::aligned_array<T> filter_array(filter) and these kernels '
                 'construct a filter_iterator after gil_release: Py_INCREF/Py_XDECREF of the structuring element / '
                 'weights array without the interpreter lock (shared Bc, or mahotas.labeled._perimeter_magic)')))
    by = {k: sum(1 for s in sites if s['idiom'] == k) for k in 'abc'}
    return dict(findings=findings, n=len(lines), nontrivial_n=len(sites), nontrivial=False, sig=None,
                tags=dict(kind='sites', idiom_a=by['a'], idiom_b=by['b'], idiom_c=by['c'],
                          uncaught_a=sum(1 for s in sites if s['idiom'] == 'a' and not s['caught']),
                          helper_wrapper_sites=len(hw)))


def evaluate(cases):
    out = [None] * len(cases)
    stress_idx = [i for i, c in enumerate(cases) if c.get('kind') == 'stress']
    if stress_idx:
        for i, r in zip(stress_idx, _eval_stress([cases[i] for i in stress_idx])):
            out[i] = r
    for i, c in enumerate(cases):
        if c.get('kind') == 'model':
            out[i] = _eval_model(c)
        elif c.get('kind') == 'sites':
            out[i] = _eval_sites(c)
        elif out[i] is None:
            raise core.Infra(f'unknown case kind {c.get("kind")}')
    return out


# ------------------------------------------------------------------------------------------------
# generation

def _corpus():
    d = core.VERIF / 'corpus' / ID
    out = []
    if d.exists():
        for p in sorted(d.glob('*.json')):
            out.append(json.loads(p.read_text())['case'])
    return out


def _mix(rng, ncalls, size, with_raising):
    names = rng.sample(REGULAR, ncalls)
    if with_raising:
        names[0] = rng.choice(IN_KERNEL_RAISING)
        if ncalls > 2 and rng.random() < 0.5:
            names[1] = rng.choice(RAISING)
    rng.shuffle(names)
    return [[n, rng.randint(0, 10 ** 6), size] for n in names]


def cases(rng, tier):
    out = list(_corpus()) if tier != 'search' else []
    out.append(dict(kind='sites'))
    nmodel = dict(quick=4, thorough=40, search=10)[tier]
    for _ in range(nmodel):
        out.append(dict(kind='model', seed=rng.randint(0, 2 ** 31), nsched=dict(quick=60, thorough=200, search=100)[tier]))
    if tier == 'quick':
        thread_counts = [2, rng.choice([3, 4, 6, 8]), rng.choice([12, 16, 24, 32])]
        nmix, reps = 16, 5
    elif tier == 'thorough':
        thread_counts = [2, 3, 4, 8, 16, 32]
        nmix, reps = 150, 30
    else:
        thread_counts = [2, 4, 8, 16, 32]
        nmix, reps = 20, 8
    # every kernel appears at least once per run: partition a shuffled list of all kernels into mixes
    pool = REGULAR[:]
    rng.shuffle(pool)
    cover = [pool[i:i + 8] for i in range(0, len(pool), 8)]
    for ci, names in enumerate(cover):
        size = rng.choice([12, 24, 40])
        out.append(dict(kind='stress', threads=thread_counts[ci % len(thread_counts)], shared=bool(ci % 2), reps=3,
                        switch=None, reset_perimeter='perimeter' in names,
                        calls=[[n, rng.randint(0, 10 ** 6), size] for n in names]))
    # the same kernel on inputs of DIFFERENT shapes at the same time: exposes per-call tables or scratch buffers that
    # were made static / module-level (their content depends on the input's shape, e.g. strides, bounding boxes, grey
    # levels), which identical concurrent inputs can never show
    always = ['surf_interest_points_integral', 'thin', 'haralick', 'perimeter', 'cwatershed', 'label', 'distance', 'convolve', 'lbp', 'zernike_moments',
              'surf', 'median_filter', 'erode_shared_bc']
    extra = [k for k in REGULAR if k not in always]
    rng.shuffle(extra)
    same = always + (extra if tier == 'thorough' else extra[:6])
    for k in same:
        sizes = rng.sample([9, 12, 14, 17, 21, 26, 33], 3)
        out.append(dict(kind='stress', threads=rng.choice([4, 8, 16]), shared=False, reps=dict(quick=4, thorough=20, search=8)[tier],
                        switch=1e-6 if rng.random() < 0.5 else None, reset_perimeter=(k == 'perimeter'),
                        calls=[[k, rng.randint(0, 10 ** 6), sz] for sz in sizes]))
    # one SHARED read-only input hammered by many threads through a single kernel: the reference-count judge sees any
    # wrapper built or copied by value inside a released region (helpers called per pixel / per seed)
    for k in ['surf_interest_points_integral', 'cwatershed', 'erode_shared_bc', 'locmax_shared_bc', 'regmin_shared_bc', 'median_shared_bc', 'convolve', 'template_match', 'labeled_sum',
              'center_of_mass_labels', 'surf_descriptors']:
        if k in REGULAR:
            out.append(dict(kind='stress', threads=rng.choice([8, 16]), shared=True, reps=dict(quick=6, thorough=40, search=10)[tier],
                            switch=1e-6, reset_perimeter=False, rw=bool(rng.random() < 0.5) or k.endswith('_shared_bc'),
                            calls=[[k, rng.randint(0, 10 ** 6), rng.choice([24, 40])]]))
    for m in range(nmix):
        size = rng.choice([8, 16, 24, 32, 48] + ([64, 96] if tier != 'quick' else []))
        ncalls = rng.randint(3, 8)
        mix = _mix(rng, ncalls, size, with_raising=(m % 3 == 0))
        for nt in thread_counts:
            shared = rng.random() < 0.5
            switch = 1e-6 if rng.random() < 0.3 else None
            r = max(2, reps if nt <= 8 else reps // 2)
            if size >= 64:
                r = max(2, r // 2)
            out.append(dict(kind='stress', threads=nt, shared=shared, reps=r, switch=switch,
                            reset_perimeter=any(c[0] == 'perimeter' for c in mix), calls=mix))
    if os.environ.get('VERIF_C12_SELFTEST') == '1':
        out.append(dict(kind='stress', selftest=True, threads=8, shared=False, reps=10, switch=1e-6,
                        reset_perimeter=False, calls=[['selftest_hostile', s, 24] for s in (1, 2, 3)]))
    return out


def shrink(case):
    """smaller candidates; a concurrency failure is probabilistic, so every candidate is repeated (rounds)
    to keep the chance of reproducing it high"""
    if case.get('kind') != 'stress':
        return
    calls = case['calls']
    base = dict(case, rounds=max(int(case.get('rounds', 1)), 6))
    if len(calls) > 1:
        for i in range(len(calls)):
            yield dict(base, calls=calls[:i] + calls[i + 1:])
    if case['threads'] > 4:
        yield dict(base, threads=max(4, case['threads'] // 2))
    if any(c[2] > 8 for c in calls):
        yield dict(base, calls=[[c[0], c[1], max(8, c[2] // 2)] for c in calls])


if __name__ == '__main__':
    if '--child' in sys.argv:
        _child_main()
