"""Additional kernels for the thread-stress registry of harness/props/c12.py (child side).

They cover the public functions of the other properties that the original registry did not name, so that
harness/foundation/concurrent.py can stress every property's own functions. `register` is called at the end of
`c12._kernels()` with the registry's `reg(name, input-names, fn)` and `g(I, name)` accessors."""
from __future__ import annotations

# names added here (parent side needs them without importing mahotas)
NAMES = ['cdilate', 'cerode', 'tophat_open', 'tophat_close', 'subm', 'open_u8', 'close_b', 'erode_3d', 'dilate_3d',
         'label_8', 'label_3d', 'gvoronoi', 'distance_3d', 'distance_euclidean', 'convolve_3d', 'laplacian_2D',
         'template_match_fl', 'labeled_min', 'filter_labeled', 'croptobbox', 'regmax_bc', 'locmin', 'hitmiss_u8',
         'euler_4', 'otsu_ignore_zeros', 'bernsen', 'gbernsen', 'soft_threshold', 'wavelet_center', 'daubechies_d8',
         'imresize', 'resize_to', 'spline_filter1d', 'shift_order1', 'moments', 'haralick_3d', 'lbp_transform',
         'erode_float_bc', 'dilate_float_bc', 'label_float_bc', 'cwatershed_bc', 'median_float_bc', 'rank_float_bc',
         'mean_filter_bc', 'locmax_float_bc', 'regmin_float_bc', 'close_holes_bc',
         'erode_out', 'dilate_out', 'open_out', 'close_out', 'cerode_out', 'tophat_open_out', 'tophat_close_out', 'subm_out',
         'convolve_out', 'convolve1d_out', 'gaussian_filter_out', 'median_filter_out', 'rank_filter_out', 'mean_filter_out',
         'template_match_out', 'label_out', 'borders_out', 'hitmiss_out', 'majority_filter_out', 'regmax_out', 'locmin_out',
         'zoom_out', 'shift_out', 'spline_filter_out',
         'otsu_u16', 'rc_u16', 'fullhistogram_u16', 'majority_filter_even', 'erode_output_kw', 'spline_filter_output_kw', 'stretch_big',
         'stretch', 'stretch_rgb', 'rgb2xyz', 'rgb2lab', 'rgb2grey', 'rgb2sepia', 'xyz2rgb', 'as_rgb']


def register(reg, g, mh, np):
    import mahotas.labeled, mahotas.segmentation, mahotas.thresholding, mahotas.interpolate, mahotas.colors
    import mahotas.features, mahotas.features.lbp, mahotas.polygon
    cube = lambda I, n: np.stack([g(I, n)[: max(4, I.size // 2), : max(4, I.size // 2)]] * 3 +
                                 [g(I, n)[::-1, ::-1][: max(4, I.size // 2), : max(4, I.size // 2)]])
    # a structuring element of ANOTHER dtype than the image (the wrappers convert it on every call)
    c12 = __import__('sys').modules[reg.__module__]
    if not hasattr(c12.Inputs, '_mk_bcf'):
        c12.Inputs._mk_bcf = lambda self: np.array([[0., 1., 0.], [1., 1., 1.], [0., 1., 1.]])
    reg('erode_float_bc', ['f', 'bcf'], lambda I: mh.erode(g(I, 'f'), g(I, 'bcf')))
    reg('dilate_float_bc', ['f', 'bcf'], lambda I: mh.dilate(g(I, 'f'), g(I, 'bcf')))
    reg('label_float_bc', ['b', 'bcf'], lambda I: mh.label(g(I, 'b'), g(I, 'bcf')))
    reg('cwatershed_bc', ['f', 'm', 'bcf'], lambda I: mh.cwatershed(g(I, 'f'), g(I, 'm'), g(I, 'bcf')))
    reg('median_float_bc', ['f', 'bcf'], lambda I: mh.median_filter(g(I, 'f'), g(I, 'bcf')))
    reg('rank_float_bc', ['f', 'bcf'], lambda I: mh.rank_filter(g(I, 'f'), g(I, 'bcf'), 1))
    reg('mean_filter_bc', ['f', 'bcf'], lambda I: mh.mean_filter(g(I, 'f'), g(I, 'bcf')))
    reg('locmax_float_bc', ['f', 'bcf'], lambda I: mh.locmax(g(I, 'f'), g(I, 'bcf')))
    reg('regmin_float_bc', ['f', 'bcf'], lambda I: mh.regmin(g(I, 'f'), g(I, 'bcf')))
    reg('close_holes_bc', ['b', 'bcf'], lambda I: mh.close_holes(g(I, 'b'), g(I, 'bcf')))
    # C09: the same functions with a caller-supplied, pre-dirtied out= buffer; the value is (result is out, content)
    def _out(fn, a, *args, dtype=None, shape=None, **kw):
        o = np.full(a.shape if shape is None else shape, 0x55 if (dtype or a.dtype) != bool else 1, dtype or a.dtype)
        r = fn(a, *args, out=o, **kw)
        return (r is o, o)
    reg('erode_out', ['f'], lambda I: _out(mh.erode, g(I, 'f')))
    reg('dilate_out', ['b'], lambda I: _out(mh.dilate, g(I, 'b')))
    reg('open_out', ['f'], lambda I: _out(mh.open, g(I, 'f')))
    reg('close_out', ['f'], lambda I: _out(mh.close, g(I, 'f')))
    reg('cerode_out', ['f'], lambda I: _out(mh.cerode, g(I, 'f'), g(I, 'f') // 2))
    reg('tophat_open_out', ['f'], lambda I: _out(mh.morph.tophat_open, g(I, 'f')))
    reg('tophat_close_out', ['f'], lambda I: _out(mh.morph.tophat_close, g(I, 'f')))
    reg('subm_out', ['f'], lambda I: _out(mh.morph.subm, g(I, 'f'), g(I, 'f')[::-1].copy()))
    reg('convolve_out', ['fl', 'w3'], lambda I: _out(mh.convolve, g(I, 'fl'), g(I, 'w3')))
    reg('convolve1d_out', ['fl', 'w1'], lambda I: _out(mh.convolve1d, g(I, 'fl'), g(I, 'w1'), 0))
    reg('gaussian_filter_out', ['fl'], lambda I: _out(mh.gaussian_filter, g(I, 'fl'), 1.5))
    reg('median_filter_out', ['f'], lambda I: _out(mh.median_filter, g(I, 'f')))
    reg('rank_filter_out', ['f'], lambda I: _out(mh.rank_filter, g(I, 'f'), np.ones((3, 3), np.uint8), 3))
    reg('mean_filter_out', ['f'], lambda I: _out(mh.mean_filter, g(I, 'f'), np.ones((3, 3)), dtype=np.float64))
    reg('template_match_out', ['f', 'tmpl'], lambda I: _out(mh.template_match, g(I, 'f'), g(I, 'tmpl')))
    reg('label_out', ['b'], lambda I: (lambda o: (mh.label(g(I, 'b'), out=o)[0] is o, o))(np.full(g(I, 'b').shape, 0x55, np.int32)))
    reg('borders_out', ['lab'], lambda I: _out(mh.labeled.borders, g(I, 'lab'), dtype=bool))
    reg('hitmiss_out', ['b8', 'hm'], lambda I: _out(mh.hitmiss, g(I, 'b8'), g(I, 'hm')))
    reg('majority_filter_out', ['b'], lambda I: _out(mh.majority_filter, g(I, 'b'), 3))
    reg('regmax_out', ['f'], lambda I: _out(mh.regmax, g(I, 'f'), dtype=bool))
    reg('locmin_out', ['f'], lambda I: _out(mh.locmin, g(I, 'f'), dtype=bool))
    reg('zoom_out', ['fl'], lambda I: _out(mh.interpolate.zoom, g(I, 'fl'), 1.5,
                                           shape=tuple(int(round(1.5 * n)) for n in g(I, 'fl').shape)))
    reg('shift_out', ['fl'], lambda I: _out(mh.interpolate.shift, g(I, 'fl'), [0.5, 1.25]))
    reg('spline_filter_out', ['fl'], lambda I: _out(mh.interpolate.spline_filter, g(I, 'fl'), 3))
    # calls that legitimately emit a Python warning and return (process-wide warning filters are shared by all threads: a
    # function that edits them while it runs turns these warnings into exceptions in OTHER threads), and a long-running stretch
    reg('majority_filter_even', ['b'], lambda I: mh.majority_filter(g(I, 'b'), 4))
    reg('erode_output_kw', ['f'], lambda I: mh.erode(g(I, 'f'), output=np.empty_like(g(I, 'f'))))
    reg('spline_filter_output_kw', ['fl'], lambda I: mh.interpolate.spline_filter(g(I, 'fl'), 3, output=np.float32))
    reg('stretch_big', ['fl'], lambda I: mh.stretch(np.tile(g(I, 'fl'), (8, 8))))
    # C02
    reg('cdilate', ['f'], lambda I: mh.cdilate(g(I, 'f') // 2, g(I, 'f'), None, 3))
    reg('cerode', ['f'], lambda I: mh.cerode(g(I, 'f'), g(I, 'f') // 2))
    reg('tophat_open', ['f'], lambda I: mh.morph.tophat_open(g(I, 'f')))
    reg('tophat_close', ['f'], lambda I: mh.morph.tophat_close(g(I, 'f')))
    reg('subm', ['f'], lambda I: mh.morph.subm(g(I, 'f'), g(I, 'f')[::-1].copy()))
    reg('open_u8', ['f'], lambda I: mh.open(g(I, 'f'), np.ones((3, 3), np.uint8)))
    reg('close_b', ['b'], lambda I: mh.close(g(I, 'b')))
    # C01 in 3-D
    reg('erode_3d', ['b'], lambda I: mh.erode(cube(I, 'b')))
    reg('dilate_3d', ['f'], lambda I: mh.dilate(cube(I, 'f')))
    # C03
    reg('label_8', ['b'], lambda I: mh.label(g(I, 'b'), np.ones((3, 3), bool)))
    reg('label_3d', ['b'], lambda I: mh.label(cube(I, 'b')))
    # C05
    reg('gvoronoi', ['m'], lambda I: mh.segmentation.gvoronoi(g(I, 'm')))
    reg('distance_3d', ['b'], lambda I: mh.distance(cube(I, 'b')))
    reg('distance_euclidean', ['b'], lambda I: mh.distance(g(I, 'b'), 'euclidean'))
    # C06 / C07
    reg('convolve_3d', ['fl'], lambda I: mh.convolve(cube(I, 'fl'), np.ones((3, 3, 3)) / 27., mode='mirror'))
    reg('laplacian_2D', ['fl'], lambda I: mh.laplacian_2D(g(I, 'fl')))
    reg('template_match_fl', ['fl'], lambda I: mh.template_match(g(I, 'fl'), g(I, 'fl')[2:5, 1:4].copy()))
    # C13
    reg('labeled_min', ['f', 'lab'], lambda I: mh.labeled.labeled_min(g(I, 'f'), g(I, 'lab')))
    reg('filter_labeled', ['lab'], lambda I: mh.labeled.filter_labeled(g(I, 'lab'), min_size=3, max_size=400))
    reg('croptobbox', ['b'], lambda I: mh.croptobbox(g(I, 'b')))
    # C14
    reg('regmax_bc', ['f'], lambda I: mh.regmax(g(I, 'f'), np.ones((3, 3), bool)))
    reg('locmin', ['f'], lambda I: mh.locmin(g(I, 'f')))
    reg('hitmiss_u8', ['b8', 'hm'], lambda I: mh.hitmiss(g(I, 'b8'), g(I, 'hm').T.copy()))
    # C15
    reg('euler_4', ['b'], lambda I: mh.euler(g(I, 'b'), 4))
    # C16 on 16-bit images (65536-bin histograms: the per-call tables are large enough for calls to overlap)
    if not hasattr(c12.Inputs, '_mk_f16'):
        c12.Inputs._mk_f16 = lambda self: (self.get('f').astype(np.uint16) * 257 + self._rs(12).randint(0, 200, (self.size,) * 2).astype(np.uint16))
    reg('otsu_u16', ['f16'], lambda I: mh.otsu(g(I, 'f16')))
    reg('rc_u16', ['f16'], lambda I: mh.rc(g(I, 'f16')))
    reg('fullhistogram_u16', ['f16'], lambda I: mh.fullhistogram(g(I, 'f16')))
    reg('otsu_ignore_zeros', ['f'], lambda I: mh.otsu(g(I, 'f'), True))
    reg('bernsen', ['f'], lambda I: mh.thresholding.bernsen(g(I, 'f'), 2, 30))
    reg('gbernsen', ['f'], lambda I: mh.thresholding.gbernsen(g(I, 'f'), np.ones((3, 3), bool), 30, 128))
    reg('soft_threshold', ['fl'], lambda I: mh.thresholding.soft_threshold(g(I, 'fl') - 100., 20.))
    # C17
    reg('wavelet_center', ['fl'], lambda I: mh.wavelet_decenter(mh.wavelet_center(g(I, 'fl')), g(I, 'fl').shape))
    reg('daubechies_d8', ['fl'], lambda I: mh.idaubechies(mh.daubechies(mh.wavelet_center(g(I, 'fl')), 'D8'), 'D8'))
    # C18
    reg('imresize', ['fl'], lambda I: mh.imresize(g(I, 'fl'), 1.5))
    reg('resize_to', ['fl'], lambda I: mh.resize_to(g(I, 'fl'), (I.size + 3, I.size - 2)))
    reg('spline_filter1d', ['fl'], lambda I: mh.interpolate.spline_filter1d(g(I, 'fl'), 3, 0))
    reg('shift_order1', ['fl'], lambda I: mh.interpolate.shift(g(I, 'fl'), [0.25, 2.], order=1, mode='nearest'))
    # C19
    reg('moments', ['fl'], lambda I: mh.moments(g(I, 'fl'), 1, 2))
    reg('haralick_3d', ['f'], lambda I: mh.features.haralick(cube(I, 'f')))
    reg('lbp_transform', ['f'], lambda I: __import__('sys').modules['mahotas.features.lbp'].lbp_transform(g(I, 'f'), 1, 8))
    # C20
    reg('stretch', ['fl'], lambda I: mh.stretch(g(I, 'fl')))
    reg('stretch_rgb', ['rgb'], lambda I: mh.stretch_rgb(g(I, 'rgb')))
    reg('rgb2xyz', ['rgb'], lambda I: mh.colors.rgb2xyz(g(I, 'rgb')))
    reg('rgb2lab', ['rgb'], lambda I: mh.colors.rgb2lab(g(I, 'rgb')))
    reg('rgb2grey', ['rgb'], lambda I: mh.colors.rgb2grey(g(I, 'rgb')))
    reg('rgb2sepia', ['rgb'], lambda I: mh.colors.rgb2sepia(g(I, 'rgb')))
    reg('xyz2rgb', ['rgb'], lambda I: mh.colors.xyz2rgb(mh.colors.rgb2xyz(g(I, 'rgb'))))
    reg('as_rgb', ['f'], lambda I: mh.as_rgb(g(I, 'f'), g(I, 'f').T, None))
