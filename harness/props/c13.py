"""C13 — region measurements and label-map utilities equal their per-label definitions."""
from __future__ import annotations
import json
import numpy as np
from .. import core, gen
from .c03 import _bc_arg, _rand_elem

ID = 'C13'
FOUNDATIONS = ['harness.foundation.cscalar', 'harness.foundation.pybody']   # ties of the C++ helper functions the model rests on (generated from their text)
LEVEL = 'proof'
RULE = ('corpus; structured random (array, label-map) pairs of 1-3 D: labeled_sum/max/min over 9 integer dtypes '
        '(boundary-dense values, both signs) and float32/float64 (dyadic values k/8 of both signs, all-negative regions), '
        'label maps with gaps, empty and negative labels, minlength; labeled_size/fullhistogram; bbox (fast C 2-D path and '
        'generic path through 7 layouts), croptobbox, labeled.bbox; center_of_mass with and without labels; relabel, '
        'is_same_labeling (permuted / merged / background-changed / unrelated pairs), remove_regions, remove_bordering '
        '(rsize int/tuple, 0 and larger than the image, out variants), filter_labeled; borders x 6 modes x '
        'cross/box/arbitrary elements (incl. larger than the image), border(i,j), bwperim n=4/8. '
        'Round 4: bbox/croptobbox with border (None, 0, positive up to beyond the image, negative) and as_slice, '
        'labeled.bbox(as_slice), labeled_sum result length with minlength, labeled_size on bool / 64-bit labels beyond 2^32, '
        'fullhistogram on all 11 dtypes (signed and float must be refused), is_same_labeling on unequal shapes (same pixels '
        'reshaped, transposed extents, one map shorter/longer), remove_regions_where (tables shorter/longer than the label '
        'range, bool and int tables), labeled.perimeter (2-D blobs, strokes, isolated pixels; n=4/8; 6 modes; 7 layouts). '
        'Size-threshold stream (quick: 10 per run - one per kind -, thorough: 30; center_of_mass sums exceed 2^24 through the values): element counts, per-label '
        'pixel counts, label values and numbers of labels crossing 2^8 / 2^15 / 2^16 (+-1) for labeled_size, fullhistogram, '
        'labeled_sum/max/min (judged by the Lean driver) and for relabel, is_same_labeling, remove_regions, bbox, labeled.bbox, '
        'center_of_mass (their Lean models are quadratic: the large cases are judged by an exact O(N) Python oracle, which is '
        'compared with the Lean specification on every small case of these six kinds in every run). '

        'Non-trivial = the label map has at least two distinct values; distinct = distinct protocol line + layout.')
ASSUMPTIONS = ['no NaN data (an order is taken by labeled_max/min)',
               'labeled_sum is compared with the exact sum only when that sum is representable in the array dtype '
               '(otherwise only with the wrap-around model); float data are dyadic (k/8, |k| small) so every sum is exact',
               'labeled_max/labeled_min of an empty label and center_of_mass of a label whose total is 0 are not compared '
               'with the specification (only with the model, max/min)',
               'bbox of an all-zero image and labeled.bbox of an absent label are compared with the model only (zeros)',
               'labels are non-negative for labeled.bbox, labeled_size, center_of_mass, filter_labeled (negative labels are '
               'rejected or undefined there: defect #21, owned elsewhere); labeled_sum/max/min ignore negative labels',
               'relabel, remove_regions, is_same_labeling, filter_labeled, fullhistogram, labeled_size get C-contiguous '
               'writeable inputs (their wrappers reject other layouts today: C08, owned elsewhere)',
               'fullhistogram: unsigned/bool images with max < 2^12 (one bin per value)',
               'remove_bordering: rsize >= 0', 'filter_labeled: min_size/max_size None or >= 1',
               'border(i, j): i != j, both representable in the label dtype',
               'center_of_mass: |values| <= 2^40 are generated so that every accumulation is an exact double (the kernel converts '
               'each value to double: for |values| >= 2^53 only the rounded computation is defined, outside the statement)',
               'label values are representable in a C int where the wrapper converts the map to intc (relabel, is_same_labeling, '
               'remove_regions[_where], labeled_sum/max/min, filter_labeled: numpy wraps larger values silently); labeled_size '
               'reduces labels modulo 2^32 (modelled; compared with the plain counts only for labels < 2^32)',
               'bbox/croptobbox with border: the crop is compared with the specification (box grown by border, clipped) for '
               'border >= 0 and an image with a non-zero pixel; negative borders and the all-zero image with the model only',
               'labeled.perimeter: 2-D non-empty images; the returned double is compared with n1 + n2*sqrt(2) + n3*(1+sqrt(2))/2 '
               'to 1e-6 relative (integer counts, weights at least 0.2 apart: no near-tie possible)',
               'fullhistogram on signed/float dtypes: only "an exception is raised" is compared (model: histAccepts)']
TRUSTED = ['numpy (array construction, layout views)']

FLOATS = ['float32', 'float64']
SINT = ['int8', 'int16', 'int32', 'int64']
UINT = ['uint8', 'uint16', 'uint32', 'uint64']
MODES = ['nearest', 'wrap', 'reflect', 'mirror', 'constant', 'ignore']
SCALE = 8


def _arr(vals, dtype, shape):
    if dtype in FLOATS:
        return (np.array(vals, dtype=np.float64) / SCALE).astype(dtype).reshape(shape)
    return np.array(vals, dtype=object).astype(dtype).reshape(shape)


def _dtn(dtype):
    return {'float32': 'f32', 'float64': 'f64'}.get(dtype) or gen.DT_NAME[dtype]


def _flat(a):
    return np.asarray(a).ravel(order='C').tolist()


def _bools(s):
    return [x == '1' for x in s.split(',')] if s else []


def _line(c):
    fn = c['fn']
    if c.get('big'):        # judged by the Python oracle: the driver is not asked (its models of these kinds are quadratic)
        return 'c13 kind=histok dt=u8'
    sh = f"shape={gen.enc_shape(c['shape'])}"
    if fn == 'fold':
        ml = c.get('minlength')
        return (f"c13 kind=fold op={c['op']} dt={_dtn(c['dtype'])} scale={SCALE} n={c['n']} "
                f"minlength={'-' if ml is None else ml} "
                f"data={gen.enc_arr(c['data'])} labels={gen.enc_arr(c['labels'])}")
    if fn == 'size':
        return f"c13 kind=size data={gen.enc_arr(c['data'])}"
    if fn == 'hist':
        if not _hist_accepts(c['dtype']):
            return f"c13 kind=histok dt={_dtn(c['dtype'])}"
        return f"c13 kind=hist dt={_dtn(c['dtype'])} data={gen.enc_arr(c['data'])}"
    if fn == 'bboxb':
        return (f"c13 kind=bboxb {sh} data={gen.enc_arr(c['bits'])} border={c['border'] or 0} fast={c['fast']}")
    if fn == 'rmwhere':
        return f"c13 kind=rmwhere labels={gen.enc_arr(c['labels'])} conds={gen.enc_arr(c['conds'])}"
    if fn == 'perimeter':
        _, bshape, el = _bc_arg(c)
        return (f"c13 kind=perimeter {sh} labels={gen.enc_arr(c['bits'])} bshape={gen.enc_shape(bshape)} "
                f"bc={gen.enc_arr(el)} mode={c['mode']}")
    if fn == 'bbox':
        return f"c13 kind=bbox {sh} data={gen.enc_arr(c['bits'])}"
    if fn == 'bboxl':
        return f"c13 kind=bboxl {sh} labels={gen.enc_arr(c['labels'])}"
    if fn == 'com':
        return (f"c13 kind=com {sh} scale={SCALE if c['dtype'] in FLOATS else 1} data={gen.enc_arr(c['data'])} "
                f"labels={gen.enc_arr(c['labels']) if c['labels'] is not None else '-'}")
    if fn == 'relabel':
        return f"c13 kind=relabel labels={gen.enc_arr(c['labels'])}"
    if fn == 'same':
        if 'shape2' in c:
            return (f"c13 kind=same2 {sh} shape2={gen.enc_shape(c['shape2'])} labels={gen.enc_arr(c['labels'])} "
                    f"labels2={gen.enc_arr(c['labels2'])}")
        return f"c13 kind=same labels={gen.enc_arr(c['labels'])} labels2={gen.enc_arr(c['labels2'])}"
    if fn == 'remove':
        return f"c13 kind=remove labels={gen.enc_arr(c['labels'])} regions={gen.enc_arr(c['regions'])}"
    if fn == 'rmborder':
        r = c['rsize']
        r = [r] * len(c['shape']) if isinstance(r, int) else r
        return f"c13 kind=rmborder {sh} labels={gen.enc_arr(c['labels'])} rsize={gen.enc_arr(r)}"
    if fn == 'filter':
        return (f"c13 kind=filter {sh} labels={gen.enc_arr(c['labels'])} rb={int(c['rb'])} "
                f"min={c['min'] or 0} max={c['max'] or 0}")
    if fn in ('borders', 'border', 'bwperim'):
        _, bshape, el = _bc_arg(c)
        extra = f" i={c['i']} j={c['j']}" if fn == 'border' else f" mode={c['mode']}"
        lab = c['labels'] if fn != 'bwperim' else c['bits']
        return (f"c13 kind={fn} {sh} labels={gen.enc_arr(lab)} bshape={gen.enc_shape(bshape)} "
                f"bc={gen.enc_arr(el)}{extra}")
    raise ValueError(fn)


def _hist_accepts(dtype):
    """what the harness expects of the dtype; the driver's `histAccepts` is compared with the behaviour"""
    return dtype == 'bool' or dtype in UINT


SQRT2 = float(np.sqrt(2))


def _diff(key, got, spec, model, mask=None, silent_model=None):
    """property finding where `got != spec` on the compared entries (mask), else a model finding where got != model"""
    idx = range(len(spec)) if mask is None else [i for i, m in enumerate(mask) if m]
    if len(got) != len(spec):
        return [dict(kind='property', key=key, detail=dict(why='length', got=got, spec=spec))]
    bad = [i for i in idx if got[i] != spec[i]]
    if bad:
        return [dict(kind='property', key=key, detail=dict(entries=bad[:8], got=got, spec=spec))]
    if model is not None and (len(model) != len(got) or any(a != b for a, b in zip(got, model))):
        return [dict(kind='model', key=key + '-model', detail=dict(got=got, model=model))]
    return []


def _run(c, drv):
    import mahotas as mh
    import mahotas.labeled as ml
    fn = c['fn']
    shape = c['shape']
    lay = c.get('layout', 'C')
    if fn == 'fold':
        A = gen.relayout(_arr(c['data'], c['dtype'], shape), lay)
        L = gen.relayout(np.array(c['labels'], dtype=c['ldtype']).reshape(shape), c.get('llayout', 'C'))
        op = c['op']
        if op == 'sum':
            r = ml.labeled_sum(A, L, c['minlength']) if c.get('minlength') is not None else ml.labeled_sum(A, L)
        else:
            r = (ml.labeled_max if op == 'max' else ml.labeled_min)(A, L)
        cls = 'float' if c['dtype'] in FLOATS else 'bool' if c['dtype'] == 'bool' else 'int'
        key = f'labeled_{op}:{cls}'
        if r.dtype != A.dtype or r.shape != (c['n'],):
            return [dict(kind='property', key=key, detail=dict(why='result type/length', dtype=str(r.dtype),
                                                               shape=r.shape, n=c['n']))]
        if int(drv['len']) != r.shape[0]:   # the wrapper's `max(labeled.max() + 1, minlength)` as modelled by `foldLen`
            return [dict(kind='model', key=key + ':length-model', detail=dict(got=r.shape[0], model=drv['len']))]
        cnt = core.ints(drv['cnt'])
        if cls == 'float':
            got = [core.f2bits(x) for x in r.astype(np.float64).tolist()]
            spec, model = core.ints(drv['spec']), core.ints(drv['model'])
            # -0.0 vs +0.0: an empty or all-zero sum; compare values, not the sign of zero
            z = core.f2bits(-0.0)
            got = [0 if g == z else g for g in got]
            spec = [0 if g == z else g for g in spec]
            model = [0 if g == z else g for g in model]
            if op == 'sum':
                # exactness domain of C13_labeled_sum_rounded_exact_of_abs_sum: the scaled integers of a label sum, in
                # absolute value, to at most 2^53 (float64) / 2^24 (float32: 24-bit significand); outside it a slot is
                # compared with the model only
                bound = 2 ** 53 if c['dtype'] == 'float64' else 2 ** 24
                tot = [0] * c['n']
                for v, l in zip(c['data'], c['labels']):
                    if 0 <= l < c['n']:
                        tot[l] += abs(v)
                mask = [t <= bound for t in tot]
            else:
                mask = [k > 0 for k in cnt]
            return _diff(key, got, spec, model, mask)
        got = [int(x) for x in r.tolist()]
        spec, model = core.ints(drv['spec']), core.ints(drv['model'])
        # the comparable slots are the hypotheses of the oracle theorems evaluated by the driver (`ok=`): the exact sum is
        # representable in the dtype (sum) / the label is non-empty (max, min); cross-checked against the dtype table here
        mask = _bools(drv['ok'])
        if op == 'sum':
            lo, hi = gen.dt_range(c['dtype'])
            if mask != [lo <= s <= hi for s in spec]:
                raise core.Infra(f'C13: dtype range of the driver and of the harness disagree for {c["dtype"]}')
        return _diff(key, got, spec, model, mask)
    if fn in ('size', 'hist'):
        A = _arr(c['data'], c['dtype'], shape)
        key = 'labeled_size' if fn == 'size' else 'fullhistogram'
        if fn == 'hist' and 'accept' in drv:
            # a dtype outside the documented domain (signed, float): the wrapper/kernel refuses it
            if _bools(drv['accept']) != [False]:
                return [dict(kind='model', key='fullhistogram:dtype-model', detail=dict(dtype=c['dtype']))]
            try:
                r = mh.fullhistogram(A)
            except (TypeError, RuntimeError, ValueError):
                return []
            return [dict(kind='model', key='fullhistogram:accepts-' + c['dtype'], detail=dict(got=r.tolist()))]
        r = ml.labeled_size(A) if fn == 'size' else mh.fullhistogram(A)
        if r.dtype != np.uintc:
            return [dict(kind='model', key=key + ':dtype', detail=dict(dtype=str(r.dtype)))]
        spec = core.ints(drv['spec'])
        # labels >= 2^32 are reduced modulo 2^32 by labeled_size (astype(uint32)): only the model describes that
        wraps = fn == 'size' and any(v >= 2 ** 32 for v in c['data'])
        got = [int(x) for x in r.tolist()]
        return _diff(key, got, got if wraps else spec, core.ints(drv['model']))
    if fn == 'bboxb':
        A = gen.relayout(_arr(c['data'], c['dtype'], shape), lay)
        b = c['border']
        kw = {} if c.get('omit') else dict(border=b)
        # (1) the property-level observable first: the crop against the proved box grown by `border` and clipped
        crop = mh.croptobbox(A, **kw)
        flat = A.ravel(order='C')
        got = crop.ravel(order='C').tolist()
        if drv['spec'] != 'none':
            want = flat[core.ints(drv['spec'])].tolist() if drv['spec'] else []
            if got != want:
                return [dict(kind='property', key='croptobbox:border',
                             detail=dict(got=got, spec=want, shape=crop.shape, border=b))]
            if int(np.count_nonzero(crop)) != int(np.count_nonzero(A)):
                return [dict(kind='property', key='croptobbox:border', detail=dict(why='lost a non-zero pixel'))]
        # (2) the model of the wrapper's arithmetic (upper end not clipped, negative borders, slice objects)
        r = [int(x) for x in mh.bbox(A, **kw).tolist()]
        box = core.ints(drv['box'])
        if r != box:
            return [dict(kind='model', key='bbox:border-model', detail=dict(got=r, model=box))]
        sl = mh.bbox(A, as_slice=True, **kw)
        if [(int(x.start), int(x.stop)) for x in sl] != [(box[2 * j], box[2 * j + 1]) for j in range(A.ndim)]:
            return [dict(kind='model', key='bbox:as_slice-model', detail=dict(got=str(sl), model=box))]
        bounds = core.ints(drv['slices'])
        if [x.indices(n)[:2] for x, n in zip(sl, A.shape)] != [(bounds[2 * j], bounds[2 * j + 1]) for j in range(A.ndim)]:
            return [dict(kind='model', key='bbox:slice-bounds-model', detail=dict(got=str(sl), model=bounds))]
        cidx = core.ints(drv['cidx'])
        if list(crop.shape) != core.ints(drv['cshape']) or got != (flat[cidx].tolist() if cidx else []):
            return [dict(kind='model', key='croptobbox:border-model',
                         detail=dict(got=got, shape=crop.shape, cshape=drv['cshape'], cidx=cidx))]
        return []
    if fn == 'rmwhere':
        L = np.array(c['labels'], dtype=np.intc).reshape(shape)
        keep = L.copy()
        conds = np.array(c['conds'], dtype=bool) if c.get('cbool', True) else list(c['conds'])
        r = ml.remove_regions_where(L, conds, inplace=bool(c.get('inplace')))
        f = []
        if not c.get('inplace') and not np.array_equal(L, keep):
            f.append(dict(kind='property', key='remove_regions_where:input-modified', detail={}))
        return f + _diff('remove_regions_where', [int(x) for x in _flat(r)], core.ints(drv['spec']),
                         core.ints(drv['model']))
    if fn == 'perimeter':
        A = gen.relayout(_arr(c['data'], c['dtype'], shape), lay)
        r = float(ml.perimeter(A, c['bc'], c['mode']))
        spec, model = core.ints(drv['spec']), core.ints(drv['model'])
        val = lambda n: n[0] + n[1] * SQRT2 + n[2] * (1 + SQRT2) / 2
        key = 'perimeter:' + c['mode']
        # the three counts are integers and the weights differ by more than 0.2: a tolerance of 1e-6 decides
        if abs(r - val(spec)) > 1e-6 * max(1.0, abs(r)):
            return [dict(kind='property', key=key, detail=dict(got=r, spec=spec, value=val(spec)))]
        if abs(r - val(model)) > 1e-6 * max(1.0, abs(r)):
            return [dict(kind='model', key=key + '-model', detail=dict(got=r, model=model))]
        return []
    if fn == 'bbox':
        A = gen.relayout(_arr(c['data'], c['dtype'], shape), lay)
        fast = A.ndim == 2 and A.flags.c_contiguous and A.flags.aligned
        r = [int(x) for x in mh.bbox(A).tolist()]
        model = core.ints(drv['fast' if fast else 'generic'])
        key = 'bbox:' + ('fast' if fast else 'generic')
        if drv['spec'] == 'none':
            return _diff(key, r, r, model)
        spec = core.ints(drv['spec'])
        f = _diff(key, r, spec, model)
        if not f:
            crop = mh.croptobbox(A)
            want = A[tuple(slice(spec[2 * j], spec[2 * j + 1]) for j in range(A.ndim))]
            sl = mh.bbox(A, as_slice=True)
            if crop.shape != want.shape or not np.array_equal(crop, want) or \
                    [(s.start, s.stop) for s in sl] != [(spec[2 * j], spec[2 * j + 1]) for j in range(A.ndim)]:
                f.append(dict(kind='property', key='croptobbox', detail=dict(got=crop.shape, want=want.shape)))
        return f
    if fn == 'bboxl':
        L = gen.relayout(np.array(c['labels'], dtype=c['ldtype']).reshape(shape), lay)
        r = ml.bbox(L)
        nd = len(shape)
        if r.shape != (max(c['labels']) + 1, 2 * nd):
            return [dict(kind='property', key='labeled.bbox', detail=dict(why='shape', got=r.shape))]
        present = set(c['labels'])
        mask = [(i // (2 * nd)) in present for i in range(r.size)]
        f = _diff('labeled.bbox', [int(x) for x in r.ravel().tolist()], core.ints(drv['spec']),
                  core.ints(drv['model']), mask)
        if not f:
            # as_slice=True: one tuple of slices per label, built from the rows just compared
            sl = ml.bbox(L, as_slice=True)
            want = [[(int(row[2 * j]), int(row[2 * j + 1])) for j in range(nd)] for row in r]
            if [[(int(x.start), int(x.stop)) for x in t] for t in sl] != want:
                f.append(dict(kind='model', key='labeled.bbox:as_slice-model', detail=dict(got=str(sl)[:300])))
        return f
    if fn == 'com':
        A = gen.relayout(_arr(c['data'], c['dtype'], shape), lay)
        L = None if c['labels'] is None else gen.relayout(
            np.array(c['labels'], dtype=c['ldtype']).reshape(shape), c.get('llayout', 'C'))
        r = mh.center_of_mass(A, L)
        nd = len(shape)
        want_shape = (nd,) if L is None else (max(c['labels']) + 1, nd)
        key = 'center_of_mass:' + ('whole' if L is None else 'labels')
        if r.shape != want_shape:
            return [dict(kind='property', key=key, detail=dict(why='shape', got=r.shape, want=want_shape))]
        got = [core.f2bits(x) for x in r.ravel().tolist()]
        ok = _bools(drv['ok'])
        spec, model = core.ints(drv['spec']), core.ints(drv['model'])
        f = _diff(key, got, spec, None, ok)
        if not f:
            bad = [i for i, o in enumerate(ok) if o and got[i] != model[i]]
            if bad:
                f.append(dict(kind='model', key=key + '-model', detail=dict(got=got, model=model)))
        return f
    if fn == 'relabel':
        L = np.array(c['labels'], dtype=np.intc).reshape(shape)
        keep = L.copy()
        r, n = ml.relabel(L, inplace=bool(c.get('inplace')))
        f = []
        if c.get('inplace') and r is not L:
            f.append(dict(kind='model', key='relabel:inplace-identity', detail={}))
        if not c.get('inplace') and not np.array_equal(L, keep):
            f.append(dict(kind='property', key='relabel:input-modified', detail={}))
        got = [int(x) for x in _flat(r)] + [int(n)]
        return f + _diff('relabel', got, core.ints(drv['spec']) + [int(drv['nspec'])],
                         core.ints(drv['model']) + [int(drv['nmodel'])])
    if fn == 'same':
        a = np.array(c['labels'], dtype=c.get('ldtype', 'int32')).reshape(shape)
        b = np.array(c['labels2'], dtype=c.get('ldtype2', 'int32')).reshape(c.get('shape2', shape))
        r = bool(ml.is_same_labeling(a, b))
        return _diff('is_same_labeling', [r], _bools(drv['spec']), _bools(drv['model']))
    if fn == 'remove':
        L = np.array(c['labels'], dtype=np.intc).reshape(shape)
        keep = L.copy()
        r = ml.remove_regions(L, c['regions'], inplace=bool(c.get('inplace')))
        f = []
        if not c.get('inplace') and not np.array_equal(L, keep):
            f.append(dict(kind='property', key='remove_regions:input-modified', detail={}))
        return f + _diff('remove_regions', [int(x) for x in _flat(r)], core.ints(drv['spec']), core.ints(drv['model']))
    if fn == 'rmborder':
        L = gen.relayout(np.array(c['labels'], dtype=c['ldtype']).reshape(shape), lay)
        keep = L.copy()
        rs = c['rsize'] if isinstance(c['rsize'], int) else tuple(c['rsize'])
        o = c.get('out')
        if o == 'im' and L.flags.writeable:
            r = ml.remove_bordering(L, rs, out=L)
        elif o == 'new':
            buf = np.full(L.shape, 9, L.dtype)
            r = ml.remove_bordering(L, rs, out=buf)
        else:
            r = ml.remove_bordering(L, rs)
            if not np.array_equal(L, keep):
                return [dict(kind='property', key='remove_bordering:input-modified', detail={})]
        return _diff('remove_bordering', [int(x) for x in _flat(r)], core.ints(drv['spec']), core.ints(drv['model']))
    if fn == 'filter':
        L = np.array(c['labels'], dtype=c['ldtype']).reshape(shape)
        r, n = ml.filter_labeled(L, remove_bordering=bool(c['rb']), min_size=c['min'], max_size=c['max'])
        got = [int(x) for x in _flat(r)] + [int(n)]
        return _diff('filter_labeled', got, core.ints(drv['spec']) + [int(drv['nspec'])],
                     core.ints(drv['model']) + [int(drv['nmodel'])])
    if fn in ('borders', 'border'):
        L = gen.relayout(np.array(c['labels'], dtype=c['ldtype']).reshape(shape), lay)
        Bc, _, _ = _bc_arg(c)
        kw = {}
        if c.get('out'):
            kw['out'] = np.ones(L.shape, bool)
        if fn == 'borders':
            r = ml.borders(L, Bc, mode=c['mode'], **kw)
            key = 'borders:' + c['mode']
        else:
            r = ml.border(L, c['i'], c['j'], Bc, always_return=bool(c.get('always', True)), **kw)
            key = 'border'
            if r is None:
                spec = _bools(drv['spec'])
                if any(spec):
                    return [dict(kind='property', key=key, detail=dict(why='None returned but a border exists'))]
                return []
        if r.dtype != np.bool_ or r.shape != L.shape:
            return [dict(kind='property', key=key, detail=dict(why='result type/shape'))]
        return _diff(key, [bool(x) for x in _flat(r)], _bools(drv['spec']), _bools(drv['model']))
    if fn == 'bwperim':
        A = gen.relayout(_arr(c['data'], c['dtype'], shape), lay)
        r = ml.bwperim(A, c['bc'], mode=c['mode'])
        return _diff('bwperim:' + c['mode'], [bool(x) for x in _flat(r)], _bools(drv['spec']), _bools(drv['model']))
    raise ValueError(fn)


# ---------------------------------------------------------------------------------------------- size-threshold stream
# Cases whose element count / per-label pixel count / number of labels crosses 2^8, 2^15, 2^16: a counter, index or
# accumulator narrowed to 16 bits (or to float) passes every small case. labeled_size / fullhistogram / labeled_sum are
# judged by the Lean driver as usual (those models are linear). The models of relabel, is_same_labeling, remove_regions,
# bbox, labeled.bbox and center_of_mass index lists / association lists (quadratic), so their large cases (`big`) are
# judged by the exact O(N) Python oracle below — and on EVERY small case of these six kinds the oracle is compared with
# the Lean specification the driver prints (a disagreement is an infrastructure error, not a finding).

ORACLE_FNS = ('relabel', 'same', 'remove', 'bbox', 'bboxl', 'com')


def _oracle(c):
    fn, shape = c['fn'], c['shape']
    if fn == 'relabel':
        m, out = {0: 0}, []
        for v in c['labels']:
            if v not in m:
                m[v] = len(m)
            out.append(m[v])
        return out + [len(m) - 1]
    if fn == 'same':
        if list(c.get('shape2', shape)) != list(shape):
            return [False]
        f, g = {0: 0}, {0: 0}
        for a, b in zip(c['labels'], c['labels2']):
            if f.setdefault(a, b) != b or g.setdefault(b, a) != a:
                return [False]
        return [True]
    if fn == 'remove':
        rs = set(c['regions'])
        return [0 if v in rs else v for v in c['labels']]
    if fn == 'bbox':
        B = np.array(c['bits'], dtype=np.uint8).reshape(shape)
        nz = np.nonzero(B)
        if B.size == 0 or len(nz[0]) == 0:
            return None
        out = []
        for ax in nz:
            out += [int(ax.min()), int(ax.max()) + 1]
        return out
    if fn == 'bboxl':
        L = np.array(c['labels'], dtype=np.int64).reshape(shape)
        n, nd, flat = int(L.max()) + 1, L.ndim, L.ravel()
        rows = np.zeros((n, 2 * nd), np.int64)
        idx = np.indices(shape)
        for j in range(nd):
            cj = idx[j].ravel()
            lo, hi = np.full(n, shape[j], np.int64), np.zeros(n, np.int64)
            np.minimum.at(lo, flat, cj)
            np.maximum.at(hi, flat, cj + 1)
            rows[:, 2 * j], rows[:, 2 * j + 1] = lo, hi
        rows[np.bincount(flat, minlength=n) == 0] = 0
        return [int(x) for x in rows.ravel().tolist()]
    if fn == 'com':
        K = np.array(c['data'], dtype=np.int64).reshape(shape)
        L = (np.zeros(shape, np.int64) if c['labels'] is None else np.array(c['labels'], dtype=np.int64).reshape(shape))
        n, nd, flat = int(L.max()) + 1 if L.size else 1, K.ndim, L.ravel()
        den = np.zeros(n, np.int64)
        np.add.at(den, flat, K.ravel())
        idx = np.indices(shape)
        out = [[None] * nd for _ in range(n)]
        for j in range(nd):
            num = np.zeros(n, np.int64)
            np.add.at(num, flat, K.ravel() * idx[j].ravel())
            for l in range(n):
                out[l][j] = (int(num[l]), int(den[l]))
        return [x for row in out for x in row]
    raise ValueError(fn)


def _com_bits(pairs):
    """correctly rounded quotient of exact integers (Python's int / int), as a bit pattern; None where the total is 0"""
    return [None if d == 0 else core.f2bits(nm / d) for nm, d in pairs]


def _check_oracle(c, drv):
    """small case of an oracle kind: the Python oracle must agree with the Lean specification"""
    fn, o = c['fn'], _oracle(c)
    if fn == 'relabel':
        spec = core.ints(drv['spec']) + [int(drv['nspec'])]
    elif fn == 'same':
        spec = _bools(drv['spec'])
    elif fn == 'remove':
        spec = core.ints(drv['spec'])
    elif fn == 'bbox':
        spec = None if drv['spec'] == 'none' else core.ints(drv['spec'])
    elif fn == 'bboxl':
        spec = core.ints(drv['spec'])
    else:
        ok, sp = _bools(drv['ok']), core.ints(drv['spec'])
        spec = [b if k else None for b, k in zip(sp, ok)]
        o = _com_bits(o)
    if o != spec:
        raise core.Infra(f'C13: the Python oracle of the size-threshold stream disagrees with the Lean specification on {c}')


def _run_big(c):
    """large case of an oracle kind: the real code against the exact Python oracle (property findings, same keys)"""
    import mahotas as mh
    import mahotas.labeled as ml
    fn, shape, lay = c['fn'], c['shape'], c.get('layout', 'C')
    want = _oracle(c)
    if fn == 'relabel':
        r, n = ml.relabel(np.array(c['labels'], dtype=np.intc).reshape(shape))
        got, key = [int(x) for x in _flat(r)] + [int(n)], 'relabel'
    elif fn == 'same':
        a = np.array(c['labels'], dtype=c.get('ldtype', 'int32')).reshape(shape)
        b = np.array(c['labels2'], dtype=c.get('ldtype2', 'int32')).reshape(c.get('shape2', shape))
        got, key = [bool(ml.is_same_labeling(a, b))], 'is_same_labeling'
    elif fn == 'remove':
        r = ml.remove_regions(np.array(c['labels'], dtype=np.intc).reshape(shape), c['regions'])
        got, key = [int(x) for x in _flat(r)], 'remove_regions'
    elif fn == 'bbox':
        A = gen.relayout(_arr(c['data'], c['dtype'], shape), lay)
        fast = A.ndim == 2 and A.flags.c_contiguous and A.flags.aligned
        got, key = [int(x) for x in mh.bbox(A).tolist()], 'bbox:' + ('fast' if fast else 'generic')
        if want is None:
            return []
    elif fn == 'bboxl':
        L = gen.relayout(np.array(c['labels'], dtype=c['ldtype']).reshape(shape), lay)
        got, key = [int(x) for x in ml.bbox(L).ravel().tolist()], 'labeled.bbox'
    else:
        A = gen.relayout(_arr(c['data'], c['dtype'], shape), lay)
        L = None if c['labels'] is None else np.array(c['labels'], dtype=c['ldtype']).reshape(shape)
        r = mh.center_of_mass(A, L)
        key = 'center_of_mass:' + ('whole' if L is None else 'labels')
        want = _com_bits(want)
        got = [core.f2bits(x) for x in r.ravel().tolist()]
        if len(got) == len(want):
            got = [g if w is not None else None for g, w in zip(got, want)]
    if got != want:
        bad = [i for i, (g, w) in enumerate(zip(got, want)) if g != w][:8]
        return [dict(kind='property', key=key, detail=dict(why='size-threshold case', entries=bad, n=len(want),
                                                            got=[got[i] for i in bad], spec=[want[i] for i in bad]))]
    return []


def _prep(c):
    """derive the protocol-only fields"""
    c = dict(c)
    fn = c['fn']
    if fn == 'fold':
        n = max(c['labels']) + 1
        if c.get('minlength') is not None:
            n = max(n, c['minlength'])
        c['n'] = n
    if fn in ('bbox', 'bwperim', 'bboxb', 'perimeter'):
        A = _arr(c['data'], c['dtype'], c['shape'])
        c['bits'] = [int(v != 0) for v in A.ravel().tolist()]
    if fn == 'bboxb':
        V = gen.relayout(A, c.get('layout', 'C'))
        c['fast'] = int(V.ndim == 2 and bool(V.flags.c_contiguous) and bool(V.flags.aligned))
    return c


def _magnitude(c):
    """tag: integer data of magnitude >= 2^53 / >= 2^63 (not exactly representable in double / beyond int64)"""
    d = c.get('data')
    if not d or c.get('dtype') in FLOATS or not isinstance(d, list):
        return {}
    m = max(abs(v) for v in d)
    return {'magnitude': '>=2^63'} if m >= 2 ** 63 else {'magnitude': '>=2^53'} if m >= 2 ** 53 else {}


def evaluate(cases):
    pcs = [_prep(c) for c in cases]
    lines = [_line(c) for c in pcs]
    drvs = core.drive(lines)
    res = []
    for c, line, drv in zip(pcs, lines, drvs):
        if 'error' in drv:
            raise core.Infra(f'driver: {drv} for {line}')
        if c.get('big'):
            f = _run_big(c)
        else:
            if c['fn'] in ORACLE_FNS and 'spec' in drv:
                _check_oracle(c, drv)
            f = _run(c, drv)
        lab = c.get('labels') or c.get('data') or []
        res.append(dict(findings=f, nontrivial=len(set(lab)) >= 2,
                        sig=line + c.get('layout', 'C') + str(c.get('thr', '')),
                        tags=dict(fn=c['fn'] + (':' + c['op'] if c['fn'] == 'fold' else ''),
                                  dtype=c.get('dtype', c.get('ldtype', 'int32')), ndim=len(c['shape']),
                                  layout=c.get('layout', 'C'),
                                  **({'mode': c['mode']} if 'mode' in c else {}),
                                  **({'size': 'threshold'} if 'thr' in c else {}),
                                  **_magnitude(c))))
    return res


def _corpus():
    d = core.VERIF / 'corpus' / ID
    return [json.loads(p.read_text())['case'] for p in sorted(d.glob('*.json'))] if d.exists() else []


# ---------------------------------------------------------------------------------------------- generators

def _zero_axis(rng, shape, p=0.03):
    """occasionally an empty array (one zero-length axis) for the call sites that accept it"""
    shape = list(shape)
    if rng.random() < p:
        shape[rng.randrange(len(shape))] = 0
    return shape


def _labels(rng, n, nonneg=True, maxlab=None):
    """label map with gaps and empty labels; blocks of equal labels are likely"""
    if n == 0:
        return []
    maxlab = maxlab or rng.choice([1, 2, 3, 5, 9])
    pool = sorted(rng.sample(range(0, maxlab + 1), rng.randint(1, min(4, maxlab + 1))))
    if not nonneg and rng.random() < 0.4:
        pool.append(rng.choice([-1, -3]))
    out = []
    cur = rng.choice(pool)
    for _ in range(n):
        if rng.random() < 0.5:
            cur = rng.choice(pool)
        out.append(0 if rng.random() < 0.2 else cur)
    if max(out) < 0:
        out[rng.randrange(n)] = 0
    return out


def _values(rng, dtype, n):
    if dtype in FLOATS:
        style = rng.random()
        if style < 0.4:      # all negative: the identity element matters
            return [-rng.randint(1, 400) for _ in range(n)]
        if style < 0.5:
            return [rng.randint(1, 400) for _ in range(n)]
        return [rng.randint(-400, 400) for _ in range(n)]
    if dtype in ('int64', 'uint64') and rng.random() < 0.2:
        # neighbours around 2^53 and the 64-bit limits mixed with 0/+-1: a kernel that went through double would merge
        # 2^53 with 2^53+1 (max/min) and lose the low bits of a sum that must wrap exactly modulo 2^64
        pool = [2 ** 53, 2 ** 53 + 1, 2 ** 53 + 2, 2 ** 63 - 1, 0, 1]
        pool += [-2 ** 63, -1, -(2 ** 53) - 1] if dtype == 'int64' else [2 ** 63, 2 ** 63 + 1, 2 ** 64 - 1]
        return [rng.choice(pool) for _ in range(n)]
    return [int(x) for x in gen.rand_int_array(rng, (n,), dtype).tolist()]


def _shape(rng, nonempty=True):
    return list(gen.small_shape(rng, maxlen=6))


def _gen_fold(rng):
    dtype = rng.choice(gen.INT_DTYPES + FLOATS + FLOATS)
    shape = _shape(rng)
    n = int(np.prod(shape))
    c = dict(fn='fold', op=rng.choice(['sum', 'max', 'min']), dtype=dtype, shape=shape, data=_values(rng, dtype, n),
             labels=_labels(rng, n, nonneg=False), ldtype=rng.choice(['int32', 'int32', 'int64', 'uint8', 'int16']),
             layout=rng.choice(gen.LAYOUTS), llayout=rng.choice(['C', 'C', 'F', 'strided']))
    if c['ldtype'] == 'uint8':
        c['labels'] = [abs(v) for v in c['labels']]
    if c['op'] == 'sum' and rng.random() < 0.3:
        c['minlength'] = rng.choice([0, 1, 4, 12])
    return c


def _gen_hist(rng):
    shape = _shape(rng)
    n = int(np.prod(shape))
    if rng.random() < 0.5:
        dtype = rng.choice(['int32', 'int64', 'uint8', 'uint16', 'int16', 'uint32', 'bool', 'uint64', 'int8'])
        data = _labels(rng, n, maxlab=rng.choice([1, 3, 9, 40, 300, 70000]))
        if dtype in ('uint8', 'int8'):
            data = [v % 128 for v in data]
        elif dtype in ('uint16', 'int16'):
            data = [v % 32768 for v in data]
        if dtype == 'bool':
            data = [int(v != 0) for v in data]
        elif dtype in ('int64', 'uint64') and rng.random() < 0.25:
            # labels beyond 2^32: labeled_size reduces them modulo 2^32 (astype(uint32))
            data = [v + 2 ** 32 * rng.choice([0, 0, 1, 3]) for v in data]
        return dict(fn='size', dtype=dtype, shape=shape, data=data)
    dtype = rng.choice(UINT + UINT + ['bool', 'bool'] + SINT + FLOATS)
    if not _hist_accepts(dtype):
        return dict(fn='hist', dtype=dtype, shape=shape, data=[rng.randint(0, 9) for _ in range(n)])
    hi = 1 if dtype == 'bool' else rng.choice([1, 3, 17, 255, 300, 4000])
    hi = min(hi, gen.dt_range(dtype)[1])
    return dict(fn='hist', dtype=dtype, shape=shape, data=[rng.randint(0, hi) for _ in range(n)])


def _gen_bbox(rng):
    dtype = rng.choice(gen.INT_DTYPES + FLOATS)
    shape = _zero_axis(rng, gen.small_shape(rng, ndim=rng.choice([1, 2, 2, 2, 3]), maxlen=8))
    n = int(np.prod(shape))
    p = rng.choice([0.0, 0.05, 0.15, 0.4, 0.9])
    data = []
    for _ in range(n):
        if rng.random() < p:
            if dtype == 'bool':
                data.append(1)
            elif dtype in FLOATS:
                data.append(rng.choice([-3, 1, 800, -1]))
            else:
                lo, hi = gen.dt_range(dtype)
                data.append(rng.choice([1, hi, lo if lo else 2, 5]))
        else:
            data.append(0)
    return dict(fn='bbox', dtype=dtype, shape=shape, data=data, layout=rng.choice(gen.LAYOUTS))


def _gen_bboxb(rng):
    """bbox(border=, as_slice=) and croptobbox(border=): the Python arithmetic around the kernel"""
    c = _gen_bbox(rng)
    c['fn'] = 'bboxb'
    c['border'] = rng.choice([None, 0, 1, 1, 2, 3, 10, -1, -2])
    if c['border'] is None and rng.random() < 0.5:
        c['omit'] = True
    return c


def _blob_bits(rng, shape):
    """a few rectangles / diagonal strokes / isolated pixels: exercises every class of the perimeter table"""
    h, w = shape
    B = np.zeros(shape, int)
    for _ in range(rng.randint(1, 4)):
        y0, x0 = rng.randrange(h), rng.randrange(w)
        style = rng.random()
        if style < 0.5:
            B[y0:y0 + rng.randint(1, 5), x0:x0 + rng.randint(1, 5)] = 1
        elif style < 0.8:
            dy = rng.choice([1, -1])
            for t in range(rng.randint(2, 6)):
                y, x = y0 + dy * t, x0 + t
                if 0 <= y < h and 0 <= x < w:
                    B[y, x] = 1
        else:
            B[y0, x0] = 1
    if rng.random() < 0.3:
        for _ in range(rng.randint(1, 4)):
            B[rng.randrange(h), rng.randrange(w)] ^= 1
    return B.ravel().tolist()


def _gen_perimeter(rng):
    shape = list(gen.small_shape(rng, ndim=2, maxlen=rng.choice([4, 7, 11])))
    n = int(np.prod(shape))
    dtype = rng.choice(['bool', 'uint8', 'int32', 'float64'])
    if rng.random() < 0.6:
        bits = _blob_bits(rng, shape)
    else:
        p = rng.choice([0.3, 0.6, 0.85])
        bits = [int(rng.random() < p) for _ in range(n)]
    data = [(1 if dtype == 'bool' else rng.choice([1, 2, 7])) if b else 0 for b in bits]
    return dict(fn='perimeter', shape=shape, dtype=dtype, data=data, bc=rng.choice([4, 8]),
                mode=rng.choice(MODES + ['constant', 'constant']), layout=rng.choice(gen.LAYOUTS))


def _gen_rmwhere(rng):
    shape = _zero_axis(rng, _shape(rng))
    n = int(np.prod(shape))
    labels = _labels(rng, n, nonneg=rng.random() < 0.8)
    top = max(labels, default=0)
    k = rng.choice([0, 1, top, top + 1, top + 1, top + 4])
    p = rng.choice([0.0, 0.3, 0.6, 1.0])
    conds = [int(rng.random() < p) for _ in range(max(k, 0))]
    return dict(fn='rmwhere', shape=shape, labels=labels, conds=conds, inplace=rng.random() < 0.3,
                cbool=rng.random() < 0.7)


def _gen_bboxl(rng):
    shape = list(gen.small_shape(rng, maxlen=7))
    n = int(np.prod(shape))
    ldtype = rng.choice(['int32', 'int64', 'uint8', 'uint16', 'int8', 'uint64', 'bool'])
    labels = _labels(rng, n)
    if ldtype == 'bool':
        labels = [int(v != 0) for v in labels]
    elif ldtype in ('uint8', 'int8') and n and rng.random() < 0.5:
        # the largest label the dtype can hold (label+1 must not be computed in the label dtype)
        top = 255 if ldtype == 'uint8' else 127
        m = max(labels)
        labels = [top if (v == m and v != 0) else v for v in labels]
        if top not in labels:
            labels[rng.randrange(n)] = top
    return dict(fn='bboxl', ldtype=ldtype, shape=shape, labels=labels, layout=rng.choice(gen.LAYOUTS))


def _gen_com(rng):
    dtype = rng.choice(gen.INT_DTYPES + FLOATS)
    shape = _shape(rng)
    n = int(np.prod(shape))
    if dtype in FLOATS:
        data = [rng.randint(-60, 60) for _ in range(n)]
    elif dtype == 'bool':
        data = [rng.randint(0, 1) for _ in range(n)]
    else:
        lo, hi = gen.dt_range(dtype)
        if rng.random() < 0.45:
            # values up to the dtype limits (capped at 2^40 so that every partial sum stays an exact double): the kernel
            # must accumulate value*coordinate in double, not in the image dtype
            cap = 2 ** 40
            l2, h2 = max(lo, -cap), min(hi, cap)
            data = [rng.choice([h2, l2, h2 - rng.randint(0, 9), rng.randint(l2, h2), rng.randint(max(lo, -50), min(hi, 50))])
                    for _ in range(n)]
        else:
            data = [rng.randint(max(lo, -50), min(hi, 50)) for _ in range(n)]
    labels = _labels(rng, n) if rng.random() < 0.65 else None
    c = dict(fn='com', dtype=dtype, shape=shape, data=data, labels=labels,
             ldtype=rng.choice(['int32', 'int32', 'int64', 'uint8', 'uint16']), layout=rng.choice(gen.LAYOUTS),
             llayout=rng.choice(['C', 'C', 'F', 'strided', 'readonly']))
    if dtype == 'bool' and labels is not None:
        c['labels'] = labels
    return c


def _gen_relabel(rng):
    shape = _zero_axis(rng, _shape(rng))
    n = int(np.prod(shape))
    labels = _labels(rng, n, nonneg=rng.random() < 0.7, maxlab=rng.choice([2, 5, 9, 1000, 2 ** 31 - 1]))
    return dict(fn='relabel', shape=shape, labels=labels, inplace=rng.random() < 0.4)


def _gen_same(rng):
    shape = _zero_axis(rng, _shape(rng))
    n = int(np.prod(shape))
    if n == 0:
        return dict(fn='same', shape=shape, labels=[], labels2=[], ldtype='int32', ldtype2='int32', shape2=list(shape))
    a = _labels(rng, n, nonneg=rng.random() < 0.8)
    vals = sorted(set(a))
    style = rng.random()
    if style < 0.35:        # a bijection fixing 0
        tgt = rng.sample(range(1, 3 * len(vals) + 2), len(vals))
        m = {v: (0 if v == 0 else t) for v, t in zip(vals, tgt)}
        b = [m[v] for v in a]
    elif style < 0.5:       # merge two labels
        m = {v: v for v in vals}
        if len(vals) >= 2:
            x, y = rng.sample(vals, 2)
            m[x] = m[y]
        b = [m[v] for v in a]
    elif style < 0.65:      # split one pixel off / change the background at one pixel
        b = list(a)
        i = rng.randrange(n)
        b[i] = rng.choice([0, 77, b[i] + 1])
    elif style < 0.8:       # swap the background with a label
        m = {v: v for v in vals}
        nz = [v for v in vals if v != 0]
        if nz and 0 in vals:
            x = rng.choice(nz)
            m[0], m[x] = x, 0
        b = [m[v] for v in a]
    else:
        b = _labels(rng, n)
    if rng.random() < 0.5:
        a, b = b, a
    c = dict(fn='same', shape=shape, labels=a, labels2=b, ldtype=rng.choice(['int32', 'int64', 'int16']),
             ldtype2=rng.choice(['int32', 'int64']), shape2=list(shape))
    r = rng.random()
    if r < 0.06:            # same pixels in scan order, another shape (flattened / transposed extents)
        c['shape2'] = [n] if len(shape) > 1 else [1, n]
        if len(shape) > 1 and rng.random() < 0.5:
            c['shape2'] = list(reversed(shape))
    elif r < 0.12 and n >= 2:   # the second map is shorter / longer along the last axis (a prefix agrees)
        inner = int(np.prod(shape[:-1]))
        if rng.random() < 0.5 and shape[-1] >= 2:
            B = np.array(b, dtype=object).reshape(shape)[..., :-1]
        else:
            B = np.concatenate([np.array(b, dtype=object).reshape(shape)] * 2, axis=-1)[..., :shape[-1] + 1]
        c['labels2'] = B.ravel().tolist()
        c['shape2'] = list(B.shape)
    return c


def _gen_remove(rng):
    shape = _zero_axis(rng, _shape(rng))
    n = int(np.prod(shape))
    labels = _labels(rng, n, nonneg=rng.random() < 0.8)
    vals = sorted(set(labels))
    k = rng.randint(0, 6)
    regions = [rng.choice(vals + [0, 1, 2, 50, -7]) for _ in range(k)]
    return dict(fn='remove', shape=shape, labels=labels, regions=regions, inplace=rng.random() < 0.4)


def _gen_rmborder(rng):
    shape = _zero_axis(rng, gen.small_shape(rng, maxlen=7))
    n = int(np.prod(shape))
    labels = _labels(rng, n, nonneg=rng.random() < 0.8, maxlab=rng.choice([3, 5, 9])) or []
    r = rng.random()
    if r < 0.5:
        rsize = 1
    elif r < 0.75:
        rsize = rng.choice([0, 2, 3, 8, 13])
    else:
        rsize = [rng.choice([0, 1, 2, 3, 9]) for _ in shape]
    return dict(fn='rmborder', shape=shape, labels=labels, ldtype=rng.choice(['int32', 'int64', 'int16', 'uint8'])
                if min(labels, default=0) >= 0 else rng.choice(['int32', 'int64', 'int16']), rsize=rsize,
                layout=rng.choice(gen.LAYOUTS), out=rng.choice([None, None, 'im', 'new']))


def _gen_filter(rng):
    shape = list(gen.small_shape(rng, maxlen=7))
    n = int(np.prod(shape))
    labels = _labels(rng, n, maxlab=rng.choice([3, 5, 9]))
    return dict(fn='filter', shape=shape, labels=labels, ldtype=rng.choice(['int32', 'int64', 'uint8', 'uint16']),
                rb=rng.random() < 0.5, min=rng.choice([None, None, 1, 2, 3, 5]), max=rng.choice([None, None, 1, 2, 4, 9]))


def _gen_borders(rng):
    shape = list(gen.small_shape(rng, maxlen=6))
    n = int(np.prod(shape))
    ldtype = rng.choice(gen.INT_DTYPES)
    if ldtype == 'bool':
        labels = [rng.randint(0, 1) for _ in range(n)]
    else:
        labels = _labels(rng, n, nonneg=ldtype in UINT or rng.random() < 0.7)
    bc, etag = _rand_elem(rng, shape)
    if isinstance(bc, dict):
        bc = dict(bc)
        bc.pop('dtype', None)
    c = dict(shape=shape, labels=labels, ldtype=ldtype, bc=bc, etag=etag, layout=rng.choice(gen.LAYOUTS),
             out=rng.random() < 0.2)
    if rng.random() < 0.7:
        c.update(fn='borders', mode=rng.choice(MODES + ['constant']))
    else:
        vals = sorted(set(labels))
        i = rng.choice(vals)
        j = rng.choice([v for v in vals + [1, 2] if v != i] or [i + 1])
        lo, hi = gen.dt_range(ldtype)
        if not (lo <= j <= hi):
            j = lo if lo != i else hi
        if i == j:
            j = hi if i != hi else lo
        c.update(fn='border', i=int(i), j=int(j), always=rng.random() < 0.7)
    return c


def _gen_bwperim(rng):
    shape = list(gen.small_shape(rng, ndim=2, maxlen=7))
    n = int(np.prod(shape))
    dtype = rng.choice(['bool', 'uint8', 'int32', 'float64'])
    p = rng.choice([0.3, 0.6, 0.85])
    data = [(1 if dtype == 'bool' else rng.choice([1, 2, 7])) if rng.random() < p else 0 for _ in range(n)]
    return dict(fn='bwperim', shape=shape, dtype=dtype, data=data, bc=rng.choice([4, 8]),
                mode=rng.choice(MODES + ['constant']), layout=rng.choice(gen.LAYOUTS))


THR_N = [257, 32769, 65535, 65536, 65537, 65537]
THR_V = [255, 256, 257, 32767, 32768, 65535, 65536, 65537]


def _thr_shape(rng, N=None):
    N = N or rng.choice(THR_N)
    if N == 65537 and rng.random() < 0.3:
        return [257, 256]          # 65792 elements
    return [1, N] if rng.random() < 0.7 else [N]


def _thr_counts(rng, fn, big=False):
    """labeled_size / fullhistogram: one value covering more than 2^16 pixels, or values around the thresholds"""
    shape = _thr_shape(rng)
    if big or rng.random() < 0.5:
        # 2^18 and 2^20 pixels in one bin as well (several interleaved 16-bit counter tables wrap only there)
        shape = rng.choice([[512, 513], [1, 2 ** 18 + 1], [1024, 1025], [4, 2 ** 16 + 1]])
    n = int(np.prod(shape))
    if n > 70000 or rng.random() < 0.5:
        data = [1] * n
        data[rng.randrange(n)] = 0
        dtype = rng.choice(['int32', 'uint32', 'int64', 'uint8'] if fn == 'size' else ['uint32', 'uint64', 'uint8', 'uint16'])
        if n > 70000:
            dtype = rng.choice(['uint8', 'uint8', 'uint16', 'int32'] if fn == 'size' else ['uint8', 'uint8', 'uint16'])
            if big:
                dtype = 'uint8' if big == 8 else 'uint16'
    else:
        v = rng.choice(THR_V)
        data = [rng.choice([0, v, v, v - 1, 3]) for _ in range(rng.choice([7, 300]))]
        shape = [len(data)]
        dtype = rng.choice(['int32', 'uint32', 'int64'] if fn == 'size' else ['uint32', 'uint64'])
    return dict(fn=fn, dtype=dtype, shape=shape, data=data, thr=1)


def _thr_fold(rng):
    shape = _thr_shape(rng)
    n = int(np.prod(shape))
    dtype = rng.choice(['int32', 'int64', 'uint16', 'float32', 'float64', 'uint8'])
    unit = 8 if dtype in FLOATS else 1            # floats: k/8, so 8 is the value 1.0 (every partial sum exact: < 2^24)
    data = [unit] * n
    labels = [1] * n
    for _ in range(3):
        labels[rng.randrange(n)] = 0
    if dtype not in ('uint16', 'uint8') and rng.random() < 0.5:
        data = [unit * rng.choice([1, 1, 2, -1]) for _ in range(n)]
    return dict(fn='fold', op=rng.choice(['sum', 'sum', 'max', 'min']), dtype=dtype, shape=shape, data=data, labels=labels,
                ldtype='int32', layout='C', llayout='C', thr=1)


def _thr_bbox(rng):
    shape = _thr_shape(rng)
    n = int(np.prod(shape))
    data = [0] * n
    data[n - 1] = 1
    data[rng.randrange(n)] = 1
    return dict(fn='bbox', dtype=rng.choice(['uint8', 'bool', 'int32', 'float64']), shape=shape, data=data,
                layout=rng.choice(['C', 'C', 'F', 'strided']), big=n > 300, thr=1)


def _thr_bboxl(rng):
    shape = _thr_shape(rng)
    n = int(np.prod(shape))
    labels = [1] * n
    labels[0], labels[n - 1] = 0, 2
    return dict(fn='bboxl', ldtype=rng.choice(['int32', 'int64', 'uint16']), shape=shape, labels=labels,
                layout=rng.choice(['C', 'F']), big=n > 300, thr=1)


def _thr_com(rng):
    """more than 2^16 pixels; the value and value*coordinate sums exceed 2^24 by far (a float accumulator is inexact there)
    while staying exact in double (< 2^53): the witness for a narrowed accumulator needs no 2^24-pixel image"""
    shape = _thr_shape(rng)
    n = int(np.prod(shape))
    dtype = rng.choice(['uint8', 'int32', 'uint16', 'float32', 'float64', 'bool'])
    unit = 8 if dtype in FLOATS else 1
    if dtype in ('int32', 'uint16'):
        data = [rng.choice([1, 32767, 30001, 2]) for _ in range(n)]
    else:
        data = [unit * (1 if dtype == 'bool' else rng.choice([1, 1, 2, 3])) for _ in range(n)]
    labels = None
    if rng.random() < 0.5:
        labels = [1] * n
        labels[0] = 0
        labels[n // 2] = 2
    return dict(fn='com', dtype=dtype, shape=shape, data=data, labels=labels, ldtype='int32', layout='C', llayout='C',
                big=n > 300, thr=1)


def _thr_relabel(rng):
    N = rng.choice(THR_N)
    labels = list(range(N, 0, -1))              # N distinct labels: more than 2^16 of them for N >= 65536
    if rng.random() < 0.5:
        labels[rng.randrange(N)] = 0
    return dict(fn='relabel', shape=[N], labels=labels, inplace=False, big=N > 300, thr=1)


def _thr_same(rng):
    N = rng.choice(THR_N)
    a = list(range(1, N + 1))
    b = [v + 7 for v in a]
    if rng.random() < 0.5:
        b[N - 1] = b[0]                          # the last label collides with the first: only the full map tells
    return dict(fn='same', shape=[N], shape2=[N], labels=a, labels2=b, ldtype='int32', ldtype2='int32', big=N > 300, thr=1)


def _thr_remove(rng):
    N = rng.choice(THR_N)
    labels = list(range(1, N + 1))
    rng.shuffle(labels)
    regions = [v for v in range(1, N + 1) if v % 2 == 0 or v > N - 2]
    return dict(fn='remove', shape=[N], labels=labels, regions=regions, inplace=False, big=N > 300, thr=1)


THR_POOL = [lambda r: _thr_counts(r, 'size'), lambda r: _thr_counts(r, 'hist'), lambda r: _thr_counts(r, 'hist', big=8),
            lambda r: _thr_counts(r, 'hist', big=16), lambda r: _thr_counts(r, 'size', big=8), _thr_fold, _thr_fold, _thr_bbox, _thr_bboxl,
            _thr_com, _thr_relabel, _thr_same, _thr_remove]


def _threshold_cases(rng, tier):
    if tier == 'quick':
        return [g(rng) for g in THR_POOL]       # one per kind (0.7 s for all ten)
    return [g(rng) for g in THR_POOL for _ in range(3)]


GENS = [(_gen_fold, 5), (_gen_hist, 1.3), (_gen_bbox, 2), (_gen_bboxl, 1), (_gen_com, 2), (_gen_relabel, 1),
        (_gen_same, 1.5), (_gen_remove, 1), (_gen_rmborder, 1), (_gen_filter, 1), (_gen_borders, 3), (_gen_bwperim, 1),
        (_gen_bboxb, 1.2), (_gen_perimeter, 1.2), (_gen_rmwhere, 0.8)]


def cases(rng, tier):
    out = list(_corpus()) if tier != 'search' else []
    nrand = dict(quick=4000, thorough=40000, search=15000)[tier]
    gens = [g for g, _ in GENS]
    w = [x for _, x in GENS]
    for _ in range(nrand):
        g = rng.choices(gens, w)[0]
        out.append(g(rng))
    if tier != 'search':
        out += _threshold_cases(rng, tier)
    return out


def shrink(case):
    shape = case['shape']
    fields = [k for k in ('data', 'labels', 'labels2') if isinstance(case.get(k), list)]
    n = int(np.prod(shape))
    for ax in range(len(shape)):
        if shape[ax] > 1 and case.get('shape2', shape) == shape:
            for j in (shape[ax] - 1, 0):
                c = dict(case)
                ok = True
                for k in fields:
                    B = np.delete(np.array(case[k], dtype=object).reshape(shape), j, axis=ax)
                    c[k] = B.ravel().tolist()
                    c['shape'] = list(B.shape)
                    if 'shape2' in case:
                        c['shape2'] = list(B.shape)
                if case['fn'] in ('fold', 'bboxl', 'com') and case.get('labels') and max(c['labels']) < 0:
                    ok = False
                if isinstance(case.get('rsize'), list):
                    ok = ok
                if ok:
                    yield c
    for k in ('layout', 'llayout'):
        if case.get(k, 'C') != 'C':
            yield dict(case, **{k: 'C'})
    for k in fields:
        for i, v in enumerate(case[k]):
            if v != 0:
                d = list(case[k]); d[i] = 0
                yield dict(case, **{k: d})
            if abs(v) > 1:
                d = list(case[k]); d[i] = 1 if v > 0 else -1
                yield dict(case, **{k: d})
    bc = case.get('bc')
    if isinstance(bc, dict):
        for i, v in enumerate(bc['v']):
            if v:
                b = list(bc['v']); b[i] = 0
                yield dict(case, bc=dict(bc, v=b))
