"""C13 — region measurements and label-map utilities equal their per-label definitions."""
from __future__ import annotations
import json
import numpy as np
from .. import core, gen
from .c03 import _bc_arg, _rand_elem

ID = 'C13'
FOUNDATIONS = ['harness.foundation.cscalar']   # ties of the C++ helper functions the model rests on (generated from their text)
LEVEL = 'proof'
RULE = ('corpus; structured random (array, label-map) pairs of 1-3 D: labeled_sum/max/min over 9 integer dtypes '
        '(boundary-dense values, both signs) and float32/float64 (dyadic values k/8 of both signs, all-negative regions), '
        'label maps with gaps, empty and negative labels, minlength; labeled_size/fullhistogram; bbox (fast C 2-D path and '
        'generic path through 7 layouts), croptobbox, labeled.bbox; center_of_mass with and without labels; relabel, '
        'is_same_labeling (permuted / merged / background-changed / unrelated pairs), remove_regions, remove_bordering '
        '(rsize int/tuple, 0 and larger than the image, out variants), filter_labeled; borders x 6 modes x '
        'cross/box/arbitrary elements (incl. larger than the image), border(i,j), bwperim n=4/8. '
        'Non-trivial = the label map has at least two distinct values; distinct = distinct protocol line + layout.')
ASSUMPTIONS = ['no NaN data (an order is taken by labeled_max/min)',
               'labeled_sum is compared with the exact sum only when that sum is representable in the array dtype '
               '(otherwise only with the wrap-around model); float data are dyadic (k/8, |k| small) so every sum is exact',
               'labeled_max/labeled_min of an empty label and center_of_mass of a label whose total is 0 are not compared '
               'with the specification (only with the model, max/min)',
               'bbox of an all-zero image and labeled.bbox of an absent label are compared with the model only (zeros)',
               'labels are non-negative for labeled.bbox, labeled_size, center_of_mass, filter_labeled (negative labels are '
               'rejected or undefined there: defect #21, owned elsewhere); labeled_sum/max/min ignore negative labels',
               'relabel, remove_regions, is_same_labeling, filter_labeled, fullhistogram, labeled_size get C-contiguous '
               'writeable inputs (their wrappers reject other layouts today: C08, owned elsewhere)',
               'fullhistogram: unsigned/bool images with max < 2^12 (one bin per value)',
               'remove_bordering: rsize >= 0', 'filter_labeled: min_size/max_size None or >= 1',
               'border(i, j): i != j, both representable in the label dtype',
               'center_of_mass: |values| < 2^53 (the kernel converts to double)']
TRUSTED = ['numpy (array construction, layout views)']

FLOATS = ['float32', 'float64']
SINT = ['int8', 'int16', 'int32', 'int64']
UINT = ['uint8', 'uint16', 'uint32', 'uint64']
MODES = ['nearest', 'wrap', 'reflect', 'mirror', 'constant', 'ignore']
SCALE = 8


def _arr(vals, dtype, shape):
    if dtype in FLOATS:
        return (np.array(vals, dtype=np.float64) / SCALE).astype(dtype).reshape(shape)
    return np.array(vals, dtype=object).astype(dtype).reshape(shape)


def _dtn(dtype):
    return {'float32': 'f32', 'float64': 'f64'}.get(dtype) or gen.DT_NAME[dtype]


def _flat(a):
    return np.asarray(a).ravel(order='C').tolist()


def _bools(s):
    return [x == '1' for x in s.split(',')] if s else []


def _line(c):
    fn = c['fn']
    sh = f"shape={gen.enc_shape(c['shape'])}"
    if fn == 'fold':
        return (f"c13 kind=fold op={c['op']} dt={_dtn(c['dtype'])} scale={SCALE} n={c['n']} "
                f"data={gen.enc_arr(c['data'])} labels={gen.enc_arr(c['labels'])}")
    if fn in ('size', 'hist'):
        return f"c13 kind=hist dt={_dtn(c['dtype'])} data={gen.enc_arr(c['data'])}"
    if fn == 'bbox':
        return f"c13 kind=bbox {sh} data={gen.enc_arr(c['bits'])}"
    if fn == 'bboxl':
        return f"c13 kind=bboxl {sh} labels={gen.enc_arr(c['labels'])}"
    if fn == 'com':
        return (f"c13 kind=com {sh} scale={SCALE if c['dtype'] in FLOATS else 1} data={gen.enc_arr(c['data'])} "
                f"labels={gen.enc_arr(c['labels']) if c['labels'] is not None else '-'}")
    if fn == 'relabel':
        return f"c13 kind=relabel labels={gen.enc_arr(c['labels'])}"
    if fn == 'same':
        return f"c13 kind=same labels={gen.enc_arr(c['labels'])} labels2={gen.enc_arr(c['labels2'])}"
    if fn == 'remove':
        return f"c13 kind=remove labels={gen.enc_arr(c['labels'])} regions={gen.enc_arr(c['regions'])}"
    if fn == 'rmborder':
        r = c['rsize']
        r = [r] * len(c['shape']) if isinstance(r, int) else r
        return f"c13 kind=rmborder {sh} labels={gen.enc_arr(c['labels'])} rsize={gen.enc_arr(r)}"
    if fn == 'filter':
        return (f"c13 kind=filter {sh} labels={gen.enc_arr(c['labels'])} rb={int(c['rb'])} "
                f"min={c['min'] or 0} max={c['max'] or 0}")
    if fn in ('borders', 'border', 'bwperim'):
        _, bshape, el = _bc_arg(c)
        extra = f" i={c['i']} j={c['j']}" if fn == 'border' else f" mode={c['mode']}"
        lab = c['labels'] if fn != 'bwperim' else c['bits']
        return (f"c13 kind={fn} {sh} labels={gen.enc_arr(lab)} bshape={gen.enc_shape(bshape)} "
                f"bc={gen.enc_arr(el)}{extra}")
    raise ValueError(fn)


def _diff(key, got, spec, model, mask=None, silent_model=None):
    """property finding where `got != spec` on the compared entries (mask), else a model finding where got != model"""
    idx = range(len(spec)) if mask is None else [i for i, m in enumerate(mask) if m]
    if len(got) != len(spec):
        return [dict(kind='property', key=key, detail=dict(why='length', got=got, spec=spec))]
    bad = [i for i in idx if got[i] != spec[i]]
    if bad:
        return [dict(kind='property', key=key, detail=dict(entries=bad[:8], got=got, spec=spec))]
    if model is not None and (len(model) != len(got) or any(a != b for a, b in zip(got, model))):
        return [dict(kind='model', key=key + '-model', detail=dict(got=got, model=model))]
    return []


def _run(c, drv):
    import mahotas as mh
    import mahotas.labeled as ml
    fn = c['fn']
    shape = c['shape']
    lay = c.get('layout', 'C')
    if fn == 'fold':
        A = gen.relayout(_arr(c['data'], c['dtype'], shape), lay)
        L = gen.relayout(np.array(c['labels'], dtype=c['ldtype']).reshape(shape), c.get('llayout', 'C'))
        op = c['op']
        if op == 'sum':
            r = ml.labeled_sum(A, L, c['minlength']) if c.get('minlength') is not None else ml.labeled_sum(A, L)
        else:
            r = (ml.labeled_max if op == 'max' else ml.labeled_min)(A, L)
        cls = 'float' if c['dtype'] in FLOATS else 'bool' if c['dtype'] == 'bool' else 'int'
        key = f'labeled_{op}:{cls}'
        if r.dtype != A.dtype or r.shape != (c['n'],):
            return [dict(kind='property', key=key, detail=dict(why='result type/length', dtype=str(r.dtype),
                                                               shape=r.shape, n=c['n']))]
        cnt = core.ints(drv['cnt'])
        if cls == 'float':
            got = [core.f2bits(x) for x in r.astype(np.float64).tolist()]
            spec, model = core.ints(drv['spec']), core.ints(drv['model'])
            # -0.0 vs +0.0: an empty or all-zero sum; compare values, not the sign of zero
            z = core.f2bits(-0.0)
            got = [0 if g == z else g for g in got]
            spec = [0 if g == z else g for g in spec]
            model = [0 if g == z else g for g in model]
            mask = None if op == 'sum' else [k > 0 for k in cnt]
            return _diff(key, got, spec, model, mask)
        got = [int(x) for x in r.tolist()]
        spec, model = core.ints(drv['spec']), core.ints(drv['model'])
        if op == 'sum':
            lo, hi = gen.dt_range(c['dtype'])
            mask = [lo <= s <= hi for s in spec]
        else:
            mask = [k > 0 for k in cnt]
        return _diff(key, got, spec, model, mask)
    if fn in ('size', 'hist'):
        A = _arr(c['data'], c['dtype'], shape)
        r = ml.labeled_size(A) if fn == 'size' else mh.fullhistogram(A)
        key = 'labeled_size' if fn == 'size' else 'fullhistogram'
        spec = core.ints(drv['spec'])
        if fn == 'size' and c['dtype'] == 'bool':
            return []
        return _diff(key, [int(x) for x in r.tolist()], spec, core.ints(drv['model']))
    if fn == 'bbox':
        A = gen.relayout(_arr(c['data'], c['dtype'], shape), lay)
        fast = A.ndim == 2 and A.flags.c_contiguous and A.flags.aligned
        r = [int(x) for x in mh.bbox(A).tolist()]
        model = core.ints(drv['fast' if fast else 'generic'])
        key = 'bbox:' + ('fast' if fast else 'generic')
        if drv['spec'] == 'none':
            return _diff(key, r, r, model)
        spec = core.ints(drv['spec'])
        f = _diff(key, r, spec, model)
        if not f:
            crop = mh.croptobbox(A)
            want = A[tuple(slice(spec[2 * j], spec[2 * j + 1]) for j in range(A.ndim))]
            sl = mh.bbox(A, as_slice=True)
            if crop.shape != want.shape or not np.array_equal(crop, want) or \
                    [(s.start, s.stop) for s in sl] != [(spec[2 * j], spec[2 * j + 1]) for j in range(A.ndim)]:
                f.append(dict(kind='property', key='croptobbox', detail=dict(got=crop.shape, want=want.shape)))
        return f
    if fn == 'bboxl':
        L = gen.relayout(np.array(c['labels'], dtype=c['ldtype']).reshape(shape), lay)
        r = ml.bbox(L)
        nd = len(shape)
        if r.shape != (max(c['labels']) + 1, 2 * nd):
            return [dict(kind='property', key='labeled.bbox', detail=dict(why='shape', got=r.shape))]
        present = set(c['labels'])
        mask = [(i // (2 * nd)) in present for i in range(r.size)]
        return _diff('labeled.bbox', [int(x) for x in r.ravel().tolist()], core.ints(drv['spec']),
                     core.ints(drv['model']), mask)
    if fn == 'com':
        A = gen.relayout(_arr(c['data'], c['dtype'], shape), lay)
        L = None if c['labels'] is None else gen.relayout(
            np.array(c['labels'], dtype=c['ldtype']).reshape(shape), c.get('llayout', 'C'))
        r = mh.center_of_mass(A, L)
        nd = len(shape)
        want_shape = (nd,) if L is None else (max(c['labels']) + 1, nd)
        key = 'center_of_mass:' + ('whole' if L is None else 'labels')
        if r.shape != want_shape:
            return [dict(kind='property', key=key, detail=dict(why='shape', got=r.shape, want=want_shape))]
        got = [core.f2bits(x) for x in r.ravel().tolist()]
        ok = _bools(drv['ok'])
        spec, model = core.ints(drv['spec']), core.ints(drv['model'])
        f = _diff(key, got, spec, None, ok)
        if not f:
            bad = [i for i, o in enumerate(ok) if o and got[i] != model[i]]
            if bad:
                f.append(dict(kind='model', key=key + '-model', detail=dict(got=got, model=model)))
        return f
    if fn == 'relabel':
        L = np.array(c['labels'], dtype=np.intc).reshape(shape)
        keep = L.copy()
        r, n = ml.relabel(L, inplace=bool(c.get('inplace')))
        f = []
        if c.get('inplace') and r is not L:
            f.append(dict(kind='model', key='relabel:inplace-identity', detail={}))
        if not c.get('inplace') and not np.array_equal(L, keep):
            f.append(dict(kind='property', key='relabel:input-modified', detail={}))
        got = [int(x) for x in _flat(r)] + [int(n)]
        return f + _diff('relabel', got, core.ints(drv['spec']) + [int(drv['nspec'])],
                         core.ints(drv['model']) + [int(drv['nmodel'])])
    if fn == 'same':
        a = np.array(c['labels'], dtype=c.get('ldtype', 'int32')).reshape(shape)
        b = np.array(c['labels2'], dtype=c.get('ldtype2', 'int32')).reshape(shape)
        r = bool(ml.is_same_labeling(a, b))
        return _diff('is_same_labeling', [r], _bools(drv['spec']), _bools(drv['model']))
    if fn == 'remove':
        L = np.array(c['labels'], dtype=np.intc).reshape(shape)
        keep = L.copy()
        r = ml.remove_regions(L, c['regions'], inplace=bool(c.get('inplace')))
        f = []
        if not c.get('inplace') and not np.array_equal(L, keep):
            f.append(dict(kind='property', key='remove_regions:input-modified', detail={}))
        return f + _diff('remove_regions', [int(x) for x in _flat(r)], core.ints(drv['spec']), core.ints(drv['model']))
    if fn == 'rmborder':
        L = gen.relayout(np.array(c['labels'], dtype=c['ldtype']).reshape(shape), lay)
        keep = L.copy()
        rs = c['rsize'] if isinstance(c['rsize'], int) else tuple(c['rsize'])
        o = c.get('out')
        if o == 'im' and L.flags.writeable:
            r = ml.remove_bordering(L, rs, out=L)
        elif o == 'new':
            buf = np.full(L.shape, 9, L.dtype)
            r = ml.remove_bordering(L, rs, out=buf)
        else:
            r = ml.remove_bordering(L, rs)
            if not np.array_equal(L, keep):
                return [dict(kind='property', key='remove_bordering:input-modified', detail={})]
        return _diff('remove_bordering', [int(x) for x in _flat(r)], core.ints(drv['spec']), core.ints(drv['model']))
    if fn == 'filter':
        L = np.array(c['labels'], dtype=c['ldtype']).reshape(shape)
        r, n = ml.filter_labeled(L, remove_bordering=bool(c['rb']), min_size=c['min'], max_size=c['max'])
        got = [int(x) for x in _flat(r)] + [int(n)]
        return _diff('filter_labeled', got, core.ints(drv['spec']) + [int(drv['nspec'])],
                     core.ints(drv['model']) + [int(drv['nmodel'])])
    if fn in ('borders', 'border'):
        L = gen.relayout(np.array(c['labels'], dtype=c['ldtype']).reshape(shape), lay)
        Bc, _, _ = _bc_arg(c)
        kw = {}
        if c.get('out'):
            kw['out'] = np.ones(L.shape, bool)
        if fn == 'borders':
            r = ml.borders(L, Bc, mode=c['mode'], **kw)
            key = 'borders:' + c['mode']
        else:
            r = ml.border(L, c['i'], c['j'], Bc, always_return=bool(c.get('always', True)), **kw)
            key = 'border'
            if r is None:
                spec = _bools(drv['spec'])
                if any(spec):
                    return [dict(kind='property', key=key, detail=dict(why='None returned but a border exists'))]
                return []
        if r.dtype != np.bool_ or r.shape != L.shape:
            return [dict(kind='property', key=key, detail=dict(why='result type/shape'))]
        return _diff(key, [bool(x) for x in _flat(r)], _bools(drv['spec']), _bools(drv['model']))
    if fn == 'bwperim':
        A = gen.relayout(_arr(c['data'], c['dtype'], shape), lay)
        r = ml.bwperim(A, c['bc'], mode=c['mode'])
        return _diff('bwperim:' + c['mode'], [bool(x) for x in _flat(r)], _bools(drv['spec']), _bools(drv['model']))
    raise ValueError(fn)


def _prep(c):
    """derive the protocol-only fields"""
    c = dict(c)
    fn = c['fn']
    if fn == 'fold':
        n = max(c['labels']) + 1
        if c.get('minlength') is not None:
            n = max(n, c['minlength'])
        c['n'] = n
    if fn in ('bbox', 'bwperim'):
        A = _arr(c['data'], c['dtype'], c['shape'])
        c['bits'] = [int(v != 0) for v in A.ravel().tolist()]
    return c


def evaluate(cases):
    pcs = [_prep(c) for c in cases]
    lines = [_line(c) for c in pcs]
    drvs = core.drive(lines)
    res = []
    for c, line, drv in zip(pcs, lines, drvs):
        if 'error' in drv:
            raise core.Infra(f'driver: {drv} for {line}')
        f = _run(c, drv)
        lab = c.get('labels') or c.get('data') or []
        res.append(dict(findings=f, nontrivial=len(set(lab)) >= 2, sig=line + c.get('layout', 'C'),
                        tags=dict(fn=c['fn'] + (':' + c['op'] if c['fn'] == 'fold' else ''),
                                  dtype=c.get('dtype', c.get('ldtype', 'int32')), ndim=len(c['shape']),
                                  layout=c.get('layout', 'C'),
                                  **({'mode': c['mode']} if 'mode' in c else {}))))
    return res


def _corpus():
    d = core.VERIF / 'corpus' / ID
    return [json.loads(p.read_text())['case'] for p in sorted(d.glob('*.json'))] if d.exists() else []


# ---------------------------------------------------------------------------------------------- generators

def _zero_axis(rng, shape, p=0.03):
    """occasionally an empty array (one zero-length axis) for the call sites that accept it"""
    shape = list(shape)
    if rng.random() < p:
        shape[rng.randrange(len(shape))] = 0
    return shape


def _labels(rng, n, nonneg=True, maxlab=None):
    """label map with gaps and empty labels; blocks of equal labels are likely"""
    if n == 0:
        return []
    maxlab = maxlab or rng.choice([1, 2, 3, 5, 9])
    pool = sorted(rng.sample(range(0, maxlab + 1), rng.randint(1, min(4, maxlab + 1))))
    if not nonneg and rng.random() < 0.4:
        pool.append(rng.choice([-1, -3]))
    out = []
    cur = rng.choice(pool)
    for _ in range(n):
        if rng.random() < 0.5:
            cur = rng.choice(pool)
        out.append(0 if rng.random() < 0.2 else cur)
    if max(out) < 0:
        out[rng.randrange(n)] = 0
    return out


def _values(rng, dtype, n):
    if dtype in FLOATS:
        style = rng.random()
        if style < 0.4:      # all negative: the identity element matters
            return [-rng.randint(1, 400) for _ in range(n)]
        if style < 0.5:
            return [rng.randint(1, 400) for _ in range(n)]
        return [rng.randint(-400, 400) for _ in range(n)]
    return [int(x) for x in gen.rand_int_array(rng, (n,), dtype).tolist()]


def _shape(rng, nonempty=True):
    return list(gen.small_shape(rng, maxlen=6))


def _gen_fold(rng):
    dtype = rng.choice(gen.INT_DTYPES + FLOATS + FLOATS)
    shape = _shape(rng)
    n = int(np.prod(shape))
    c = dict(fn='fold', op=rng.choice(['sum', 'max', 'min']), dtype=dtype, shape=shape, data=_values(rng, dtype, n),
             labels=_labels(rng, n, nonneg=False), ldtype=rng.choice(['int32', 'int32', 'int64', 'uint8', 'int16']),
             layout=rng.choice(gen.LAYOUTS), llayout=rng.choice(['C', 'C', 'F', 'strided']))
    if c['ldtype'] == 'uint8':
        c['labels'] = [abs(v) for v in c['labels']]
    if c['op'] == 'sum' and rng.random() < 0.3:
        c['minlength'] = rng.choice([0, 1, 4, 12])
    return c


def _gen_hist(rng):
    shape = _shape(rng)
    n = int(np.prod(shape))
    if rng.random() < 0.5:
        return dict(fn='size', dtype=rng.choice(['int32', 'int64', 'uint8', 'uint16', 'int16', 'uint32']), shape=shape,
                    data=_labels(rng, n, maxlab=rng.choice([1, 3, 9, 40])))
    dtype = rng.choice(UINT + ['bool'])
    hi = 1 if dtype == 'bool' else rng.choice([1, 3, 17, 255, 300, 4000])
    hi = min(hi, gen.dt_range(dtype)[1])
    return dict(fn='hist', dtype=dtype, shape=shape, data=[rng.randint(0, hi) for _ in range(n)])


def _gen_bbox(rng):
    dtype = rng.choice(gen.INT_DTYPES + FLOATS)
    shape = _zero_axis(rng, gen.small_shape(rng, ndim=rng.choice([1, 2, 2, 2, 3]), maxlen=8))
    n = int(np.prod(shape))
    p = rng.choice([0.0, 0.05, 0.15, 0.4, 0.9])
    data = []
    for _ in range(n):
        if rng.random() < p:
            if dtype == 'bool':
                data.append(1)
            elif dtype in FLOATS:
                data.append(rng.choice([-3, 1, 800, -1]))
            else:
                lo, hi = gen.dt_range(dtype)
                data.append(rng.choice([1, hi, lo if lo else 2, 5]))
        else:
            data.append(0)
    return dict(fn='bbox', dtype=dtype, shape=shape, data=data, layout=rng.choice(gen.LAYOUTS))


def _gen_bboxl(rng):
    shape = list(gen.small_shape(rng, maxlen=7))
    n = int(np.prod(shape))
    ldtype = rng.choice(['int32', 'int64', 'uint8', 'uint16', 'int8', 'uint64', 'bool'])
    labels = _labels(rng, n)
    if ldtype == 'bool':
        labels = [int(v != 0) for v in labels]
    elif ldtype in ('uint8', 'int8') and n and rng.random() < 0.5:
        # the largest label the dtype can hold (label+1 must not be computed in the label dtype)
        top = 255 if ldtype == 'uint8' else 127
        m = max(labels)
        labels = [top if (v == m and v != 0) else v for v in labels]
        if top not in labels:
            labels[rng.randrange(n)] = top
    return dict(fn='bboxl', ldtype=ldtype, shape=shape, labels=labels, layout=rng.choice(gen.LAYOUTS))


def _gen_com(rng):
    dtype = rng.choice(gen.INT_DTYPES + FLOATS)
    shape = _shape(rng)
    n = int(np.prod(shape))
    if dtype in FLOATS:
        data = [rng.randint(-60, 60) for _ in range(n)]
    elif dtype == 'bool':
        data = [rng.randint(0, 1) for _ in range(n)]
    else:
        lo, hi = gen.dt_range(dtype)
        if rng.random() < 0.45:
            # values up to the dtype limits (capped at 2^40 so that every partial sum stays an exact double): the kernel
            # must accumulate value*coordinate in double, not in the image dtype
            cap = 2 ** 40
            l2, h2 = max(lo, -cap), min(hi, cap)
            data = [rng.choice([h2, l2, h2 - rng.randint(0, 9), rng.randint(l2, h2), rng.randint(max(lo, -50), min(hi, 50))])
                    for _ in range(n)]
        else:
            data = [rng.randint(max(lo, -50), min(hi, 50)) for _ in range(n)]
    labels = _labels(rng, n) if rng.random() < 0.65 else None
    c = dict(fn='com', dtype=dtype, shape=shape, data=data, labels=labels,
             ldtype=rng.choice(['int32', 'int32', 'int64', 'uint8', 'uint16']), layout=rng.choice(gen.LAYOUTS),
             llayout=rng.choice(['C', 'C', 'F', 'strided', 'readonly']))
    if dtype == 'bool' and labels is not None:
        c['labels'] = labels
    return c


def _gen_relabel(rng):
    shape = _zero_axis(rng, _shape(rng))
    n = int(np.prod(shape))
    labels = _labels(rng, n, nonneg=rng.random() < 0.7, maxlab=rng.choice([2, 5, 9, 1000, 2 ** 31 - 1]))
    return dict(fn='relabel', shape=shape, labels=labels, inplace=rng.random() < 0.4)


def _gen_same(rng):
    shape = _zero_axis(rng, _shape(rng))
    n = int(np.prod(shape))
    if n == 0:
        return dict(fn='same', shape=shape, labels=[], labels2=[], ldtype='int32', ldtype2='int32')
    a = _labels(rng, n, nonneg=rng.random() < 0.8)
    vals = sorted(set(a))
    style = rng.random()
    if style < 0.35:        # a bijection fixing 0
        tgt = rng.sample(range(1, 3 * len(vals) + 2), len(vals))
        m = {v: (0 if v == 0 else t) for v, t in zip(vals, tgt)}
        b = [m[v] for v in a]
    elif style < 0.5:       # merge two labels
        m = {v: v for v in vals}
        if len(vals) >= 2:
            x, y = rng.sample(vals, 2)
            m[x] = m[y]
        b = [m[v] for v in a]
    elif style < 0.65:      # split one pixel off / change the background at one pixel
        b = list(a)
        i = rng.randrange(n)
        b[i] = rng.choice([0, 77, b[i] + 1])
    elif style < 0.8:       # swap the background with a label
        m = {v: v for v in vals}
        nz = [v for v in vals if v != 0]
        if nz and 0 in vals:
            x = rng.choice(nz)
            m[0], m[x] = x, 0
        b = [m[v] for v in a]
    else:
        b = _labels(rng, n)
    if rng.random() < 0.5:
        a, b = b, a
    return dict(fn='same', shape=shape, labels=a, labels2=b, ldtype=rng.choice(['int32', 'int64', 'int16']),
                ldtype2=rng.choice(['int32', 'int64']))


def _gen_remove(rng):
    shape = _zero_axis(rng, _shape(rng))
    n = int(np.prod(shape))
    labels = _labels(rng, n, nonneg=rng.random() < 0.8)
    vals = sorted(set(labels))
    k = rng.randint(0, 6)
    regions = [rng.choice(vals + [0, 1, 2, 50, -7]) for _ in range(k)]
    return dict(fn='remove', shape=shape, labels=labels, regions=regions, inplace=rng.random() < 0.4)


def _gen_rmborder(rng):
    shape = _zero_axis(rng, gen.small_shape(rng, maxlen=7))
    n = int(np.prod(shape))
    labels = _labels(rng, n, nonneg=rng.random() < 0.8, maxlab=rng.choice([3, 5, 9])) or []
    r = rng.random()
    if r < 0.5:
        rsize = 1
    elif r < 0.75:
        rsize = rng.choice([0, 2, 3, 8, 13])
    else:
        rsize = [rng.choice([0, 1, 2, 3, 9]) for _ in shape]
    return dict(fn='rmborder', shape=shape, labels=labels, ldtype=rng.choice(['int32', 'int64', 'int16', 'uint8'])
                if min(labels, default=0) >= 0 else rng.choice(['int32', 'int64', 'int16']), rsize=rsize,
                layout=rng.choice(gen.LAYOUTS), out=rng.choice([None, None, 'im', 'new']))


def _gen_filter(rng):
    shape = list(gen.small_shape(rng, maxlen=7))
    n = int(np.prod(shape))
    labels = _labels(rng, n, maxlab=rng.choice([3, 5, 9]))
    return dict(fn='filter', shape=shape, labels=labels, ldtype=rng.choice(['int32', 'int64', 'uint8', 'uint16']),
                rb=rng.random() < 0.5, min=rng.choice([None, None, 1, 2, 3, 5]), max=rng.choice([None, None, 1, 2, 4, 9]))


def _gen_borders(rng):
    shape = list(gen.small_shape(rng, maxlen=6))
    n = int(np.prod(shape))
    ldtype = rng.choice(gen.INT_DTYPES)
    if ldtype == 'bool':
        labels = [rng.randint(0, 1) for _ in range(n)]
    else:
        labels = _labels(rng, n, nonneg=ldtype in UINT or rng.random() < 0.7)
    bc, etag = _rand_elem(rng, shape)
    if isinstance(bc, dict):
        bc = dict(bc)
        bc.pop('dtype', None)
    c = dict(shape=shape, labels=labels, ldtype=ldtype, bc=bc, etag=etag, layout=rng.choice(gen.LAYOUTS),
             out=rng.random() < 0.2)
    if rng.random() < 0.7:
        c.update(fn='borders', mode=rng.choice(MODES + ['constant']))
    else:
        vals = sorted(set(labels))
        i = rng.choice(vals)
        j = rng.choice([v for v in vals + [1, 2] if v != i] or [i + 1])
        lo, hi = gen.dt_range(ldtype)
        if not (lo <= j <= hi):
            j = lo if lo != i else hi
        if i == j:
            j = hi if i != hi else lo
        c.update(fn='border', i=int(i), j=int(j), always=rng.random() < 0.7)
    return c


def _gen_bwperim(rng):
    shape = list(gen.small_shape(rng, ndim=2, maxlen=7))
    n = int(np.prod(shape))
    dtype = rng.choice(['bool', 'uint8', 'int32', 'float64'])
    p = rng.choice([0.3, 0.6, 0.85])
    data = [(1 if dtype == 'bool' else rng.choice([1, 2, 7])) if rng.random() < p else 0 for _ in range(n)]
    return dict(fn='bwperim', shape=shape, dtype=dtype, data=data, bc=rng.choice([4, 8]),
                mode=rng.choice(MODES + ['constant']), layout=rng.choice(gen.LAYOUTS))


GENS = [(_gen_fold, 5), (_gen_hist, 1), (_gen_bbox, 2), (_gen_bboxl, 1), (_gen_com, 2), (_gen_relabel, 1),
        (_gen_same, 1.5), (_gen_remove, 1), (_gen_rmborder, 1), (_gen_filter, 1), (_gen_borders, 3), (_gen_bwperim, 1)]


def cases(rng, tier):
    out = list(_corpus()) if tier != 'search' else []
    nrand = dict(quick=4000, thorough=40000, search=15000)[tier]
    gens = [g for g, _ in GENS]
    w = [x for _, x in GENS]
    for _ in range(nrand):
        g = rng.choices(gens, w)[0]
        out.append(g(rng))
    return out


def shrink(case):
    shape = case['shape']
    fields = [k for k in ('data', 'labels', 'labels2') if isinstance(case.get(k), list)]
    n = int(np.prod(shape))
    for ax in range(len(shape)):
        if shape[ax] > 1:
            for j in (shape[ax] - 1, 0):
                c = dict(case)
                ok = True
                for k in fields:
                    B = np.delete(np.array(case[k], dtype=object).reshape(shape), j, axis=ax)
                    c[k] = B.ravel().tolist()
                    c['shape'] = list(B.shape)
                if case['fn'] in ('fold', 'bboxl', 'com') and case.get('labels') and max(c['labels']) < 0:
                    ok = False
                if isinstance(case.get('rsize'), list):
                    ok = ok
                if ok:
                    yield c
    for k in ('layout', 'llayout'):
        if case.get(k, 'C') != 'C':
            yield dict(case, **{k: 'C'})
    for k in fields:
        for i, v in enumerate(case[k]):
            if v != 0:
                d = list(case[k]); d[i] = 0
                yield dict(case, **{k: d})
            if abs(v) > 1:
                d = list(case[k]); d[i] = 1 if v > 0 else -1
                yield dict(case, **{k: d})
    bc = case.get('bc')
    if isinstance(bc, dict):
        for i, v in enumerate(bc['v']):
            if v:
                b = list(bc['v']); b[i] = 0
                yield dict(case, bc=dict(bc, v=b))
