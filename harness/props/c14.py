"""C14 — local/regional extrema, hole closing and hit-or-miss equal their definitions."""
from __future__ import annotations
import json, struct
import numpy as np
from .. import core, gen

ID = 'C14'
FOUNDATIONS = ['harness.foundation.cscalar']   # ties of the C++ helper functions the model rests on (generated from their text)
LEVEL = 'proof'
RULE = ('corpus; exhaustive binary scope (close_holes: every binary image of every shape up to 3x4 with the cross and the '
        'box; hitmiss: 3x3 / 1x3 / 3x1 templates over {0,1,2} against every binary image up to 3x4 - thorough all 19683+27+27 '
        'templates, quick a seeded slice of the 3x3 ones); random 1-3 D x 9 integer dtypes + float32/float64 (palettes of 2-4 '
        'values: ties and plateaus, dtype limits, infinities) x 7 layouts x cross/box (and some irregular) neighbourhoods; a few 18-40 px images (long floods, many skipped rows). '
        'Non-trivial = output neither all-true nor all-false; distinct = distinct protocol line + layout.')
ASSUMPTIONS = ['no NaN (an order is taken); floats enter the Lean model through the order isomorphism '
               'x -> sign(x)*bits(|x|) onto integers (the kernels only compare values)',
               'locmax/locmin/regmax/regmin are compared with the definition for cross/box (symmetric, star-shaped) '
               'neighbourhoods; for irregular neighbourhoods only model = implementation is checked',
               'close_holes: 2-D images (the wrapper admits nothing else), symmetric neighbourhoods for the definition',
               'hitmiss: template and image have the same rank, template entries in {0,1,2}, image values in {0,1}; '
               'the definition is compared for odd template sides (even sides: model = implementation only)',
               'array sizes < 2^31']
EXHAUSTIVE = {'thorough': True}
TRUSTED = ['numpy (array construction, layout views)', 'the float -> integer order embedding in harness/props/c14.py']

FLOATS = ['float32', 'float64']
LOC_OPS = ['locmax', 'locmin', 'regmax', 'regmin']


def okey(x, dtype) -> int:
    """order-preserving injection of non-NaN values into the integers (-0.0 and +0.0 coincide)"""
    if np.dtype(dtype).kind != 'f':
        return int(x)
    x = float(x)
    if x == 0:
        return 0
    b = struct.unpack('<Q', struct.pack('<d', abs(x)))[0]
    return b if x > 0 else -b


def _mk(case):
    dt = np.dtype(case['dtype'])
    if dt.kind == 'f':
        A = np.array([float(v) for v in case['data']], dtype=dt).reshape(case['shape'])
    else:
        A = np.array(case['data'], dtype=object).astype(dt).reshape(case['shape'])
    return A


def _bc(case, dtype):
    return np.array(case['bc'], dtype=object).astype(dtype).reshape(case['bshape'])


def _line(case):
    op = case['op']
    dt = case['dtype']
    shape = gen.enc_shape(case['shape'])
    bsh = gen.enc_shape(case['bshape'])
    if op in LOC_OPS:
        data = [okey(v, dt) for v in _mk(case).ravel().tolist()]
        kind = 'loc' if op.startswith('loc') else 'reg'
        bc = [1 if v else 0 for v in case['bc']]
        return (f"c14 kind={kind} min={1 if op.endswith('min') else 0} shape={shape} data={gen.enc_arr(data)} "
                f"bshape={bsh} bc={gen.enc_arr(bc)}")
    if op == 'close_holes':
        data = [1 if v else 0 for v in case['data']]
        bc = [1 if v else 0 for v in case['bc']]
        return f"c14 kind=holes shape={shape} data={gen.enc_arr(data)} bshape={bsh} bc={gen.enc_arr(bc)}"
    if op == 'hitmiss':
        return (f"c14 kind=hitmiss shape={shape} data={gen.enc_arr(case['data'])} bshape={bsh} "
                f"bc={gen.enc_arr(case['bc'])}")
    raise ValueError(op)


def _symmetric_star(case):
    """is the neighbourhood (centre removed) symmetric and coordinate-wise star-shaped?"""
    bshape = case['bshape']
    B = np.array([1 if v else 0 for v in case['bc']]).reshape(bshape)
    c = [s // 2 for s in bshape]
    mem = set()
    for idx in np.ndindex(*bshape):
        if B[idx]:
            k = tuple(i - ci for i, ci in zip(idx, c))
            if any(k):
                mem.add(k)
    for k in mem:
        if tuple(-x for x in k) not in mem:
            return False
        # every k' between 0 and k coordinate-wise, other than 0, must be a member
        rngs = [range(0, x + 1) if x >= 0 else range(x, 1) for x in k]
        import itertools
        for kk in itertools.product(*rngs):
            if any(kk) and kk not in mem:
                return False
    return True


def _contig_class(A):
    return 'C' if A.flags.c_contiguous else 'noncontig'


def _bools(s):
    return [int(x) for x in s.split(',')] if s else []


def _eval_single(cases):
    import mahotas as mh
    res = []
    lines = [_line(c) for c in cases]
    drvs = core.drive(lines)
    for case, drv, line in zip(cases, drvs, lines):
        op = case['op']
        A = _mk(case)
        Al = gen.relayout(A, case.get('layout', 'C'))
        before = Al.copy()
        f = []
        if 'error' in drv:
            raise core.Infra('driver: ' + drv['error'])
        model = _bools(drv['model'])
        spec = _bools(drv['spec'])
        cls = _contig_class(Al)
        regular = True
        if op in LOC_OPS:
            Bc = _bc(case, A.dtype)
            if case.get('_hist'):
                # the result is asked for in a caller's buffer that already holds marks (all True: a buffer reused from an
                # earlier image): the extrema are what the definition says, not the union with what was there
                buf = np.ones(Al.shape, bool)
                got = np.asarray(getattr(mh, op)(Al, Bc, out=buf))
                if got is not buf:
                    f.append(dict(kind='property', key=f'{op}:out-not-returned', detail={}))
            else:
                got = np.asarray(getattr(mh, op)(Al, Bc))
            g = [int(x) for x in got.ravel(order='C').tolist()]
            regular = drv['regular'] == '1'     # the proved-sound checkers starShapedB && symNbB of the Lean model
            if regular != _symmetric_star(case):
                f.append(dict(kind='model', key='regular-check-disagrees', detail=dict(lean=regular)))
            if regular and g != spec:
                bad = [i for i, (a, b) in enumerate(zip(g, spec)) if a != b]
                f.append(dict(kind='property', key=f'{op}:{cls}', detail=dict(pixels=bad[:8], got=g, spec=spec)))
            elif g != model:
                bad = [i for i, (a, b) in enumerate(zip(g, model)) if a != b]
                f.append(dict(kind='model', key=f'{op}-model:{cls}', detail=dict(pixels=bad[:8], got=g, model=model)))
            if op.startswith('reg') and regular:
                loc = np.asarray(getattr(mh, 'loc' + op[3:])(Al, Bc))
                if np.any(got & ~loc):
                    f.append(dict(kind='property', key=f'{op}-subset-loc:{cls}',
                                  detail=dict(reg=g, loc=[int(x) for x in loc.ravel().tolist()])))
                if got.dtype != np.bool_ or loc.dtype != np.bool_:
                    f.append(dict(kind='property', key=f'{op}:dtype', detail=dict(dtype=str(got.dtype))))
        elif op == 'close_holes':
            Bc = _bc(case, bool)
            got = np.asarray(mh.close_holes(Al, Bc))
            g = [int(x) for x in got.ravel(order='C').tolist()]
            regular = drv['regular'] == '1'     # symNbB of the Lean model (the theorem needs no more; the spec is undirected)
            if regular and g != spec:
                bad = [i for i, (a, b) in enumerate(zip(g, spec)) if a != b]
                f.append(dict(kind='property', key=f'close_holes:{cls}', detail=dict(pixels=bad[:8], got=g, spec=spec)))
            elif g != model:
                f.append(dict(kind='model', key=f'close_holes-model:{cls}', detail=dict(got=g, model=model)))
        else:  # hitmiss
            Bc = np.array(case['bc'], dtype=object).astype(case.get('bcdtype', case['dtype'])).reshape(case['bshape'])
            got = np.asarray(mh.hitmiss(Al, Bc))
            g = [int(x) for x in got.ravel(order='C').tolist()]
            regular = all(b % 2 == 1 for b in case['bshape'])
            if regular and g != spec:
                bad = [i for i, (a, b) in enumerate(zip(g, spec)) if a != b]
                f.append(dict(kind='property', key=f'hitmiss:{cls}', detail=dict(pixels=bad[:8], got=g, spec=spec)))
            elif g != model:
                f.append(dict(kind='model', key=f'hitmiss-model:{cls}', detail=dict(got=g, model=model)))
            if drv['model'] != drv['modelrev']:
                f.append(dict(kind='model', key='hitmiss-order-dependence', detail=dict(a=drv['model'], b=drv['modelrev'])))
        if not np.array_equal(before, Al):
            f.append(dict(kind='property', key=f'{op}:input-modified', detail={}))
        res.append(dict(findings=f, nontrivial=bool(0 < sum(g) < len(g)), sig=line + case.get('layout', 'C'),
                        tags=dict(op=op, dtype=case['dtype'], ndim=len(case['shape']), layout=case.get('layout', 'C'),
                                  nbhd=('regular' if regular else 'irregular'), size=case.get('size', 'small'))))
    return res


def _digits(s, n):
    a = np.frombuffer(s.encode(), dtype=np.uint8) - 48
    return a.reshape(-1, n)


def _eval_block(case):
    """exhaustive block: every binary image of `shape` (index range [lo,hi)) against the listed templates/elements"""
    import mahotas as mh
    op = case['block']
    shape = case['shape']
    n = int(np.prod(shape))
    lo, hi = case.get('lo', 0), case.get('hi', 1 << n)
    idx = np.arange(lo, hi, dtype=np.int64)
    imgs = ((idx[:, None] >> np.arange(n)[None, :]) & 1).astype(np.uint8).reshape((-1,) + tuple(shape))
    bshape = case['bshape']
    findings = []
    count = nontriv = 0
    kind = 'hmblock' if op == 'hitmiss' else 'holesblock'
    lines = [f"c14 kind={kind} shape={gen.enc_shape(shape)} lo={lo} hi={hi} bshape={gen.enc_shape(bshape)} "
             f"bc={gen.enc_arr(bc)}" for bc in case['bcs']]
    drvs = core.drive(lines)
    for bc, drv in zip(case['bcs'], drvs):
        if 'error' in drv:
            raise core.Infra('driver: ' + drv['error'])
        model = _digits(drv['model'], n)
        spec = _digits(drv['spec'], n)
        if op == 'hitmiss':
            Bc = np.array(bc, np.uint8).reshape(bshape)
            got = np.stack([mh.hitmiss(im, Bc) for im in imgs]).reshape(-1, n)
        else:
            Bc = np.array(bc, bool).reshape(bshape)
            bimgs = imgs.astype(bool)
            got = np.stack([mh.close_holes(im, Bc) for im in bimgs]).reshape(-1, n).astype(np.uint8)
        count += len(imgs)
        nontriv += int(np.sum((got.sum(1) > 0) & (got.sum(1) < n)))
        bad = np.nonzero((got != spec).any(1))[0]
        badm = np.nonzero((got != model).any(1))[0]
        for which, rows, ref in (('property', bad, spec), ('model', badm, model)):
            if len(rows) and len(findings) < 6:
                r = int(rows[0])
                c = dict(op=op, dtype='uint8' if op == 'hitmiss' else 'bool', shape=list(shape),
                         data=[int(x) for x in imgs[r].ravel().tolist()], bshape=list(bshape), bc=list(bc), layout='C')
                findings.append(dict(kind=which, key=f'{op}:C' if which == 'property' else f'{op}-model:C',
                                     detail=dict(got=got[r].tolist(), expected=ref[r].tolist(), rows=len(rows)), case=c))
            if which == 'property' and len(rows):
                break
    seen, keep = set(), []
    for f in findings:
        if f['key'] not in seen:
            seen.add(f['key'])
            keep.append(f)
    return dict(findings=keep, n=count, nontrivial_n=nontriv, nontrivial=False, sig=None,
                tags=dict(op=op + '-exhaustive-block', dtype='binary', ndim=len(shape)))


def evaluate(cases):
    out = []
    singles = [c for c in cases if 'block' not in c]
    sres = iter(_eval_single(singles))
    for c in cases:
        out.append(_eval_block(c) if 'block' in c else next(sres))
    return out


def _corpus():
    d = core.VERIF / 'corpus' / ID
    out = []
    if d.exists():
        for p in sorted(d.glob('*.json')):
            out.append(json.loads(p.read_text())['case'])
    return out


# ---------------------------------------------------------------------------------------------- generators

def _nbhd(rng, ndim, irregular_ok=True):
    """cross / box (the property's quantifier), sometimes an irregular one (model comparison only)"""
    r = rng.random()
    if r < 0.4:
        B = np.zeros((3,) * ndim, int)
        for idx in np.ndindex(*B.shape):
            if sum(abs(i - 1) for i in idx) <= 1:
                B[idx] = 1
    elif r < 0.75:
        B = np.ones((3,) * ndim, int)
    elif r < 0.85 and ndim >= 2:
        B = np.zeros((3,) * ndim, int)
        for idx in np.ndindex(*B.shape):
            if sum(abs(i - 1) for i in idx) <= 2:
                B[idx] = 1
    elif r < 0.9:
        B = np.ones([rng.choice([1, 3, 5]) for _ in range(ndim)], int)
    elif irregular_ok:
        B = np.array([rng.random() < 0.5 for _ in range(int(np.prod([rng.choice([2, 3, 4])] * ndim)))], int)
        side = int(round(len(B) ** (1.0 / ndim)))
        B = B.reshape((side,) * ndim)
    else:
        B = np.ones((3,) * ndim, int)
    return list(B.shape), [int(x) for x in B.ravel().tolist()]


def _palette(rng, dtype):
    dt = np.dtype(dtype)
    if dt == np.bool_:
        return [0, 1]
    k = rng.choice([2, 2, 3, 4, 6])
    if dt.kind == 'f':
        fi = np.finfo(dt)
        pool = [0.0, -0.0, 1.0, -1.0, 0.5, 2.5, -3.25, float(fi.max), float(fi.min), float(fi.tiny), -float(fi.tiny),
                float('inf'), float('-inf'), 1e-3, 7.0, 1.0 + float(fi.eps)]
        vals = [float(dt.type(v)) for v in rng.sample(pool, k)]
        return vals
    lo, hi = gen.dt_range(dtype)
    pool = sorted({lo, hi, lo + 1, hi - 1, 0 if lo <= 0 else lo, 1, 2, 3, 5, hi // 2, max(lo, -1), max(lo, -7)})
    return rng.sample(pool, min(k, len(pool)))


def _rand_extrema_case(rng):
    dtype = rng.choice(gen.INT_DTYPES + FLOATS + FLOATS)
    shape = list(gen.small_shape(rng, maxlen=7))
    pal = _palette(rng, dtype)
    n = int(np.prod(shape))
    if rng.random() < 0.5:
        data = [rng.choice(pal) for _ in range(n)]
    else:  # blocky plateaus: constant runs along the last axis
        data = []
        while len(data) < n:
            data += [rng.choice(pal)] * rng.randint(1, 4)
        data = data[:n]
    bshape, bc = _nbhd(rng, len(shape))
    return dict(op=rng.choice(LOC_OPS), dtype=dtype, shape=shape, data=data, bshape=bshape, bc=bc,
                layout=rng.choice(gen.LAYOUTS))


def _rand_holes_case(rng):
    shape = [rng.randint(1, 9), rng.randint(1, 9)]
    n = shape[0] * shape[1]
    p = rng.choice([0.3, 0.5, 0.7])
    data = [1 if rng.random() < p else 0 for _ in range(n)]
    if rng.random() < 0.4 and min(shape) >= 3:   # draw a closed ring so that a hole exists
        A = np.array(data).reshape(shape)
        y0, x0 = rng.randint(0, shape[0] - 3), rng.randint(0, shape[1] - 3)
        y1, x1 = rng.randint(y0 + 2, shape[0] - 1), rng.randint(x0 + 2, shape[1] - 1)
        A[y0, x0:x1 + 1] = 1; A[y1, x0:x1 + 1] = 1; A[y0:y1 + 1, x0] = 1; A[y0:y1 + 1, x1] = 1
        A[y0 + 1:y1, x0 + 1:x1] = 0
        data = [int(x) for x in A.ravel().tolist()]
    bshape, bc = _nbhd(rng, 2)
    dtype = rng.choice(['bool', 'bool', 'uint8', 'int32', 'float64'])
    return dict(op='close_holes', dtype=dtype, shape=shape, data=data, bshape=bshape, bc=bc, layout=rng.choice(gen.LAYOUTS))


def _rand_hitmiss_case(rng):
    shape = [rng.randint(1, 8), rng.randint(1, 8)]
    n = shape[0] * shape[1]
    p = rng.choice([0.2, 0.5, 0.8])
    data = [1 if rng.random() < p else 0 for _ in range(n)]
    bshape = rng.choice([[3, 3], [3, 3], [1, 3], [3, 1], [5, 3], [3, 5], [1, 1], [2, 2], [2, 3], [3, 4], [5, 5]])
    style = rng.random()
    nb = bshape[0] * bshape[1]
    if style < 0.5:   # mostly "don't care": matches are likely
        bc = [rng.choice([2, 2, 2, 0, 1]) for _ in range(nb)]
    elif style < 0.7 and shape[0] >= bshape[0] and shape[1] >= bshape[1]:   # cut the template out of the image
        A = np.array(data).reshape(shape)
        y, x = rng.randint(0, shape[0] - bshape[0]), rng.randint(0, shape[1] - bshape[1])
        bc = [int(v) if rng.random() < 0.8 else 2 for v in A[y:y + bshape[0], x:x + bshape[1]].ravel().tolist()]
    else:
        bc = [rng.choice([0, 1, 2]) for _ in range(nb)]
    dtype = rng.choice(['bool', 'uint8', 'uint8', 'int32', 'uint16', 'int64'])
    bcdtype = rng.choice([dtype, 'uint8', 'int64']) if dtype != 'bool' else rng.choice(['uint8', 'int32'])
    return dict(op='hitmiss', dtype=dtype, bcdtype=bcdtype, shape=shape, data=data, bshape=bshape, bc=bc,
                layout=rng.choice(gen.LAYOUTS))


def _large_case(rng, which):
    """images large enough for long floods (hundreds of stack entries) and many rows of border skipping"""
    h, w = rng.randint(18, 40), rng.randint(18, 40)
    n = h * w
    layout = rng.choice(gen.LAYOUTS)
    if which == 'holes':
        p = rng.choice([0.42, 0.5, 0.58])
        data = [1 if rng.random() < p else 0 for _ in range(n)]
        bshape, bc = rng.choice([([3, 3], CROSS), ([3, 3], BOX)])
        return dict(op='close_holes', dtype='bool', shape=[h, w], data=data, bshape=bshape, bc=list(bc), layout=layout, size='large')
    if which == 'reg':
        dtype = rng.choice(['uint8', 'int32', 'float64', 'float32'])
        pal = [1, 1, 1, 2, 3] if rng.random() < 0.5 else [0, 1]
        data = []
        while len(data) < n:
            data += [rng.choice(pal)] * rng.randint(1, 9)
        bshape, bc = rng.choice([([3, 3], CROSS), ([3, 3], BOX)])
        return dict(op=rng.choice(['regmax', 'regmin']), dtype=dtype, shape=[h, w], data=data[:n], bshape=bshape, bc=list(bc),
                    layout=layout, size='large')
    A = np.array([1 if rng.random() < 0.5 else 0 for _ in range(n)]).reshape(h, w)
    bshape = rng.choice([[3, 3], [5, 5], [1, 3], [3, 1], [7, 3]])
    y, x = rng.randint(0, h - bshape[0]), rng.randint(0, w - bshape[1])
    bc = [int(v) if rng.random() < 0.7 else 2 for v in A[y:y + bshape[0], x:x + bshape[1]].ravel().tolist()]
    return dict(op='hitmiss', dtype='uint8', bcdtype='uint8', shape=[h, w], data=[int(v) for v in A.ravel().tolist()],
                bshape=bshape, bc=bc, layout=layout, size='large')


CROSS = [0, 1, 0, 1, 1, 1, 0, 1, 0]
BOX = [1] * 9


def _tern(i, n):
    out = []
    for _ in range(n):
        out.append(i % 3)
        i //= 3
    return out


def cases(rng, tier):
    corpus = list(_corpus()) if tier != 'search' else []
    out = []
    nrand = dict(quick=(1500, 500, 700), thorough=(20000, 5000, 8000), search=(8000, 2000, 3000))[tier]
    # exhaustive binary scope
    for h in (1, 2, 3):
        for w in (1, 2, 3, 4):
            out.append(dict(block='close_holes', shape=[h, w], bshape=[3, 3], bcs=[CROSS, BOX]))
    small_t = [([1, 3], _tern(i, 3)) for i in range(27)] + [([3, 1], _tern(i, 3)) for i in range(27)]
    shapes_small = [[h, w] for h in (1, 2, 3) for w in (1, 2, 3, 4)]
    for shp in shapes_small:
        for bsh in ([1, 3], [3, 1]):
            out.append(dict(block='hitmiss', shape=shp, bshape=bsh, bcs=[t for b, t in small_t if b == bsh]))
    all33 = list(range(3 ** 9))
    if tier == 'thorough':
        step = 24
        for lo in range(0, len(all33), step):
            out.append(dict(block='hitmiss', shape=[3, 4], bshape=[3, 3], bcs=[_tern(i, 9) for i in all33[lo:lo + step]]))
        for shp in ([3, 3], [2, 4], [1, 4], [3, 2]):
            for lo in range(0, len(all33), 729):
                out.append(dict(block='hitmiss', shape=shp, bshape=[3, 3], bcs=[_tern(i, 9) for i in all33[lo:lo + 729]]))
    else:
        pick = sorted(rng.sample(all33, 48 if tier == 'quick' else 200))
        for lo in range(0, len(pick), 3):
            out.append(dict(block='hitmiss', shape=[3, 4], bshape=[3, 3], bcs=[_tern(i, 9) for i in pick[lo:lo + 3]]))
        out.append(dict(block='hitmiss', shape=[3, 3], bshape=[3, 3], bcs=[_tern(i, 9) for i in rng.sample(all33, 60)]))
    # structured random cases
    for _ in range(nrand[0]):
        out.append(_rand_extrema_case(rng))
    for _ in range(nrand[1]):
        out.append(_rand_holes_case(rng))
    for _ in range(nrand[2]):
        out.append(_rand_hitmiss_case(rng))
    for i in range(dict(quick=12, thorough=90, search=30)[tier]):
        out.append(_large_case(rng, ('holes', 'reg', 'hitmiss')[i % 3]))
    rng.shuffle(out)     # spread the heavy exhaustive blocks over the worker chunks (deterministic: same rng)
    return corpus + out


def shrink(case):
    if 'block' in case:
        return
    shape, data = case['shape'], case['data']
    A = np.array(data, dtype=object).reshape(shape)
    for ax in range(len(shape)):
        if shape[ax] > 1:
            for j in (shape[ax] - 1, 0):
                B = np.delete(A, j, axis=ax)
                yield dict(case, shape=list(B.shape), data=B.ravel().tolist())
    if case.get('layout', 'C') not in ('C', 'F'):
        yield dict(case, layout='F')
    vals = sorted(set(data), key=lambda v: (abs(v), v))
    if len(vals) > 1:
        small = [0, 1, 2, 3]
        for i, v in enumerate(vals):
            if i < len(small) and v != small[i] and case['op'] in LOC_OPS and np.dtype(case['dtype']) != np.bool_:
                # order-preserving renaming of the palette (only if it keeps the order)
                ren = {u: small[j] for j, u in enumerate(sorted(set(data)))} if len(set(data)) <= 4 else None
                if ren and np.dtype(case['dtype']).kind in 'uif' and min(ren.values()) >= 0:
                    yield dict(case, data=[ren[u] for u in data])
                break
    for i, v in enumerate(data):
        if v != 0 and case['op'] in ('close_holes', 'hitmiss'):
            d = list(data); d[i] = 0
            yield dict(case, data=d)
    if case['op'] == 'hitmiss':
        for i, v in enumerate(case['bc']):
            if v != 2:
                b = list(case['bc']); b[i] = 2
                yield dict(case, bc=b)
