"""C14 — local/regional extrema, hole closing and hit-or-miss equal their definitions."""
from __future__ import annotations
import json, struct
import numpy as np
from .. import core, gen

ID = 'C14'
FOUNDATIONS = ['harness.foundation.pybody', 'harness.foundation.cscalar']   # see each foundation module's docstring
LEVEL = 'proof'
RULE = ('corpus; exhaustive binary scope (close_holes: every binary image of every shape up to 3x4 with the cross and the '
        'box; hitmiss: 3x3 / 1x3 / 3x1 templates over {0,1,2} against every binary image up to 3x4 - thorough all 19683+27+27 '
        'templates, quick a seeded slice of the 3x3 ones); random 1-3 D x 9 integer dtypes + float32/float64 (palettes of 2-4 '
        'values: ties and plateaus, dtype limits, infinities) x 7 layouts x cross/box (and some irregular) neighbourhoods; a few 18-40 px images (long floods, many skipped rows). '
        'Round 4: hitmiss in 1-3 D with template sides 1-5 (even sides; templates larger than the image on every subset of the axes) '
        'and exhaustive 2x2 / 1x2 / 2x1 / 1-D / 3-D blocks judged against the proved closed form; extrema with the centre entry of Bc set '
        'and cleared (both must agree), Bc entries other than 0/1, all-ones boxes with even sides (definition), irregular neighbourhoods '
        '(proved clamped specification); plateau images (plateaus on the border / in corners, tied plateaus, +-inf); close_holes with every '
        'Bc the wrapper accepts (None, 0-4 and 8, arrays of any shape / dtype / layout) and non-0/1 foreground values. '
        'int64/uint64 extrema: 40-50 % of the palettes consist of values that differ only beyond double precision (2^53..2^53+2, '
        '2^63-1.., 2^64-1.., -2^63.., -2^53-1..; tag magnitude=>=2^53). '
        'Size-threshold stream (tag size=threshold; quick 4, thorough 24 cases): plateaus / background regions / holes / rows whose '
        'pixel count crosses 2^8, 2^15, 2^16 (+-1), judged by the Lean model of the kernels (linear; proved equal to the definition for '
        'cross/box: C14_regional_eq_spec_cross_box_disk, C14_close_holes_eq_spec; the quadratic fixed-point specifications are left out there). '
        'Non-trivial = output neither all-true nor all-false; distinct = distinct protocol line + layout.')
ASSUMPTIONS = ['no NaN (an order is taken); floats enter the Lean model through the order isomorphism '
               'x -> sign(x)*bits(|x|) onto integers (the kernels only compare values)',
               'locmax/locmin/regmax/regmin are compared with the definition for cross/box (symmetric, star-shaped) '
               'neighbourhoods; locmax/locmin also for every star-shaped neighbourhood (boxes with even sides: C14_locmax_eq_spec_any_box); '
               'for irregular neighbourhoods locmax/locmin are compared with the proved clamped specification '
               '(C14_locmax_clamped_spec), regmax/regmin with the model only',
               'close_holes: 2-D images (the wrapper admits nothing else), symmetric neighbourhoods for the definition',
               'hitmiss: template and image have the same rank, template entries in {0,1,2}, image values in {0,1}; '
               'the definition is compared for odd template sides; even sides and templates larger than the image are compared '
               'with the proved closed form of what the kernel evaluates (C14_hitmiss_even_closed_form: outside the statement)',
               'array sizes < 2^31']
EXHAUSTIVE = {'thorough': True}
TRUSTED = ['numpy (array construction, layout views)', 'the float -> integer order embedding in harness/props/c14.py']

FLOATS = ['float32', 'float64']
LOC_OPS = ['locmax', 'locmin', 'regmax', 'regmin']


def okey(x, dtype) -> int:
    """order-preserving injection of non-NaN values into the integers (-0.0 and +0.0 coincide)"""
    if np.dtype(dtype).kind != 'f':
        return int(x)
    x = float(x)
    if x == 0:
        return 0
    b = struct.unpack('<Q', struct.pack('<d', abs(x)))[0]
    return b if x > 0 else -b


def _mk(case):
    dt = np.dtype(case['dtype'])
    if dt.kind == 'f':
        A = np.array([float(v) for v in case['data']], dtype=dt).reshape(case['shape'])
    else:
        A = np.array(case['data'], dtype=object).astype(dt).reshape(case['shape'])
    return A


def _bc(case, dtype, bc=None):
    """the structuring element as the caller passes it: entries of `bc` (0 / non-zero; non-0/1 values allowed) in `dtype`,
    optionally in another memory layout (`bclayout`)"""
    B = np.array(case['bc'] if bc is None else bc, dtype=object).astype(dtype).reshape(case['bshape'])
    lay = case.get('bclayout', 'C')
    return gen.relayout(B, lay) if lay != 'C' else B


def _centre_index(bshape):
    i = 0
    for s in bshape:
        i = i * s + s // 2
    return i


def _big(case):
    """size-threshold cases: the driver leaves the quadratic fixed-point specifications out (the linear model is the reference)"""
    return ' big=1' if case.get('size') == 'threshold' else ''


def _se_args(case, dtype):
    """the Bc argument in the protocol of C01's model of `get_structuring_elem` (`arg=none | int | array`, `dt=` the dtype
    the element is cast to: the image's, bool for close_holes; no `dt` for float images: non-zero stays non-zero)"""
    arg = case.get('bcarg', 'array')
    isf = np.dtype(dtype).kind == 'f'
    dts = '' if isf else f" dt={gen.dt_name(dtype)}"
    if arg == 'none':
        return 'arg=none' + dts
    if arg != 'array':
        return f'arg=int v={int(arg)}' + dts
    bc = case['bc']
    if isf or any(isinstance(v, float) for v in bc):
        bc = [1 if v else 0 for v in bc]
    return f"arg=array bshape={gen.enc_shape(case['bshape'])} bc={gen.enc_arr([int(v) for v in bc])}" + dts


def _line(case):
    op = case['op']
    dt = case['dtype']
    shape = gen.enc_shape(case['shape'])
    bsh = gen.enc_shape(case['bshape'])
    if op in LOC_OPS:
        data = [okey(v, dt) for v in _mk(case).ravel().tolist()]
        kind = 'loc' if op.startswith('loc') else 'reg'
        return (f"c14 kind={kind} min={1 if op.endswith('min') else 0}{_big(case)} shape={shape} data={gen.enc_arr(data)} "
                + _se_args(case, dt))
    if op == 'close_holes':
        data = [1 if v else 0 for v in case['data']]
        return f"c14 kind=holes{_big(case)} shape={shape} data={gen.enc_arr(data)} " + _se_args(case, 'bool')
    if op == 'hitmiss':
        return (f"c14 kind=hitmiss shape={shape} data={gen.enc_arr(case['data'])} bshape={bsh} "
                f"bc={gen.enc_arr(case['bc'])}")
    raise ValueError(op)


def _symmetric_star(case):
    """is the neighbourhood (centre removed) symmetric and coordinate-wise star-shaped?"""
    bshape = case['bshape']
    B = np.array([1 if v else 0 for v in case['bc']]).reshape(bshape)
    c = [s // 2 for s in bshape]
    mem = set()
    for idx in np.ndindex(*bshape):
        if B[idx]:
            k = tuple(i - ci for i, ci in zip(idx, c))
            if any(k):
                mem.add(k)
    for k in mem:
        if tuple(-x for x in k) not in mem:
            return False
        # every k' between 0 and k coordinate-wise, other than 0, must be a member
        rngs = [range(0, x + 1) if x >= 0 else range(x, 1) for x in k]
        import itertools
        for kk in itertools.product(*rngs):
            if any(kk) and kk not in mem:
                return False
    return True


def _contig_class(A):
    return 'C' if A.flags.c_contiguous else 'noncontig'


def _bools(s):
    return [int(x) for x in s.split(',')] if s else []


def _eval_single(cases):
    import mahotas as mh
    res = []
    lines = [_line(c) for c in cases]
    drvs = core.drive(lines)
    for case, drv, line in zip(cases, drvs, lines):
        op = case['op']
        A = _mk(case)
        Al = gen.relayout(A, case.get('layout', 'C'))
        before = Al.copy()
        f = []
        if 'error' in drv:
            raise core.Infra('driver: ' + drv['error'])
        model = _bools(drv['model'])
        spec = _bools(drv['spec']) if drv.get('spec') else model    # big=1: the model (proved = definition for cross/box)
        cls = _contig_class(Al) if case.get('size') != 'threshold' else 'threshold'
        regular = True
        if op in LOC_OPS:
            arg = case.get('bcarg', 'array')
            if arg == 'array':
                Bc = _bc(case, case.get('bcdtype', A.dtype))
            else:
                Bc = None if arg == 'none' else int(arg)
            Bc0 = None if Bc is None or isinstance(Bc, int) else Bc.copy()
            if case.get('_hist'):
                # the result is asked for in a caller's buffer that already holds marks (all True: a buffer reused from an
                # earlier image): the extrema are what the definition says, not the union with what was there
                buf = np.ones(Al.shape, bool)
                got = np.asarray(getattr(mh, op)(Al, Bc, out=buf))
                if got is not buf:
                    f.append(dict(kind='property', key=f'{op}:out-not-returned', detail={}))
            else:
                got = np.asarray(getattr(mh, op)(Al, Bc))
            g = [int(x) for x in got.ravel(order='C').tolist()]
            if Bc0 is not None and not np.array_equal(Bc0, Bc):
                # `_remove_centre` works on a copy: the caller's structuring element keeps its centre
                f.append(dict(kind='model', key=f'{op}:bc-modified', detail=dict(before=Bc0.ravel().tolist(), after=Bc.ravel().tolist())))
            regular = drv['regular'] == '1'     # the proved-sound checkers starShapedB && symNbB of the Lean model
            if 'bcdtype' not in case and regular != _symmetric_star(case):
                f.append(dict(kind='model', key='regular-check-disagrees', detail=dict(lean=regular)))
            # locmax/locmin: the definition holds for every star-shaped neighbourhood (C14_locmax_eq_spec; boxes with an
            # even side by C14_locmax_eq_spec_any_box), regmax/regmin need symmetry as well
            use_spec = regular or (op.startswith('loc') and drv.get('star') == '1')
            if use_spec and g != spec:
                bad = [i for i, (a, b) in enumerate(zip(g, spec)) if a != b]
                f.append(dict(kind='property', key=f'{op}:{cls}', detail=dict(pixels=bad[:8], got=g, spec=spec)))
            elif g != model:
                bad = [i for i, (a, b) in enumerate(zip(g, model)) if a != b]
                f.append(dict(kind='model', key=f'{op}-model:{cls}', detail=dict(pixels=bad[:8], got=g, model=model)))
            if op.startswith('loc'):
                # arbitrary neighbourhoods: the proved clamped specification (C14_locmax_clamped_spec)
                cspec = _bools(drv['cspec'])
                if g != cspec:
                    bad = [i for i, (a, b) in enumerate(zip(g, cspec)) if a != b]
                    f.append(dict(kind='model', key=f'{op}-clamped:{cls}', detail=dict(pixels=bad[:8], got=g, cspec=cspec)))
            elif drv.get('fix') != '1':
                # the executable specification did not reach its fixed point (impossible by C14_regspec_eq_regional: a driver sanity check)
                f.append(dict(kind='model', key='regspec-not-fixed', detail={}))
            # the centre entry of Bc is irrelevant (C14_remove_centre_irrelevant): set / cleared / another non-zero value
            ci = _centre_index(case['bshape'])
            for v in (0, 1, 3):
                if case['bc'][ci] == v:
                    continue
                bc2 = list(case['bc']); bc2[ci] = v
                got2 = np.asarray(getattr(mh, op)(Al, _bc(case, case.get('bcdtype', A.dtype), bc2)))
                if not np.array_equal(got2, got):
                    f.append(dict(kind='property' if use_spec else 'model', key=f'{op}:centre-dependent',
                                  detail=dict(centre=v, got=g, other=[int(x) for x in got2.ravel().tolist()])))
                    break
            if op.startswith('reg') and regular:
                loc = np.asarray(getattr(mh, 'loc' + op[3:])(Al, Bc))
                if np.any(got & ~loc):
                    f.append(dict(kind='property', key=f'{op}-subset-loc:{cls}',
                                  detail=dict(reg=g, loc=[int(x) for x in loc.ravel().tolist()])))
                if got.dtype != np.bool_ or loc.dtype != np.bool_:
                    f.append(dict(kind='property', key=f'{op}:dtype', detail=dict(dtype=str(got.dtype))))
        elif op == 'close_holes':
            arg = case.get('bcarg', 'array')
            if arg == 'array':
                Bc = _bc(case, case.get('bcdtype', 'bool'))
            else:
                Bc = None if arg == 'none' else int(arg)
            got = np.asarray(mh.close_holes(Al, Bc))
            if got.dtype != np.bool_ or got.shape != Al.shape:
                f.append(dict(kind='property', key='close_holes:dtype', detail=dict(dtype=str(got.dtype))))
            g = [int(x) for x in got.ravel(order='C').tolist()]
            regular = drv['regular'] == '1'     # symNbB of the Lean model (the theorem needs no more; the spec is undirected)
            if regular and g != spec:
                bad = [i for i, (a, b) in enumerate(zip(g, spec)) if a != b]
                f.append(dict(kind='property', key=f'close_holes:{cls}', detail=dict(pixels=bad[:8], got=g, spec=spec)))
            elif g != model:
                f.append(dict(kind='model', key=f'close_holes-model:{cls}', detail=dict(got=g, model=model)))
        else:  # hitmiss
            Bc = _bc(case, case.get('bcdtype', case['dtype']))
            got = np.asarray(mh.hitmiss(Al, Bc))
            g = [int(x) for x in got.ravel(order='C').tolist()]
            regular = all(b % 2 == 1 for b in case['bshape'])
            closed = _bools(drv['closed'])
            if regular and g != spec:
                bad = [i for i, (a, b) in enumerate(zip(g, spec)) if a != b]
                f.append(dict(kind='property', key=f'hitmiss:{cls}', detail=dict(pixels=bad[:8], got=g, spec=spec)))
            elif g != closed:
                # every template shape: the proved closed form (C14_hitmiss_even_closed_form)
                f.append(dict(kind='model', key=f'hitmiss-closed:{cls}', detail=dict(got=g, closed=closed)))
            elif g != model:
                f.append(dict(kind='model', key=f'hitmiss-model:{cls}', detail=dict(got=g, model=model)))
            if any(b > n or (b == n and b % 2 == 0) for b, n in zip(case['bshape'], case['shape'])) and any(g):
                # C14_hitmiss_template_larger_is_false
                f.append(dict(kind='model', key=f'hitmiss-larger-not-zero:{cls}', detail=dict(got=g)))
            if drv.get('loopok') != '1':
                # the transliterated `slack` loop and its closed form `hmEvaluated` disagree on this image / template shape
                f.append(dict(kind='model', key='hitmiss-loop-vs-closed-form', detail=dict(shape=case['shape'], bshape=case['bshape'])))
            if drv['model'] != drv['modelrev']:
                f.append(dict(kind='model', key='hitmiss-order-dependence', detail=dict(a=drv['model'], b=drv['modelrev'])))
        if not np.array_equal(before, Al):
            f.append(dict(kind='property', key=f'{op}:input-modified', detail={}))
        res.append(dict(findings=f, nontrivial=bool(0 < sum(g) < len(g)), sig=line + case.get('layout', 'C'),
                        tags=dict(op=op, dtype=case['dtype'], ndim=len(case['shape']), layout=case.get('layout', 'C'),
                                  nbhd=('regular' if regular else 'irregular'), size=case.get('size', 'small'),
                                  cls=case.get('cls', '-'), magnitude=(_magnitude(case) if op in LOC_OPS else '-'))))
    return res


def _digits(s, n):
    a = np.frombuffer(s.encode(), dtype=np.uint8) - 48
    return a.reshape(-1, n)


def _eval_block(case):
    """exhaustive block: every binary image of `shape` (index range [lo,hi)) against the listed templates/elements"""
    import mahotas as mh
    op = case['block']
    shape = case['shape']
    n = int(np.prod(shape))
    lo, hi = case.get('lo', 0), case.get('hi', 1 << n)
    idx = np.arange(lo, hi, dtype=np.int64)
    imgs = ((idx[:, None] >> np.arange(n)[None, :]) & 1).astype(np.uint8).reshape((-1,) + tuple(shape))
    bshape = case['bshape']
    findings = []
    count = nontriv = 0
    kind = 'hmblock' if op == 'hitmiss' else 'holesblock'
    lines = [f"c14 kind={kind} shape={gen.enc_shape(shape)} lo={lo} hi={hi} bshape={gen.enc_shape(bshape)} "
             f"bc={gen.enc_arr(bc)}" for bc in case['bcs']]
    drvs = core.drive(lines)
    for bc, drv in zip(case['bcs'], drvs):
        if 'error' in drv:
            raise core.Infra('driver: ' + drv['error'])
        model = _digits(drv['model'], n)
        spec = _digits(drv['spec'], n)
        specwhich = 'property'
        if op == 'hitmiss' and drv.get('loopok') != '1' and len(findings) < 6:
            findings.append(dict(kind='model', key='hitmiss-loop-vs-closed-form', detail=dict(shape=list(shape), bshape=list(bshape)),
                                 case=dict(op=op, dtype='uint8', shape=list(shape), data=[0] * n, bshape=list(bshape), bc=list(bc), layout='C')))
        if op == 'hitmiss' and any(b % 2 == 0 for b in bshape):
            # even template sides are outside the statement: the proved closed form takes the place of the definition
            spec = _digits(drv['closed'], n)
            specwhich = 'model'
        if op == 'hitmiss':
            Bc = np.array(bc, np.uint8).reshape(bshape)
            got = np.stack([mh.hitmiss(im, Bc) for im in imgs]).reshape(-1, n)
        else:
            Bc = np.array(bc, bool).reshape(bshape)
            bimgs = imgs.astype(bool)
            got = np.stack([mh.close_holes(im, Bc) for im in bimgs]).reshape(-1, n).astype(np.uint8)
        count += len(imgs)
        nontriv += int(np.sum((got.sum(1) > 0) & (got.sum(1) < n)))
        bad = np.nonzero((got != spec).any(1))[0]
        badm = np.nonzero((got != model).any(1))[0]
        for which, rows, ref in ((specwhich, bad, spec), ('model', badm, model)):
            if len(rows) and len(findings) < 6:
                r = int(rows[0])
                c = dict(op=op, dtype='uint8' if op == 'hitmiss' else 'bool', shape=list(shape),
                         data=[int(x) for x in imgs[r].ravel().tolist()], bshape=list(bshape), bc=list(bc), layout='C')
                findings.append(dict(kind=which, key=(f'{op}:C' if which == 'property' else
                                                      f'{op}-closed:C' if ref is spec else f'{op}-model:C'),
                                     detail=dict(got=got[r].tolist(), expected=ref[r].tolist(), rows=len(rows)), case=c))
            if ref is spec and len(rows):
                break
    seen, keep = set(), []
    for f in findings:
        if f['key'] not in seen:
            seen.add(f['key'])
            keep.append(f)
    return dict(findings=keep, n=count, nontrivial_n=nontriv, nontrivial=False, sig=None,
                tags=dict(op=op + '-exhaustive-block', dtype='binary', ndim=len(shape)))


def evaluate(cases):
    out = []
    singles = [c for c in cases if 'block' not in c]
    sres = iter(_eval_single(singles))
    for c in cases:
        out.append(_eval_block(c) if 'block' in c else next(sres))
    return out


def _corpus():
    d = core.VERIF / 'corpus' / ID
    out = []
    if d.exists():
        for p in sorted(d.glob('*.json')):
            out.append(json.loads(p.read_text())['case'])
    return out


# ---------------------------------------------------------------------------------------------- generators

def _nbhd(rng, ndim, irregular_ok=True):
    """cross / box (the property's quantifier), sometimes an irregular one (model comparison only)"""
    r = rng.random()
    if r < 0.4:
        B = np.zeros((3,) * ndim, int)
        for idx in np.ndindex(*B.shape):
            if sum(abs(i - 1) for i in idx) <= 1:
                B[idx] = 1
    elif r < 0.75:
        B = np.ones((3,) * ndim, int)
    elif r < 0.85 and ndim >= 2:
        B = np.zeros((3,) * ndim, int)
        for idx in np.ndindex(*B.shape):
            if sum(abs(i - 1) for i in idx) <= 2:
                B[idx] = 1
    elif r < 0.88:
        B = np.ones([rng.choice([1, 3, 5]) for _ in range(ndim)], int)
    elif r < 0.93:     # all-ones box with even sides (star-shaped, not symmetric): C14_locmax_eq_spec_any_box
        B = np.ones([rng.choice([1, 2, 2, 3, 4]) for _ in range(ndim)], int)
    elif irregular_ok:
        B = np.array([rng.random() < 0.5 for _ in range(int(np.prod([rng.choice([2, 3, 4])] * ndim)))], int)
        side = int(round(len(B) ** (1.0 / ndim)))
        B = B.reshape((side,) * ndim)
    else:
        B = np.ones((3,) * ndim, int)
    bc = [int(x) for x in B.ravel().tolist()]
    # the centre entry as the caller happens to pass it: set, cleared (C14_remove_centre_irrelevant)
    if rng.random() < 0.4:
        bc[_centre_index(list(B.shape))] = rng.choice([0, 1])
    return list(B.shape), bc


def _palette(rng, dtype):
    dt = np.dtype(dtype)
    if dt == np.bool_:
        return [0, 1]
    k = rng.choice([2, 2, 3, 4, 6])
    if dt.kind == 'f':
        fi = np.finfo(dt)
        pool = [0.0, -0.0, 1.0, -1.0, 0.5, 2.5, -3.25, float(fi.max), float(fi.min), float(fi.tiny), -float(fi.tiny),
                float('inf'), float('-inf'), 1e-3, 7.0, 1.0 + float(fi.eps)]
        vals = [float(dt.type(v)) for v in rng.sample(pool, k)]
        return vals
    lo, hi = gen.dt_range(dtype)
    if hi >= 2 ** 53 and rng.random() < 0.4:
        # values that differ only beyond double precision: a kernel comparing through `double` sees plateaus where there are
        # strict extrema (2^53 .. 2^53+2, the top of the range, for int64 the bottom of the range and -2^53 - 1)
        return _big_neighbours(rng, lo, hi, k)
    pool = sorted({lo, hi, lo + 1, hi - 1, 0 if lo <= 0 else lo, 1, 2, 3, 5, hi // 2, max(lo, -1), max(lo, -7)})
    return rng.sample(pool, min(k, len(pool)))


def _big_neighbours(rng, lo, hi, k):
    fams = [[2 ** 53, 2 ** 53 + 1, 2 ** 53 + 2, 2 ** 53 - 1], [hi, hi - 1, hi - 2, hi - 3]]
    if hi > 2 ** 63:
        fams.append([2 ** 63, 2 ** 63 - 1, 2 ** 63 + 1, 2 ** 63 + 2])
    if lo < 0:
        fams += [[lo, lo + 1, lo + 2, lo + 3], [-2 ** 53, -2 ** 53 - 1, -2 ** 53 - 2, -2 ** 53 + 1]]
    fam = rng.choice(fams)
    return rng.sample(fam, min(k, len(fam))) if k <= len(fam) else fam + rng.sample(rng.choice(fams), k - len(fam))


def _magnitude(case):
    if np.dtype(case['dtype']).kind not in 'iu':
        return '-'
    return '>=2^53' if any(abs(int(v)) >= 2 ** 53 for v in case['data']) else '<2^53'


def _rand_extrema_case(rng):
    dtype = rng.choice(gen.INT_DTYPES + FLOATS + FLOATS)
    shape = list(gen.small_shape(rng, maxlen=7))
    pal = _palette(rng, dtype)
    n = int(np.prod(shape))
    if rng.random() < 0.5:
        data = [rng.choice(pal) for _ in range(n)]
    else:  # blocky plateaus: constant runs along the last axis
        data = []
        while len(data) < n:
            data += [rng.choice(pal)] * rng.randint(1, 4)
        data = data[:n]
    bshape, bc = _nbhd(rng, len(shape))
    case = dict(op=rng.choice(LOC_OPS), dtype=dtype, shape=shape, data=data, bshape=bshape, bc=bc,
                layout=rng.choice(gen.LAYOUTS))
    _bc_variation(rng, case)
    return case


def _bc_variation(rng, case):
    """Bc as callers pass it: non-zero entries other than 1 (the wrapper casts Bc to the dtype of the image; anything
    non-zero is a member), a Fortran-ordered / strided Bc, sometimes a dirty caller-provided output buffer"""
    r = rng.random()
    if case['dtype'] != 'bool' and r < 0.12:
        v = rng.choice([2, 3, 7])
        case['bc'] = [v if x else 0 for x in case['bc']]
    elif np.dtype(case['dtype']).kind != 'f' and r < 0.2:
        # Bc in a wider dtype than the image: `np.asanyarray(Bc, f.dtype)` wraps (256 is 0 in uint8, -1 is 255, bool: != 0)
        case['bcdtype'] = 'int64'
        pool = [256, -1, 255, 65536, -256, 1, 2, 2 ** 32, 128]
        case['bc'] = [rng.choice(pool) if x else 0 for x in case['bc']]
    elif r < 0.3:
        # Bc = None or an integer: get_structuring_elem builds the cross (translate_sizes: 4/8 in 2-D, 6 in 3-D)
        ndim = len(case['shape'])
        arg = rng.choice(['none', '0', '1', '2', '3', '4', '6', '8', '-1'])
        case['bcarg'] = arg
        v = 1 if arg == 'none' else int(arg)
        v = {(2, 4): 1, (2, 8): 2, (3, 6): 1}.get((ndim, v), v)
        case['bshape'] = [3] * ndim
        case['bc'] = [1 if sum(abs(i - 1) for i in idx) <= v else 0 for idx in np.ndindex(*case['bshape'])]
        case.pop('bclayout', None)
        return
    if rng.random() < 0.15:
        case['bclayout'] = rng.choice(['F', 'strided', 'negstride', 'transposed'])
    if rng.random() < 0.08:
        case['_hist'] = 1


def _rand_plateau_case(rng):
    """plateaus by construction (1-3 D): a background, rectangles of constant value placed on the border, in corners and
    inside; ties between separate plateaus; a plateau with one strictly better neighbour; +-inf for floats"""
    dtype = rng.choice(['uint8', 'int16', 'int64', 'uint64', 'float32', 'float64', 'float64', 'bool'])
    ndim = rng.choice([1, 2, 2, 2, 3])
    shape = [rng.randint(1, 7 if ndim < 3 else 4) for _ in range(ndim)]
    dt = np.dtype(dtype)
    if dt == np.bool_:
        levels = [0, 1]
    elif dt.kind == 'f':
        levels = sorted(rng.sample([float('-inf'), -2.5, -0.0, 0.0, 1.0, float(np.finfo(dt).max), float('inf')], 4))
    else:
        lo, hi = gen.dt_range(dtype)
        if hi >= 2 ** 53 and rng.random() < 0.5:
            levels = sorted(_big_neighbours(rng, lo, hi, 4))
        else:
            levels = sorted(rng.sample(sorted({lo, lo + 1, 0 if lo <= 0 else lo + 2, 5, 9, hi - 1, hi}), 4))
    A = np.empty(shape, dtype=object)
    A[...] = rng.choice(levels[:2] if len(levels) > 2 else levels)
    for _ in range(rng.randint(1, 4)):
        sl = []
        for n in shape:
            w = rng.randint(1, n)
            where = rng.choice(['lo', 'hi', 'any'])
            a = 0 if where == 'lo' else n - w if where == 'hi' else rng.randint(0, n - w)
            sl.append(slice(a, a + w))
        A[tuple(sl)] = rng.choice(levels)          # the same level may be drawn twice: tied plateaus
    if rng.random() < 0.4:                          # one pixel that spoils (or crowns) a plateau
        A[tuple(rng.randint(0, n - 1) for n in shape)] = rng.choice(levels)
    bshape, bc = _nbhd(rng, ndim, irregular_ok=False)
    case = dict(op=rng.choice(['regmax', 'regmin', 'regmax', 'regmin', 'locmax', 'locmin']), dtype=dtype, shape=shape,
                data=A.ravel().tolist(), bshape=bshape, bc=bc, layout=rng.choice(gen.LAYOUTS), cls='plateau')
    _bc_variation(rng, case)
    return case


def _rand_holes_case(rng):
    shape = [rng.randint(1, 9), rng.randint(1, 9)]
    n = shape[0] * shape[1]
    p = rng.choice([0.3, 0.5, 0.7])
    data = [1 if rng.random() < p else 0 for _ in range(n)]
    if rng.random() < 0.4 and min(shape) >= 3:   # draw a closed ring so that a hole exists
        A = np.array(data).reshape(shape)
        y0, x0 = rng.randint(0, shape[0] - 3), rng.randint(0, shape[1] - 3)
        y1, x1 = rng.randint(y0 + 2, shape[0] - 1), rng.randint(x0 + 2, shape[1] - 1)
        A[y0, x0:x1 + 1] = 1; A[y1, x0:x1 + 1] = 1; A[y0:y1 + 1, x0] = 1; A[y0:y1 + 1, x1] = 1
        A[y0 + 1:y1, x0 + 1:x1] = 0
        data = [int(x) for x in A.ravel().tolist()]
    dtype = rng.choice(['bool', 'bool', 'uint8', 'int32', 'float64'])
    case = dict(op='close_holes', dtype=dtype, shape=shape, data=data, layout=rng.choice(gen.LAYOUTS))
    r = rng.random()
    if r < 0.25:
        # Bc = None or an integer: get_structuring_elem builds the element (4 -> 1 -> cross, 8 -> 2 -> box, 0 -> centre only)
        arg = rng.choice(['none', '0', '1', '2', '3', '4', '8'])
        case['bcarg'] = arg
        case['bshape'] = [3, 3]
        case['bc'] = ([0, 0, 0, 0, 1, 0, 0, 0, 0] if arg == '0' else list(CROSS) if arg in ('none', '1', '4') else list(BOX))
        case['cls'] = 'bc-int'
    elif r < 0.5:
        # any 2-D array: sides 1-5 (even sides, rows, columns), any entries; dtype and layout of Bc as the caller has them
        bshape = [rng.randint(1, 5), rng.randint(1, 5)]
        q = rng.choice([0.4, 0.7, 1.0])
        case['bshape'] = bshape
        case['bc'] = [1 if rng.random() < q else 0 for _ in range(bshape[0] * bshape[1])]
        case['bcdtype'] = rng.choice(['bool', 'uint8', 'int64', 'float64'])
        if case['bcdtype'] != 'bool' and rng.random() < 0.5:
            v = rng.choice([2, 3, 200]) if case['bcdtype'] != 'float64' else rng.choice([0.5, -1.0, 2.0])
            case['bc'] = [v if x else 0 for x in case['bc']]
        case['bclayout'] = rng.choice(['C', 'C', 'F', 'strided', 'negstride', 'transposed'])
        case['cls'] = 'bc-array'
    else:
        case['bshape'], case['bc'] = _nbhd(rng, 2)
    if dtype != 'bool' and rng.random() < 0.4:
        # "interpreted as a binary image": any non-zero value is foreground
        v = dict(uint8=[2, 255], int32=[-1, 7], float64=[0.5, -3.0, float('inf')])[dtype]
        case['data'] = [rng.choice(v) if x else 0 for x in case['data']]
    return case


def _rand_hitmiss_nd_case(rng):
    """1-3 D, template sides 1-5 (even sides included), on purpose templates larger than the image on every subset of the
    axes, templates equal to the image side; judged against the proved closed form (odd sides: the definition)"""
    ndim = rng.choice([1, 2, 2, 3])
    maxn = {1: 9, 2: 7, 3: 4}[ndim]
    shape = [rng.randint(1, maxn) for _ in range(ndim)]
    mode = rng.choice(['fit', 'fit', 'larger', 'equal', 'free'])
    bshape = []
    larger_axes = [rng.random() < 0.5 for _ in range(ndim)]
    if mode == 'larger' and not any(larger_axes):
        larger_axes[rng.randrange(ndim)] = True
    for ax, n in enumerate(shape):
        if mode == 'fit':
            b = rng.randint(1, min(n, 5))
        elif mode == 'larger':
            b = rng.randint(n + 1, n + 3) if larger_axes[ax] else rng.randint(1, min(n, 5))
        elif mode == 'equal':
            b = n if larger_axes[ax] else rng.randint(1, min(n, 5))
        else:
            b = rng.randint(1, 5)
        bshape.append(b)
    n = int(np.prod(shape))
    nb = int(np.prod(bshape))
    p = rng.choice([0.2, 0.5, 0.8, 1.0])
    data = [1 if rng.random() < p else 0 for _ in range(n)]
    if all(b <= m for b, m in zip(bshape, shape)) and rng.random() < 0.6:   # cut the template out of the image
        A = np.array(data).reshape(shape)
        at = [rng.randint(0, m - b) for b, m in zip(bshape, shape)]
        sub = A[tuple(slice(a, a + b) for a, b in zip(at, bshape))]
        bc = [int(v) if rng.random() < 0.7 else 2 for v in sub.ravel().tolist()]
    else:
        bc = [rng.choice([2, 2, 2, 0, 1]) for _ in range(nb)]
    dtype = rng.choice(['bool', 'uint8', 'uint8', 'int32', 'uint16', 'int64'])
    bcdtype = rng.choice([dtype, 'uint8', 'int64']) if dtype != 'bool' else rng.choice(['uint8', 'int32'])
    case = dict(op='hitmiss', dtype=dtype, bcdtype=bcdtype, shape=shape, data=data, bshape=bshape, bc=bc,
                layout=rng.choice(gen.LAYOUTS), cls='hm-' + mode + ('-even' if any(b % 2 == 0 for b in bshape) else '-odd'))
    if rng.random() < 0.2:
        case['bclayout'] = rng.choice(['F', 'strided', 'negstride', 'transposed'])
    return case


def _rand_hitmiss_case(rng):
    shape = [rng.randint(1, 8), rng.randint(1, 8)]
    n = shape[0] * shape[1]
    p = rng.choice([0.2, 0.5, 0.8])
    data = [1 if rng.random() < p else 0 for _ in range(n)]
    bshape = rng.choice([[3, 3], [3, 3], [1, 3], [3, 1], [5, 3], [3, 5], [1, 1], [2, 2], [2, 3], [3, 4], [5, 5]])
    style = rng.random()
    nb = bshape[0] * bshape[1]
    if style < 0.5:   # mostly "don't care": matches are likely
        bc = [rng.choice([2, 2, 2, 0, 1]) for _ in range(nb)]
    elif style < 0.7 and shape[0] >= bshape[0] and shape[1] >= bshape[1]:   # cut the template out of the image
        A = np.array(data).reshape(shape)
        y, x = rng.randint(0, shape[0] - bshape[0]), rng.randint(0, shape[1] - bshape[1])
        bc = [int(v) if rng.random() < 0.8 else 2 for v in A[y:y + bshape[0], x:x + bshape[1]].ravel().tolist()]
    else:
        bc = [rng.choice([0, 1, 2]) for _ in range(nb)]
    dtype = rng.choice(['bool', 'uint8', 'uint8', 'int32', 'uint16', 'int64'])
    bcdtype = rng.choice([dtype, 'uint8', 'int64']) if dtype != 'bool' else rng.choice(['uint8', 'int32'])
    return dict(op='hitmiss', dtype=dtype, bcdtype=bcdtype, shape=shape, data=data, bshape=bshape, bc=bc,
                layout=rng.choice(gen.LAYOUTS))


def _large_case(rng, which):
    """images large enough for long floods (hundreds of stack entries) and many rows of border skipping"""
    h, w = rng.randint(18, 40), rng.randint(18, 40)
    n = h * w
    layout = rng.choice(gen.LAYOUTS)
    if which == 'holes':
        p = rng.choice([0.42, 0.5, 0.58])
        data = [1 if rng.random() < p else 0 for _ in range(n)]
        bshape, bc = rng.choice([([3, 3], CROSS), ([3, 3], BOX)])
        return dict(op='close_holes', dtype='bool', shape=[h, w], data=data, bshape=bshape, bc=list(bc), layout=layout, size='large')
    if which == 'reg':
        dtype = rng.choice(['uint8', 'int32', 'float64', 'float32'])
        pal = [1, 1, 1, 2, 3] if rng.random() < 0.5 else [0, 1]
        data = []
        while len(data) < n:
            data += [rng.choice(pal)] * rng.randint(1, 9)
        bshape, bc = rng.choice([([3, 3], CROSS), ([3, 3], BOX)])
        return dict(op=rng.choice(['regmax', 'regmin']), dtype=dtype, shape=[h, w], data=data[:n], bshape=bshape, bc=list(bc),
                    layout=layout, size='large')
    A = np.array([1 if rng.random() < 0.5 else 0 for _ in range(n)]).reshape(h, w)
    bshape = rng.choice([[3, 3], [5, 5], [1, 3], [3, 1], [7, 3]])
    y, x = rng.randint(0, h - bshape[0]), rng.randint(0, w - bshape[1])
    bc = [int(v) if rng.random() < 0.7 else 2 for v in A[y:y + bshape[0], x:x + bshape[1]].ravel().tolist()]
    return dict(op='hitmiss', dtype='uint8', bcdtype='uint8', shape=[h, w], data=[int(v) for v in A.ravel().tolist()],
                bshape=bshape, bc=bc, layout=layout, size='large')


THRESHOLDS = [255, 256, 257, 32767, 32768, 32769, 65535, 65536, 65537]


def _threshold_case(rng, which, N, gap=None):
    """a plateau / background region / hole / row of N (+ a little) pixels, N around 2^8, 2^15, 2^16: a counter, flat index or
    stack index narrowed to 8 or 16 bits passes every small case and fails here"""
    layout = rng.choice(['C', 'C', 'F', 'readonly'])
    if which in ('reg', 'loc'):
        dtype = rng.choice(['uint8', 'int16', 'int32', 'float32', 'float64', 'uint16'])
        form = rng.choice(['row', 'row2', 'col2', 'rect'])
        if form == 'row':
            shape = [N + rng.choice([0, 1, 2])]
        elif form == 'row2':
            shape = [1, N + rng.choice([0, 1, 2])]
        elif form == 'col2':
            shape = [N + rng.choice([0, 1, 2]), 1]
        else:
            h = rng.choice([2, 3, 255, 256, 257]) if N > 1000 else rng.choice([2, 3, 15, 16, 17])
            shape = [h, -(-N // h) + rng.choice([0, 1])]
            if rng.random() < 0.5:
                shape = shape[::-1]
        n = int(np.prod(shape))
        if which == 'reg':
            data = [1] * n                                   # one plateau of n (minus a few) pixels ...
            op = rng.choice(['regmax', 'regmin'])
            k = rng.choice([1, 1, 2, 4])                     # ... and a few distinct pixels (first / last / index N included);
            for j in range(k):                               # the first one, at the far end, spoils the plateau: the scan must
                if j == 0:                                   # reach it and the flood must unmark all n - k pixels
                    data[rng.choice([n - 1, min(n - 1, N), n - 2])] = 2 if op == 'regmax' else 0
                else:
                    i = rng.choice([0, n - 1, min(n - 1, N - 1), rng.randrange(n)])
                    if data[i] == 1:
                        data[i] = rng.choice([0, 2])
        else:
            data = []
            while len(data) < n:
                data += [rng.choice([0, 1, 2])] * rng.choice([1, 1, 2, 300])
            data = data[:n]
            op = rng.choice(['locmax', 'locmin'])
        ndim = len(shape)
        bshape = [3] * ndim
        if ndim == 1 or rng.random() < 0.5:
            bc = [1 if sum(abs(i - 1) for i in idx) <= 1 else 0 for idx in np.ndindex(*bshape)]
        else:
            bc = [1] * (3 ** ndim)
        return dict(op=op, dtype=dtype, shape=shape, data=data, bshape=bshape, bc=bc, layout=layout, size='threshold')
    if which == 'holes':
        # the image border is foreground, everything inside background: a hole of (h-2)(w-2) pixels that must be filled;
        # with a gap in the border the flood enters and takes the same number of pixels (nothing is filled)
        if rng.random() < 0.5:
            h, w = 3, N + 2
        else:
            h = rng.choice([258, 257, 259]) if N > 1000 else rng.choice([18, 17, 10])
            w = -(-N // (h - 2)) + 2
        if rng.random() < 0.5:
            h, w = w, h
        A = np.zeros((h, w), int)
        A[0, :] = 1; A[-1, :] = 1; A[:, 0] = 1; A[:, -1] = 1
        if (rng.random() < 0.5) if gap is None else gap:
            r = rng.random()
            if r < 0.4:
                A[h - 1, w - 2] = 0          # the last border pixels the seeding loop visits
            elif r < 0.7:
                A[rng.choice([0, h - 1]), rng.randint(1, w - 2)] = 0
            else:
                A[rng.randint(1, h - 2), rng.choice([0, w - 1])] = 0
        for _ in range(rng.choice([0, 0, 3])):
            A[rng.randint(1, h - 2), rng.randint(1, w - 2)] = 1
        bshape, bc = rng.choice([([3, 3], CROSS), ([3, 3], BOX)])
        return dict(op='close_holes', dtype='bool', shape=[h, w], data=[int(x) for x in A.ravel().tolist()], bshape=bshape,
                    bc=list(bc), layout=layout, size='threshold')
    # hitmiss on a long row
    shape = rng.choice([[N + 2], [1, N + 2], [2, N + 1], [N + 1, 2]])
    n = int(np.prod(shape))
    data = [1 if rng.random() < 0.6 else 0 for _ in range(n)]
    bshape = [rng.choice([1, 2, 3]) if m > 3 else 1 for m in shape]
    bc = [rng.choice([1, 1, 0, 2]) for _ in range(int(np.prod(bshape)))]
    return dict(op='hitmiss', dtype='uint8', bcdtype='uint8', shape=shape, data=data, bshape=bshape, bc=bc, layout=layout,
                size='threshold')


CROSS = [0, 1, 0, 1, 1, 1, 0, 1, 0]
BOX = [1] * 9


def _tern(i, n):
    out = []
    for _ in range(n):
        out.append(i % 3)
        i //= 3
    return out


def cases(rng, tier):
    corpus = list(_corpus()) if tier != 'search' else []
    out = []
    nrand = dict(quick=(1500, 500, 700), thorough=(20000, 5000, 8000), search=(8000, 2000, 3000))[tier]
    # exhaustive binary scope
    for h in (1, 2, 3):
        for w in (1, 2, 3, 4):
            out.append(dict(block='close_holes', shape=[h, w], bshape=[3, 3], bcs=[CROSS, BOX]))
    small_t = [([1, 3], _tern(i, 3)) for i in range(27)] + [([3, 1], _tern(i, 3)) for i in range(27)]
    shapes_small = [[h, w] for h in (1, 2, 3) for w in (1, 2, 3, 4)]
    for shp in shapes_small:
        for bsh in ([1, 3], [3, 1]):
            out.append(dict(block='hitmiss', shape=shp, bshape=bsh, bcs=[t for b, t in small_t if b == bsh]))
    # round 4: even template sides, 1-D and 3-D, against the closed form (odd sides: the definition)
    t22 = [_tern(i, 4) for i in range(81)]
    for shp in shapes_small:
        out.append(dict(block='hitmiss', shape=shp, bshape=[1, 2], bcs=[_tern(i, 2) for i in range(9)]))
        out.append(dict(block='hitmiss', shape=shp, bshape=[2, 1], bcs=[_tern(i, 2) for i in range(9)]))
        out.append(dict(block='hitmiss', shape=shp, bshape=[2, 2],
                        bcs=t22 if tier == 'thorough' or shp in ([2, 2], [2, 3], [3, 3]) else rng.sample(t22, 12)))
    for nlen in range(1, 9):
        for b in (1, 2, 3, 4, 5):
            ts = [_tern(i, b) for i in range(3 ** b)]
            out.append(dict(block='hitmiss', shape=[nlen], bshape=[b], bcs=ts if tier == 'thorough' else rng.sample(ts, min(len(ts), 27))))
    for shp, bsh in (([2, 2, 3], [1, 1, 3]), ([2, 2, 3], [2, 2, 2]), ([2, 3, 2], [1, 3, 1]), ([3, 2, 2], [2, 1, 2]), ([2, 2, 3], [1, 2, 3])):
        nt = 3 ** int(np.prod(bsh))
        ids = list(range(nt)) if (tier == 'thorough' and nt <= 729) else rng.sample(range(nt), min(nt, 10 if tier == 'quick' else 60))
        out.append(dict(block='hitmiss', shape=shp, bshape=bsh, bcs=[_tern(i, int(np.prod(bsh))) for i in ids]))
    all33 = list(range(3 ** 9))
    if tier == 'thorough':
        step = 24
        for lo in range(0, len(all33), step):
            out.append(dict(block='hitmiss', shape=[3, 4], bshape=[3, 3], bcs=[_tern(i, 9) for i in all33[lo:lo + step]]))
        for shp in ([3, 3], [2, 4], [1, 4], [3, 2]):
            for lo in range(0, len(all33), 729):
                out.append(dict(block='hitmiss', shape=shp, bshape=[3, 3], bcs=[_tern(i, 9) for i in all33[lo:lo + 729]]))
    else:
        pick = sorted(rng.sample(all33, 48 if tier == 'quick' else 200))
        for lo in range(0, len(pick), 3):
            out.append(dict(block='hitmiss', shape=[3, 4], bshape=[3, 3], bcs=[_tern(i, 9) for i in pick[lo:lo + 3]]))
        out.append(dict(block='hitmiss', shape=[3, 3], bshape=[3, 3], bcs=[_tern(i, 9) for i in rng.sample(all33, 60)]))
    # structured random cases
    for _ in range(nrand[0]):
        out.append(_rand_extrema_case(rng))
    for _ in range(nrand[1]):
        out.append(_rand_holes_case(rng))
    for _ in range(nrand[2]):
        out.append(_rand_hitmiss_case(rng))
    for _ in range(nrand[2]):
        out.append(_rand_hitmiss_nd_case(rng))
    for _ in range(nrand[0] // 3):
        out.append(_rand_plateau_case(rng))
    for i in range(dict(quick=12, thorough=90, search=30)[tier]):
        out.append(_large_case(rng, ('holes', 'reg', 'hitmiss')[i % 3]))
    # size-threshold stream: quick one case per operation family (2^16 twice, the others drawn), thorough every threshold
    kinds = ('reg', 'holes', 'loc', 'hitmiss')
    if tier == 'quick':
        # the flood users always at 2^16 (a hole that is filled and a region the flood enters through a gap), the others drawn
        out.append(_threshold_case(rng, 'reg', rng.choice([65536, 65537])))
        out.append(_threshold_case(rng, 'holes', rng.choice([65536, 65537]), gap=True))
        out.append(_threshold_case(rng, 'holes', rng.choice([65535, 65536, 65537]), gap=False))
        out.append(_threshold_case(rng, 'loc', rng.choice(THRESHOLDS)))
        out.append(_threshold_case(rng, 'hitmiss', rng.choice([32767, 32768, 65535, 65536, 65537])))
    else:
        for i, N in enumerate(THRESHOLDS * (3 if tier == 'thorough' else 1)):
            out.append(_threshold_case(rng, kinds[i % 4] if tier != 'thorough' else kinds[(i + i // 9) % 4], N))
    rng.shuffle(out)     # spread the heavy exhaustive blocks over the worker chunks (deterministic: same rng)
    return corpus + out


def shrink(case):
    if 'block' in case or case.get('size') == 'threshold':
        return      # a size-threshold witness is only a witness at its size
    shape, data = case['shape'], case['data']
    A = np.array(data, dtype=object).reshape(shape)
    for ax in range(len(shape)):
        if shape[ax] > 1:
            for j in (shape[ax] - 1, 0):
                B = np.delete(A, j, axis=ax)
                yield dict(case, shape=list(B.shape), data=B.ravel().tolist())
    if case.get('layout', 'C') not in ('C', 'F'):
        yield dict(case, layout='F')
    vals = sorted(set(data), key=lambda v: (abs(v), v))
    if len(vals) > 1:
        small = [0, 1, 2, 3]
        for i, v in enumerate(vals):
            if i < len(small) and v != small[i] and case['op'] in LOC_OPS and np.dtype(case['dtype']) != np.bool_:
                # order-preserving renaming of the palette (only if it keeps the order)
                ren = {u: small[j] for j, u in enumerate(sorted(set(data)))} if len(set(data)) <= 4 else None
                if ren and np.dtype(case['dtype']).kind in 'uif' and min(ren.values()) >= 0:
                    yield dict(case, data=[ren[u] for u in data])
                break
    for i, v in enumerate(data):
        if v != 0 and case['op'] in ('close_holes', 'hitmiss'):
            d = list(data); d[i] = 0
            yield dict(case, data=d)
    if case['op'] == 'hitmiss':
        for i, v in enumerate(case['bc']):
            if v != 2:
                b = list(case['bc']); b[i] = 2
                yield dict(case, bc=b)
