"""C15 — thinning preserves topology and is idempotent; euler = components - holes; convex hull."""
from __future__ import annotations
import json
import numpy as np
from .. import core, gen

ID = 'C15'
FOUNDATIONS = ['harness.foundation.cscalar', 'harness.foundation.pybody']   # ties of the C++ helper functions the model rests on (generated from their text)
LEVEL = json.loads((core.VERIF / 'harness' / 'props' / 'meta' / 'C15.json').read_text())['category'] \
    if (core.VERIF / 'harness' / 'props' / 'meta' / 'C15.json').exists() else 'other'
RULE = ('corpus; exhaustive scope: every binary image of every shape r x c with r<=3,c<=5 / r<=5,c<=3 and 4x4 '
        '(thorough: all of them; quick: a seeded slice), each through thin (twice), euler (n=8 and n=4), convexhull and '
        'fill_convexhull; random images up to 40x40 at densities 0.05..0.95, blobs/rings/lines with objects on every '
        'edge, empty and full images, bool and 0/1 integer dtypes, 6 memory layouts. Non-trivial = the image has a '
        'foreground pixel and thin/hull/euler are not all trivial (thin changes it, or it has a hole, or >3 hull '
        'corners); distinct = distinct (shape, dtype, layout, pixels).')
ASSUMPTIONS = ['thin with an explicit max_iter is judged on subset / component count / model only (idempotence is stated for full thinning)',
               '2-D images whose values are 0/1 (bool or integer dtype); euler in its default border mode '
               "(mode='constant': the image is surrounded by background)",
               'convexhull/fill_convexhull are given C-contiguous or strided *writable* inputs (read-only inputs are '
               'rejected by the native guard: a C08 matter, not examined here)',
               'hull corners are compared as a polygon with weak convexity: collinear corners are accepted, the order '
               'and starting corner are not prescribed (only the model comparison looks at the order)',
               'the bit-quad identity (Gray) itself is not proved: it is validated exhaustively on the small scope and '
               'randomly against flood-fill component/hole counts computed by the Lean driver',
               'array sizes < 2^31']
EXHAUSTIVE = {'thorough': True}
TRUSTED = ['numpy (array construction, layout views)',
           'the flood-fill component counter of Model/C15.lean (the oracle for "number of components/holes")']
EXPLANATION = ('thin: subset, equal number of 8-components (counted by the driver on input and on the real output), '
               'thin(thin(x)) == thin(x) on the real code, and equality with the Lean model of the 8-pass loop. euler: '
               'real value == components - holes (driver flood fill) and == the bit-quad model. convexhull: the '
               'statement predicate hullOK evaluated by the driver on the real corners; fill_convexhull: superset, same '
               'shape and dtype.')

HULL_LAYOUTS = [l for l in gen.LAYOUTS if l != 'readonly']


def _arr(case):
    return np.array(case['data'], dtype=np.uint8).reshape(case['shape']).astype(case.get('dtype', 'bool'))


EMODES = {'nearest': 0, 'wrap': 1, 'reflect': 2, 'mirror': 3, 'constant': 4, 'ignore': 5}


def _lines(shape, data, thin_got=None, hull_got=None, maxiter=-1, emode=None):
    sh = gen.enc_shape(shape)
    d = ','.join(map(str, data)) if len(data) else '-'
    l1 = f'c15 kind=thin shape={sh} data={d} maxiter={maxiter}'
    if thin_got is not None:
        l1 += ' got=' + (','.join(map(str, thin_got)) if len(thin_got) else '-')
    l2 = f'c15 kind=euler shape={sh} data={d}' + (f' mode={EMODES[emode]}' if emode else '')
    l3 = f'c15 kind=hull shape={sh} data={d}'
    if hull_got is not None:
        l3 += ' got=' + (','.join(map(str, hull_got)) if len(hull_got) else '-')
    return [l1, l2, l3]


def _run_real(A, hull_ok=True, maxiter=None, emode=None):
    """all real-code observations for one image"""
    import mahotas as mh
    from mahotas.polygon import convexhull, fill_convexhull
    out = {}
    before = A.copy()
    try:
        t = mh.thin(A) if maxiter is None else mh.thin(A, maxiter)
        out['thin'] = t
        # idempotence is stated for full thinning only
        out['thin2'] = mh.thin(t) if maxiter is None else t
        out['e8'] = mh.euler(A, 8)
        out['e4'] = mh.euler(A, 4)
        if emode is not None:       # round 4: the `mode` argument (only 'constant', the default, is what the statement speaks about)
            out['em8'] = mh.euler(A, 8, mode=emode)
            out['em4'] = mh.euler(A, 4, mode=emode)
        if hull_ok:
            out['hull'] = np.asarray(convexhull(A))
    except Exception as e:              # a documented call that raises is a finding, not an infrastructure error
        return dict(raised=f'{type(e).__name__}: {e}'[:300], exc=type(e).__name__)
    if hull_ok:
        try:
            out['fill'] = fill_convexhull(A)
        except Exception as e:          # a documented call that raises: judged below
            out['fill'] = None
            out['fill_err'] = f'{type(e).__name__}: {e}'
    out['modified'] = not np.array_equal(before, A)
    return out


def _judge(case, A, real, drv_thin, drv_euler, drv_hull):
    f = []
    dt = 'bool' if A.dtype == np.bool_ else 'nonbool'
    data = case['data']
    # ---- thin
    t = real['thin']
    tg = [int(v != 0) for v in t.ravel().tolist()]
    if t.shape != A.shape or t.dtype != A.dtype:
        f.append(dict(kind='property', key='thin:shape-dtype', detail=dict(shape=list(t.shape), dtype=str(t.dtype))))
    else:
        if drv_thin.get('subset') != '1':
            f.append(dict(kind='property', key='thin:subset', detail=dict(input=data, got=tg)))
        elif drv_thin.get('nin') != drv_thin.get('nout'):
            f.append(dict(kind='property', key='thin:components',
                          detail=dict(input=data, got=tg, nin=drv_thin.get('nin'), nout=drv_thin.get('nout'))))
        if not np.array_equal(real['thin2'], t):
            f.append(dict(kind='property', key='thin:idempotent',
                          detail=dict(input=data, once=tg, twice=[int(v != 0) for v in real['thin2'].ravel().tolist()])))
        if not f and tg != core.ints(drv_thin['model']):
            f.append(dict(kind='model', key='thin-model', detail=dict(input=data, got=tg, model=core.ints(drv_thin['model']))))
    # ---- euler
    den = int(drv_euler['den'])
    for n in (8, 4):
        got = float(real[f'e{n}'])
        spec = int(drv_euler[f'spec{n}'])
        model = int(drv_euler[f'm{n}'])
        if got != spec:
            pinned = int(drv_euler[f'p{n}'])
            cls = 'border-quads' if (got * den == pinned and model == spec * den) else 'other'
            f.append(dict(kind='property', key=f'euler:n={n}:{cls}',
                          detail=dict(input=data, got=got, spec_components_minus_holes=spec,
                                      components=drv_euler[f'c{n}'], holes=drv_euler['h4' if n == 8 else 'h8'])))
        elif got * den != model:
            f.append(dict(kind='model', key=f'euler-model:n={n}', detail=dict(input=data, got=got, model4=model)))
        if f'em{n}' in real and f'mm{n}' in drv_euler:
            gm = float(real[f'em{n}'])
            if case.get('emode') == 'constant' and gm != got:
                # the default mode passed explicitly is the same call
                f.append(dict(kind='property', key=f'euler:n={n}:explicit-constant-mode', detail=dict(input=data, default=got, explicit=gm)))
            elif gm * den != int(drv_euler[f'mm{n}']):
                f.append(dict(kind='model', key=f"euler-mode-model:{case.get('emode')}:n={n}",
                              detail=dict(input=data, got=gm, model4=int(drv_euler[f'mm{n}']))))
    # ---- hull
    if 'hull' in real:
        h = real['hull']
        if drv_hull.get('ok') != '1':
            f.append(dict(kind='property', key='convexhull:polygon',
                          detail=dict(input=data, got=h.ravel().tolist(), model=drv_hull.get('model'))))
        elif [int(v) for v in h.ravel().tolist()] != core.ints(drv_hull['model']):
            f.append(dict(kind='model', key='hull-model',
                          detail=dict(input=data, got=h.ravel().tolist(), model=drv_hull.get('model'))))
        if drv_hull.get('modelok') != '1':
            f.append(dict(kind='model', key='hull-model-not-ok', detail=dict(input=data, model=drv_hull.get('model'))))
        fl = real['fill']
        if fl is None:
            f.append(dict(kind='property', key=f'fill_convexhull:{dt}-input',
                          detail=dict(input=data, raised=real.get('fill_err'))))
        elif fl.shape != A.shape or fl.dtype != A.dtype:
            f.append(dict(kind='property', key='fill_convexhull:shape-dtype', detail=dict(dtype=str(fl.dtype))))
        elif not np.all((fl != 0) | (A == 0)):
            f.append(dict(kind='property', key=f'fill_convexhull:{dt}-input',
                          detail=dict(input=data, dtype=str(A.dtype), got=[int(v) for v in fl.ravel().tolist()],
                                      what='not a superset of the input')))
        elif dt == 'bool' and 'fill' in drv_hull and [int(v) for v in fl.ravel().tolist()] != core.ints(drv_hull['fill']):
            # the filled content is not fixed by the statement: correspondence only (non-bool inputs: open known finding)
            f.append(dict(kind='model', key='fill-model',
                          detail=dict(input=data, got=[int(v) for v in fl.ravel().tolist()], model=drv_hull['fill'])))
    if real['modified']:
        f.append(dict(kind='property', key='input-modified', detail={}))
    return f


def _nontrivial(A, real, drv_euler):
    if not A.any():
        return False
    changed = not np.array_equal(real['thin'] != 0, A != 0)
    holes = drv_euler.get('h4', '0') != '0'
    big = 'hull' in real and len(real['hull']) > 3
    return bool(changed or holes or big)


def _raised_result(case, real):
    return dict(findings=[dict(kind='property', key=f"raised:{real['exc']}", detail=dict(error=real['raised'], input=case['data'][:64]))],
                nontrivial=False, sig='raised' + str(hash(tuple(case['data']))),
                tags=dict(dtype=case.get('dtype', 'bool'), layout=case.get('layout', 'C'), kind=case.get('gen', 'corpus')))


def _eval_single(cases):
    res, pend, lines, raised = [], [], [], []
    for case in cases:
        A0 = _arr(case)
        layout = case.get('layout', 'C')
        A = gen.relayout(A0, layout)
        real = _run_real(A, hull_ok=(layout != 'readonly'), maxiter=case.get('maxiter'), emode=case.get('emode'))
        if 'raised' in real:
            raised.append((case, real))
            continue
        tg = [int(v != 0) for v in real['thin'].ravel().tolist()]
        hg = [int(v) for v in real['hull'].ravel().tolist()] if 'hull' in real else None
        lines += _lines(case['shape'], case['data'], tg, hg, maxiter=(-1 if case.get('maxiter') is None else case['maxiter']), emode=case.get('emode'))
        pend.append((case, A, real, layout))
    drvs = core.drive(lines)
    byid = {}
    for case, real in raised:
        byid[id(case)] = _raised_result(case, real)
    for k, (case, A, real, layout) in enumerate(pend):
        drv = drvs[3 * k:3 * k + 3]
        f = _judge(case, A, real, *drv)
        byid[id(case)] = (dict(findings=f, nontrivial=_nontrivial(A, real, drv[1]),
                        sig=f"{case['shape']}{case.get('dtype', 'bool')}{layout}{hash(tuple(case['data']))}",
                        tags=dict(dtype=case.get('dtype', 'bool'), layout=layout, kind=case.get('gen', 'corpus'),
                                  max_iter=('default' if case.get('maxiter') is None else str(case['maxiter'])),
                                  euler_mode=case.get('emode', 'default'),
                                  size=('<=15px' if A.size <= 15 else '<=100px' if A.size <= 100 else '>100px'),
                                  fill=('empty' if not A.any() else 'full' if A.all() else 'mixed'))))
    return [byid[id(c)] for c in cases]


def _eval_block(case):
    """exhaustive block: the boolean images `imgs` (bit patterns) of `shape`"""
    shape = case['shape']
    n = shape[0] * shape[1]
    imgs = case['imgs'] if case.get('imgs') is not None else range(case['lo'], case['hi'])
    findings, count, nontriv = [], 0, 0
    batch = []
    for ii in imgs:
        data = [(ii >> k) & 1 for k in range(n)]
        A = np.array(data, bool).reshape(shape)
        real = _run_real(A)
        if 'raised' in real:
            c = dict(shape=list(shape), data=data, dtype='bool', layout='C', gen='exhaustive')
            x = _raised_result(c, real)['findings'][0]
            x['case'] = c
            findings.append(x)
            count += 1
            continue
        batch.append((data, A, real))
    lines = []
    for data, A, real in batch:
        lines += _lines(shape, data, [int(v) for v in real['thin'].ravel().tolist()],
                        [int(v) for v in real['hull'].ravel().tolist()])
    drv = core.drive(lines)
    for k, (data, A, real) in enumerate(batch):
        c = dict(shape=list(shape), data=data, dtype='bool', layout='C', gen='exhaustive')
        d = drv[3 * k:3 * k + 3]
        for x in _judge(c, A, real, *d):
            if len(findings) < 60:
                x['case'] = c
                findings.append(x)
        count += 1
        nontriv += int(_nontrivial(A, real, d[1]))
    seen, keep = set(), []
    for f in findings:
        if f['key'] not in seen:
            seen.add(f['key'])
            keep.append(f)
    return dict(findings=keep, n=count, nontrivial_n=nontriv, nontrivial=False, sig=None,
                tags=dict(kind='exhaustive-block', dtype='bool', shape=f'{shape[0]}x{shape[1]}'))


def evaluate(cases):
    out = []
    singles = [c for c in cases if 'block' not in c]
    sres = iter(_eval_single(singles))
    for c in cases:
        out.append(_eval_block(c) if 'block' in c else next(sres))
    return out


def _corpus():
    d = core.VERIF / 'corpus' / ID
    out = []
    if d.exists():
        for p in sorted(d.glob('*.json')):
            out.append(json.loads(p.read_text())['case'])
    return out


SCOPE_SHAPES = sorted({(r, c) for r in range(1, 4) for c in range(1, 6)} | {(r, c) for r in range(1, 6) for c in range(1, 4)}
                      | {(4, 4)})


def _lattice_polygon(rng):
    """a convex polygon with vertices on a coarse lattice (coordinates multiples of m), so that every edge passes exactly
    through further pixels: those pixels lie ON the hull boundary, where a scanline intersection computed in floating
    point may round to either side. Vertices, all edge pixels and (half of the time) the whole interior are set."""
    from math import gcd
    m = rng.choice([2, 3, 4, 5, 7, 11])
    size = rng.choice([12, 24, 32, 48])
    k = max(1, (size - 1) // m)
    pts = {(m * rng.randint(0, k), m * rng.randint(0, k)) for _ in range(rng.randint(3, 6))}
    if rng.random() < 0.3:          # the long diagonal / shallow edges of a right triangle
        n = m * k
        pts = {(0, 0), (0, n), (n, 0)} if rng.random() < 0.5 else {(0, 0), (n // 3, n), (n, 0)}
    pts = sorted(pts)
    r, c = max(p[0] for p in pts) + 1 + rng.randint(0, 2), max(p[1] for p in pts) + 1 + rng.randint(0, 2)

    def cross(o, a, b):
        return (a[0] - o[0]) * (b[1] - o[1]) - (a[1] - o[1]) * (b[0] - o[0])
    lo, up = [], []
    for q in pts:
        while len(lo) >= 2 and cross(lo[-2], lo[-1], q) <= 0:
            lo.pop()
        lo.append(q)
    for q in reversed(pts):
        while len(up) >= 2 and cross(up[-2], up[-1], q) <= 0:
            up.pop()
        up.append(q)
    hull = lo[:-1] + up[:-1] if len(pts) > 1 else list(pts)
    A = np.zeros((r, c), bool)
    for i, a in enumerate(hull):
        b = hull[(i + 1) % len(hull)]
        dy, dx = b[0] - a[0], b[1] - a[1]
        g = gcd(abs(dy), abs(dx)) or 1
        for t in range(g + 1):
            A[a[0] + dy // g * t, a[1] + dx // g * t] = True
    if len(hull) >= 3 and rng.random() < 0.5:
        for y in range(r):
            for x in range(c):
                if all(cross(hull[i], hull[(i + 1) % len(hull)], (y, x)) >= 0 for i in range(len(hull))):
                    A[y, x] = True
    return A


def _degenerate(rng):
    """round 4: the degenerate inputs of the hull scan (and thin/euler on them): one pixel, two pixels, all pixels collinear
    (a row, a column, a diagonal, a line of slope 1:2 / 2:1 / 1:3 with gaps), a collinear set plus ONE pixel off the line, exactly
    three / four pixels (the code returns <= 3 points unscanned), the four corners, two parallel lines"""
    r, c = rng.randint(1, 14), rng.randint(1, 14)
    A = np.zeros((r, c), bool)
    kind = rng.choice(['one', 'two', 'row', 'col', 'diag', 'slope', 'line+1', 'three', 'four', 'corners', 'parallel'])
    rp = lambda: (rng.randrange(r), rng.randrange(c))
    if kind == 'one':
        A[rp()] = True
    elif kind == 'two':
        A[rp()] = True; A[rp()] = True
    elif kind == 'row':
        y = rng.randrange(r)
        A[y, :] = [rng.random() < 0.7 for _ in range(c)]; A[y, rng.randrange(c)] = True
    elif kind == 'col':
        x = rng.randrange(c)
        A[:, x] = [rng.random() < 0.7 for _ in range(r)]; A[rng.randrange(r), x] = True
    elif kind in ('diag', 'slope', 'line+1', 'parallel'):
        dy, dx = rng.choice([(1, 1), (1, -1)]) if kind == 'diag' else rng.choice([(1, 1), (1, -1), (1, 2), (2, 1), (1, 3), (1, -2), (2, -1), (0, 1), (1, 0)])
        y, x = (0, 0) if dx >= 0 else (0, c - 1)
        y, x = y + rng.randrange(max(1, r // 3)), x + (rng.randrange(max(1, c // 3)) if dx >= 0 else -rng.randrange(max(1, c // 3)))
        y0, x0 = y, x
        while 0 <= y < r and 0 <= x < c:
            if rng.random() < 0.8:
                A[y, x] = True
            y, x = y + dy, x + dx
        A[y0, x0] = True
        if kind == 'line+1':
            A[rp()] = True
        if kind == 'parallel':
            sy, sx = rng.choice([(0, 1), (1, 0), (0, 2), (2, 0)])
            B = np.zeros_like(A)
            B[sy:, sx:] = A[:r - sy, :c - sx]
            A |= B
    elif kind in ('three', 'four'):
        for _ in range(3 if kind == 'three' else 4):
            A[rp()] = True
    else:
        A[0, 0] = A[0, -1] = A[-1, 0] = A[-1, -1] = True
    return A, 'degenerate:' + kind


def _rand_image(rng):
    style = rng.random()
    if style >= 0.06 and style < 0.14:
        return _degenerate(rng)
    if style < 0.06:
        return _lattice_polygon(rng), 'lattice-polygon'
    r = rng.choice([1, 2, 3, 5, 8, 13, 21, 40]) if rng.random() < 0.4 else rng.randint(1, 40)
    c = rng.choice([1, 2, 3, 5, 8, 13, 21, 40]) if rng.random() < 0.4 else rng.randint(1, 40)
    if rng.random() < 0.5:
        r, c = min(r, 12), min(c, 12)
    nr = np.random.RandomState(rng.randrange(1 << 30))
    if style < 0.45:
        p = rng.choice([0.05, 0.2, 0.35, 0.5, 0.65, 0.8, 0.95])
        A = nr.rand(r, c) < p
        g = 'density'
    elif style < 0.75:
        # rectangles and rings, several touching the border
        A = np.zeros((r, c), bool)
        for _ in range(rng.randint(1, 5)):
            y0, x0 = rng.randint(-2, max(0, r - 1)), rng.randint(-2, max(0, c - 1))
            h, w = rng.randint(1, max(1, r)), rng.randint(1, max(1, c))
            ys, xs = slice(max(0, y0), max(0, y0 + h)), slice(max(0, x0), max(0, x0 + w))
            A[ys, xs] = True
            if rng.random() < 0.6 and h > 2 and w > 2:
                A[max(0, y0 + 1):max(0, y0 + h - 1), max(0, x0 + 1):max(0, x0 + w - 1)] = False
        g = 'rings'
    elif style < 0.9:
        # thick blobs: dilated sparse seeds, then random holes punched
        A = nr.rand(r, c) < 0.08
        for _ in range(rng.randint(1, 3)):
            B = A.copy()
            B[1:, :] |= A[:-1, :]; B[:-1, :] |= A[1:, :]; B[:, 1:] |= A[:, :-1]; B[:, :-1] |= A[:, 1:]
            A = B
        A &= ~(nr.rand(r, c) < 0.05)
        g = 'blobs'
    elif style < 0.95:
        A = np.ones((r, c), bool) if rng.random() < 0.5 else np.zeros((r, c), bool)
        g = 'full-or-empty'
    else:
        # frame along the whole border, optionally with an inner object
        A = np.zeros((r, c), bool)
        A[0, :] = A[-1, :] = True
        A[:, 0] = A[:, -1] = True
        if r > 4 and c > 4 and rng.random() < 0.5:
            A[2:-2, 2:-2] = nr.rand(r - 4, c - 4) < 0.5
        g = 'border-frame'
    return A, g


def cases(rng, tier):
    out = list(_corpus()) if tier != 'search' else []
    if tier == 'thorough':
        for (r, c) in SCOPE_SHAPES:
            n = r * c
            step = 1024
            for lo in range(0, 1 << n, step):
                out.append(dict(block='exh', shape=[r, c], lo=lo, hi=min(1 << n, lo + step)))
    else:
        per = 500 if tier == 'quick' else 1000
        for (r, c) in SCOPE_SHAPES:
            n = r * c
            if (1 << n) <= 1024:
                out.append(dict(block='exh', shape=[r, c], lo=0, hi=1 << n))
            else:
                k = per * (8 if n >= 15 else 3)
                imgs = sorted(rng.sample(range(1 << n), min(1 << n, k)))
                # always include the full and the empty image
                imgs = sorted(set(imgs) | {0, (1 << n) - 1})
                for j in range(0, len(imgs), 64):
                    out.append(dict(block='exh', shape=[r, c], imgs=imgs[j:j + 64]))
    nrand = dict(quick=3000, thorough=30000, search=6000)[tier]
    for _ in range(nrand):
        A, g = _rand_image(rng)
        dtype = rng.choice(['bool', 'bool', 'bool', 'uint8', 'int32', 'uint16'])
        layout = rng.choice(gen.LAYOUTS)
        c = dict(shape=list(A.shape), data=[int(v) for v in A.ravel().tolist()], dtype=dtype, layout=layout, gen=g)
        if rng.random() < 0.12:
            c['maxiter'] = rng.choice([0, 1, 2, 3, -1, -5])     # partial thinning: subset / components / model still apply
        if rng.random() < 0.3:
            c['emode'] = rng.choice(sorted(EMODES))             # euler's `mode` argument, every border mode
        out.append(c)
    # size thresholds: a side crossing 2^8, 2^10, 2^11 (a block-wise / tiled rewrite of euler, thin or the hull scan is exact on
    # every small image), objects on the rows and columns next to those boundaries
    LARGE = [(257, 5), (5, 257), (1023, 3), (1025, 3), (3, 1025), (2049, 2), (2, 2050), (1024, 4), (4, 1024), (1536, 3)]
    for k in range(dict(quick=8, thorough=60, search=16)[tier]):
        r, c_ = LARGE[(k + rng.randrange(len(LARGE))) % len(LARGE)] if k >= len(LARGE) else LARGE[k]
        if tier == 'quick' and k >= 8:
            break
        nr = np.random.RandomState(rng.randrange(1 << 30))
        A = nr.rand(r, c_) < rng.choice([0.3, 0.5, 0.7])
        # a ring and a bar across each power-of-two boundary of the long axis
        for b in (256, 512, 1024, 2048):
            if r > b + 1:
                A[b - 2:b + 2, :] = True
                if c_ >= 3:
                    A[b - 1:b + 1, 1:-1] = False
            if c_ > b + 1:
                A[:, b - 2:b + 2] = True
                if r >= 3:
                    A[1:-1, b - 1:b + 1] = False
        out.append(dict(shape=[r, c_], data=[int(v) for v in A.ravel().tolist()], dtype=rng.choice(['bool', 'uint8']),
                        layout=rng.choice(gen.LAYOUTS), gen='large'))
    return out


def shrink(case):
    if 'block' in case:
        return
    shape, data = case['shape'], case['data']
    A = np.array(data, dtype=np.uint8).reshape(shape)
    for ax in range(2):
        if shape[ax] > 1:
            for j in (shape[ax] - 1, 0):
                B = np.delete(A, j, axis=ax)
                yield dict(case, shape=list(B.shape), data=[int(x) for x in B.ravel().tolist()])
    if case.get('layout', 'C') != 'C':
        yield dict(case, layout='C')
    if case.get('maxiter') is not None:
        yield {k: v for k, v in case.items() if k != 'maxiter'}
    if case.get('emode') is not None:
        yield {k: v for k, v in case.items() if k != 'emode'}
    if case.get('dtype', 'bool') not in ('bool', 'uint8'):
        yield dict(case, dtype='uint8')
    for i, v in enumerate(data):
        if v:
            d = list(data); d[i] = 0
            yield dict(case, data=d)
