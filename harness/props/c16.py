"""C16 — otsu / rc optimise their criteria and depend only on the histogram; bernsen rule; soft_threshold."""
from __future__ import annotations
import json
from fractions import Fraction
import numpy as np
from .. import core, gen

ID = 'C16'
FOUNDATIONS = ['harness.foundation.pybody', 'harness.foundation.cscalar']   # see each foundation module's docstring
_META = core.VERIF / 'harness' / 'props' / 'meta' / 'C16.json'
LEVEL = json.loads(_META.read_text())['category'] if _META.exists() else 'other'
RULE = ('corpus; a size-threshold stream (a handful of cases per run whose pixel count / per-bin count / number of distinct '
        'levels crosses 2^8, 2^15, 2^16: 65537 pixels in one bin, 257x256, 255/256/257 and 65535/65536 distinct levels, a '
        'gbernsen row longer than 65536; thorough: 2^24+1 pixels in one bin judged by an exact Python oracle (Fractions) that '
        'is compared field by field with the Lean spec on the other threshold cases); unsigned images (uint8/16/32/64, 1-3 D, 1..4096 pixels) with 1..65536 grey levels: constant, two-level, '
        'sparse histograms with gaps, symmetric histograms with exact ties for the optimum, zero-dominated, full 16-bit '
        'range, zeros plus one level, nearly symmetric histograms at high levels, each with ignore_zeros off and on, each also permuted and reshaped; gbernsen/bernsen (radius 1..4, images smaller than the window) on uint8/uint16 '
        'images with random/regular/even-sized structuring elements, contrast thresholds around the occurring contrasts, '
        'integer and half-integer global thresholds; soft_threshold on float64 (dyadic and arbitrary), float32/float16 (dyadic) and every integer dtype (unsigned, narrow, dtype minimum and maximum included), '
        'tval >= 0 incl. 0 and values equal to |f|. Non-trivial = more than one occurring level (thresholds), both '
        'branches of the rule taken (bernsen), some element shrunk and some zeroed (soft); distinct = distinct input.')
ASSUMPTIONS = ['otsu/rc/fullhistogram are given C-contiguous writable unsigned-integer arrays (other layouts are rejected by '
               'histogram.py: a C08 matter), with at least one pixel and levels <= 65535',
               'pixel count and sum of grey levels < 2^53 (the double accumulators of the C code are then exact)',
               'otsu: any maximiser of the exact (rational) between-class variance is accepted; when the returned threshold '
               'is not an exact maximiser but its exact sigma is within otsuMargin(hist) of the maximum (the rounding-error '
               'bound proved for the binary64 model, C16_otsu_binary64_margin; N^2 <= 2^53 and first moment <= 2^53 hold '
               'for every generated image) the case is counted as a near-tie and not judged',
               'rc: the returned double is compared with the exact rational value within 1e-12 relative; cases whose '
               'stopping comparison m(t) <= t+1 has an exact margin below 1e-9 are counted as near-ties and not judged',
               'bernsen/gbernsen: the statement fixes which comparison is made where, not its orientation: the code\'s '
               'orientation (True where the pixel / the mid-grey is below) is taken; the verdict is taken at pixels whose '
               'whole neighbourhood lies inside the image, border pixels (rank_filter mode reflect) only feed the model '
               'comparison; non-empty structuring element; unsigned images',
               'soft_threshold: tval >= 0, no NaN/inf; compared numerically (-0.0 == 0.0)']
EXHAUSTIVE = {}
TRUSTED = ['numpy', 'python fractions (exact comparison of the rationals printed by the Lean driver)']
EXPLANATION = ('otsu: exact sigma(T_returned) == max_T sigma(T) (rationals from the driver), Float model == returned T, '
               'same T after permuting/reshaping. rc: returned value vs exact rational rule, range [lo, hi], Float model '
               'bit-equal, same value after permuting/reshaping. fullhistogram == model. gbernsen: statement rule at '
               'interior pixels, model everywhere. soft_threshold: sign(f)*max(|f|-t,0).')

_skipped = dict(otsu_near_tie=0, rc_near_tie=0)


def _img(case):
    if 'rle' in case:          # size-threshold stream: [[value, count], ...] in C order
        flat = np.concatenate([np.full(c, v, dtype=np.uint64) for v, c in case['rle']])
        return flat.astype(case['dtype']).reshape(case['shape'])
    return np.array(case['data'], dtype=np.uint64).astype(case['dtype']).reshape(case['shape'])


def _fs(q):
    q = Fraction(q)
    return f'{q.numerator}/{q.denominator}'


def _py_global(hist_full, real):
    """Exact O(levels) Python oracle for otsu / rc (Fractions), written from the same definitions as the Lean spec
    (sigmaAll / listMax / firstArgmax, otsuMargin, rcSpec of Model/C16.lean).  It answers in the driver's output format.
    It is used INSTEAD of the driver only for inputs too large for the line protocol (thorough tier: 2^24+1 pixels); on the
    size-threshold cases that do go through the driver its agreement with the Lean spec is checked field by field."""
    out = [dict(hist=','.join(map(str, hist_full)))]
    u = Fraction(1, 2 ** 53)
    for iz in (0, 1):
        hist = list(hist_full)
        allzero = bool(iz) and hist[0] == sum(hist)
        if iz:
            hist[0] = 0
        n = len(hist)
        C, F, c, f_ = [], [], 0, 0
        for i, h in enumerate(hist):
            c += h; f_ += i * h
            C.append(c); F.append(f_)
        tot, ftot = C[-1], F[-1]

        def sigma(T):
            nB, nO = C[T], tot - C[T]
            if nB == 0 or nO == 0:
                return Fraction(0)
            dd = Fraction(F[T], nB) - Fraction(ftot - F[T], nO)
            return nB * nO * dd * dd
        occ = [i for i, h in enumerate(hist) if h]
        lo, hi = (occ[0], occ[-1]) if occ else (0, 0)
        cand = range(lo, hi) if occ else []          # sigma is 0 outside [lo, hi)
        sig = {T: sigma(T) for T in cand}
        smax = max(sig.values(), default=Fraction(0))
        first = next((T for T in cand if sig[T] == smax), 0) if smax > 0 else 0
        got = int(real[iz][0])
        sgot = sigma(got) if 0 <= got < n else Fraction(-1)
        D = hi - lo
        E = u * ftot * (1 + 4 * D)
        eta = (1 + u) * (2 * E) + u * D
        B = ((1 + u) * (E * tot) + u * (tot * tot * D)) * (2 * D + eta) + (2 * u + u * u) * (tot * tot * ((D + eta) * (D + eta)))
        out.append(dict(n=str(n), smax=_fs(smax), sgot=_fs(sgot), first=str(first), margin=_fs(2 * B), model=str(got)))
        # rc
        if allzero or tot == 0:
            spec, margin, lo_, hi_ = Fraction(0), Fraction(1), 0, 0
        elif lo == hi:
            spec, margin, lo_, hi_ = Fraction(lo), Fraction(1), lo, hi
        else:
            margin, spec, lo_, hi_ = Fraction(hi + 1), Fraction(0), lo, hi
            for t in range(lo, hi):
                m = (Fraction(F[t], C[t]) + Fraction(ftot - F[t], tot - C[t])) / 2
                margin = min(margin, abs(m - (t + 1)))
                spec = m
                if m <= t + 1:
                    break
        out.append(dict(spec=_fs(spec), margin=_fs(margin), lo=str(lo_), hi=str(hi_), model=str(core.f2bits(float(real[iz][1])))))
    return out


def _frac(s):
    a, b = s.split('/')
    return Fraction(int(a), int(b))


# ------------------------------------------------------------------------------------------ global thresholds

def _eval_global(case):
    import mahotas as mh
    from mahotas.thresholding import otsu, rc
    img = _img(case)
    data = [int(v) for v in img.ravel().tolist()]
    use_py = case.get('oracle') == 'python'
    d = '' if use_py else gen.enc_arr(data)
    f = []
    near = {}
    lines = [f'c16 kind=hist data={d}']
    real = {}
    prng = np.random.RandomState(case.get('pseed', 0))
    perm = prng.permutation(img.size)
    pimg = np.ascontiguousarray(img.ravel()[perm])
    # a reshape of the permuted pixels
    n = img.size
    divs = [k for k in range(1, n + 1) if n % k == 0]
    k = divs[prng.randint(len(divs))]
    pimg = pimg.reshape((k, n // k))
    # the real calls; a documented call that raises is a finding of its own, not an infrastructure error
    try:
        hist = mh.fullhistogram(img)
        for iz in (0, 1):
            T = otsu(img, bool(iz))
            R = rc(img, bool(iz))
            real[iz] = (T, R, otsu(pimg, bool(iz)), rc(pimg, bool(iz)))
        # the same calls again on the same array objects, in the opposite order (ignore_zeros first): a threshold is a
        # function of the histogram, not of what was asked about this array before
        again = {}
        seq = []
        for x in (img, pimg):       # all four calls on one object before the other object is touched
            r1 = rc(x, True)
            t0 = otsu(x, False)
            r0 = rc(x, False)
            t1 = otsu(x, True)
            seq.append(((t0, r0), (t1, r1)))
        for iz in (0, 1):
            again[iz] = (seq[0][iz][0], seq[0][iz][1], seq[1][iz][0], seq[1][iz][1])
        for iz in (0, 1):
            if not all((a == b) or (a != a and b != b) for a, b in zip(real[iz], again[iz])):
                f.append(dict(kind='property', key='global-threshold:depends-on-earlier-calls',
                              detail=dict(ignore_zeros=iz, first=[float(x) for x in real[iz]], again=[float(x) for x in again[iz]])))
    except Exception as e:
        return dict(findings=[dict(kind='property', key=f'global-threshold:raised:{type(e).__name__}',
                                   detail=dict(error=str(e)[:200]))], nontrivial=False, sig='g-raised' + d[:200],
                    tags=dict(kind='otsu+rc', dtype=case['dtype'], gen=case.get('gen', 'corpus'), near_tie='none'))
    for iz in (0, 1):
        lines.append(f'c16 kind=otsu data={d} iz={iz} got={int(real[iz][0])}')
        lines.append(f'c16 kind=rc data={d} iz={iz}')
    mh_hist = [int(v) for v in hist.tolist()]
    if use_py:
        drv = _py_global(np.bincount(np.asarray(data, dtype=np.int64), minlength=max(data) + 1).tolist(), real)
    else:
        drv = core.drive(lines)
        if case.get('size') == 'threshold':
            # the Python oracle agrees with the Lean spec on every field the verdicts use
            py = _py_global(core.ints(drv[0]['hist']), real)
            for i in (1, 2, 3, 4):
                for k in (('smax', 'sgot', 'margin', 'n') if i % 2 else ('spec', 'margin', 'lo', 'hi')):
                    if k == 'sgot' and not (0 <= int(real[(i - 1) // 2][0]) < int(drv[i]['n'])):
                        continue
                    a, b = drv[i][k], py[i][k]
                    same = (_frac(a) == _frac(b)) if '/' in a else (a == b)
                    if not same:
                        f.append(dict(kind='model', key='python-oracle-mismatch', detail=dict(line=i, field=k, lean=a[:80], python=b[:80])))
    if mh_hist != core.ints(drv[0]['hist']):
        # hist[i] == (img == i).sum() is what the docstring promises
        ref = np.bincount(np.array(data, dtype=np.int64), minlength=max(data) + 1).tolist()
        kind = 'property' if mh_hist != ref else 'model'
        f.append(dict(kind=kind, key='fullhistogram', detail=dict(got=mh_hist[:50], model=drv[0]['hist'][:200])))
    for iz in (0, 1):
        T, R, Tp, Rp = real[iz]
        do, dr = drv[1 + 2 * iz], drv[2 + 2 * iz]
        tag = f'ignore_zeros={bool(iz)}'
        # ---- otsu
        nlev = int(do['n'])
        if not (0 <= int(T) < max(nlev, 1)):
            f.append(dict(kind='property', key='otsu:range', detail=dict(got=int(T), levels=nlev, iz=iz)))
        else:
            smax, sgot = _frac(do['smax']), _frac(do['sgot'])
            if sgot != smax:
                # C16_otsu_binary64_margin: a threshold computed in binary64 has 0 <= smax - sgot <= otsuMargin(hist)
                # (explicit bound, leading term 16*2^-53*(hi-lo)^2*Fn*N, evaluated exactly by the driver); within the
                # margin the deficit is explained by rounding (counted, not judged), outside it cannot be
                if smax - sgot <= _frac(do['margin']):
                    near['otsu'] = near.get('otsu', 0) + 1
                else:
                    f.append(dict(kind='property', key='otsu:not-argmax',
                                  detail=dict(got=int(T), first_argmax=int(do['first']), sigma_got=float(sgot),
                                              sigma_max=float(smax), iz=iz)))
            elif int(T) != int(do['model']):
                f.append(dict(kind='model', key='otsu-model', detail=dict(got=int(T), model=do['model'], iz=iz)))
        if int(Tp) != int(T):
            f.append(dict(kind='property', key='otsu:permutation',
                          detail=dict(got=int(T), permuted=int(Tp), shape=list(pimg.shape), iz=iz)))
        # ---- rc
        spec = _frac(dr['spec'])
        margin = _frac(dr['margin'])
        lo, hi = int(dr['lo']), int(dr['hi'])
        g = float(R)
        judged = True
        if not (g == g) or not (lo <= g <= hi):
            f.append(dict(kind='property', key='rc:range', detail=dict(got=g, lo=lo, hi=hi, iz=iz)))
        err = abs(Fraction(g) - spec) if g == g else Fraction(1)
        if err > Fraction(1, 10**12) * max(1, abs(spec)):
            model_exact = Fraction(core.bits2f(int(dr['model']))) == spec
            if margin == 0 and model_exact:
                # an EXACT tie m(t) = t+1 on which the transliterated double computation is itself exact (small integer
                # / dyadic class means): there is no rounding to blame, the rule says stop here
                f.append(dict(kind='property', key='rc:rule',
                              detail=dict(got=g, spec=float(spec), spec_exact=dr['spec'], iz=iz, exact_tie=True)))
            elif margin <= Fraction(1, 10**9) * max(1, abs(spec)):
                near['rc'] = near.get('rc', 0) + 1
                judged = False
            else:
                f.append(dict(kind='property', key='rc:rule',
                              detail=dict(got=g, spec=float(spec), spec_exact=dr['spec'], iz=iz)))
        elif core.f2bits(g) != int(dr['model']) and g != core.bits2f(int(dr['model'])):
            f.append(dict(kind='model', key='rc-model', detail=dict(got=g, model=core.bits2f(int(dr['model'])), iz=iz)))
        if float(Rp) != g and judged:
            f.append(dict(kind='property', key='rc:permutation',
                          detail=dict(got=g, permuted=float(Rp), shape=list(pimg.shape), iz=iz)))
    # ---- consequences proved in round 2 (C16_otsu_ignore_zeros, C16_rc_ignore_zeros, C16_otsu_two_level), observed on the
    # real code: ignore_zeros = the zero pixels removed (same histogram, hence the very same double computation), and a
    # two-level image is split between its two levels
    nz = np.ascontiguousarray(img.ravel()[img.ravel() != 0])
    if nz.size and real:
        try:
            Tn, Rn = otsu(nz, False), rc(nz, False)
            if int(Tn) != int(real[1][0]):
                f.append(dict(kind='property', key='otsu:ignore-zeros-is-zeros-removed',
                              detail=dict(ignore_zeros=int(real[1][0]), zeros_removed=int(Tn))))
            if float(Rn) != float(real[1][1]):
                f.append(dict(kind='property', key='rc:ignore-zeros-is-zeros-removed',
                              detail=dict(ignore_zeros=float(real[1][1]), zeros_removed=float(Rn))))
        except Exception as e:
            f.append(dict(kind='property', key=f'global-threshold:raised:{type(e).__name__}', detail=dict(error=str(e)[:200])))
    for iz in (0, 1):
        lv = sorted(set(v for v in data if v or not iz))
        if len(lv) == 2 and not (lv[0] <= int(real[iz][0]) < lv[1]):
            f.append(dict(kind='property', key='otsu:two-level-separates',
                          detail=dict(levels=lv, got=int(real[iz][0]), iz=iz)))
    # degenerate inputs (C16_otsu_single_level, C16_rc_single_level, C16_rc_ignore_zeros): one counted level -> otsu 0,
    # rc = that level (0 when nothing is counted); the statement only fixes lo <= rc <= hi, so these are model findings
    for iz in (0, 1):
        lv = sorted(set(v for v in data if v or not iz))
        if len(lv) <= 1 and iz in real:
            want_rc = float(lv[0]) if lv else 0.0
            if int(real[iz][0]) != 0:
                f.append(dict(kind='model', key='otsu:single-level', detail=dict(levels=lv, got=int(real[iz][0]), iz=iz)))
            if float(real[iz][1]) != want_rc:
                f.append(dict(kind='model', key='rc:single-level', detail=dict(levels=lv, got=float(real[iz][1]), iz=iz)))
    nlevels = len(set(data))
    return dict(findings=f, nontrivial=nlevels > 1, sig='g' + str(hash((tuple(case['shape']), case['dtype'], tuple(data)))),
                tags=dict(kind='otsu+rc', near_tie=('+'.join(sorted(near)) or 'none'), dtype=case['dtype'], gen=case.get('gen', 'corpus'),
                          levels=('1' if nlevels == 1 else '2' if nlevels == 2 else '3-16' if nlevels <= 16 else '>16'),
                          maxlevel=('<256' if max(data) < 256 else '<4096' if max(data) < 4096 else '16bit'),
                          ndim=len(case['shape']), size=case.get('size', 'small')))


# ------------------------------------------------------------------------------------------ bernsen

def _eval_bernsen(case):
    from mahotas.thresholding import bernsen, gbernsen
    from mahotas.morph import circle_se
    img = _img(case)
    ct = case['ct']
    g2 = case['g2']                       # twice the global threshold (so that x.5 thresholds stay integral)
    gth = g2 // 2 if g2 % 2 == 0 else g2 / 2.0
    f = []
    name = case['kind']
    try:
        if case['kind'] == 'bernsen':
            se = circle_se(case['radius'])
            if case.get('default_g'):
                got = bernsen(img, case['radius'], ct)
                g2 = 256
            else:
                got = bernsen(img, case['radius'], ct, gth)
        else:
            se = np.array(case['bc'], bool).reshape(case['bshape'])
            got = gbernsen(img, se, ct, gth)
    except Exception as e:
        return dict(findings=[dict(kind='property', key=f'{name}:raised:{type(e).__name__}', detail=dict(error=str(e)[:200]))],
                    nontrivial=False, sig='b-raised' + json.dumps(case)[:200],
                    tags=dict(kind=name, dtype=case['dtype'], gen=case.get('gen', 'corpus')))
    if case['kind'] == 'bernsen':
        # the structuring element is built by the model (circleSe, C16_circle_se_spec), not taken from the implementation
        line = (f"c16 kind=bernsen shape={gen.enc_shape(img.shape)} data={gen.enc_arr(img)} "
                f"radius={case['radius']} ct={ct} g2={g2}")
    else:
        line = (f"c16 kind=gbernsen shape={gen.enc_shape(img.shape)} data={gen.enc_arr(img)} "
                f"bshape={gen.enc_shape(se.shape)} bc={gen.enc_arr(se.astype(int))} ct={ct} g2={g2}")
    drv = core.drive([line])[0]
    if case['kind'] == 'bernsen':
        r = case['radius']
        if list(se.shape) != [2 * r + 1, 2 * r + 1] or [int(v) for v in se.ravel().tolist()] != core.ints(drv['se']):
            # the statement does not say which pixels form the "local" neighbourhood of bernsen(f, radius): a circle_se that
            # differs from the model is a broken correspondence; the rule itself is then judged on the element really used
            f.append(dict(kind='model', key='circle_se-model',
                          detail=dict(radius=r, got=se.astype(int).tolist(), model=drv['se'])))
            line = (f"c16 kind=gbernsen shape={gen.enc_shape(img.shape)} data={gen.enc_arr(img)} "
                    f"bshape={gen.enc_shape(se.shape)} bc={gen.enc_arr(se.astype(int))} ct={ct} g2={g2}")
            drv = core.drive([line])[0]
    model = core.ints(drv['model'])
    pinned = core.ints(drv['pinned'])
    interior = core.ints(drv['interior'])
    g = [int(bool(v)) for v in np.asarray(got).ravel().tolist()]
    if np.asarray(got).shape != img.shape:
        f.append(dict(kind='property', key=f'{name}:shape', detail=dict(shape=list(np.asarray(got).shape))))
    else:
        bad = [i for i, (a, b, o) in enumerate(zip(g, model, interior)) if o and a != b]
        if bad:
            cls = 'alternatives-swapped' if all(g[i] == pinned[i] for i in range(len(g))) else 'rule'
            f.append(dict(kind='property', key=f'{name}:{cls}',
                          detail=dict(pixels=bad[:8], got=g, rule=model, interior=interior)))
        elif g != model:
            badm = [i for i, (a, b) in enumerate(zip(g, model)) if a != b]
            f.append(dict(kind='model', key=f'{name}-model:border', detail=dict(pixels=badm[:8], got=g, model=model)))
    both = any(interior) and len({(m, p) for m, p, o in zip(model, pinned, interior) if o}) > 1
    return dict(findings=f, nontrivial=bool(both), sig='b' + line,
                tags=dict(kind=name, dtype=case['dtype'], gen=case.get('gen', 'corpus'), ndim=len(case['shape']),
                          se=('even' if any(s % 2 == 0 for s in se.shape) else 'odd'), size=case.get('size', 'small')))


# ------------------------------------------------------------------------------------------ soft threshold

def _eval_soft(case):
    from mahotas.thresholding import soft_threshold
    f = []
    if case['dt'] == 'f64':
        x = core.floats(','.join(map(str, case['bits']))).reshape(case['shape'])
        if case.get('fdt'):
            # float32 / float16 input: values and threshold are dyadic and exactly representable in the dtype, so the cast is
            # exact, f - t is exact in the dtype and the f64 model/spec of the driver applies to the result converted back
            x = x.astype(case['fdt'])
        t = core.bits2f(case['tbits'])
        line = f"c16 kind=soft dt=f64 data={','.join(map(str, case['bits']))} t={case['tbits']}"
    else:
        x = np.array(case['data'], dtype=object).astype(case.get('idt', 'int64')).reshape(case['shape'])
        t = int(case['t'])
        line = f"c16 kind=soft dt=i64 data={gen.enc_arr(case['data'])} t={t}"
    before = x.copy()
    try:
        got = soft_threshold(x, t)
    except Exception as e:
        return dict(findings=[dict(kind='property', key=f'soft_threshold:raised:{type(e).__name__}', detail=dict(error=str(e)[:200]))],
                    nontrivial=False, sig='s-raised' + line[:200], tags=dict(kind='soft_threshold', dtype=case['dt']))
    drv = core.drive([line])[0]
    if case['dt'] == 'f64':
        spec, model = core.floats(drv['spec']), core.floats(drv['model'])
    else:
        # python integers (object arrays): values beyond 2^63 must not pass through float64 on the way to the comparison
        spec, model = np.array(core.ints(drv['spec']), dtype=object), np.array(core.ints(drv['model']), dtype=object)
    g = np.asarray(got).ravel()
    if case['dt'] != 'f64':
        g = np.array([int(v) for v in g.tolist()], dtype=object)
    if case.get('idt') and np.asarray(got).dtype != np.dtype(case['idt']):
        f.append(dict(kind='property', key='soft_threshold:dtype', detail=dict(got=str(np.asarray(got).dtype), want=case['idt'])))
    if case.get('fdt'):
        if np.asarray(got).dtype != np.dtype(case['fdt']):
            f.append(dict(kind='model', key='soft_threshold:float-dtype', detail=dict(got=str(np.asarray(got).dtype), want=case['fdt'])))
        g = g.astype(np.float64)
    if g.shape != spec.shape or not np.array_equal(g, spec):
        bad = [int(i) for i in np.nonzero(g != spec)[0][:8]] if g.shape == spec.shape else []
        f.append(dict(kind='property', key=f'soft_threshold:{case["dt"]}',
                      detail=dict(pixels=bad, got=g.tolist()[:16], spec=spec.tolist()[:16], t=t)))
    elif not np.array_equal(g, model):
        f.append(dict(kind='model', key='soft-model', detail=dict(got=g.tolist()[:16], model=model.tolist()[:16])))
    if not np.array_equal(before, x):
        f.append(dict(kind='property', key='soft_threshold:input-modified', detail={}))
    ab = np.abs(before.ravel())
    return dict(findings=f, nontrivial=bool((ab > t).any() and (ab <= t).any()), sig='s' + line,
                tags=dict(kind='soft_threshold', dtype=case.get('fdt') or case.get('idt') or case['dt'], gen=case.get('gen', 'corpus')))


def evaluate(cases):
    out = []
    for c in cases:
        k = c['kind']
        if k == 'global':
            out.append(_eval_global(c))
        elif k in ('gbernsen', 'bernsen'):
            out.append(_eval_bernsen(c))
        else:
            out.append(_eval_soft(c))
    return out


_near_total = {}


def coverage_extra():
    return dict(skipped_by_discontinuity_guard='see tags near-tie=* in distribution (counted per case)')


def _corpus():
    d = core.VERIF / 'corpus' / ID
    out = []
    if d.exists():
        for p in sorted(d.glob('*.json')):
            out.append(json.loads(p.read_text())['case'])
    return out


def _rand_global(rng):
    dtype = rng.choice(['uint8', 'uint8', 'uint16', 'uint16', 'uint32', 'uint64'])
    top = 255 if dtype == 'uint8' else rng.choice([65535, 65535, 4095, 1023, 300, 255])
    ndim = rng.choice([1, 2, 2, 2, 3])
    shape = [rng.choice([1, 2, 3, 4, 7, 16]) for _ in range(ndim)]
    n = int(np.prod(shape))
    style = rng.choice(['constant', 'two-level', 'sparse', 'tie', 'zero-dominated', 'dense', 'fullrange', 'few', 'zeros+one',
                        'neartie-high'])
    if style == 'constant':
        v = rng.choice([0, 0, 1, 2, 7, 255, top, rng.randint(0, top)])
        data = [v] * n
    elif style == 'zeros+one':
        # zeros and ONE other level: a single counted level once zeros are ignored
        top2 = top if rng.random() < 0.3 else min(top, 1023)      # (the driver's exact table costs O(levels))
        v = rng.choice([1, 2, 255, top2, rng.randint(1, top2)])
        data = [v if rng.random() < rng.choice([0.1, 0.5, 0.9]) else 0 for _ in range(n)]
        if rng.random() < 0.5:
            data[rng.randrange(n)] = v
    elif style == 'neartie-high':
        # nearly symmetric histograms far from level 0 with many pixels: the running means of the C loop lose the most
        # accuracy here (cancellation in mu_O), and sigma has two nearly equal local maxima
        top2 = top if rng.random() < 0.3 else min(top, 4095)      # (the driver's exact table costs O(levels))
        base = rng.randint(top2 // 2, max(top2 // 2, top2 - 8))
        m = rng.choice([50, 400, 2000])
        a, b = rng.randint(1, 3), rng.randint(1, 3)
        data = [base] * a + [base + 1] * m + [base + 2] * b
        if rng.random() < 0.5:
            data += [base + 3] * rng.randint(1, 2)
        rng.shuffle(data)
        shape = [len(data)]
    elif style == 'two-level':
        a, b = rng.randint(0, top), rng.randint(0, top)
        if rng.random() < 0.4:
            a = 0
        if rng.random() < 0.3:
            b = a + 1 if a < top else a - 1
        data = [a if rng.random() < 0.5 else b for _ in range(n)]
    elif style == 'sparse':
        levels = sorted(rng.sample(range(0, top + 1), min(top + 1, rng.randint(2, 6))))
        data = [rng.choice(levels) for _ in range(n)]
    elif style == 'tie':
        # symmetric histogram: sigma(T) is symmetric, the optimum is attained twice
        base = rng.randint(0, min(top - 8, 50))
        k = rng.choice([3, 3, 4, 5])
        gap = rng.choice([1, 1, 2, 5])
        levels = [base + i * gap for i in range(k)]
        cnt = [rng.randint(1, 4) for _ in range((k + 1) // 2)]
        cnt = cnt + cnt[:k // 2][::-1]
        data = [l for l, c in zip(levels, cnt) for _ in range(c)]
        rng.shuffle(data)
        shape = [len(data)]
    elif style == 'zero-dominated':
        hi = rng.choice([3, 20, top])
        data = [0 if rng.random() < 0.85 else rng.randint(0, hi) for _ in range(n)]
    elif style == 'dense':
        hi = rng.choice([2, 3, 5, 16, 255])
        data = [rng.randint(0, min(hi, top)) for _ in range(n)]
    elif style == 'fullrange':
        data = [rng.randint(0, top) for _ in range(n)]
        if rng.random() < 0.5:
            data[rng.randrange(n)] = top
    else:
        lo = rng.randint(0, top - 3)
        data = [lo + rng.randint(0, 3) for _ in range(n)]
    return dict(kind='global', dtype=dtype, shape=shape, data=data, pseed=rng.randrange(1 << 30), gen=style)


def _rand_bernsen(rng):
    dtype = rng.choice(['uint8', 'uint8', 'uint16'])
    top = 255 if dtype == 'uint8' else rng.choice([255, 1000, 65535])
    if rng.random() < 0.75:
        shape = [rng.randint(1, 9), rng.randint(1, 9)]
    else:
        shape = list(gen.small_shape(rng, maxlen=6))
    n = int(np.prod(shape))
    style = rng.random()
    if style < 0.4:
        data = [rng.randint(0, top) for _ in range(n)]
    elif style < 0.7:
        base = rng.randint(0, top - 6)
        data = [base + rng.randint(0, 6) for _ in range(n)]          # low contrast everywhere
    else:
        base = rng.randint(0, top - 6)
        data = [(base + rng.randint(0, 3)) if rng.random() < 0.7 else rng.randint(0, top) for _ in range(n)]
    ct = rng.choice([0, 1, 2, 3, 5, 15, 40, 128, top, top + 1])
    # twice the global threshold; 0 (a legitimate explicit threshold, falsy in Python) and the dtype maximum included
    g2 = rng.choice([0, 2 * top, 2 * rng.randint(0, top), 2 * rng.randint(0, top) + 1, 2 * data[rng.randrange(n)], 256])
    if len(shape) == 2 and rng.random() < 0.3:
        return dict(kind='bernsen', dtype=dtype, shape=shape, data=data, radius=rng.choice([1, 2, 2, 3, 3, 4]), ct=ct, g2=g2,
                    default_g=rng.random() < 0.3, gen='circle')
    bshape = [rng.choice([1, 2, 3, 3, 4]) for _ in shape]
    nb = int(np.prod(bshape))
    r = rng.random()
    bc = [1] * nb if r < 0.4 else [1 if rng.random() < 0.6 else 0 for _ in range(nb)]
    if not any(bc):
        bc[rng.randrange(nb)] = 1
    return dict(kind='gbernsen', dtype=dtype, shape=shape, data=data, bshape=bshape, bc=bc, ct=ct, g2=g2,
                gen='box' if r < 0.4 else 'random-se')


def _rand_soft(rng):
    shape = list(gen.small_shape(rng, maxlen=5))
    n = int(np.prod(shape))
    if rng.random() < 0.7:
        style = rng.choice(['dyadic', 'arbitrary'])
        if style == 'dyadic':
            t = rng.choice([0.0, 0.5, 1.0, 2.25, 16.0])
            vals = [rng.choice([-1, 1]) * rng.choice([0.0, t, t + 0.25, t / 2, 2 * t, rng.randint(0, 64) / 4.0]) for _ in range(n)]
        else:
            t = abs(rng.gauss(0, 2))
            vals = [rng.choice([rng.gauss(0, 3), t, -t, 0.0, t * (1 + 2 ** -52), -t * (1 - 2 ** -53), 1e300, -1e-300]) for _ in range(n)]
        case = dict(kind='soft', dt='f64', shape=shape, bits=[core.f2bits(v) for v in vals], tbits=core.f2bits(t), gen=style)
        if style == 'dyadic' and rng.random() < 0.5:
            case['fdt'] = rng.choice(['float32', 'float16'])
            case['gen'] = 'dyadic-' + case['fdt']
        return case
    if rng.random() < 0.5:
        # every integer dtype, unsigned and narrow ones included (values and threshold representable in the dtype); the most
        # negative value of the signed dtypes included (|f| is not representable there: np.abs wraps)
        idt = rng.choice(['uint8', 'uint16', 'uint32', 'uint64', 'int8', 'int16', 'int32', 'int64'])
        lo_, hi_ = gen.dt_range(idt)
        t = rng.choice([0, 1, 2, 16, min(hi_, 100)])
        top = min(hi_, 10 ** 6)
        # 64-bit dtypes: magnitudes at and beyond 2^53 / 2^63 (a rewrite that goes through double merges 2^53+1 and 2^53)
        big = [v for v in (2 ** 53 + 1, 2 ** 53 + 2, -(2 ** 53 + 1), 2 ** 62 + 1, 2 ** 63 + 1, hi_ - 1, lo_ + 1)
               if lo_ <= v <= hi_] if idt in ('int64', 'uint64') else []
        vals = [rng.choice([0, t, min(top, t + 1), rng.randint(max(lo_, -40), min(hi_, 40)), rng.randint(max(lo_, -top), top), hi_,
                            lo_, max(lo_ + 1, -t), max(lo_ + 1, -t - 1)] + big) for _ in range(n)]
        return dict(kind='soft', dt='i64', idt=idt, shape=shape, data=vals, t=t, gen='int-' + idt)
    t = rng.choice([0, 1, 2, 16, 1000])
    vals = [rng.choice([0, t, -t, t + 1, -t - 1, rng.randint(-40, 40), rng.randint(-10**6, 10**6)]) for _ in range(n)]
    return dict(kind='soft', dt='i64', shape=shape, data=vals, t=t, gen='int')


def _size_threshold_cases(rng, tier):
    """A handful of inputs whose pixel count / per-bin count / number of distinct levels crosses 2^8, 2^15, 2^16: a counter,
    index or accumulator narrowed to 16 bits (or to float) passes every small case."""
    out = []

    def g(dtype, shape, gen_, **kw):
        out.append(dict(kind='global', dtype=dtype, shape=shape, pseed=rng.randrange(1 << 30), gen=gen_, size='threshold', **kw))
    a, b = rng.randint(1, 6), rng.randint(7, 200)
    # more than 65535 pixels in ONE bin (and 2^15 +- 1 in another)
    g('uint8', [1, 65537 + 3], 'one-bin-65537', rle=[[a, 65537], [b, 3]])
    g('uint8', [257, 256], 'one-bin-257x256', rle=[[a, 257 * 256 - 32769], [b, 32769]])
    if tier != 'quick' or rng.random() < 0.5:
        g('uint16', [65536 + 32767], 'bins-65536+32767', rle=[[0, 65536], [b * 100, 32767]])
    # exactly 255 / 256 / 257 distinct levels, and 65535 / 65536
    k = rng.choice([255, 256, 257])
    lv = list(range(k)); rng.shuffle(lv)
    g('uint16', [k], f'levels-{k}', data=lv)
    k = rng.choice([65535, 65536]) if tier == 'quick' else 65536
    lv = list(range(k)); rng.shuffle(lv)
    g('uint16', [k], f'levels-{k}', data=lv)
    if tier != 'quick':
        lv = list(range(65535)); rng.shuffle(lv)
        g('uint16', [65535], 'levels-65535', data=lv)
        # 2^24 + 1 pixels in one bin (a float32 accumulator stops counting at 2^24); judged by the Python oracle
        # (three levels chosen so that the exact optimum T = 1 beats T = 100 by 15 %, while a lower-class count that lost its
        # last bit - 2^24 instead of 2^24+1, hence 6 instead of 5 pixels above - prefers T = 100)
        out.append(dict(kind='global', dtype='uint8', shape=[2 ** 24 + 1 + 5], pseed=rng.randrange(1 << 30), gen='one-bin-2^24+1',
                        size='threshold', oracle='python', rle=[[1, 2 ** 24 + 1], [100, 3], [210, 2]]))
    # gbernsen on a row longer than 65536
    w = 65536 + rng.randint(1, 40)
    row = [rng.randint(0, 255) for _ in range(w)]
    out.append(dict(kind='gbernsen', dtype='uint8', shape=[1, w], data=row, bshape=[1, 3], bc=[1, 1, 1], ct=rng.choice([15, 40, 128]),
                    g2=256, gen='row-65536+', size='threshold'))
    return out


def cases(rng, tier):
    out = list(_corpus()) if tier != 'search' else []
    if tier != 'search':
        out += _size_threshold_cases(rng, tier)
    ng, nb, ns = dict(quick=(3000, 1500, 500), thorough=(28000, 9000, 3000), search=(6000, 3000, 500))[tier]
    # exhaustive tiny histograms (every count vector over the first few grey levels): the stopping rules and arg-max
    # comparisons of otsu / rc are decided by exact ties and integer midpoints, which large random images never produce
    import itertools
    tiny = []
    for cnts in itertools.product([0, 1, 2, 5], repeat=4):
        tiny.append([l for l, c in enumerate(cnts) for _ in range(c)])
    for cnts in itertools.product([0, 1, 3], repeat=5):
        tiny.append([l for l, c in enumerate(cnts) for _ in range(c)])
    for base in (0, 7):
        for d in tiny:
            if d:
                out.append(dict(kind='global', dtype='uint8', shape=[len(d)], data=[v + base for v in d],
                                pseed=rng.randrange(1 << 30), gen='tiny-exhaustive'))
    for _ in range(ng):
        out.append(_rand_global(rng))
    for _ in range(nb):
        out.append(_rand_bernsen(rng))
    for _ in range(ns):
        out.append(_rand_soft(rng))
    return out


def shrink(case):
    k = case['kind']
    if k == 'soft':
        key = 'bits' if case['dt'] == 'f64' else 'data'
        d = case[key]
        for i in range(len(d)):
            if len(d) > 1:
                e = d[:i] + d[i + 1:]
                yield dict(case, shape=[len(e)], **{key: e})
        return
    if 'rle' in case or case.get('size') == 'threshold':
        return                       # the size IS the point of these cases
    shape, data = case['shape'], case['data']
    A = np.array(data, dtype=object).reshape(shape)
    for ax in range(len(shape)):
        if shape[ax] > 1:
            for j in (shape[ax] - 1, 0):
                B = np.delete(A, j, axis=ax)
                yield dict(case, shape=list(B.shape), data=[int(x) for x in B.ravel().tolist()])
    if case['dtype'] != 'uint8' and max(data) < 256:
        yield dict(case, dtype='uint8')
    m = min(data)
    if m > 0 and k == 'global':
        yield dict(case, data=[v - m for v in data])
    for i, v in enumerate(data):
        if v != 0 and len(data) <= 64:
            d = list(data); d[i] = 0
            yield dict(case, data=d)
    if k == 'gbernsen':
        for i, v in enumerate(case['bc']):
            if v and sum(case['bc']) > 1:
                b = list(case['bc']); b[i] = 0
                yield dict(case, bc=b)
