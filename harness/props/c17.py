"""C17 — wavelet transforms reconstruct perfectly, conserve energy and are linear."""
from __future__ import annotations
import json
import numpy as np
from .. import core, gen

ID = 'C17'
LEVEL = 'proof'
FOUNDATIONS = ['harness.foundation.pybody']   # centerComputeI / center / decenter are tied to the current bodies of convolve.py
RULE = ('corpus; structured random 2-D images with even sides 2..64 (square and not, biased to small sizes and powers of '
        'two) x float32/float64/integer dtypes x seven layouts x preserve_energy on/off x inline on/off x all ten '
        'Daubechies codes x borders {ncoeffs-3, ncoeffs-2, ncoeffs, ncoeffs+1, ncoeffs+5} (and smaller ones); '
        'round trips, energy, D2 = Haar, linearity with integer weights, input untouched; Daubechies energy against the '
        'proved bound (fill value 0). Memory-level cases (kind mem): sides 1..20 ODD AND EVEN x eleven layouts (C, '
        'Fortran, strided, negative strides, offset, transposed, column step 3, padded rows, reversed rows, strided '
        'transposed) x the four wrappers x inline on/off x eight dtypes: the whole buffer owning the input before/after '
        'the call and the returned image against Model/C17Mem.lean. Centre cases (kind centeri): 1-3 dimensions x integer '
        'borders negative / 0..24 / 2^k+-1 up to 2^40-1 / out of range, zero sides: _wavelet_center_compute, '
        'wavelet_center, wavelet_decenter against centerComputeI. Size-threshold stream (tag size=threshold): 6 cases per '
        'quick run (10 otherwise) with row lengths / element counts crossing 2^8, 2^15, 2^16 (2x65538, 65538x2, 258x256, '
        '2x32770, 256x258, odd 2x65537), round trip / energy / linearity / Lean core model; thorough tier adds two float32 '
        'images with more than 2^24 elements (2x8388610, 131074x130) judged by an exact O(N) numpy transliteration of the '
        'Haar row kernels whose agreement with the Lean model is checked on every small haar case. Non-trivial = the image is not constant zero; '
        'distinct = distinct case.')
ASSUMPTIONS = [
    'finite values, |f| <= 1e6; even sides (the statement names them); sizes < 2^31',
    'Daubechies reconstruction is asserted when the offsets at which wavelet_center embeds the image are >= ncoeffs - 2 '
    '(wavelet_center(border >= ncoeffs - 3) guarantees it): the hypothesis of theorem C17_reconstruction_centered, forced '
    'by the code (zeros outside [0,N): analysis coefficients of negative index do not exist; truncating xmap2/2). '
    'It is sharp on the real code. With smaller offsets only the model is compared',
    'tolerances: Haar on integer-valued input is exact; float64 round trip / linearity 1e-12*max|f| for Haar, '
    'Daubechies reconstruction on float64 / integer images: the PROVED tolerance of theorem C17_tables_error_bound, '
    'tableTol[code]*max|f| (tableTol = 0, 1.3e-7, 1.9e-7, 2.5e-6, 1.7e-7, 7e-8, 8.1e-7, 1.5e-7, 7e-8, 1.1e-7 for D2..D20, '
    'read from lean/Mahotas/Properties/C17.lean; exact arithmetic on the float32 tables, every float image being a '
    'rational image) plus the PROVED rounding allowance tableRoundTol[code]*max|f| of theorem C17_tables_rounded_bound '
    '(every operation of the kernels rounded, standard model |fl x - x| <= 2^-53|x|, underflow excluded; + 1e-290); it '
    'replaces the empirical 1e-5 and the former unproved 1e-12. float32 images: 5e-5*max|f| (empirical: the kernels then compute in '
    'float32, whose rounding dominates the proved 2.5e-6); '
    'model comparison 1e-12*scale for float64 and integer images, 1e-4*scale for float32 images (the kernels then '
    'compute in float32, the model in double)',
    'inline=True is not combined with read-only inputs (numpy refuses the final in-place scaling)',
    'odd sides are outside the statement: on them only the memory-level model is compared (model-kind findings); a write '
    'into the caller\'s buffer with inline=False (or on an integer array) is a property finding on even sides only',
    'Daubechies energy |sum w^2 - 4 sum fc^2| <= (4 tableTol[code] + 1e-12) sum fc^2 (float32 images: + 1e-4) is asserted '
    'under the hypothesis of theorem C17_tables_energy_bound (fill value 0, embedding offsets >= ncoeffs-2) as a '
    'model-kind check: the statement names only the Haar energy',
    'wavelet_center is only executed when the centred array has at most 2^16 elements; for larger results (huge borders) '
    'only _wavelet_center_compute (shape and offsets) is compared with the model',
]
TRUSTED = ['numpy (array construction, layout views)']
CODES = ['D%d' % i for i in range(2, 21, 2)]
INT_DT = ['uint8', 'int16', 'int32', 'int64', 'uint16', 'bool']


_TABLE_TOL = None
_TABLE_ROUND_TOL = None


def _read_rat_list(name, cap):
    import re
    from fractions import Fraction
    src = (core.VERIF / 'lean' / 'Mahotas' / 'Properties' / 'C17.lean').read_text()
    m = re.search(r'def ' + name + r' : List Rat :=\s*\[(.*?)\]', src, flags=re.S)
    if not m:
        raise core.Infra(f'C17: def {name} not found in Properties/C17.lean')
    vals = [Fraction(x.strip().replace(' ', '')) for x in m.group(1).split(',')]
    if len(vals) != len(CODES) or any(v < 0 or v > cap for v in vals):
        raise core.Infra(f'C17: {name} has an unexpected shape')
    return [float(v) for v in vals]


def table_tol():
    """the proved tolerances `tableTol` of lean/Mahotas/Properties/C17.lean (theorem C17_tables_error_bound)"""
    global _TABLE_TOL
    if _TABLE_TOL is None:
        from fractions import Fraction
        _TABLE_TOL = _read_rat_list('tableTol', Fraction(1, 100000))
    return _TABLE_TOL


def table_round_tol():
    """the proved allowances `tableRoundTol` for the rounding of the double evaluation (theorem C17_tables_rounded_bound:
    standard model |fl x - x| <= 2^-53 |x|, underflow excluded)"""
    global _TABLE_ROUND_TOL
    if _TABLE_ROUND_TOL is None:
        from fractions import Fraction
        _TABLE_ROUND_TOL = _read_rat_list('tableRoundTol', Fraction(1, 10 ** 10))
    return _TABLE_ROUND_TOL


MEM_LAYOUTS = ['C', 'C', 'F', 'strided', 'negstride', 'offset', 'transposed', 'colstep3', 'rowpad', 'negrows', 'tstrided']


def _mem_layout(a, layout):
    """gen.relayout plus a few views whose strides are odd multiples / padded / partly negative (they matter for the
    pointer arithmetic `high = data + step*N1/2` on odd sides)"""
    a = np.ascontiguousarray(a)
    if layout == 'colstep3':
        big = np.full((a.shape[0], 3 * a.shape[1] + 1), 7, a.dtype)
        v = big[:, 1::3]
    elif layout == 'rowpad':
        big = np.full((a.shape[0] + 1, a.shape[1] + 3), 1, a.dtype)
        v = big[:a.shape[0], 2:2 + a.shape[1]]
    elif layout == 'negrows':
        big = np.zeros(a.shape, a.dtype)
        v = big[::-1]
    elif layout == 'tstrided':
        big = np.full((2 * a.shape[1], 3 * a.shape[0]), 2, a.dtype)
        v = big[::2, ::3].T
    else:
        return gen.relayout(a, layout)
    v[...] = a
    return v


def _root_flat(v):
    """(flat 1-D view of the buffer that owns `v`'s memory, element offset of v[0,0], element strides)"""
    root = v
    while isinstance(root.base, np.ndarray):
        root = root.base
    if not (root.flags.c_contiguous or root.flags.f_contiguous):
        raise core.Infra('C17: root buffer not contiguous')
    isz = v.dtype.itemsize
    flat = np.lib.stride_tricks.as_strided(root, shape=(root.size,), strides=(isz,))
    off = (v.__array_interface__['data'][0] - root.__array_interface__['data'][0]) // isz
    return flat, int(off), [int(st // isz) for st in v.strides]


def _py_rows(name, X):
    """exact O(N) numpy transliteration of the Haar row kernels on the rows of a C-contiguous 2-D array (core model:
    valid where the pointer high = data + step*N1/2 is right); its agreement with the Lean model is checked on every
    small `haar` case"""
    N1 = X.shape[1]
    h = N1 // 2
    out = np.zeros_like(X)
    if name == 'haar':
        out[:, :h] = X[:, 0:2 * h:2] + X[:, 1:2 * h:2]
        out[:, h:2 * h] = X[:, 1:2 * h:2] - X[:, 0:2 * h:2]
    else:
        lo, hi = X[:, :h], X[:, h:2 * h]
        out[:, 0:2 * h:2] = (lo - hi) / 2
        out[:, 1:2 * h:2] = (lo + hi) / 2
    return out


def _py_haar2(name, A, pe):
    X = np.array(A, copy=True)
    X = _py_rows(name, X)
    X = np.ascontiguousarray(_py_rows(name, np.ascontiguousarray(X.T)).T)
    if pe:
        X = X / X.dtype.type(2) if name == 'haar' else X * X.dtype.type(2)
    return X


def _arr(case, key='data'):
    return np.array(case[key], dtype=np.float64).astype(case['dtype']).reshape(case['shape'])


def _line(name, A, pe=True, code=0):
    A = np.asarray(A, np.float64)
    return (f"c17 kind=t name={name} shape={gen.enc_shape(A.shape)} data={core.fmt_floats(A)} "
            f"pe={1 if pe else 0} code={code}")


def _mtol(dtype, *arrs):
    sc = max([1.0] + [float(np.abs(np.asarray(a, np.float64)).max()) for a in arrs if np.asarray(a).size])
    return (1e-4 if dtype == 'float32' else 1e-12) * sc


def _run(case):
    """run the real code; returns (checks, driver requests). A request is (line, got, tol, key)."""
    import mahotas as mh
    k = case['kind']
    dt = case['dtype']
    A = _arr(case) if 'data' in case else np.zeros(case['shape'], case['dtype'])
    layout = case.get('layout', 'C')
    inline = bool(case.get('inline', False))
    isfloat = dt in ('float32', 'float64')
    f = []
    req = []
    Al = _mem_layout(A.copy(), layout)
    before = Al.copy()
    scale = max(1.0, float(np.abs(A.astype(np.float64)).max())) if A.size else 1.0

    def untouched(tag):
        if not np.array_equal(before, Al):
            f.append(dict(kind='property', key=f'input-modified:{tag}', detail=dict(inline=False)))

    if k == 'haar':
        pe = case['pe']
        h = mh.haar(Al, preserve_energy=pe, inline=inline)
        if not inline or not isfloat:
            untouched('haar')
        # the wrapper model (theorem C17_inline_only) says which buffer the call wrote into
        req.append((f"c17 kind=wrap isfloat={1 if isfloat else 0} inline={1 if inline else 0}",
                    'input' if (h is Al or np.shares_memory(h, Al)) else 'fresh', None, 'wrap:haar'))
        hc = np.array(h, copy=True)
        req.append((_line('haar', A, pe), hc, _mtol(dt, A) * 4, 'haar'))
        if A.size <= 4096:
            # the numpy oracle used for the huge thorough-tier cases agrees with the Lean model (double arithmetic)
            req.append((_line('haar', A, pe), _py_haar2('haar', A.astype(np.float64), pe), 1e-12 * scale * 4, 'oracle-haar'))
            req.append((_line('ihaar', A, pe), _py_haar2('ihaar', A.astype(np.float64), pe), 1e-12 * scale * 4, 'oracle-ihaar'))
        r = mh.ihaar(hc.copy(), preserve_energy=pe, inline=False)
        req.append((_line('ihaar', hc, pe), np.array(r), _mtol(dt, hc) * 4, 'ihaar'))
        exact = bool(np.all(A == np.round(A))) and scale < 2 ** 20
        tol = 0.0 if (exact and dt != 'float32') else (1e-5 if dt == 'float32' else 1e-12) * scale
        err = float(np.abs(np.asarray(r, np.float64) - A.astype(np.float64)).max())
        if not err <= tol:
            f.append(dict(kind='property', key=f'haar-roundtrip:{"float32" if dt == "float32" else "f64"}',
                          detail=dict(err=err, tol=tol, pe=pe)))
        if pe:
            e0 = float((A.astype(np.float64) ** 2).sum())
            e1 = float((np.asarray(hc, np.float64) ** 2).sum())
            if not abs(e0 - e1) <= (1e-5 if dt == 'float32' else 1e-12) * max(1.0, e0):
                f.append(dict(kind='property', key='haar-energy', detail=dict(before=e0, after=e1)))
        # D2 coincides with the unnormalised Haar transform
        d2 = mh.daubechies(gen.relayout(A, layout), 'D2')
        hu = mh.haar(gen.relayout(A, layout), preserve_energy=False)
        if not np.array_equal(np.asarray(d2), np.asarray(hu)):
            f.append(dict(kind='property', key='d2-is-haar',
                          detail=dict(err=float(np.abs(np.asarray(d2, np.float64) - np.asarray(hu, np.float64)).max()))))
    elif k == 'daub':
        code = case['code']
        ci = CODES.index(code)
        nco = 2 * (ci + 1)
        border = case['border']
        fc = mh.wavelet_center(Al, border=border, dtype=(np.float32 if dt == 'float32' else float))
        untouched('wavelet_center')
        back = mh.wavelet_decenter(fc, A.shape, border=border)
        if back.shape != A.shape or not np.array_equal(np.asarray(back, np.float64), A.astype(np.float64)):
            f.append(dict(kind='property', key='decenter-center', detail=dict(shape=list(back.shape))))
        center_req = [f"c17 kind=center shape={gen.enc_shape(A.shape)} border={border}",
                      dict(shape=list(fc.shape)), None, 'center']
        req.append(center_req)
        fc0 = fc.copy()
        w = mh.daubechies(fc, code, inline=inline)
        if not inline:
            if not np.array_equal(fc0, fc):
                f.append(dict(kind='property', key='input-modified:daubechies', detail={}))
        # `fc` is always floating point (wavelet_center's dtype); the wrapper model says which buffer is written
        req.append((f"c17 kind=wrap isfloat=1 inline={1 if inline else 0}",
                    'input' if (w is fc or np.shares_memory(w, fc)) else 'fresh', None, 'wrap:daubechies'))
        wc = np.array(w, copy=True)
        req.append((_line('daubechies', fc0, code=ci), wc, _mtol(dt, fc0) * 8, f'daubechies'))
        # inline=True on a NON-contiguous float view of the same values (rows packed but padded, strided, Fortran ...):
        # the transform is written into exactly that view - same values as on the contiguous array, nothing outside it
        if layout not in ('C', 'readonly'):
            V = gen.relayout(fc0.copy(), layout)
            root = V
            while root.base is not None and isinstance(root.base, np.ndarray):
                root = root.base
            root0 = root.copy()
            wv = mh.daubechies(V, code, inline=True)
            resv = np.array(V, copy=True)
            if not (wv is V or np.shares_memory(wv, V)):
                f.append(dict(kind='property', key='inline:daubechies-view-not-in-place', detail=dict(layout=layout)))
            tolv = _mtol(dt, fc0) * 8
            if resv.shape != wc.shape or float(np.abs(resv.astype(np.float64) - wc.astype(np.float64)).max()) > tolv:
                f.append(dict(kind='property', key='daubechies:inline-view-differs',
                              detail=dict(layout=layout, code=code, maxdiff=float(np.abs(resv.astype(np.float64) - wc.astype(np.float64)).max()) if resv.shape == wc.shape else None)))
            V[...] = fc0
            if not np.array_equal(root, root0):
                f.append(dict(kind='property', key='daubechies:inline-wrote-outside-the-view', detail=dict(layout=layout, code=code)))
        w0 = wc.copy()
        r = mh.idaubechies(wc, code)
        if not np.array_equal(w0, wc):
            f.append(dict(kind='property', key='input-modified:idaubechies', detail={}))
        req.append((_line('idaubechies', w0, code=ci), np.array(r), _mtol(dt, w0) * 8, f'idaubechies'))
        rd = mh.wavelet_decenter(r, A.shape, border=border)
        # judged in evaluate(): asserted when the offsets of the embedding (from the model) are >= ncoeffs - 2,
        # the margin of theorem C17_reconstruction_centered
        # energy of the Daubechies transform on the real code against theorem C17_tables_energy_bound (fill value 0)
        e_in = float((np.asarray(fc0, np.float64) ** 2).sum())
        e_out = float((np.asarray(w0, np.float64) ** 2).sum())
        center_req[1].update(e_in=e_in, e_out=e_out,
                             e_tol=(4 * table_tol()[ci] + (1e-4 if dt == 'float32' else 1e-12)) * e_in)
        center_req[1].update(err=float(np.abs(np.asarray(rd, np.float64) - A.astype(np.float64)).max()),
                             tol=(5e-5 * scale if dt == 'float32' else
                                  (table_tol()[ci] + table_round_tol()[ci]) * float(np.abs(A.astype(np.float64)).max()) + 1e-290),
                             nco=nco, code=code, border=border)
    elif k == 'lin':
        name = case['name']
        B = _arr(case, 'data2')
        a, b = case['a'], case['b']
        code = case.get('code', 'D2')
        ci = CODES.index(code)
        pe = case.get('pe', True)

        def T(X):
            X = gen.relayout(X, layout)
            if name == 'haar':
                return np.asarray(mh.haar(X, preserve_energy=pe), np.float64)
            if name == 'ihaar':
                return np.asarray(mh.ihaar(X, preserve_energy=pe), np.float64)
            if name == 'daubechies':
                return np.asarray(mh.daubechies(X, code), np.float64)
            return np.asarray(mh.idaubechies(X, code), np.float64)
        Af, Bf = A.astype(np.float64), B.astype(np.float64)
        if case.get('aexp') is not None:
            # homogeneity far from 1: f scaled by a power of two into the subnormal range (or towards the overflow threshold).
            # Scaling by 2^e is exact, so T(2^e f) = 2^e T(f) up to the rounding of subnormal results: judged RELATIVE to the
            # scaled magnitude (the absolute allowances below are floored at 1 and cannot see values of 1e-310)
            s_ = 2.0 ** int(case['aexp'])
            comb = (s_ * Af).astype(np.float32 if dt == 'float32' else np.float64)
            ta, tc = T(A), T(comb)
            untouched(name)
            ref = s_ * ta
            m_ = float(np.abs(ref).max()) if ref.size else 0.0
            if np.isfinite(m_) and m_ > 0:
                err = float(np.abs(tc - ref).max())
                # results in the subnormal range are rounded to multiples of the smallest subnormal (absolute, not relative)
                ulp0 = 2.0 ** -149 if dt == 'float32' else 2.0 ** -1074
                if not err <= 1e-4 * m_ + 256 * ulp0:
                    f.append(dict(kind='property', key=f'linearity:{name}:scale', detail=dict(err=err, magnitude=m_, aexp=case['aexp'], code=code)))
            req.append((_line(name, A, pe, ci), ta, _mtol(dt, A, ta) * 8, name))
            return f, req, bool(np.any(A != 0))
        comb = (a * Af + b * Bf).astype(np.float32 if dt == 'float32' else np.float64)
        ta, tb, tc = T(A), T(B), T(comb)
        untouched(name)
        sc = max(1.0, float(np.abs(comb).max()), abs(a) * float(np.abs(ta).max()), abs(b) * float(np.abs(tb).max()))
        exact = name in ('haar', 'ihaar') and dt != 'float32' and bool(np.all(Af == np.round(Af)) and np.all(Bf == np.round(Bf))) and sc < 2 ** 20
        tol = 0.0 if exact else (1e-4 if dt == 'float32' else 1e-11) * sc
        err = float(np.abs(tc - (a * ta + b * tb)).max())
        if not err <= tol:
            f.append(dict(kind='property', key=f'linearity:{name}', detail=dict(err=err, tol=tol, code=code)))
        req.append((_line(name, A, pe, ci), ta, _mtol(dt, A, ta) * 8, name))
    elif k == 'mem':
        # the memory-level model (Model/C17Mem.lean): the whole buffer that owns the input, before and after the call,
        # and the returned image; odd sides included (the statement is silent there: model-kind only)
        name = case['name']
        ci = CODES.index(case.get('code', 'D2'))
        pe = bool(case.get('pe', True))
        Al = _mem_layout(A.copy(), layout)
        flat, off, strides = _root_flat(Al)
        flat0 = flat.copy()
        kw = dict(inline=inline)
        if name in ('haar', 'ihaar'):
            r = getattr(mh, name)(Al, preserve_energy=pe, **kw)
        else:
            r = getattr(mh, name)(Al, CODES[ci], **kw)
        flat1 = np.asarray(flat, np.float64).copy()
        even = all(n % 2 == 0 for n in A.shape)
        if (not inline or not isfloat) and not np.array_equal(flat0, flat):
            f.append(dict(kind='property' if even else 'model', key=f'input-modified:{name}', detail=dict(layout=layout)))
        line = (f"c17 kind=mem name={name} shape={gen.enc_shape(A.shape)} strides={core.fmt_ints(strides)} off={off} "
                f"buf={core.fmt_floats(np.asarray(flat0, np.float64))} code={ci} pe={1 if pe else 0} "
                f"isfloat={1 if isfloat else 0} inline={1 if inline else 0}")
        tolm = _mtol(dt, flat0, r) * 16
        req.append((line, dict(res=np.asarray(r, np.float64).copy(), buf=flat1,
                               aliased=bool(r is Al or np.shares_memory(r, Al))), tolm, f'mem:{name}'))
    elif k == 'centeri':
        # `_wavelet_center_compute` for every integer border (negative, zero, huge, out of range) and its two users
        border = int(case['border'])
        shape = tuple(case['shape'])
        got = dict()
        try:
            from mahotas.convolve import _wavelet_center_compute
            ns, pos = _wavelet_center_compute(shape, border)
            got['shape'] = [int(x) for x in ns]
            got['delta'] = [int(p.start) for p in pos]
        except ValueError:
            got['shape'] = None
        import math
        if got['shape'] is not None and math.prod(got['shape']) <= 1 << 16:
            fc = mh.wavelet_center(Al, border=border, cval=case.get('cval', 0.0))
            if list(fc.shape) != got['shape']:
                f.append(dict(kind='model', key='center-shape-vs-compute', detail=dict(got=list(fc.shape))))
            back = mh.wavelet_decenter(fc, A.shape, border=border)
            if back.shape != A.shape or not np.array_equal(np.asarray(back, np.float64), A.astype(np.float64)):
                f.append(dict(kind='property', key='decenter-center', detail=dict(shape=list(back.shape), border=border)))
            inside = np.zeros(fc.shape, bool)
            inside[tuple(slice(d, d + e) for d, e in zip(got['delta'], A.shape))] = True
            if not np.all(fc[~inside] == case.get('cval', 0.0)):
                f.append(dict(kind='model', key='center-fill', detail=dict(border=border)))
        req.append((f"c17 kind=centeri shape={core.fmt_ints(shape)} border={border}", got, None, 'centeri'))
    elif k == 'tmodel':
        # wrapper on a C-contiguous float array against the CORE model; generated only where theorem C17_mem_is_core
        # applies (even number of rows or a single column ... : both pointers right), odd row lengths included
        name = case['name']
        pe = bool(case.get('pe', True))
        ci = CODES.index(case.get('code', 'D2'))
        X = np.ascontiguousarray(A)
        r = getattr(mh, name)(X, preserve_energy=pe) if name in ('haar', 'ihaar') else getattr(mh, name)(X, CODES[ci])
        req.append((_line(name, A, pe, ci), np.asarray(r, np.float64), _mtol(dt, A, r) * 8, f'tmodel:{name}'))
        if name == 'haar':
            r2 = mh.ihaar(r, preserve_energy=pe)
            want = A.astype(np.float64).copy()
            want[2 * (A.shape[0] // 2):, :] = 0
            want[:, 2 * (A.shape[1] // 2):] = 0
            if not np.array_equal(np.asarray(r2, np.float64), want):
                f.append(dict(kind='model', key='haar-roundtrip-odd', detail=dict(shape=list(A.shape))))
    elif k == 'bigpy':
        # thorough tier: more than 2^24 elements, judged by the numpy oracle (the Lean driver is not fed 16M numbers)
        pe = bool(case.get('pe', True))
        rs = np.random.RandomState(case['seed'])
        A = rs.randint(-8, 9, size=case['shape']).astype(dt)
        h = mh.haar(A, preserve_energy=pe)
        o = _py_haar2('haar', A, pe)
        if not np.array_equal(np.asarray(h), o):
            bad = np.argwhere(np.asarray(h) != o)
            f.append(dict(kind='model', key='oracle:haar:big', detail=dict(first=[int(t) for t in bad[0]], nbad=int(len(bad)))))
        r = mh.ihaar(h, preserve_energy=pe)
        if not np.array_equal(np.asarray(r), A):
            bad = np.argwhere(np.asarray(r) != A)
            f.append(dict(kind='property', key='haar-roundtrip:big', detail=dict(first=[int(t) for t in bad[0]], nbad=int(len(bad)))))
        if pe:
            e0 = float((A.astype(np.float64) ** 2).sum()); e1 = float((np.asarray(h, np.float64) ** 2).sum())
            if not abs(e0 - e1) <= 1e-9 * max(1.0, e0):
                f.append(dict(kind='property', key='haar-energy:big', detail=dict(before=e0, after=e1)))
        return f, req, True
    nontrivial = bool(np.any(A != 0))
    return f, req, nontrivial


def _run_safe(case):
    try:
        return _run(case)
    except core.Infra:
        raise
    except Exception as e:  # the real code raised on an input of the documented domain
        name = case.get('name', case['kind'])
        return ([dict(kind='property', key=f"raises:{name}:{case.get('layout', 'C')}",
                      detail=dict(error=f'{type(e).__name__}: {e}'))], [], True)


def evaluate(cases):
    runs = [_run_safe(c) for c in cases]
    lines = [rq[0] for _, reqs, _ in runs for rq in reqs]
    drvs = iter(core.drive(lines))
    res = []
    for c, (f, reqs, nontrivial) in zip(cases, runs):
        for line, got, tol, key in reqs:
            d = next(drvs)
            if 'error' in d:
                raise core.Infra('driver: ' + str(d))
            if key == 'center':
                want = core.ints(d['nshape']) if d['nshape'] != 'none' else None
                if want != got['shape']:
                    f.append(dict(kind='model', key='center-shape', detail=dict(got=got['shape'], model=want)))
                elif want is not None and any(n & (n - 1) for n in got['shape']):
                    f.append(dict(kind='property', key='center-not-power-of-two', detail=dict(got=got['shape'])))
                elif want is not None and 'err' in got:
                    delta = core.ints(d['delta'])
                    c['_margin'] = bool(min(delta) >= got['nco'] - 2)
                    if c['_margin'] and not got['err'] <= got['tol']:
                        f.append(dict(kind='property', key=f"daubechies-reconstruction:{got['code']}",
                                      detail=dict(err=got['err'], tol=got['tol'], border=got['border'], delta=delta)))
                    # the proved energy bound (C17_tables_energy_bound: the centred image vanishes in its first
                    # ncoeffs-2 rows and columns) holds on the real code; the statement names only the Haar energy,
                    # so a failure is a broken correspondence, not a property violation
                    if c['_margin'] and not abs(got['e_out'] - 4 * got['e_in']) <= got['e_tol']:
                        f.append(dict(kind='model', key=f"daubechies-energy:{got['code']}",
                                      detail=dict(e_in=got['e_in'], e_out=got['e_out'], tol=got['e_tol'])))
                continue
            if key == 'centeri':
                want = core.ints(d['nshape']) if d['nshape'] != 'none' else None
                wantd = core.ints(d['delta']) if d['delta'] != 'none' else None
                if want != got['shape'] or (want is not None and wantd != got['delta']):
                    f.append(dict(kind='model', key='centeri', detail=dict(got=got, model=dict(shape=want, delta=wantd))))
                elif want is not None and any(n & (n - 1) for n in got['shape']):
                    f.append(dict(kind='property', key='center-not-power-of-two', detail=dict(got=got['shape'])))
                continue
            if key.startswith('mem:'):
                mres, mbuf = core.floats(d['model']), core.floats(d['buf'])
                inp = d.get('target')
                for what, mv, gv in (('result', mres, got['res'].ravel()), ('buffer', mbuf, got['buf'].ravel())):
                    if mv.size != gv.size:
                        raise core.Infra('size mismatch')
                    bad = np.nonzero(~(np.abs(gv - mv) <= tol))[0]
                    if len(bad) and not any(x['kind'] == 'property' for x in f):
                        i = int(bad[0])
                        f.append(dict(kind='model', key=f'{key}:{what}:{"float32" if c["dtype"] == "float32" else "f64"}',
                                      detail=dict(index=i, got=float(gv[i]), model=float(mv[i]), nbad=int(len(bad)), tol=tol)))
                        break
                if inp is not None and (inp == 'input') != got['aliased']:
                    f.append(dict(kind='model', key=f"inline:{key[4:]}-buffer", detail=dict(real=got['aliased'], model=inp)))
                continue
            if key.startswith('wrap:'):
                if d.get('target') != got:
                    f.append(dict(kind='model', key=f"inline:{key[5:]}-buffer", detail=dict(real=got, model=d.get('target'))))
                continue
            model = core.floats(d['model'])
            g = np.asarray(got, np.float64).ravel(order='C')
            if model.size != g.size:
                raise core.Infra('size mismatch')
            bad = np.nonzero(~(np.abs(g - model) <= tol))[0]
            if len(bad) and not any(x['kind'] == 'property' for x in f):
                i = int(bad[0])
                f.append(dict(kind='model', key=f'model:{key}:{"float32" if c["dtype"] == "float32" else "f64"}',
                              detail=dict(pixel=i, got=float(g[i]), model=float(model[i]), nbad=int(len(bad)), tol=tol)))
        tags = dict(kind=c['kind'], dtype=c['dtype'], layout=c.get('layout', 'C'),
                    size=('small' if max(c['shape'] + [0]) <= 8 else 'medium' if max(c['shape']) <= 32 else 'large'),
                    square=len(set(c['shape'])) == 1)
        if c['kind'] == 'haar':
            tags.update(pe=c['pe'], inline=c.get('inline', False))
        elif c['kind'] == 'daub':
            tags.update(code=c['code'], inline=c.get('inline', False),
                        margin=('>=ncoeffs-2 (reconstruction asserted)' if c.pop('_margin', False) else '<ncoeffs-2 (model only)'))
        elif c['kind'] in ('tmodel', 'bigpy'):
            tags.update(name=c.get('name', 'haar'), parity=''.join('o' if n % 2 else 'e' for n in c['shape']))
        elif c['kind'] == 'mem':
            tags.update(name=c['name'], inline=c.get('inline', False),
                        parity=''.join('o' if n % 2 else 'e' for n in c['shape']))
        elif c['kind'] == 'centeri':
            b = c['border']
            tags.update(border=('negative' if b < 0 else 'zero' if b == 0 else 'small' if b <= 64 else
                                'large' if b < 2 ** 40 else 'out-of-range'), ndim=len(c['shape']))
        else:
            tags.update(name=c['name'], code=c.get('code'))
        if c.get('stream') == 'threshold':
            tags['size'] = 'threshold'
        res.append(dict(findings=f, nontrivial=nontrivial, sig=(json.dumps(c, sort_keys=True) if len(c.get('data', ())) <= 20000 else
                             json.dumps(dict(kind=c['kind'], shape=c['shape'], dtype=c['dtype'], stream='threshold',
                                             h=hash(tuple(c['data']))), sort_keys=True)), tags=tags))
    return res


# ------------------------------------------------------------------------------------------------

def _corpus():
    d = core.VERIF / 'corpus' / ID
    out = []
    if d.exists():
        for p in sorted(d.glob('*.json')):
            out.append(json.loads(p.read_text())['case'])
    return out


def _side(rng, cap=64):
    u = rng.random()
    if u < 0.45:
        return rng.choice([2, 2, 4, 6, 8])
    if u < 0.7:
        return rng.choice([2, 4, 8, 16, 32, 64][: {64: 6, 32: 5, 16: 4}.get(cap, 6)])
    return 2 * rng.randint(1, cap // 2)


def _values(rng, n, dtype):
    if dtype == 'bool':
        return [float(rng.random() < 0.5) for _ in range(n)]
    if dtype == 'uint8':
        return [float(rng.randint(0, 255)) for _ in range(n)]
    if dtype == 'uint16':
        return [float(rng.randint(0, 65535)) for _ in range(n)]
    if dtype in ('int16', 'int32', 'int64'):
        return [float(rng.randint(-300, 300)) for _ in range(n)]
    u = rng.random()
    if u < 0.4:
        return [float(rng.randint(-50, 50)) for _ in range(n)]
    if u < 0.5:
        return [float(rng.randint(0, 255)) for _ in range(n)]
    hi = rng.choice([1.0, 1.0, 255.0, 1e4])
    lo = 0.0 if rng.random() < 0.5 else -hi
    if dtype == 'float32':
        return [float(np.float32(rng.uniform(lo, hi))) for _ in range(n)]
    return [rng.uniform(lo, hi) for _ in range(n)]


def _dtype(rng):
    u = rng.random()
    return 'float64' if u < 0.45 else 'float32' if u < 0.7 else rng.choice(INT_DT)


def cases(rng, tier):
    out = list(_corpus()) if tier != 'search' else []
    nrand = dict(quick=2500, thorough=60000, search=10000)[tier]
    for i in range(nrand):
        u = rng.random()
        dtype = _dtype(rng)
        layout = rng.choice(gen.LAYOUTS + ['C'] * 3)
        if u < 0.4:
            shape = [_side(rng), _side(rng)]
            if rng.random() < 0.3:
                shape[1] = shape[0]
            inline = rng.random() < 0.4 and layout != 'readonly'
            c = dict(kind='haar', dtype=dtype, shape=shape, data=_values(rng, shape[0] * shape[1], dtype),
                     pe=rng.random() < 0.6, inline=inline, layout=layout)
        elif u < 0.72:
            cap = 64 if rng.random() < 0.08 else 16
            shape = [_side(rng, cap), _side(rng, cap)]
            code = rng.choice(CODES)
            nco = 2 * (CODES.index(code) + 1)
            border = rng.choice([nco - 3, nco - 3, nco - 2, nco, nco + 1, nco + 5]) if rng.random() < 0.8 else rng.randint(0, max(0, nco - 1))
            border = max(0, border)
            inline = rng.random() < 0.4
            c = dict(kind='daub', dtype=dtype, shape=shape, data=_values(rng, shape[0] * shape[1], dtype),
                     code=code, border=border, inline=inline, layout=layout)
        else:
            cap = 64 if rng.random() < 0.08 else 16
            shape = [_side(rng, cap), _side(rng, cap)]
            n = shape[0] * shape[1]
            dtype = rng.choice(['float64', 'float64', 'float32'])
            c = dict(kind='lin', dtype=dtype, shape=shape, name=rng.choice(['haar', 'ihaar', 'daubechies', 'idaubechies']),
                     data=_values(rng, n, dtype), data2=_values(rng, n, dtype), a=float(rng.randint(-4, 4)),
                     b=float(rng.randint(-4, 4)), code=rng.choice(CODES), pe=rng.random() < 0.5, layout=layout)
            if rng.random() < 0.15:
                # small integers times 2^e: exactly representable, subnormal (or huge) after scaling
                c['data'] = [float(rng.randint(-50, 50)) for _ in range(n)]
                c['aexp'] = rng.choice([-1040, -1060, -1030, 900] if dtype == 'float64' else [-137, -135, -133, 100])
        out.append(c)
    # memory-level cases: odd and even sides, eleven layouts, the four wrappers, inline on/off (Model/C17Mem.lean)
    for i in range(dict(quick=700, thorough=15000, search=3000)[tier]):
        def side():
            u = rng.random()
            return (rng.choice([1, 3, 3, 5, 5, 7, 9, 11, 13]) if u < 0.45 else
                    rng.choice([2, 2, 4, 4, 6, 8, 10, 12, 16]) if u < 0.9 else rng.randint(1, 20))
        shape = [side(), side()]
        dtype = _dtype(rng)
        out.append(dict(kind='mem', dtype=dtype, shape=shape, name=rng.choice(['haar', 'ihaar', 'daubechies', 'idaubechies']),
                        data=_values(rng, shape[0] * shape[1], dtype), layout=rng.choice(MEM_LAYOUTS),
                        inline=rng.random() < 0.5, pe=rng.random() < 0.5, code=rng.choice(CODES)))
    # `_wavelet_center_compute` / wavelet_center / wavelet_decenter for every integer border
    for i in range(dict(quick=400, thorough=6000, search=1000)[tier]):
        nd = rng.choice([1, 2, 2, 2, 3])
        shape = [(rng.randint(1, 12) if rng.random() < 0.8 else rng.randint(1, 70)) for _ in range(nd)]
        if rng.random() < 0.03:
            shape[rng.randrange(nd)] = 0
        u = rng.random()
        if u < 0.15:
            border = -rng.choice([1, 2, 5, 100, 2 ** 41, 2 ** 62])
        elif u < 0.5:
            border = rng.randint(0, 24)
        elif u < 0.8:
            border = 2 ** rng.randint(3, 39) + rng.choice([-1, 0, 1])
        elif u < 0.9:
            border = rng.choice([2 ** 40 - 1, 2 ** 40 - 2, rng.randint(2 ** 20, 2 ** 40 - 1)])
        else:
            border = rng.choice([2 ** 40, 2 ** 40 + 1, 2 ** 63, 10 ** 30])
        dtype = _dtype(rng)
        n = int(np.prod(shape))
        out.append(dict(kind='centeri', dtype=dtype, shape=shape, data=_values(rng, n, dtype), border=border,
                        cval=float(rng.choice([0, 0, 1, -3])), layout='C'))
    # size-threshold stream: row lengths / element counts crossing 2^8, 2^15, 2^16 (a counter or index narrowed to
    # 16 bits passes every small case); integer-valued data, judged by the Lean driver (core model)
    def ints_(n):
        return [float(rng.randint(-9, 9)) for _ in range(n)]
    thr = [dict(kind='haar', dtype='float64', shape=[2, 65538], pe=True, inline=False, layout='C'),
           dict(kind='haar', dtype='float32', shape=[65538, 2], pe=False, inline=True, layout='C'),
           dict(kind='haar', dtype='float64', shape=[258, 256], pe=True, inline=False, layout='F'),
           dict(kind='lin', dtype='float64', shape=[2, 32770], name='idaubechies', a=2.0, b=-3.0, code='D6', pe=True, layout='C'),
           dict(kind='lin', dtype='float64', shape=[256, 258], name='daubechies', a=1.0, b=2.0, code='D20', pe=True, layout='transposed'),
           dict(kind='tmodel', dtype='float64', shape=[2, 65537], name='haar', pe=True, layout='C')]
    if tier != 'quick':
        thr += [dict(kind='tmodel', dtype='float64', shape=[32768, 3], name='ihaar', pe=False, layout='C'),
                dict(kind='tmodel', dtype='float64', shape=[2, 65539], name='idaubechies', code='D4', layout='C'),
                dict(kind='haar', dtype='int32', shape=[32770, 4], pe=True, inline=False, layout='strided'),
                dict(kind='lin', dtype='float32', shape=[4, 65540], name='ihaar', a=1.0, b=1.0, code='D2', pe=False, layout='C')]
    for c in thr:
        n = c['shape'][0] * c['shape'][1]
        c.update(data=ints_(n), stream='threshold')
        if c['kind'] == 'lin':
            c['data2'] = ints_(n)
        out.append(c)
    if tier == 'thorough':
        # float32 images with more than 2^24 elements / rows longer than 2^16 (numpy oracle)
        out.append(dict(kind='bigpy', dtype='float32', shape=[2, 8388610], pe=True, seed=rng.randint(0, 10 ** 6), stream='threshold'))
        out.append(dict(kind='bigpy', dtype='float32', shape=[131074, 130], pe=False, seed=rng.randint(0, 10 ** 6), stream='threshold'))
    return out


def shrink(case):
    if case['kind'] in ('bigpy', 'tmodel') or case.get('stream') == 'threshold':
        return
    if case['kind'] == 'centeri':
        if case['border'] not in (0, 1, -1):
            yield dict(case, border=case['border'] // 2)
        return
    if case['kind'] == 'mem':
        sh = case['shape']
        A0 = np.array(case['data'], np.float64).reshape(sh)
        for ax in range(2):
            if sh[ax] > 1:
                A2 = A0[:-1] if ax == 0 else A0[:, :-1]
                yield dict(case, shape=list(A2.shape), data=[float(x) for x in A2.ravel()])
        if case.get('layout', 'C') != 'C':
            yield dict(case, layout='C')
        if case['dtype'] != 'float64':
            yield dict(case, dtype='float64')
        if case.get('code', 'D2') != 'D2' and case['name'] in ('daubechies', 'idaubechies'):
            yield dict(case, code=CODES[CODES.index(case['code']) - 1])
        return
    shape = case['shape']
    A = np.array(case['data'], np.float64).reshape(shape)
    B = np.array(case['data2'], np.float64).reshape(shape) if 'data2' in case else None
    for ax in range(2):
        if shape[ax] > 2:
            for sl in (slice(0, shape[ax] - 2), slice(2, None), slice(0, shape[ax] // 2 * 2 // 2 if (shape[ax] // 2) % 2 == 0 else 2)):
                idx = [slice(None)] * 2; idx[ax] = sl
                A2 = A[tuple(idx)]
                if A2.shape[ax] < 2 or A2.shape[ax] % 2:
                    continue
                c = dict(case, shape=list(A2.shape), data=[float(x) for x in A2.ravel()])
                if B is not None:
                    c['data2'] = [float(x) for x in B[tuple(idx)].ravel()]
                yield c
    if case.get('layout', 'C') != 'C':
        yield dict(case, layout='C')
    if case['dtype'] != 'float64':
        yield dict(case, dtype='float64')
    if case.get('inline'):
        yield dict(case, inline=False)
    data = case['data']
    if any(v != round(v) for v in data):
        yield dict(case, data=[float(round(v)) for v in data])
    if len(data) <= 64:
        for i, v in enumerate(data):
            if v != 0:
                d = list(data); d[i] = 0.0
                yield dict(case, data=d)
