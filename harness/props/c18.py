"""C18 — shift/zoom/resize evaluate the spline interpolant at the mapped coordinates."""
from __future__ import annotations
import itertools, json, math
import numpy as np
from .. import core, gen
from . import c18_big

ID = 'C18'
FOUNDATIONS = ['harness.foundation.cscalar', 'harness.foundation.pybody']   # ties of the C++ helper functions the model rests on (generated from their text)
LEVEL = 'proof'
RULE = ('corpus; structured random float64 arrays of 1-3 dimensions (axis lengths 1..24, integer-valued, ramps and '
        'random values) x orders 1-4 x six border modes x prefilter on/off x seven memory layouts; shifts per axis from '
        '{zero, integer, k/8, negative, larger than the array, arbitrary}; zoom by explicit target shape '
        '({1,2,n,2n-1,2n,random}) or by factor; spline_filter / spline_filter1d; imresize / resize_to / resize_rgb_to; '
        'invalid out buffers; zoom output shapes for 1500 factor vectors (ties k/s and their float neighbours, tiny, large, '
        'negative, non-finite, integer, scalar/sequence, wrong length); resize_to on integer images (7 dtypes); '
        'a size-threshold stream (tag size=threshold: 5 cases per quick run whose line length crosses 2^8, 2^15, 2^16 +-1, '
        'a 257x256 image; thorough: lines of 65537 / 70001 samples in both orientations and 2^24+1 elements) judged by an '
        'exact O(N) numpy oracle (translation with the border rule, identity, separable linear interpolation, integer-'
        'weight B-spline expansion) whose agreement with the Lean driver is checked on small twins (size=small). Non-trivial = the result differs from the input or has another shape; '
        'distinct = distinct protocol line + layout.')
ASSUMPTIONS = [
    'float64 data, finite, |values| <= 1e3; sizes < 2^31',
    'the statement fixes a closed form (compared as the property, Lean spec) where every axis coordinate is an integer '
    '(sample chosen by the mathematical border rule, or cval) or, for order 1, lies inside [0, len-1] (linear '
    'interpolation); for orders >= 2 at fractional in-range coordinates the property is checked as the chain '
    '"spline_filter coefficients reproduce the samples" + "value = B-spline expansion of those coefficients at the '
    'coordinate" (model; that the model value IS the tensor-product B-spline sum with the weights and start '
    'knots of the code is theorem C18_zoom_shift_is_tensor_spline) and cross-checked against '
    'scipy.ndimage.map_coordinates(mode=mirror)',
    'fractional coordinates outside [0, len-1]: the statement names no value; the code applies the border rule to '
    'the nearest sample position and is compared with the model only',
    'tolerance 1e-9*max(1,max|f|) for every comparison (property, model, scipy cross-check)',
    'mode=constant is only accepted with cval=0 by the wrapper; corner mapping is checked on axes with n_out >= 2 '
    '(an axis zoomed to length 1 maps its only sample to sample 0)',
]
TRUSTED = ['numpy (array construction, layout views)', 'scipy.ndimage.map_coordinates (cross-check only, not the spec)']
MODES = ['nearest', 'wrap', 'reflect', 'mirror', 'constant', 'ignore']
MODE_CODE = {'nearest': 0, 'wrap': 1, 'reflect': 2, 'mirror': 3, 'constant': 4, 'ignore': 5}
TOL = 1e-9


def _arr(case):
    if case.get('kind') == 'big':
        return c18_big.data(case['shape'])
    return np.array(case['data'], dtype=np.float64).reshape(case['shape'])


def _scale(A):
    return max(1.0, float(np.abs(A).max())) if A.size else 1.0


def _opt_floats(s):
    if s in ('', None, '-'):
        return np.zeros(0), np.zeros(0, bool)
    toks = s.split(',')
    ok = np.array([t != 'u' for t in toks])
    v = np.array([int(t) if t != 'u' else 0 for t in toks], dtype=np.uint64).view(np.float64)
    return v, ok


def _cut_truncated(order, n):
    # mirrors Model/C18.lean `truncated`; only used to choose the scipy tolerance
    poles = {2: [math.sqrt(8.0) - 3.0], 3: [math.sqrt(3.0) - 2.0],
             4: [math.sqrt(664.0 - math.sqrt(438976.0)) + math.sqrt(304.0) - 19.0,
                 math.sqrt(664.0 + math.sqrt(438976.0)) - math.sqrt(304.0) - 19.0]}.get(order, [])
    return n > 1 and any(math.ceil(math.log(1e-15) / math.log(abs(p))) < n for p in poles)


NP_DT = {'u8': np.uint8, 'i8': np.int8, 'u16': np.uint16, 'i16': np.int16, 'u32': np.uint32, 'i32': np.int32,
         'i64': np.int64}


def _is_int(x):
    return isinstance(x, int) and not isinstance(x, bool)


def _factor_args(fac):
    """protocol keys for a zoom factor: Python ints (-> an int64 array, exact products) or floats; scalar or sequence"""
    scalar = not isinstance(fac, (list, tuple))
    v = [fac] if scalar else list(fac)
    if v and all(_is_int(x) for x in v):
        return f" ifactor={','.join(str(x) for x in v)} scalar={int(scalar)}"
    return f" factor={core.fmt_floats(np.array(v, np.float64))} scalar={int(scalar)}"


def _py_want(shape, fac):
    """int(s*z) per axis as the wrapper documents it (None: raises)"""
    v = list(fac) if isinstance(fac, (list, tuple)) else [fac] * len(shape)
    if len(v) != len(shape):
        return None
    try:
        if all(_is_int(x) for x in v):
            w = [int(s * z) for s, z in zip(shape, v)]
        else:
            w = [int(s * z) for s, z in zip(shape, np.array(v, np.float64))]
    except (ValueError, OverflowError):
        return None
    return None if any(x < 0 for x in w) else w


def _factor_class(shape, fac):
    v = list(fac) if isinstance(fac, (list, tuple)) else [fac]
    if all(_is_int(x) for x in v):
        return 'int'
    a = np.array(v, np.float64)
    if not np.all(np.isfinite(a)):
        return 'nonfinite'
    if np.any(a < 0):
        return 'negative'
    prod = [s * z for s in shape for z in a]
    if any(p == np.floor(p) for p in prod):
        return 'exact'
    if any(abs(p - np.round(p)) < 1e-9 * max(1.0, abs(p)) for p in prod):
        return 'near-tie'
    return 'generic'


# ------------------------------------------------------------------------------------------------
# running the real code

def _run_impl(case):
    """returns dict(out=ndarray | exc=str, extra...)"""
    import mahotas as mh
    from mahotas import interpolate as ip
    import warnings
    warnings.simplefilter('ignore', RuntimeWarning)     # 0/0 and x/0 in zoom's factor are replaced by 1 by the wrapper
    k = case['kind']
    if case.get('_array') is not None:
        Al = case['_array']
    else:
        A = _arr(case)
        Al = gen.relayout(A, case.get('layout', 'C'))
    before = Al.copy()
    if case.get('_hist') and k != 'badout' and Al.flags.writeable and Al.size > 1:
        # the caller reuses its array: the same object first holds other content (its own, reversed) for one call whose
        # result is discarded, is refilled in place, and only then the judged call is made
        Al[...] = before.ravel()[::-1].reshape(before.shape)
        try:
            _run_impl(dict(case, _hist=0, _array=Al))
        except Exception:  # noqa
            pass
        Al[...] = before
    r = {}
    try:
        if k == 'shift':
            r['out'] = ip.shift(Al, case['shift'], order=case['order'], mode=case['mode'],
                                prefilter=case.get('prefilter', True))
        elif k == 'zoom':
            kw = dict(order=case['order'], mode=case['mode'], prefilter=case.get('prefilter', True))
            if case.get('oshape') is not None:
                o = np.empty(case['oshape'], np.float64)
                o.fill(np.nan)
                z = [float(b) / a for a, b in zip(case['shape'], case['oshape'])]
                r['out'] = ip.zoom(Al, z, out=o, **kw)
                r['is_out'] = r['out'] is o
            else:
                r['out'] = ip.zoom(Al, case['factor'], **kw)
        elif k == 'big':
            r['out'] = c18_big.run(case, Al)
        elif k == 'zshape':
            fac = case['factor']
            r['out'] = ip.zoom(Al, tuple(fac) if isinstance(fac, list) and case.get('astuple') else fac, order=1)
        elif k == 'sf':
            if case.get('axis') is None:
                r['out'] = ip.spline_filter(Al, case['order'])
            else:
                r['out'] = ip.spline_filter1d(Al, case['order'], axis=case['axis'])
        elif k == 'resize':
            f = case['func']
            if f == 'imresize':
                r['out'] = mh.imresize(Al, tuple(case['nsize']) if case.get('astuple', True) else list(case['nsize']),
                                       order=case['order'])
            elif f == 'imresize_factor':
                r['out'] = mh.imresize(Al, case['factor'], order=case['order'])
            elif f == 'resize_to':
                r['out'] = mh.resize_to(Al, case['nsize'], order=case['order'])
            elif f == 'resize_to_int':
                Ai = Al.astype(NP_DT[case['dtype']])
                keep = Ai.copy()
                r['out'] = mh.resize_to(Ai, case['nsize'], order=case['order'])
                r['int_input_modified'] = not np.array_equal(keep, Ai)
            elif f == 'resize_rgb_to':
                from mahotas import resize as _rs
                r['out'] = _rs.resize_rgb_to(Al, case['nsize'], order=case['order'])
        elif k == 'badout':
            base = np.zeros([2 * s for s in case['oshape']], np.float64)
            if case['bad'] == 'strided':
                o = base[tuple(slice(None, None, 2) for _ in case['oshape'])]
            elif case['bad'] == 'fortran':
                o = np.asfortranarray(np.zeros(case['oshape']))
                if o.flags.c_contiguous:
                    o = base[tuple(slice(None, None, 2) for _ in case['oshape'])]
            else:
                o = np.zeros(case['oshape'])
                o.setflags(write=False)
            keep = o.copy()
            r['really_bad'] = not (o.flags.c_contiguous and o.flags.writeable)
            try:
                ip.zoom(Al, 1.0, out=o, order=case['order'])
                r['exc'] = None
            except Exception as e:  # noqa
                r['exc'] = type(e).__name__
            r['untouched'] = bool(np.array_equal(keep, o))
            r['out'] = None
    except Exception as e:  # noqa
        r['raised'] = f'{type(e).__name__}: {e}'
    r['input_modified'] = not np.array_equal(before, Al)
    return r


def _zs_line(case):
    A = _arr(case)
    head = (f"c18 kind=zs shape={gen.enc_shape(case['shape'])} data={core.fmt_floats(A)} order={case['order']} "
            f"mode={MODE_CODE[case['mode']]} cval={core.fmt_floats([0.0])} prefilter={1 if case.get('prefilter', True) else 0}")
    if case['kind'] == 'shift':
        sh = np.broadcast_to(np.asarray(case['shift'], np.float64), (len(case['shape']),))
        return head + f" shifts={core.fmt_floats(sh)}"
    return head + f" oshape={gen.enc_shape(case['_oshape'])}"


def _coords(case, oshape):
    """per-axis input coordinates of every output index, computed as the code does"""
    out = []
    for ax, (n, m) in enumerate(zip(case['shape'], oshape)):
        kk = np.arange(m, dtype=np.float64)
        if case['kind'] == 'shift':
            s = float(np.broadcast_to(np.asarray(case['shift'], np.float64), (len(case['shape']),))[ax])
            out.append(kk + (-s))
        else:
            with np.errstate(all='ignore'):
                z = np.float64(n - 1) / np.float64(m - 1)
            if not np.isfinite(z):
                z = 1.0
            out.append(kk * z)
    return out


def _classify(case):
    if case['kind'] == 'shift':
        sh = np.broadcast_to(np.asarray(case['shift'], np.float64), (len(case['shape']),))
        if np.all(sh == 0):
            return 'zero'
        if np.all(sh == np.floor(sh)):
            return 'integer'
        return 'fractional-order1' if case['order'] == 1 else 'fractional'
    if list(case['_oshape']) == list(case['shape']):
        return 'unit'
    return 'order1' if case['order'] == 1 else 'general'


def evaluate(cases):
    import scipy.ndimage as ndi
    impl = [_run_impl(c) for c in cases]
    # protocol lines (some cases need the implementation's output first)
    lines, owner = [], []
    for ci, (c, r) in enumerate(zip(cases, impl)):
        k = c['kind']
        if k == 'zshape':
            lines.append(f"c18 kind=osh shape={gen.enc_shape(c['shape'])}" + _factor_args(c['factor']))
            owner.append((ci, 'osh'))
            continue
        if k == 'big':
            if c.get('small') and 'raised' not in r:
                A = _arr(c)
                flat = [float(x) for x in A.ravel().tolist()]
                if c['op'] == 'shift':
                    ps = dict(kind='shift', shape=c['shape'], data=flat, order=c['order'], mode=c['mode'], shift=c['shift'])
                    lines.append(_zs_line(ps)); owner.append((ci, 'zs'))
                elif c['op'] == 'sf':
                    lines.append(f"c18 kind=bs shape={gen.enc_shape(c['shape'])} data={core.fmt_floats(r['out'])} order={c['order']}")
                    owner.append((ci, 'bs'))
                else:
                    ps = dict(kind='zoom', shape=c['shape'], data=flat, order=c['order'], mode=c.get('mode', 'constant'),
                              _oshape=list(r['out'].shape))
                    lines.append(_zs_line(ps)); owner.append((ci, 'zs'))
            continue
        if 'raised' in r:
            continue
        if k in ('shift', 'zoom'):
            c['_oshape'] = list(r['out'].shape) if k == 'zoom' else list(c['shape'])
            if k == 'zoom' and c.get('oshape') is None:
                # the shape the factor asks for, as the wrapper documents it: int(s*z)
                z = np.broadcast_to(np.asarray(c['factor'], np.float64), (len(c['shape']),))
                c['_want'] = [int(s * zz) for s, zz in zip(c['shape'], z)]
            lines.append(_zs_line(c)); owner.append((ci, 'zs'))
            if k == 'zoom' and c.get('oshape') is None:
                lines.append(f"c18 kind=osh shape={gen.enc_shape(c['shape'])}" + _factor_args(c['factor']))
                owner.append((ci, 'osh'))
        elif k == 'sf':
            A = _arr(c)
            if c.get('axis') is None:
                lines.append(f"c18 kind=sf shape={gen.enc_shape(c['shape'])} data={core.fmt_floats(A)} order={c['order']}")
                owner.append((ci, 'sf'))
                lines.append(f"c18 kind=bs shape={gen.enc_shape(c['shape'])} data={core.fmt_floats(r['out'])} order={c['order']}")
                owner.append((ci, 'bs'))
            else:
                L = np.moveaxis(np.asarray(r['out'], np.float64), c['axis'], -1).reshape(-1, c['shape'][c['axis']])
                I = np.moveaxis(A, c['axis'], -1).reshape(-1, c['shape'][c['axis']])
                for li in range(L.shape[0]):
                    lines.append(f"c18 kind=sf shape={L.shape[1]} data={core.fmt_floats(I[li])} order={c['order']}")
                    owner.append((ci, ('sf1', li)))
                    lines.append(f"c18 kind=bs shape={L.shape[1]} data={core.fmt_floats(L[li])} order={c['order']}")
                    owner.append((ci, ('bs1', li)))
        elif k == 'resize' and c['func'] in ('imresize', 'resize_to', 'resize_rgb_to'):
            # the wrapper models of resize.py (Model/C18.lean: resizeTo / imresizeInt / resizeRgbTo)
            A = _arr(c)
            lines.append(f"c18 kind=rs name={c['func']} shape={gen.enc_shape(c['shape'])} data={core.fmt_floats(A)} "
                         f"order={c['order']} nsize={gen.enc_shape(c['nsize'])}")
            owner.append((ci, 'rs'))
        elif k == 'resize' and c['func'] == 'imresize_factor':
            A = _arr(c)
            lines.append(f"c18 kind=rs name=imresize_factor shape={gen.enc_shape(c['shape'])} data={core.fmt_floats(A)} "
                         f"order={c['order']}" + _factor_args(c['factor']))
            owner.append((ci, 'rs'))
        elif k == 'resize' and c['func'] == 'resize_to_int':
            A = _arr(c)
            lines.append(f"c18 kind=rsi dtype={c['dtype']} shape={gen.enc_shape(c['shape'])} data={core.fmt_floats(A)} "
                         f"order={c['order']} nsize={gen.enc_shape(c['nsize'])}")
            owner.append((ci, 'rsi'))
    drvs = core.drive(lines)
    per = {}
    for (ci, what), d in zip(owner, drvs):
        per.setdefault(ci, []).append((what, d))

    res = []
    for ci, (c, r) in enumerate(zip(cases, impl)):
        k = c['kind']
        f = []
        A = _arr(c)
        sc = _scale(A)
        nontrivial = True
        tags = dict(kind=k, order=c.get('order'), ndim=len(c['shape']), layout=c.get('layout', 'C'))
        if r.get('input_modified'):
            f.append(dict(kind='property', key=f'{k}:input-modified', detail={}))
        if k == 'big':
            # size-threshold stream and its small twins: the O(N) numpy oracle of c18_big (the statement's own checks)
            tags.update(size='small' if c.get('small') else 'threshold', op=c['op'], mode=c.get('mode'))
            if 'raised' in r:
                f.append(dict(kind='property', key=f"big:{c['op']}:raises", detail=dict(error=r['raised'])))
            else:
                got = np.asarray(r['out'], np.float64)
                for key, det in c18_big.judge(c, A, got):
                    f.append(dict(kind='property', key=key, detail=det))
                if c.get('small') and ci in per and not f:
                    # the same expectation from the Lean driver: the oracle agrees with the Lean model
                    what, d = per[ci][0]
                    if 'error' in d:
                        raise core.Infra('driver: ' + str(d))
                    if what == 'bs':
                        lean = core.floats(d['spec']).reshape(got.shape)
                        mine = c18_big.expansion(got, c['order'])
                    else:
                        lean = core.floats(d['model']).reshape(got.shape)
                        mine = got
                    if lean.size and not (np.abs(lean - mine) <= TOL * sc * 10).all():
                        i = tuple(int(x[0]) for x in np.nonzero(~(np.abs(lean - mine) <= TOL * sc * 10)))
                        f.append(dict(kind='model', key=f"big:oracle-vs-lean:{c['op']}",
                                      detail=dict(pixel=list(i), lean=float(lean[i]), oracle=float(mine[i]))))
        elif k == 'zshape':
            # the output shape a factor asks for: real code vs the statement's int(s*z) vs the Lean model (zoomOutShape)
            d = per[ci][0][1]
            if 'error' in d:
                raise core.Infra('driver: ' + str(d))
            mshape = None if d.get('oshape') == 'none' else \
                ([int(t) for t in d['oshape'].split(',')] if d.get('oshape') not in ('', '-', None) else [])
            gshape = None if 'raised' in r else list(r['out'].shape)
            want = _py_want(c['shape'], c['factor'])
            tags.update(cls=_factor_class(c['shape'], c['factor']), raises=gshape is None,
                        seq=isinstance(c['factor'], list))
            if gshape != want:
                f.append(dict(kind='property', key='zoom:shape-from-factor', detail=dict(got=gshape, want=want,
                                                                                          error=r.get('raised'))))
            elif gshape != mshape:
                f.append(dict(kind='model', key='zoom-shape-model', detail=dict(got=gshape, model=mshape)))
            nontrivial = gshape != list(c['shape'])
        elif 'raised' in r:
            f.append(dict(kind='property', key=f"{k}:raises:{c.get('layout', 'C') if c.get('layout', 'C') != 'C' else c.get('func', c.get('mode', ''))}",
                          detail=dict(error=r['raised'])))
        elif k in ('shift', 'zoom'):
            d = per[ci][0][1]
            if 'error' in d:
                raise core.Infra('driver: ' + str(d))
            got = np.asarray(r['out'], np.float64)
            cls = _classify(c)
            tags.update(mode=c['mode'], cls=cls, prefilter=c.get('prefilter', True))
            # shape
            want = c.get('oshape') if k == 'zoom' and c.get('oshape') is not None else c.get('_want', c['shape'])
            if list(got.shape) != list(want):
                f.append(dict(kind='property', key=f'{k}:shape', detail=dict(got=list(got.shape), want=list(want))))
            if k == 'zoom' and c.get('oshape') is None and len(per[ci]) > 1:
                d2 = per[ci][1][1]
                mshape = None if d2.get('oshape') == 'none' else \
                    ([int(t) for t in d2['oshape'].split(',')] if d2.get('oshape') not in ('', '-', None) else [])
                if mshape != list(got.shape) and not f:
                    f.append(dict(kind='model', key='zoom-shape-model', detail=dict(got=list(got.shape), model=mshape)))
            if k == 'zoom' and c.get('oshape') is not None and not r.get('is_out', True):
                f.append(dict(kind='property', key='zoom:out-not-returned', detail={}))
            model = core.floats(d['model'])
            spec, ok = _opt_floats(d['spec'])
            g = got.ravel(order='C')
            trunc = d.get('trunc') == '1'
            ptol = TOL * sc
            if g.size != model.size:
                raise core.Infra(f'size mismatch model {model.size} impl {g.size}')
            bad = np.nonzero(ok & ~(np.abs(g - spec) <= ptol))[0] if g.size else []
            if len(bad):
                i = int(bad[0])
                f.append(dict(kind='property', key=f'{k}:{cls}',
                              detail=dict(pixel=i, got=float(g[i]), spec=float(spec[i]), nbad=int(len(bad)), tol=ptol)))
            # corners (zoom)
            if k == 'zoom' and c.get('prefilter', True) and got.size and A.size:
                for corner in itertools.product(*[(0, -1)] * got.ndim):
                    src = tuple((0 if (cc == 0 or m == 1) else n - 1) for cc, n, m in zip(corner, A.shape, got.shape))
                    if not abs(got[corner] - A[src]) <= ptol:
                        f.append(dict(kind='property', key='zoom:corner',
                                      detail=dict(corner=list(corner), got=float(got[corner]), want=float(A[src]))))
                        break
            # scipy cross-check of the interpolant at in-range coordinates
            if c.get('prefilter', True) and got.size and A.size and not f:
                cs = _coords(c, got.shape)
                inr = [(x >= 0) & (x <= n - 1) for x, n in zip(cs, A.shape)]
                mesh = np.meshgrid(*cs, indexing='ij')
                mask = np.ones(got.shape, bool)
                for ax, m in enumerate(inr):
                    shp = [1] * got.ndim; shp[ax] = -1
                    mask &= m.reshape(shp)
                if mask.any():
                    ref = ndi.map_coordinates(A, [m_ for m_ in mesh], order=c['order'], mode='mirror')
                    stol = TOL * sc
                    badm = mask & ~(np.abs(ref - got) <= stol)
                    if badm.any():
                        i = tuple(int(x[0]) for x in np.nonzero(badm))
                        f.append(dict(kind='property', key=f'{k}:scipy-interpolant:order{c["order"]}',
                                      detail=dict(pixel=list(i), got=float(got[i]), scipy=float(ref[i]))))
            # model (1e-9 always)
            badm = np.nonzero(~(np.abs(g - model) <= TOL * sc * 10))[0] if g.size else []
            if len(badm) and not any(x['kind'] == 'property' for x in f):
                i = int(badm[0])
                f.append(dict(kind='model', key=f'{k}-model:order{c["order"]}:{c["mode"]}',
                              detail=dict(pixel=i, got=float(g[i]), model=float(model[i]), nbad=int(len(badm)))))
            nontrivial = list(got.shape) != list(A.shape) or not np.array_equal(got, A)
        elif k == 'sf':
            got = np.asarray(r['out'], np.float64)
            tags.update(axis=c.get('axis', 'all'))
            if got.shape != A.shape:
                f.append(dict(kind='property', key='spline_filter:shape', detail={}))
            else:
                if c.get('axis') is None:
                    trunc = any(_cut_truncated(c['order'], n) for n in A.shape)
                    mdl = core.floats(per[ci][0][1]['model']).reshape(A.shape)
                    rep = core.floats(per[ci][1][1]['spec']).reshape(A.shape)
                else:
                    trunc = _cut_truncated(c['order'], A.shape[c['axis']])
                    n = A.shape[c['axis']]
                    m_ = [core.floats(d['model']) for w, d in per.get(ci, []) if w[0] == 'sf1']
                    r_ = [core.floats(d['spec']) for w, d in per.get(ci, []) if w[0] == 'bs1']
                    tmp = np.moveaxis(np.zeros(A.shape), c['axis'], -1)
                    mdl = np.moveaxis(np.array(m_).reshape(tmp.shape), -1, c['axis']) if m_ else np.zeros(A.shape)
                    rep = np.moveaxis(np.array(r_).reshape(tmp.shape), -1, c['axis']) if r_ else np.zeros(A.shape)
                ptol = TOL * sc
                if A.size and not (np.abs(rep - A) <= ptol).all():
                    i = tuple(int(x[0]) for x in np.nonzero(~(np.abs(rep - A) <= ptol)))
                    f.append(dict(kind='property', key=f'spline_filter:reproduce:order{c["order"]}',
                                  detail=dict(pixel=list(i), expansion=float(rep[i]), sample=float(A[i]), tol=ptol)))
                elif A.size and not (np.abs(mdl - got) <= TOL * sc * 10).all():
                    i = tuple(int(x[0]) for x in np.nonzero(~(np.abs(mdl - got) <= TOL * sc * 10)))
                    f.append(dict(kind='model', key=f'spline_filter-model:order{c["order"]}',
                                  detail=dict(pixel=list(i), got=float(got[i]), model=float(mdl[i]))))
            nontrivial = not np.array_equal(got, A)
        elif k == 'resize':
            got = np.asarray(r['out'])
            fn = c['func']
            tags.update(func=fn)
            if fn == 'imresize_factor':
                want = _py_want(list(A.shape), c['factor'])
            elif fn == 'resize_rgb_to':
                want = list(c['nsize']) + [3]
            else:
                want = list(c['nsize'])
            if list(got.shape) != want:
                f.append(dict(kind='property', key=f'{fn}:shape', detail=dict(got=list(got.shape), want=want)))
            elif fn == 'resize_to_int':
                # integer image (outside the statement's quantifier: the interpolated values are truncated toward zero
                # when they are stored): dtype kept, input untouched, values = the model's cast (resizeToDT) wherever the
                # float value is not within 1e-7 of an integer (there the truncation is decided by rounding errors)
                d = per[ci][0][1]
                if 'error' in d:
                    raise core.Infra('driver: ' + str(d))
                tags.update(dtype=c['dtype'])
                if got.dtype != NP_DT[c['dtype']]:
                    f.append(dict(kind='property', key='resize_to:dtype', detail=dict(got=str(got.dtype))))
                elif r.get('int_input_modified'):
                    f.append(dict(kind='property', key='resize:input-modified', detail={}))
                elif d.get('shape') in (None, 'none') or [int(t) for t in d['shape'].split(',')] != list(got.shape):
                    f.append(dict(kind='model', key='resize_to_int-model:shape', detail=dict(got=list(got.shape),
                                                                                            model=d.get('shape'))))
                elif got.size:
                    mv = core.floats(d['model'])
                    toks = d['cast'].split(',')
                    okc = np.array([t != 'u' for t in toks])
                    cv = np.array([int(t) if t != 'u' else 0 for t in toks], dtype=np.int64)
                    g = got.astype(np.int64).ravel(order='C')
                    safe = okc & (np.abs(mv - np.round(mv)) > 1e-7 * sc)
                    tags.update(guarded=int((~safe).sum() > 0))
                    badm = np.nonzero(safe & (g != cv))[0]
                    loose = np.nonzero(okc & ~(np.abs(g - mv) < 1 + 1e-7 * sc))[0]
                    if len(badm) or len(loose):
                        i = int(badm[0]) if len(badm) else int(loose[0])
                        f.append(dict(kind='model', key=f'resize_to_int-model:order{c["order"]}',
                                      detail=dict(pixel=i, got=int(g[i]), cast=int(cv[i]), value=float(mv[i]))))
            elif got.size and A.size:
                trunc = any(_cut_truncated(c['order'], n) for n in A.shape)
                ptol = TOL * sc
                rank = 2 if fn == 'resize_rgb_to' else got.ndim
                for corner in itertools.product(*[(0, -1)] * rank):
                    src = tuple((0 if (cc == 0 or m == 1) else n - 1) for cc, n, m in zip(corner, A.shape, got.shape))
                    if not np.all(np.abs(got[corner] - A[src]) <= ptol):
                        f.append(dict(kind='property', key=f'{fn}:corner',
                                      detail=dict(corner=list(corner), got=np.asarray(got[corner]).tolist(),
                                                  want=np.asarray(A[src]).tolist())))
                        break
            # the wrapper model (shape and values; theorems C18_resize_to_shape / C18_imresize_shape /
            # C18_resize_rgb_to_shape speak about it)
            if ci in per and fn != 'resize_to_int' and not any(x['kind'] == 'property' for x in f):
                d = per[ci][0][1]
                if 'error' in d:
                    raise core.Infra('driver: ' + str(d))
                if d.get('shape') in (None, 'none'):
                    f.append(dict(kind='model', key=f'{fn}-model:raises', detail=dict(got=list(got.shape))))
                else:
                    mshape = [int(t) for t in d['shape'].split(',')] if d['shape'] not in ('', '-') else []
                    model = core.floats(d['model'])
                    g = np.asarray(got, np.float64).ravel(order='C')
                    if mshape != list(got.shape) or model.size != g.size:
                        f.append(dict(kind='model', key=f'{fn}-model:shape', detail=dict(got=list(got.shape), model=mshape)))
                    elif g.size:
                        badm = np.nonzero(~(np.abs(g - model) <= TOL * sc * 10))[0]
                        if len(badm):
                            i = int(badm[0])
                            f.append(dict(kind='model', key=f'{fn}-model:order{c["order"]}',
                                          detail=dict(pixel=i, got=float(g[i]), model=float(model[i]), nbad=int(len(badm)))))
        elif k == 'badout':
            tags.update(bad=c['bad'])
            if not r['really_bad']:
                nontrivial = False      # a one-element view is contiguous whatever its strides
            elif r['exc'] not in ('ValueError', 'TypeError'):
                f.append(dict(kind='property', key=f'zoom:badout:{c["bad"]}', detail=dict(exc=r['exc'])))
            elif not r['untouched']:
                f.append(dict(kind='property', key=f'zoom:badout-written:{c["bad"]}', detail={}))
        c.pop('_oshape', None); c.pop('_want', None)
        res.append(dict(findings=f, nontrivial=bool(nontrivial), sig=json.dumps(c, sort_keys=True, default=str),
                        tags=tags))
    return res


# ------------------------------------------------------------------------------------------------
# generation

def _corpus():
    d = core.VERIF / 'corpus' / ID
    out = []
    if d.exists():
        for p in sorted(d.glob('*.json')):
            out.append(json.loads(p.read_text())['case'])
    return out


def _shape(rng, ndim=None):
    if ndim is None:
        ndim = rng.choice([1, 1, 2, 2, 3])
    cap = {1: 24, 2: 16, 3: 7}[ndim]
    out = []
    for _ in range(ndim):
        u = rng.random()
        if u < 0.3:
            out.append(rng.choice([1, 2, 3]))
        elif u < 0.85:
            out.append(rng.randint(2, min(cap, 9)))
        else:
            out.append(rng.randint(2, cap))
    return out


def _values(rng, shape):
    n = int(np.prod(shape))
    u = rng.random()
    if u < 0.35:
        return [float(rng.randint(-8, 8)) for _ in range(n)]
    if u < 0.5:   # linear ramp (integer slopes)
        sl = [rng.randint(-3, 3) for _ in shape]
        idx = np.indices(shape).reshape(len(shape), -1)
        return [float(sum(s * int(i) for s, i in zip(sl, col)) + 1) for col in idx.T]
    if u < 0.6:
        return [float(i * i % 17) for i in range(n)]
    hi = rng.choice([1.0, 1.0, 100.0, 1000.0])
    return [rng.uniform(-hi, hi) for _ in range(n)]


def _shift_component(rng, n):
    u = rng.random()
    if u < 0.15:
        return 0.0
    if u < 0.4:
        return float(rng.randint(-n - 2, n + 2))
    if u < 0.6:
        return rng.randint(-8 * n, 8 * n) / 8.0
    if u < 0.7:
        return rng.choice([-1, 1]) * (n + rng.randint(0, 3) + rng.choice([0.0, 0.25, 0.5, 0.7]))
    if u < 0.8:
        return rng.choice([0.5, -0.5, 0.3, 0.7, -1.5])
    return rng.uniform(-n - 1.0, n + 1.0)


def _factor_component(rng, n, floats_only=False):
    """one zoom factor for an axis of length n: ties (k/n and its float neighbours), simple ratios, tiny, large"""
    u = rng.random()
    if u < 0.3:
        k = rng.randint(0, 3 * n + 1)
        z = k / n                                   # s*(k/s) is k or k-eps: the int() tie
        v = rng.random()
        return z if v < 0.6 else (float(np.nextafter(z, np.inf)) if v < 0.8 else float(np.nextafter(z, -np.inf)))
    if u < 0.45:
        return rng.choice([1.0, 2.0, 0.5, 1.5, 3.0, 0.25, 2.5, 1.0 / 3.0, 2.0 / 3.0, 0.1, 0.7])
    if u < 0.55 and not floats_only:
        return rng.randint(0, 4)
    if u < 0.62:
        return rng.choice([5e-324, 1e-300, 1e-17, 1e-9, 0.0, -0.0])
    if u < 0.7:
        return round(rng.uniform(3.0, 40.0), rng.choice([0, 1, 3]))
    return round(rng.uniform(0.05, 3.0), rng.choice([1, 2, 3, 6]))


def _zshape_case(rng):
    ndim = rng.choice([1, 1, 2, 2, 3])
    shape = [rng.randint(1, {1: 40, 2: 12, 3: 5}[ndim]) for _ in range(ndim)]
    u = rng.random()
    if u < 0.35:
        fac = _factor_component(rng, rng.choice(shape))
    elif u < 0.85:
        fac = [_factor_component(rng, n) for n in shape]
    elif u < 0.9:
        fac = [_factor_component(rng, n) for n in shape][: ndim - 1] + ([1.0, 2.0] if rng.random() < 0.5 else [])
        if len(fac) == 0:
            fac = [1.0, 1.0]
    elif u < 0.95:
        fac = rng.choice([-1.0, -0.5, -0.01, -1e-300, -3, -1])
        if rng.random() < 0.5:
            fac = [fac] + [1.0] * (ndim - 1) if not _is_int(fac) else [fac] + [1] * (ndim - 1)
    else:
        fac = rng.choice([float('nan'), float('inf'), -float('inf')])
        if rng.random() < 0.5:
            fac = [1.0] * (ndim - 1) + [fac]
    # keep the real call cheap: the product of the output lengths stays small
    w = _py_want(shape, fac)
    if w is not None and int(np.prod(w)) > 20000:
        fac = 1.5
    return dict(kind='zshape', shape=shape, data=[0.0] * int(np.prod(shape)), order=1, factor=fac, layout='C',
                astuple=rng.random() < 0.5)


def _oshape_component(rng, n):
    return rng.choice([1, 2, n, n, 2 * n - 1, 2 * n, max(1, n // 2), n + 1, rng.randint(1, 2 * n + 2)])


def cases(rng, tier):
    out = list(_corpus()) if tier != 'search' else []
    nrand = dict(quick=6000, thorough=200000, search=20000)[tier]
    for i in range(nrand):
        u = rng.random()
        shape = _shape(rng)
        order = rng.choice([1, 1, 2, 3, 3, 4])
        c = dict(shape=shape, data=_values(rng, shape), order=order, layout=rng.choice(gen.LAYOUTS + ['C'] * 5))
        if u < 0.45:
            c.update(kind='shift', mode=rng.choice(MODES), prefilter=rng.random() < 0.9)
            style = rng.random()
            if style < 0.12:
                c['shift'] = [0.0] * len(shape)
            elif style < 0.3:
                c['shift'] = [float(rng.randint(-n - 2, n + 2)) for n in shape]
            else:
                c['shift'] = [_shift_component(rng, n) for n in shape]
        elif u < 0.78:
            c.update(kind='zoom', mode=rng.choice(MODES), prefilter=rng.random() < 0.9)
            if rng.random() < 0.75:
                c['oshape'] = list(shape) if rng.random() < 0.12 else [_oshape_component(rng, n) for n in shape]
            else:
                c['oshape'] = None
                c['factor'] = rng.choice([1.0, 2.0, 0.5, 1.5, 3.0, round(rng.uniform(0.4, 2.5), 3)]) if rng.random() < 0.6 \
                    else [rng.choice([1.0, 2.0, 0.5, 1.5, round(rng.uniform(0.4, 2.5), 3)]) for _ in shape]
        elif u < 0.88:
            c.update(kind='sf', order=rng.choice([2, 3, 4]))
            c['axis'] = None if rng.random() < 0.6 else rng.randrange(len(shape))
        elif u < 0.97:
            fn = rng.choice(['imresize', 'imresize', 'resize_to', 'resize_rgb_to', 'imresize_factor', 'resize_to_int'])
            c.update(kind='resize', func=fn)
            if fn == 'resize_rgb_to':
                shape = [rng.randint(1, 8), rng.randint(1, 8), 3]
                c.update(shape=shape, data=_values(rng, shape), nsize=[rng.randint(1, 12), rng.randint(1, 12)])
            elif fn == 'imresize_factor':
                c['factor'] = rng.choice([1.0, 2.0, 0.5, 1.5, round(rng.uniform(0.4, 2.5), 3)]) if rng.random() < 0.5 \
                    else [_factor_component(rng, n, floats_only=True) for n in shape]
            elif fn == 'resize_to_int':
                dt = rng.choice(sorted(NP_DT))
                lo, hi = (0, 255) if dt[0] == 'u' else (-128, 127)
                if rng.random() < 0.5:
                    lo, hi = max(lo, -9), min(hi, 9)
                c.update(dtype=dt, data=[float(rng.randint(lo, hi)) for _ in range(int(np.prod(shape)))],
                         nsize=[rng.randint(1, 2 * n + 2) for n in shape], layout='C')
            else:
                if rng.random() < 0.3:     # the n/s round trip: many sizes truncate
                    shape = [rng.randint(2, 60)]
                    c.update(shape=shape, data=_values(rng, shape), order=rng.choice([1, 3]))
                c['nsize'] = [rng.randint(1, 2 * n + 2) for n in c['shape']]
                c['astuple'] = rng.random() < 0.7
        elif u < 0.985 or tier == 'search':
            c.update(kind='badout', bad=rng.choice(['strided', 'fortran', 'readonly']),
                     oshape=[_oshape_component(rng, n) for n in shape])
        else:
            c = _zshape_case(rng)
        out.append(c)
    if tier != 'search':
        # the output shape of zoom-by-factor: a block of cheap shape-only cases (ties k/s, tiny, large, negative,
        # non-finite, integer factors, scalars and sequences, wrong lengths)
        for i in range(dict(quick=1500, thorough=30000)[tier]):
            out.append(_zshape_case(rng))
    # size-threshold stream (line lengths / element counts across 2^8, 2^15, 2^16; thorough: > 65536 and 2^24+1)
    out.extend(c18_big.cases(rng, tier))
    return out


def shrink(case):
    if case.get('kind') == 'big':
        return
    shape = case['shape']
    A = _arr(case)
    for ax in range(len(shape)):
        if shape[ax] > 1 and not (case['kind'] == 'resize' and case.get('func') == 'resize_rgb_to' and ax == 2):
            for j in (shape[ax] - 1, 0):
                B = np.delete(A, j, axis=ax)
                yield dict(case, shape=list(B.shape), data=[float(x) for x in B.ravel().tolist()])
    if len(shape) > 1 and case['kind'] in ('shift', 'zoom', 'sf') and case.get('axis') is None:
        for ax in range(len(shape)):
            B = np.take(A, 0, axis=ax)
            c = dict(case, shape=list(B.shape), data=[float(x) for x in B.ravel().tolist()])
            if case['kind'] == 'shift':
                c['shift'] = [s for i, s in enumerate(np.broadcast_to(case['shift'], (len(shape),)).tolist()) if i != ax]
            if case['kind'] == 'zoom':
                if case.get('oshape') is not None:
                    c['oshape'] = [s for i, s in enumerate(case['oshape']) if i != ax]
                elif isinstance(case.get('factor'), list):
                    c['factor'] = [s for i, s in enumerate(case['factor']) if i != ax]
            yield c
    if case.get('layout', 'C') != 'C':
        yield dict(case, layout='C')
    if case['kind'] == 'shift':
        sh = list(np.broadcast_to(case['shift'], (len(shape),)).tolist())
        for i, s in enumerate(sh):
            if s != 0:
                t = list(sh); t[i] = 0.0
                yield dict(case, shift=t)
    if case.get('mode') not in (None, 'nearest'):
        yield dict(case, mode='nearest')
    data = case['data']
    if any(v != round(v) for v in data):
        yield dict(case, data=[float(round(v)) for v in data])
    for i, v in enumerate(data):
        if v != 0 and len(data) <= 40:
            d = list(data); d[i] = 0.0
            yield dict(case, data=d)
