"""C18 — size-threshold stream: a handful of cases whose line length / element count crosses 2^8, 2^15, 2^16 (+-1)
(thorough: lines longer than 65536 in both orientations and 2^24+1 elements), judged by an exact O(N) numpy oracle:

* integer shift (orders 1, 3): the translation with the border rule in vacated pixels;
* zero shift / unit zoom (orders 1, 3): the input;
* zoom / imresize at order 1 (explicit target shape or factor): separable linear interpolation at the coordinates
  kk*(n_in-1)/(n_out-1), shape exactly as requested, corners to corners; order 3: shape and corners;
* spline_filter (orders 2-4): the B-spline expansion of the coefficients at the sample points (integer weights,
  mirror boundaries, axis by axis) reproduces the input.

A change that narrows a counter, index, offset or stride to 16 (or 8 / 24) bits passes every small case and fails here.
The same oracle runs on small twins of these cases (`size=small`) where it is compared with the Lean driver as well, so
its agreement with the Lean model is established where the driver is fast enough.
"""
from __future__ import annotations
import numpy as np

TOL = 1e-9
THRESH = [2 ** 8, 2 ** 15, 2 ** 16]
WEIGHTS = {2: (1 / 8, 3 / 4, 1 / 8), 3: (1 / 6, 2 / 3, 1 / 6),
           4: (1 / 384, 19 / 96, 115 / 192, 19 / 96, 1 / 384)}


def data(shape):
    """deterministic samples in [-125, 125] whose pattern has the prime period 251: sample k differs from the samples
    at k +- 2^8, 2^15, 2^16, 2^24 (7919 * 2^j is never a multiple of 251)"""
    n = int(np.prod(shape))
    i = np.arange(n, dtype=np.int64)
    return ((i * 7919) % 251 - 125).astype(np.float64).reshape(shape)


def _border_index(idx, n, mode):
    """source index of an integer coordinate under the border rule; -1 = flagged (cval)"""
    idx = np.asarray(idx, dtype=np.int64)
    if mode == 'nearest':
        return np.clip(idx, 0, n - 1)
    if mode == 'wrap':
        return np.mod(idx, n)
    if mode == 'mirror':
        if n == 1:
            return np.zeros_like(idx)
        m = np.mod(idx, 2 * n - 2)
        return np.where(m < n, m, 2 * n - 2 - m)
    if mode == 'reflect':
        m = np.mod(idx, 2 * n)
        return np.where(m < n, m, 2 * n - 1 - m)
    return np.where((idx >= 0) & (idx < n), idx, -1)        # constant / ignore


def shift_int(A, d, mode):
    """exact translation by the integer vector d with the border rule (cval = 0)"""
    out = A
    flag = np.zeros(A.shape, bool)
    for ax, (n, dd) in enumerate(zip(A.shape, d)):
        src = _border_index(np.arange(n) - int(dd), n, mode)
        bad = src < 0
        out = np.take(out, np.where(bad, 0, src), axis=ax)
        flag = np.take(flag, np.where(bad, 0, src), axis=ax)
        shp = [1] * A.ndim
        shp[ax] = n
        flag = flag | bad.reshape(shp)
    return np.where(flag, 0.0, out)


def zoom_linear(A, oshape):
    """order 1 onto oshape: separable linear interpolation at kk*(n_in-1)/(n_out-1), as the code computes the
    coordinates (a coordinate that exceeds n_in-1 by rounding is the last sample)"""
    out = A
    for ax, (n, m) in enumerate(zip(A.shape, oshape)):
        with np.errstate(all='ignore'):
            z = np.float64(n - 1) / np.float64(m - 1)
        if not np.isfinite(z):
            z = 1.0
        cc = np.minimum(np.arange(m, dtype=np.float64) * z, n - 1)
        i = np.floor(cc).astype(np.int64)
        t = cc - i
        j = np.minimum(i + 1, n - 1)
        shp = [1] * A.ndim
        shp[ax] = m
        out = np.take(out, i, axis=ax) * (1 - t).reshape(shp) + np.take(out, j, axis=ax) * t.reshape(shp)
    return out


def expansion(C, order):
    """B-spline expansion of the coefficient array at the sample points: integer weights, mirror boundaries"""
    w = WEIGHTS[order]
    half = len(w) // 2
    out = C
    for ax, n in enumerate(C.shape):
        if n == 1:
            continue
        acc = 0.0
        for h, wh in enumerate(w):
            acc = acc + wh * np.take(out, _border_index(np.arange(n) + (h - half), n, 'mirror'), axis=ax)
        out = acc
    return out


def run(case, A):
    """the real call of a big case"""
    import mahotas as mh
    from mahotas import interpolate as ip
    op = case['op']
    if op == 'shift':
        return ip.shift(A, case['shift'], order=case['order'], mode=case['mode'])
    if op == 'zoom_shape':
        o = np.empty(case['oshape'], np.float64)
        o.fill(np.nan)
        z = [float(b) / a for a, b in zip(case['shape'], case['oshape'])]
        return ip.zoom(A, z, out=o, order=case['order'], mode=case['mode'])
    if op == 'zoom_factor':
        return ip.zoom(A, case['factor'], order=case['order'], mode=case['mode'])
    if op == 'imresize':
        return mh.imresize(A, tuple(case['nsize']), order=case['order'])
    if op == 'resize_to':
        return mh.resize_to(A, list(case['nsize']), order=case['order'])
    if op == 'sf':
        return ip.spline_filter(A, case['order'])
    raise ValueError(op)


def judge(case, A, got):
    """list of (key, detail) of failed checks; every check is one the statement makes"""
    op, order = case['op'], case['order']
    sc = max(1.0, float(np.abs(A).max()))
    tol = TOL * sc
    f = []

    def cmp(key, exp):
        if got.shape != exp.shape:
            f.append((f'{key}:shape', dict(got=list(got.shape), want=list(exp.shape))))
            return
        bad = ~(np.abs(got - exp) <= tol)
        if bad.any():
            i = tuple(int(x[0]) for x in np.nonzero(bad))
            f.append((key, dict(pixel=list(i), got=float(got[i]), want=float(exp[i]), nbad=int(bad.sum()))))

    if op == 'shift':
        d = case['shift']
        cmp('big:shift:zero' if not any(d) else 'big:shift:integer', shift_int(A, d, case['mode']))
    elif op in ('zoom_shape', 'zoom_factor', 'imresize', 'resize_to'):
        if op == 'zoom_factor':
            z = case['factor']
            want = [int(s * np.float64(z)) for s in A.shape]
        else:
            want = list(case['oshape'] if op == 'zoom_shape' else case['nsize'])
        if list(got.shape) != want:
            f.append((f'big:{op}:shape', dict(got=list(got.shape), want=want)))
        elif want == list(A.shape):
            cmp(f'big:{op}:unit', A)
        elif order == 1:
            cmp(f'big:{op}:order1', zoom_linear(A, want))
        else:
            import itertools
            for corner in itertools.product(*[(0, -1)] * got.ndim):
                src = tuple((0 if (cc == 0 or m == 1) else n - 1) for cc, n, m in zip(corner, A.shape, got.shape))
                if not abs(got[corner] - A[src]) <= tol:
                    f.append((f'big:{op}:corner', dict(corner=list(corner), got=float(got[corner]), want=float(A[src]))))
                    break
    elif op == 'sf':
        if got.shape != A.shape:
            f.append(('big:spline_filter:shape', dict(got=list(got.shape))))
        else:
            rep = expansion(np.asarray(got, np.float64), order)
            bad = ~(np.abs(rep - A) <= tol)
            if bad.any():
                i = tuple(int(x[0]) for x in np.nonzero(bad))
                f.append((f'big:spline_filter:reproduce:order{order}',
                          dict(pixel=list(i), expansion=float(rep[i]), sample=float(A[i]), nbad=int(bad.sum()))))
    return f


def _around(rng, t):
    return t + rng.choice([-1, 0, 1])


def _long_shape(rng, n):
    """a line of n samples in one of the orientations"""
    return rng.choice([[n], [1, n], [n, 1], [2, n], [n, 2]])


def one_case(rng, n, small=False):
    """one case whose long axis has about n samples"""
    u = rng.random()
    order = rng.choice([1, 3]) if u < 0.8 else rng.choice([2, 3, 4])
    if u < 0.3:
        shape = _long_shape(rng, n)
        d = rng.choice([0, 1, -1, 3, n - 1, -(n // 2), n + 1]) if rng.random() < 0.8 else 0
        return dict(kind='big', op='shift', shape=shape, order=order, mode=rng.choice(['nearest', 'wrap', 'constant', 'mirror', 'reflect']),
                    shift=[float(d) if s == max(shape) else 0.0 for s in shape], small=small)
    if u < 0.5:
        # zoom onto a shape whose long axis crosses the threshold (from a shorter / longer / equal line)
        src = rng.choice([n, max(2, n // 2 + 1), max(2, n // 256 + 2), min(2 * n - 1, n + 255)])
        shape = _long_shape(rng, src)
        oshape = [n if s == max(shape) else s for s in shape]
        return dict(kind='big', op='zoom_shape', shape=shape, oshape=oshape, order=order, mode=rng.choice(['constant', 'nearest', 'mirror']), small=small)
    if u < 0.6:
        src = max(2, (n + 1) // 2)
        return dict(kind='big', op='zoom_factor', shape=[src], factor=rng.choice([2.0, n / src, (n + 1) / src]), order=1,
                    mode='constant', small=small)
    if u < 0.8:
        src = rng.choice([max(2, n // 128 + 3), n, max(2, n // 2)])
        shape = [src] if rng.random() < 0.6 else rng.choice([[src, 2], [2, src]])
        nsize = [n if s == max(shape) else s for s in shape]
        return dict(kind='big', op=rng.choice(['imresize', 'resize_to']), shape=shape, nsize=nsize, order=order, small=small)
    return dict(kind='big', op='sf', shape=_long_shape(rng, n), order=order if order != 1 else 3, small=small)


def cases(rng, tier):
    out = []
    if tier == 'search':
        return out
    # small twins: the oracle against the real code AND against the Lean driver
    for _ in range(dict(quick=24, thorough=400)[tier]):
        out.append(one_case(rng, rng.randint(2, 40), small=True))
    # the thresholds
    pool = [_around(rng, t) for t in THRESH for _ in range(2)]
    rng.shuffle(pool)
    for n in pool[:dict(quick=4, thorough=6)[tier]]:
        out.append(one_case(rng, n))
    out.append(dict(kind='big', op='shift', shape=[257, 256], order=rng.choice([1, 3]), mode='nearest',
                    shift=[float(rng.choice([0, 1, -2])), float(rng.choice([0, 255, -1]))], small=False))
    if tier == 'thorough':
        for shape in ([1, 70001], [70001, 1], [3, 65537], [65537, 3]):
            out.append(dict(kind='big', op='shift', shape=shape, order=3, mode='mirror',
                            shift=[float(2 if s > 3 else 0) for s in shape], small=False))
            out.append(dict(kind='big', op='sf', shape=shape, order=rng.choice([2, 3, 4]), small=False))
            out.append(dict(kind='big', op='zoom_shape', shape=shape, oshape=[s if s <= 3 else s + 1 for s in shape],
                            order=1, mode='constant', small=False))
        # 2^24 + 1 elements: an index or coordinate kept in a float32 cannot address the last sample
        n = 2 ** 24 + 1
        out.append(dict(kind='big', op='shift', shape=[n], order=1, mode='nearest', shift=[1.0], small=False))
        out.append(dict(kind='big', op='zoom_shape', shape=[n], oshape=[n], order=1, mode='constant', small=False))
    return out
