"""C19 — texture / shape descriptors equal their definitions and have the stated invariances."""
from __future__ import annotations
import json, math, os, subprocess, sys, warnings
import numpy as np
from .. import core, gen
from . import c19_r4
from . import c19_tas, c19_har, c19_lbp, c19_big

ID = 'C19'
FOUNDATIONS = ['harness.foundation.cscalar', 'harness.foundation.pybody']   # ties of the C++ helper functions the model rests on (generated from their text)
LEVEL = 'proof'
RULE = ('corpus; cooccurence: integer images of 2-3 dimensions with 1..64 grey levels (and the dtype maximum) x every '
        'direction (4/13) x distances 1-3 x symmetric on/off x output None / preallocated / one too small; haralick: '
        'features vs the Lean textbook functions, bit-identity under 180-degree rotation and under transposition with the '
        'direction permutation, ignore_zeros on/off; LBP: all P-bit codes for P <= 16 exhaustively (thorough; quick: '
        'P <= 12 in full and a slice above) plus random codes for P <= 32, histograms of float/integer 2-D images x radii x '
        'point counts; Zernike: rotations by multiples of 90 degrees about the chosen centre and intensity scalings; '
        'moments vs the exact integer double sum; integral image vs the exact prefix sum for 10 dtypes. '
        'Round 4: tas / pftas (2-D and 3-D, 11 dtypes, given or Otsu threshold, sparse images with isolated interior bright pixels) '
        'bit for bit against the Lean model and against the counting specification (Lean tasCount and an independent numpy count); '
        'haralick 14th feature against the second eigenvalue of the Lean model\'s matrix Q (numpy eigvals, squares compared at 1e-8), '
        'return_mean / return_mean_ptp bit for bit against the Lean column mean / ptp of the real feature matrix; lbp_transform codes '
        'against the Lean pipeline (C18 order-1 shift model, comparison, bit assembly, map); size-threshold stream (tag '
        'size=threshold): 7 cases per run whose pair / pixel / bin counts cross 2^8, 2^15, 2^16, judged with the Lean model where '
        'the driver is fast enough (cooccurence fold model, lbphist, tas, zernike selection) and with exact O(N) numpy oracles '
        '(np.add.at pair counts, neighbour counts) whose agreement with the Lean specification is established on the small cases. '
        'Non-trivial = image not constant; distinct = distinct protocol line.')
ASSUMPTIONS = ['cooccurence/haralick: pixel values are non-negative integers (the kernel raises on negatives); array sizes < 2^31',
               'haralick options: use_x_minus_y_variance / preserve_haralick_bug against the Lean Float formulas at 1e-9 and '
               'all other entries bit-identical; return_mean / return_mean_ptp = mean / mean ++ ptp over directions at 1e-12; '
               'the 14th feature: Q is the Lean model\'s matrix, its eigenvalues are taken with numpy.linalg.eigvals (trusted) and the '
               'square of the real output is compared with the second largest one at 1e-8, for images with at most 24 grey levels',
               'haralick: features whose textbook formula is 0/0 (correlation of a matrix with zero variance, information '
               'measure with zero marginal entropy) are not compared; an image without any counted pair raises (documented)',
               'haralick formulas are compared with the Lean Float functions at 1e-9 (log2/exp/sqrt involved); the '
               'invariances are compared bit-for-bit',
               'lbp: at least one pixel is considered (ignore_zeros on an all-zero image raises ValueError); 1 <= P <= 16 for '
               'histograms (2^P bins are enumerated by the implementation), P <= 32 for the code mapping; LBP sampling '
               '(interpolate.shift, order 1) is compared through the Lean model of C18 for P <= 30 and finite pixel values (sines and cosines '
               'are numpy\'s, handed to the model)',
               'tas / pftas: the statement is silent about TAS, every disagreement is a model finding; images with at least one pixel; '
               'integer pixel values below 2^53; for float images mu (numpy pairwise sum) and for pftas the standard deviation and the '
               'Otsu threshold are taken from the real statements and handed to the model',
               'zernike: centre given with dyadic coordinates (exact rotation of the coordinate grid); tolerance 1e-9 '
               'relative to max(1, |z|); with the default centre of mass only power-of-two intensity scalings are used; '
               'the Lean Float model of the kernel (znlG) and of zernike_moments (zernikeAbs) is compared with the real '
               '_zernike.znl / zernike_moments at 1e-9 (pow is libm on both sides, np.sum is pairwise), the selection mask exactly',
               'moments: natural-number powers; integer images and centres compared with the exact integer sum at 1e-12 '
               'relative to the sum of absolute terms',
               'integral: integer dtypes wrap modulo 2^bits (C semantics); float images with integer values below 2^53 exactly, '
               'other float images at 1e-9 relative to the sum of absolute values']
EXHAUSTIVE = {'thorough': True}
TRUSTED = ['numpy', 'libm log2/exp in the Lean runtime within 1e-9']
# round 4 (c19_r4.py): option paths of integral / moments, radial polynomial of the Zernike kernel
RULE += (' Round 4: surf.integral with in_place / every integer and float output dtype / float->integer and integer->float '
         'conversions / byte-swapped input and requested dtypes x 7 layouts; moments with normalize/normalise, cm=None, '
         'convert_to_float off; the radial polynomial R_n^l of _zernike.znl for every (n, l) with n <= 24; a size-threshold '
         'stream for integral / moments (257x256, 1x65537, 65537x1, 255x257 images: element counts and sums crossing 2^8, 2^15, '
         '2^16, 2^24, 2^31, 2^32), judged by an exact O(N) Python oracle (prefix sums in Python integers / rational moments) that '
         'is compared with the Lean specification on every small case (integral:spec-vs-python) - the Lean spec is quadratic.')
ASSUMPTIONS += ['integral (round 4): float -> integer conversions only for values inside the target range (numpy cast otherwise '
                'undefined); in_place is not asked on read-only arrays (the wrapper does not check the flag: observation in '
                'the report, outside the statement); in_place on a byte-swapped array must raise ValueError and leave it alone',
                'moments (round 4): normalize=True compared with the exact rational value of the formula of moments.py '
                '(weights divided by their sum) at 1e-13 x condition number of the two weight sums x size; cases whose weight '
                'sum is zero or whose condition number exceeds 1e3 are not compared (numpy divides by ~0)',
                'zernike (round 4): _zernike.znl on one pixel (D=[d], A=[1], P=[1]) against the exact textbook radial '
                'polynomial at 1e-12 x sum of absolute terms (pow is libm)']

D2 = [(0, 1), (1, 1), (1, 0), (1, -1)]
D3 = [(1, 0, 0), (1, 1, 0), (0, 1, 0), (1, -1, 0), (0, 0, 1), (1, 0, 1), (0, 1, 1), (1, 1, 1), (1, -1, 1),
      (1, 0, -1), (0, 1, -1), (1, 1, -1), (1, -1, -1)]


def _img(case):
    return np.array(case['data'], dtype=object).astype(case['dtype']).reshape(case['shape'])


def _isolated(payload: dict, timeout=60):
    """run one call in a child process (a crash must not take the worker down)"""
    import mahotas
    src = os.path.dirname(os.path.dirname(os.path.abspath(mahotas.__file__)))
    code = r'''
import sys, json, warnings
import numpy as np
warnings.simplefilter('ignore')
c = json.loads(sys.stdin.read())
from mahotas.features import texture
f = np.array(c['data'], dtype=object).astype(c['dtype']).reshape(c['shape'])
try:
    if c['output'] is None:
        r = texture.cooccurence(f, c['dir'], symmetric=bool(c['sym']), distance=c['dist'])
    else:
        out = np.zeros((c['output'], c['output']), np.int32)
        r = texture.cooccurence(f, c['dir'], out, symmetric=bool(c['sym']), distance=c['dist'])
    print(json.dumps(dict(ok=True, shape=list(r.shape), data=[int(x) for x in r.ravel()])))
except BaseException as e:
    print(json.dumps(dict(ok=False, exc=type(e).__name__, msg=str(e)[:200])))
'''
    env = dict(os.environ, PYTHONPATH=src)
    try:
        r = subprocess.run([core.PY, '-c', code], input=json.dumps(payload), capture_output=True, text=True, env=env,
                           timeout=timeout)
    except subprocess.TimeoutExpired:
        return dict(crash='timeout')
    if r.returncode != 0:
        return dict(crash=f'exit {r.returncode}', stderr=r.stderr[-300:])
    try:
        return json.loads(r.stdout.strip().splitlines()[-1])
    except Exception:
        return dict(crash='no output', stderr=r.stderr[-300:])


# ---------------------------------------------------------------------------------------------- cooccurence

def _eval_cooc(case):
    from mahotas.features import texture
    f = _img(case)
    mx = int(f.max())
    nd = f.ndim
    sym, dist, dr = case['sym'], case['dist'], case['dir']
    outmode = case.get('output', 'none')
    findings = []
    tags = dict(kind='cooc', ndim=nd, dtype=case['dtype'], sym=sym, dist=dist, output=outmode, levels=min(mx + 1, 64))
    if outmode == 'too-small':
        # an output whose side equals f.max() cannot hold the counts of the largest grey level: must be rejected
        r = _isolated(dict(case, output=mx))
        if 'crash' in r or r.get('ok'):
            findings.append(dict(kind='property', key='cooccurence:output-too-small-accepted',
                                 detail=dict(result=r, side=mx, max=mx)))
        return dict(findings=findings, nontrivial=True, sig=json.dumps(case, sort_keys=True), tags=tags)
    if outmode == 'isolated':
        r = _isolated(dict(case, output=None))
        if 'crash' in r or not r.get('ok') or r.get('shape') != [mx + 1, mx + 1]:
            findings.append(dict(kind='property', key='cooccurence:default-output-size',
                                 detail=dict(result={k: v for k, v in r.items() if k != 'data'}, max=mx)))
            return dict(findings=findings, nontrivial=True, sig=json.dumps(case, sort_keys=True), tags=tags)
        got = r['data']
        m = mx + 1
    else:
        before = f.copy()
        with warnings.catch_warnings():
            warnings.simplefilter('ignore')
            if outmode == 'none':
                res = texture.cooccurence(f, dr, symmetric=bool(sym), distance=dist)
            else:
                side = mx + 1 + (case.get('extra', 0))
                out = np.full((side, side), 7, np.int32)
                res = texture.cooccurence(f, dr, out, symmetric=bool(sym), distance=dist)
                if res is not out:
                    findings.append(dict(kind='property', key='cooccurence:output-not-returned', detail={}))
        if not np.array_equal(before, f):
            findings.append(dict(kind='property', key='cooccurence:input-modified', detail={}))
        m = res.shape[0]
        if res.shape != (m, m) or m < mx + 1:
            findings.append(dict(kind='property', key='cooccurence:default-output-size', detail=dict(shape=list(res.shape), max=mx)))
            return dict(findings=findings, nontrivial=True, sig=json.dumps(case, sort_keys=True), tags=tags)
        got = [int(x) for x in res.ravel()]
    want_spec = 1 if m * m * f.size <= 400000 else 0
    drv = core.drive([f"c19 kind=cooc shape={gen.enc_shape(f.shape)} data={gen.enc_arr(case['data'])} m={m} dir={dr} "
                      f"dist={dist} sym={sym} spec={want_spec}"])[0]
    model = core.ints(drv['model'])
    if want_spec:
        spec = core.ints(drv['spec'])
        if got != spec:
            k = next(i for i, (a, b) in enumerate(zip(got, spec)) if a != b)
            findings.append(dict(kind='property', key=f'cooccurence:counts:{nd}d', detail=dict(
                entry=[k // m, k % m], got=got[k], want=spec[k], direction=drv['d'])))
    if not findings and got != model:
        k = next(i for i, (a, b) in enumerate(zip(got, model)) if a != b)
        findings.append(dict(kind='model', key='cooccurence:model', detail=dict(entry=[k // m, k % m], got=got[k], model=model[k])))
    return dict(findings=findings, nontrivial=bool(f.min() != f.max()), sig=json.dumps(case, sort_keys=True), tags=tags)


# ---------------------------------------------------------------------------------------------- haralick

def _perm_swap01(nd):
    D = D2 if nd == 2 else D3
    perm = []
    for d in D:
        s = (d[1], d[0]) + tuple(d[2:])
        for k, e in enumerate(D):
            if e == s or tuple(-x for x in e) == s:
                perm.append(k)
    return perm


def _eval_haralick(case):
    from mahotas.features import texture
    import mahotas.features as mf
    f = _img(case)
    nd = f.ndim
    dist, iz = case['dist'], case['iz']
    tags = dict(kind='haralick', ndim=nd, dtype=case['dtype'], dist=dist, iz=iz)
    findings = []
    if list(texture._2d_deltas) != D2 or list(texture._3d_deltas) != D3:
        findings.append(dict(kind='model', key='haralick:direction-table-changed', detail={}))
    with warnings.catch_warnings():
        warnings.simplefilter('ignore')
        try:
            H = mf.haralick(f, ignore_zeros=bool(iz), distance=dist)
        except ValueError as e:
            # documented: no counted pair in some direction
            return dict(findings=findings, nontrivial=False, sig=json.dumps(case, sort_keys=True), tags=dict(tags, empty=1))
        rot = f[tuple(slice(None, None, -1) for _ in range(nd))]
        Hr = mf.haralick(np.ascontiguousarray(rot), ignore_zeros=bool(iz), distance=dist)
        ft = np.ascontiguousarray(np.swapaxes(f, 0, 1))
        Ht = mf.haralick(ft, ignore_zeros=bool(iz), distance=dist)
    ndirs = 4 if nd == 2 else 13
    if H.shape != (ndirs, 13):
        findings.append(dict(kind='property', key='haralick:shape', detail=dict(shape=list(H.shape))))
        return dict(findings=findings, nontrivial=True, sig=json.dumps(case, sort_keys=True), tags=tags)
    same = lambda a, b: a.shape == b.shape and bool(np.all((a == b) | (np.isnan(a) & np.isnan(b))))
    if not same(Hr, H):
        findings.append(dict(kind='property', key='haralick:rot180', detail=dict(
            maxdiff=float(np.nanmax(np.abs(Hr - H))), H=H.tolist(), Hrot=Hr.tolist())))
    perm = _perm_swap01(nd)
    if not same(Ht[perm], H):
        findings.append(dict(kind='property', key='haralick:transpose-permutes-directions', detail=dict(
            perm=perm, maxdiff=float(np.nanmax(np.abs(Ht[perm] - H))))))
    m = int(f.max()) + 1
    drv = core.drive([f"c19 kind=haralick shape={gen.enc_shape(f.shape)} data={gen.enc_arr(case['data'])} m={m} "
                      f"dist={dist} iz={iz}"])[0]
    F = core.floats(drv['feats']).reshape(ndirs, 19)
    for d in range(ndirs):
        vx, vy, hx, hy = F[d, 13:17]
        for k in range(13):
            if k == 2 and (vx < 1e-9 or vy < 1e-9):
                continue
            if k == 11 and max(hx, hy) < 1e-9:
                continue
            a, b = float(H[d, k]), float(F[d, k])
            if not (abs(a - b) <= 1e-9 * max(1.0, abs(b))):
                findings.append(dict(kind='property', key=f'haralick:formula:f{k + 1}', detail=dict(
                    direction=d, feature=k + 1, got=a, textbook=b)))
                break
        if findings:
            break
    if not findings:
        findings.extend(_haralick_options(mf, f, H, F, iz, dist, ndirs, same))
    return dict(findings=findings, nontrivial=bool(f.min() != f.max()), sig=json.dumps(case, sort_keys=True), tags=tags)


def _haralick_options(mf, f, H, F, iz, dist, ndirs, same):
    """the documented options: `use_x_minus_y_variance` replaces f10 by VAR[|x-y|] (Lean varG of p_{x-y}),
    `preserve_haralick_bug` centres f7 at the sum entropy f8 (Lean sumVarG ... f8) - every other entry unchanged bit for
    bit; `return_mean` / `return_mean_ptp` are the mean / mean ++ (max - min) over the directions of the default result.
    (`compute_14th_feature` needs an eigen-decomposition and is not modelled: only the first 13 columns are compared.)"""
    out = []
    with warnings.catch_warnings():
        warnings.simplefilter('ignore')
        kw = dict(ignore_zeros=bool(iz), distance=dist)
        Hv = mf.haralick(f, use_x_minus_y_variance=True, **kw)
        Hb = mf.haralick(f, preserve_haralick_bug=True, **kw)
        Hm = mf.haralick(f, return_mean=True, **kw)
        Hp = mf.haralick(f, return_mean_ptp=True, **kw)
        try:
            H14 = mf.haralick(f, compute_14th_feature=True, **kw)
        except Exception:       # eigen-decomposition of a degenerate correlation matrix: outside the statement
            H14 = None
    for name, Ho, col, mcol in (('use_x_minus_y_variance', Hv, 9, 17), ('preserve_haralick_bug', Hb, 6, 18)):
        if Ho.shape != H.shape:
            out.append(dict(kind='property', key=f'haralick:option:{name}:shape', detail=dict(shape=list(Ho.shape))))
            continue
        rest = [k for k in range(13) if k != col]
        if not same(Ho[:, rest], H[:, rest]):
            out.append(dict(kind='property', key=f'haralick:option:{name}:other-features-changed', detail={}))
        for d in range(ndirs):
            a, b = float(Ho[d, col]), float(F[d, mcol])
            if not (abs(a - b) <= 1e-9 * max(1.0, abs(b))):
                out.append(dict(kind='property', key=f'haralick:option:{name}:formula', detail=dict(direction=d, got=a, textbook=b)))
                break
    mean = H.mean(axis=0)
    ptp = H.max(axis=0) - H.min(axis=0)
    close = lambda a, b: a.shape == b.shape and bool(np.all((np.abs(a - b) <= 1e-12 * np.maximum(1.0, np.abs(b))) | (np.isnan(a) & np.isnan(b))))
    if not close(Hm, mean):
        out.append(dict(kind='property', key='haralick:option:return_mean', detail=dict(got=Hm.tolist(), want=mean.tolist())))
    if not close(Hp, np.concatenate((mean, ptp))):
        out.append(dict(kind='property', key='haralick:option:return_mean_ptp', detail=dict(got=Hp.tolist())))
    if H14 is not None and (H14.shape != (ndirs, 14) or not same(H14[:, :13], H)):
        out.append(dict(kind='property', key='haralick:option:compute_14th_feature:first-13-changed', detail=dict(shape=list(H14.shape))))
    out.extend(c19_har.f14_findings(f, [int(v) for v in f.ravel().tolist()], H14, iz, dist, ndirs))
    out.extend(c19_har.mean_findings(H, Hm, Hp))
    return out


# ---------------------------------------------------------------------------------------------- LBP

def _rot(v, P):
    return (v >> 1) | ((v & 1) << (P - 1))


def _orbit_min(v, P):
    m = v
    x = v
    for _ in range(P):
        x = ((x >> 1) | ((x & 1) << (P - 1))) & ((1 << P) - 1)
        m = min(m, x)
    return m


def _necklaces(P):
    return sum(math.gcd(i, P) and 2 ** math.gcd(i, P) for i in range(1, P + 1)) // P


def _eval_lbpmap(case):
    from mahotas.features import _lbp
    P = case['p']
    if 'lo' in case:
        codes = np.arange(case['lo'], case['hi'], dtype=np.uint64)
        line = f"c19 kind=lbpmap p={P} lo={case['lo']} hi={case['hi']}"
    else:
        codes = np.array(case['codes'], dtype=np.uint64)
        line = f"c19 kind=lbpmap p={P} codes={core.fmt_ints(case['codes'])}"
    got = _lbp.map(codes.astype(np.uint32), P).astype(np.uint64)
    # numpy-vectorised orbit minimum (independent of the Lean model)
    x = codes.copy(); mn = codes.copy()
    mask = np.uint64((1 << P) - 1)
    for _ in range(P):
        x = ((x >> np.uint64(1)) | ((x & np.uint64(1)) << np.uint64(P - 1))) & mask
        mn = np.minimum(mn, x)
    findings = []
    bad = np.nonzero(got != mn)[0]
    if bad.size:
        j = int(bad[0])
        findings.append(dict(kind='property', key='lbp:map-is-orbit-minimum', detail=dict(P=P, code=int(codes[j]), got=int(got[j]), want=int(mn[j]))))
    rolled = ((codes >> np.uint64(1)) | ((codes & np.uint64(1)) << np.uint64(P - 1))) & mask
    g2 = _lbp.map(rolled.astype(np.uint32), P).astype(np.uint64)
    bad = np.nonzero(g2 != got)[0]
    if bad.size:
        j = int(bad[0])
        findings.append(dict(kind='property', key='lbp:rotations-share-a-bin', detail=dict(P=P, code=int(codes[j]), rotated=int(rolled[j]),
                                                                                          map=int(got[j]), map_rotated=int(g2[j]))))
    g3 = _lbp.map(got.astype(np.uint32), P).astype(np.uint64)
    if np.any(g3 != got):
        j = int(np.nonzero(g3 != got)[0][0])
        findings.append(dict(kind='property', key='lbp:map-idempotent', detail=dict(P=P, code=int(codes[j]))))
    model = np.array(core.ints(core.drive([line])[0]['map']), dtype=np.uint64)
    if not findings and not np.array_equal(model, got):
        j = int(np.nonzero(model != got)[0][0])
        findings.append(dict(kind='model', key='lbp:map-model', detail=dict(P=P, code=int(codes[j]), got=int(got[j]), model=int(model[j]))))
    n = len(codes)
    return dict(findings=findings, n=n, nontrivial_n=int(np.sum(got != codes)), nontrivial=False, sig=None,
                tags=dict(kind='lbpmap', P=P))


def _eval_lbp(case):
    import mahotas.features as mf
    import importlib
    lbpmod = importlib.import_module('mahotas.features.lbp')
    im = np.array(case['data'], dtype=np.float64).reshape(case['shape']).astype(case['dtype'])
    P, R, iz = case['p'], case['radius'], case['iz']
    tags = dict(kind='lbp', P=P, dtype=case['dtype'], iz=iz)
    considered = int(np.count_nonzero(im)) if iz else int(im.size)
    if considered == 0:
        return dict(findings=[], nontrivial=False, sig=json.dumps(case, sort_keys=True), tags=dict(tags, empty=1))
    findings = []
    before = im.copy()
    with warnings.catch_warnings():
        warnings.simplefilter('ignore')
        h = np.asarray(mf.lbp(im, R, P, ignore_zeros=bool(iz)))
        codes = np.asarray(lbpmod.lbp_transform(im, R, P, ignore_zeros=bool(iz), preserve_shape=False)).ravel()
    if not np.array_equal(before, im):
        findings.append(dict(kind='property', key='lbp:input-modified', detail={}))
    if float(h.sum()) != considered:
        findings.append(dict(kind='property', key='lbp:histogram-total', detail=dict(total=float(h.sum()), pixels=considered)))
    if len(h) != _necklaces(P):
        findings.append(dict(kind='property', key='lbp:one-bin-per-rotation-class', detail=dict(bins=len(h), classes=_necklaces(P))))
    cl = [int(c) for c in codes]
    # the code of every considered pixel equals its definition: bit k is set iff the k-th sample on the circle (linear
    # interpolation, as mahotas.interpolate.shift(order=1) evaluates it - property C18) is brighter than the centre;
    # the bits are assembled here in unbounded Python integers and reduced to the rotation-class representative
    from mahotas.interpolate import shift as _shift
    angles = np.linspace(0, 2 * np.pi, P + 1)[:-1]
    sel = (lambda a: a[np.nonzero(im)].ravel()) if iz else np.ravel
    centre = sel(im)
    want = [0] * len(centre)
    with warnings.catch_warnings():
        warnings.simplefilter('ignore')
        for k, (dy, dx) in enumerate(zip(np.sin(angles), np.cos(angles))):
            bits = sel(_shift(im, [R * dy, R * dx], order=1)) > centre
            for j in np.nonzero(bits)[0].tolist():
                want[j] |= (1 << k)
    want = [_orbit_min(c, P) for c in want]
    if len(want) == len(cl) and want != cl:
        j = next(i for i, (a, b) in enumerate(zip(cl, want)) if a != b)
        findings.append(dict(kind='property', key='lbp:code-not-the-defined-pattern', detail=dict(P=P, pixel=j, got=cl[j], want=want[j])))
    if any(_orbit_min(c, P) != c for c in cl):
        findings.append(dict(kind='property', key='lbp:codes-not-class-representatives', detail=dict(P=P)))
    if not findings:
        drv = core.drive([f"c19 kind=lbphist p={P} codes={core.fmt_ints(cl)}"])[0]
        mh = core.ints(drv['hist'])
        if mh != [int(x) for x in h]:
            findings.append(dict(kind='model', key='lbp:histogram-model', detail=dict(got=[int(x) for x in h][:40], model=mh[:40])))
        findings.extend(c19_lbp.sampling_findings(im, P, R, iz, cl))
    return dict(findings=findings, nontrivial=bool(len(set(cl)) > 1), sig=json.dumps(case, sort_keys=True), tags=tags)


# ---------------------------------------------------------------------------------------------- Zernike

def _zernike_weights_tie(im, R, deg, cm, z, scale):
    from mahotas.features import _zernike
    from mahotas.center_of_mass import center_of_mass
    c0, c1 = cm if cm is not None else center_of_mass(im)
    Y, X = np.mgrid[:im.shape[0], :im.shape[1]]
    P = im.ravel()

    def rescale(C, centre):
        Cn = C.astype(np.double)
        Cn -= centre
        Cn /= R
        return Cn.ravel()
    Yn, Xn = rescale(Y, c0), rescale(X, c1)
    Dn = Xn ** 2
    Dn += Yn ** 2
    np.sqrt(Dn, Dn)
    np.maximum(Dn, 1e-9, out=Dn)
    disc = (Dn <= 1.)
    k = disc & (P > 0)
    out = []
    lines = [f"c19 kind=zfrac disc={gen.enc_arr(disc.astype(int).tolist())} data={core.fmt_floats(P)}",
             f"c19 kind=zfrac disc={gen.enc_arr(disc.astype(int).tolist())} data={core.fmt_floats(P * scale)}"]
    d0, d1 = core.drive(lines)
    w, ws = core.floats(d0['frac']), core.floats(d1['frac'])
    if w.shape != (int(k.sum()),) or ws.shape != w.shape:
        return [dict(kind='model', key='zernike:weights-selection', detail=dict(selected=int(k.sum()), model=int(w.size)))]
    if not k.any():
        return out
    ref = np.array(P[k], np.double)
    ref /= ref.sum()
    if not np.all(np.abs(w - ref) <= 1e-12 * np.maximum(1.0, np.abs(ref))):
        out.append(dict(kind='model', key='zernike:weights-model', detail=dict(maxdiff=float(np.max(np.abs(w - ref))))))
    # scale invariance of the model's weights at Float (the theorem is exact over ordered fields; rounding only here)
    if not np.all(np.abs(ws - w) <= 1e-12 * np.maximum(1.0, np.abs(w))):
        out.append(dict(kind='model', key='zernike:weights-scale', detail=dict(maxdiff=float(np.max(np.abs(ws - w))))))
    Dk = Dn[k]
    An = np.empty(Dk.shape, np.complex128)
    An.real = (Xn[k] / Dk)
    An.imag = (Yn[k] / Dk)
    Ans = [An ** p for p in range(2, deg + 2)]
    Ans.insert(0, An)
    Ans.insert(0, np.ones_like(An))
    zv = []
    for n in range(deg + 1):
        for l in range(n + 1):
            if (n - l) % 2 == 0:
                zv.append(abs(_zernike.znl(Dk, Ans[l], np.ascontiguousarray(w), n, l)))
    zv = np.array(zv)
    if zv.shape != z.shape or not float(np.max(np.abs(zv - z))) <= 1e-10 * max(1.0, float(np.max(np.abs(z)))):
        out.append(dict(kind='model', key='zernike:weights-through-znl', detail=dict(
            maxdiff=float(np.max(np.abs(zv - z))) if zv.shape == z.shape else None)))
    return out


def _zernike_model_tie(im, R, deg, cm, z):
    """the Lean Float instances of `znlG` / `zernikeZ` / `zernikeAbs` (the definitions `C19_zernike_rot90` is about)
    against the real kernel `_zernike.znl` (same D, A, P arrays, built with the numpy statements of zernike.py) and the
    real `zernike_moments`; `pow` is libm on both sides: 1e-9, never bit for bit. The selection mask uses only
    + - * / sqrt and must agree exactly."""
    from mahotas.features import _zernike
    from mahotas.center_of_mass import center_of_mass
    c0, c1 = cm if cm is not None else center_of_mass(im)
    c0, c1 = float(c0), float(c1)
    Y, X = np.mgrid[:im.shape[0], :im.shape[1]]
    P = im.ravel()

    def rescale(C, centre):
        Cn = C.astype(np.double)
        Cn -= centre
        Cn /= R
        return Cn.ravel()
    Yn, Xn = rescale(Y, c0), rescale(X, c1)
    Dn = Xn ** 2
    Dn += Yn ** 2
    np.sqrt(Dn, Dn)
    np.maximum(Dn, 1e-9, out=Dn)
    k = (Dn <= 1.) & (P > 0)
    out = []
    if not k.any():
        return out
    frac = np.array(P[k], np.double)
    frac /= frac.sum()
    Dk = Dn[k]
    An = np.empty(Dk.shape, np.complex128)
    An.real = (Xn[k] / Dk)
    An.imag = (Yn[k] / Dk)
    nls = [(n, l) for n in range(deg + 1) for l in range(n + 1) if (n - l) % 2 == 0]
    pick = nls if len(nls) <= 9 else [nls[0], nls[1], nls[2], nls[3], nls[len(nls) // 2], nls[-4], nls[-3], nls[-2], nls[-1]]
    lines, refs = [], []
    for (n, l) in pick:
        Al = np.ascontiguousarray(An ** l) if l >= 2 else (An.copy() if l == 1 else np.ones_like(An))
        refs.append(complex(_zernike.znl(Dk, Al, frac, n, l)))
        lines.append(f"c19 kind=znl d={core.fmt_floats(Dk)} are={core.fmt_floats(Al.real.copy())} "
                     f"aim={core.fmt_floats(Al.imag.copy())} p={core.fmt_floats(frac)} n={n} l={l}")
    H, W = im.shape
    full = (f"c19 kind=zernike shape={H},{W} data={core.fmt_floats(P.astype(np.float64))} "
            f"cm={core.fmt_floats(np.array([c0, c1]))} radius={core.fmt_floats(np.array([float(R)]))} degree={deg}")
    rim = np.ascontiguousarray(np.rot90(im))
    rot = (f"c19 kind=zernike shape={W},{H} data={core.fmt_floats(rim.ravel().astype(np.float64))} "
           f"cm={core.fmt_floats(np.array([W - 1 - c1, c0]))} radius={core.fmt_floats(np.array([float(R)]))} degree={deg}")
    drv = core.drive(lines + [full, rot])
    for (n, l), ref, d in zip(pick, refs, drv):
        zm = core.floats(d['z'])
        zm = complex(zm[0], zm[1])
        if not abs(zm - ref) <= 1e-9 * max(1.0, abs(ref)):
            out.append(dict(kind='model', key='zernike:znl-model', detail=dict(n=n, l=l, real=[ref.real, ref.imag], model=[zm.real, zm.imag])))
            break
    dfull, drot = drv[-2], drv[-1]
    if int(dfull['nsel']) != int(k.sum()):
        out.append(dict(kind='model', key='zernike:selection-model', detail=dict(real=int(k.sum()), model=int(dfull['nsel']))))
        return out
    am = core.floats(dfull['abs'])
    tol = 1e-9 * max(1.0, float(np.max(np.abs(z))))
    if am.shape != z.shape or not float(np.max(np.abs(am - z))) <= tol:
        out.append(dict(kind='model', key='zernike:moments-model', detail=dict(
            maxdiff=float(np.max(np.abs(am - z))) if am.shape == z.shape else None, real=z.tolist()[:6], model=am.tolist()[:6])))
    # the Float instance of C19_zernike_rot90: z(rot90 im) = i^l z(im) up to rounding; exact when the centre moves exactly
    if cm is not None:
        zz = core.floats(dfull['z']).reshape(-1, 2)
        zr = core.floats(drot['z']).reshape(-1, 2)
        ok = zz.shape == zr.shape == (len(nls), 2)
        if ok:
            for (n, l), a, b in zip(nls, zz, zr):
                want = complex(a[0], a[1]) * (1j ** l)
                if not abs(complex(b[0], b[1]) - want) <= tol:
                    ok = False
                    break
        if not ok:
            out.append(dict(kind='model', key='zernike:model-rot90', detail=dict(z=zz.tolist()[:4], zrot=zr.tolist()[:4])))
    return out


def _eval_zernike(case):
    import mahotas.features as mf
    im = np.array(case['data'], dtype=np.float64).reshape(case['shape'])
    R, deg = case['radius'], case['degree']
    cm = tuple(case['cm']) if case.get('cm') is not None else None
    findings = []
    with warnings.catch_warnings():
        warnings.simplefilter('ignore')
        z = np.asarray(mf.zernike_moments(im, R, deg, cm=cm))
        if not np.all(np.isfinite(z)):
            return dict(findings=[], nontrivial=False, sig=json.dumps(case, sort_keys=True), tags=dict(kind='zernike', empty=1))
        tol = 1e-9 * max(1.0, float(np.max(np.abs(z))))
        H, W = im.shape
        if cm is not None:
            cur, c = im, cm
            for k in (1, 2, 3):
                h, w = cur.shape
                cur = np.ascontiguousarray(np.rot90(cur))
                c = (w - 1 - c[1], c[0])
                zr = np.asarray(mf.zernike_moments(cur, R, deg, cm=c))
                if zr.shape != z.shape or not float(np.max(np.abs(zr - z))) <= tol:
                    findings.append(dict(kind='property', key='zernike:rot90', detail=dict(
                        k=k, maxdiff=float(np.max(np.abs(zr - z))) if zr.shape == z.shape else None, z=z.tolist()[:6], zrot=zr.tolist()[:6])))
                    break
        # ---- the normalisation step (Lean zernikeFrac; C19_zernike_scale_invariance is about it): the grid is rebuilt with
        # the very numpy statements of zernike.py (same mask bit for bit), the weights come from the Lean Float instance,
        # and the REAL kernel _zernike.znl fed with them must reproduce the real zernike_moments
        f = _zernike_weights_tie(im, R, deg, cm, z, case['scale'])
        findings.extend(f)
        findings.extend(_zernike_model_tie(im, R, deg, cm, z))
        s = case['scale']
        zs = np.asarray(mf.zernike_moments(im * s, R, deg, cm=cm))
        if zs.shape != z.shape or not float(np.max(np.abs(zs - z))) <= tol:
            findings.append(dict(kind='property', key='zernike:intensity-scaling', detail=dict(
                scale=s, maxdiff=float(np.max(np.abs(zs - z))) if zs.shape == z.shape else None)))
    return dict(findings=findings, nontrivial=bool(im.min() != im.max()), sig=json.dumps(case, sort_keys=True),
                tags=dict(kind='zernike', degree=deg, cm='given' if cm is not None else 'default'))


# ---------------------------------------------------------------------------------------------- moments / integral

def _eval_moments(case):
    import mahotas as mh
    img = np.array(case['data'], dtype=object).astype(case['dtype']).reshape(case['shape'])
    p0, p1 = case['p0'], case['p1']
    cm = case.get('cm')
    before = img.copy()
    with warnings.catch_warnings():
        warnings.simplefilter('ignore')
        if case.get('_hist'):
            # history: the normalised moment of the same image was asked for first (result discarded); the plain
            # moment that follows is the defining sum all the same
            try:
                with np.errstate(all='ignore'):
                    mh.moments(img, p0, p1, cm=tuple(cm) if cm is not None else None, normalize=True)
            except Exception:  # noqa
                pass
        got = float(mh.moments(img, p0, p1, cm=tuple(cm) if cm is not None else None))
    c0, c1 = cm if cm is not None else (0, 0)
    findings = []
    if not np.array_equal(before, img):
        findings.append(dict(kind='property', key='moments:input-modified', detail={}))
    r, c = img.shape
    terms = [float(img[i, j]) * float(i - c0) ** p0 * float(j - c1) ** p1 for i in range(r) for j in range(c)]
    scale = math.fsum(abs(t) for t in terms)
    isint = np.dtype(case['dtype']).kind in 'iub' and all(float(v).is_integer() for v in (c0, c1))
    if isint:
        drv = core.drive([f"c19 kind=moments w={c} data={gen.enc_arr(case['data'])} p0={p0} p1={p1} c0={int(c0)} c1={int(c1)}"])[0]
        want = int(drv['spec'])
        if int(drv['model']) != want:
            findings.append(dict(kind='model', key='moments:model-vs-spec', detail={}))
    else:
        want = math.fsum(terms)
    if not (abs(got - float(want)) <= 1e-12 * max(scale, 1e-300) + 0.0):
        findings.append(dict(kind='property', key='moments:defining-sum', detail=dict(got=got, want=float(want), p0=p0, p1=p1, cm=cm)))
    return dict(findings=findings, nontrivial=bool(scale > 0), sig=json.dumps(case, sort_keys=True),
                tags=dict(kind='moments', dtype=case['dtype'], exact=int(isint)))


def _eval_integral(case):
    from mahotas.features import surf
    f = np.array(case['data'], dtype=object).astype(case['dtype']).reshape(case['shape'])
    f = gen.relayout(f, case.get('layout', 'C'))
    odt = np.dtype(case['out'])
    before = f.copy()
    with warnings.catch_warnings():
        warnings.simplefilter('ignore')
        with np.errstate(all='ignore'):
            res = np.asarray(surf.integral(f, dtype=odt))
    findings = []
    if not np.array_equal(before, f):
        findings.append(dict(kind='property', key='integral:input-modified', detail={}))
    if res.shape != f.shape or res.dtype != odt:
        findings.append(dict(kind='property', key='integral:shape-dtype', detail=dict(shape=list(res.shape), dtype=str(res.dtype))))
        return dict(findings=findings, nontrivial=True, sig=json.dumps(case, sort_keys=True), tags=dict(kind='integral'))
    h, w = f.shape
    tags = dict(kind='integral', dtype=case['dtype'], out=case['out'], layout=case.get('layout', 'C'))
    if odt.kind in 'iu' and np.dtype(case['dtype']).kind in 'iu':
        conv = f.astype(odt)                     # the conversion happens before the kernel runs
        bits = odt.itemsize * 8
        drv = core.drive([f"c19 kind=integral w={w} data={gen.enc_arr([int(x) for x in conv.ravel().tolist()])} bits={bits} "
                          f"signed={1 if odt.kind == 'i' else 0}"])[0]
        got = [int(x) for x in res.ravel().tolist()]
        spec = core.ints(drv['spec'])
        if got != spec:
            k = next(i for i, (a, b) in enumerate(zip(got, spec)) if a != b)
            findings.append(dict(kind='property', key='integral:prefix-sum', detail=dict(pos=[k // w, k % w], got=got[k], want=spec[k])))
        elif core.ints(drv['model']) != got:
            findings.append(dict(kind='model', key='integral:model', detail={}))
        elif core.ints(drv.get('machine', '')) != got:
            # the recurrence run in the dtype's own arithmetic (MInt: every + and - wraps), C19_integral_machine_arithmetic
            findings.append(dict(kind='model', key='integral:machine-model', detail={}))
    elif odt.kind == 'f':
        conv = f.astype(odt).astype(np.float64)
        exact = [[math.fsum(float(conv[a, b]) for a in range(i + 1) for b in range(j + 1)) for j in range(w)] for i in range(h)]
        scale = math.fsum(abs(float(v)) for v in conv.ravel())
        eps = 1e-9 if odt == np.float64 else 1e-4
        allint = bool(np.all(conv == np.round(conv))) and scale < (2 ** 53 if odt == np.float64 else 2 ** 24)
        E = np.array(exact).reshape(h, w)
        R = res.astype(np.float64)
        ok = np.array_equal(R, E) if allint else bool(np.all(np.abs(R - E) <= eps * max(scale, 1e-300)))
        if not ok:
            k = int(np.argmax(np.abs(R - E)))
            findings.append(dict(kind='property', key='integral:prefix-sum', detail=dict(pos=[k // w, k % w], got=float(R.ravel()[k]),
                                                                                        want=float(E.ravel()[k]))))
        elif odt == np.float64:
            drv = core.drive([f"c19 kind=integralf w={w} data={core.fmt_floats(conv)}"])[0]
            M = core.floats(drv['model']).reshape(h, w)
            if not np.array_equal(M, R):
                findings.append(dict(kind='model', key='integral:float-model', detail=dict(maxdiff=float(np.max(np.abs(M - R))))))
    return dict(findings=findings, nontrivial=bool(f.size > 1), sig=json.dumps(case, sort_keys=True), tags=tags)


EVAL = dict(cooc=_eval_cooc, haralick=_eval_haralick, lbpmap=_eval_lbpmap, lbp=_eval_lbp, zernike=_eval_zernike,
            moments=_eval_moments, integral=_eval_integral, tas=c19_tas.eval_tas, big=c19_big.eval_big)
EVAL.update(c19_r4.EVAL)


def evaluate(cases):
    return [EVAL[c['kind']](c) for c in cases]


# ---------------------------------------------------------------------------------------------- generators

def _corpus():
    d = core.VERIF / 'corpus' / ID
    return [json.loads(p.read_text())['case'] for p in sorted(d.glob('*.json'))] if d.exists() else []


TEX_DTYPES = ['uint8', 'uint8', 'uint16', 'int32', 'int64', 'int8', 'uint32', 'int16', 'uint64', 'bool']


def _tex_image(rng, big=False):
    nd = rng.choice([2, 2, 3])
    shape = [rng.choice([1, 2, 3, rng.randint(1, 7)]) for _ in range(nd)]
    if big and nd == 2:
        shape = [rng.randint(4, 12), rng.randint(4, 12)]
    dtype = rng.choice(TEX_DTYPES)
    levels = 2 if dtype == 'bool' else rng.choice([1, 2, 2, 3, 4, 8, 16, 64])
    n = int(np.prod(shape))
    style = rng.random()
    if style < 0.1:
        data = [rng.randrange(levels)] * n
    elif style < 0.3:
        data = [rng.choice([0, levels - 1]) for _ in range(n)]
    else:
        data = [rng.randrange(levels) for _ in range(n)]
    return shape, dtype, data


def cases(rng, tier):
    out = list(_corpus()) if tier != 'search' else []
    N = dict(quick=1, thorough=12, search=4)[tier]
    # --- cooccurence
    for _ in range(300 * N):
        shape, dtype, data = _tex_image(rng)
        nd = len(shape)
        c = dict(kind='cooc', shape=shape, dtype=dtype, data=data, dir=rng.randrange(4 if nd == 2 else 13),
                 dist=rng.choice([1, 1, 2, 3]), sym=rng.choice([0, 1]))
        r = rng.random()
        if r < 0.5:
            c['output'] = 'none'
        else:
            c['output'] = 'given'; c['extra'] = rng.choice([0, 0, 1, 3])
        out.append(c)
    for _ in range(6 * N):
        shape, dtype, data = _tex_image(rng)
        if max(data) == 0:
            data[rng.randrange(len(data))] = 1
        nd = len(shape)
        out.append(dict(kind='cooc', shape=shape, dtype=dtype, data=data, dir=rng.randrange(4 if nd == 2 else 13),
                        dist=1, sym=rng.choice([0, 1]), output='too-small'))
    for _ in range(4 * N):
        # the dtype maximum as a grey level (default output allocation)
        dtype = rng.choice(['uint8', 'int8'])
        top = 255 if dtype == 'uint8' else 127
        shape = [rng.randint(1, 4), rng.randint(2, 4)]
        data = [rng.choice([0, 1, top]) for _ in range(shape[0] * shape[1])]
        data[0] = top
        out.append(dict(kind='cooc', shape=shape, dtype=dtype, data=data, dir=rng.randrange(4), dist=1,
                        sym=rng.choice([0, 1]), output='isolated'))
    # --- haralick
    for _ in range(200 * N):
        shape, dtype, data = _tex_image(rng, big=rng.random() < 0.3)
        out.append(dict(kind='haralick', shape=shape, dtype=dtype, data=data, dist=rng.choice([1, 1, 1, 2, 3]),
                        iz=rng.choice([0, 0, 1])))
    # --- LBP code mapping: exhaustive P <= 16
    full = 16 if tier == 'thorough' else 12
    for P in range(1, full + 1):
        step = 1 << 13
        for lo in range(0, 1 << P, step):
            out.append(dict(kind='lbpmap', p=P, lo=lo, hi=min(1 << P, lo + step)))
    if tier != 'thorough':
        for P in range(13, 17):
            for _ in range(2):
                lo = rng.randrange(0, (1 << P) - 2048)
                out.append(dict(kind='lbpmap', p=P, lo=lo, hi=lo + 2048))
    for _ in range(20 * N):
        P = rng.randint(17, 32)
        codes = [rng.choice([rng.randrange(1 << P), (1 << P) - 1, 1 << (P - 1), 1, 0, (1 << rng.randrange(P)) | 1]) for _ in range(64)]
        out.append(dict(kind='lbpmap', p=P, codes=codes))
    # --- LBP histograms
    for _ in range(60 * N):
        shape = [rng.randint(1, 9), rng.randint(1, 9)]
        dtype = rng.choice(['float64', 'float64', 'uint8', 'int32', 'float32'])
        n = shape[0] * shape[1]
        data = [float(rng.choice([0, 0, rng.randint(0, 9), rng.randint(0, 255)])) if dtype != 'float64' or rng.random() < 0.3
                else rng.choice([0.0, rng.random(), rng.uniform(0, 100)]) for _ in range(n)]
        out.append(dict(kind='lbp', shape=shape, dtype=dtype, data=data, p=rng.choice([1, 2, 3, 4, 5, 6, 8, 8, 10, 12, 15, 16, 16, 17, 20]),
                        radius=rng.choice([1, 2, 1.5, 3, 0.5, 2.5]), iz=rng.choice([0, 0, 1])))
    # --- Zernike
    for _ in range(60 * N):
        shape = [rng.randint(2, 12), rng.randint(2, 12)]
        n = shape[0] * shape[1]
        style = rng.random()
        data = [rng.choice([0.0, rng.random(), float(rng.randint(0, 255))]) if style < 0.7 else float(rng.randint(0, 1)) for _ in range(n)]
        if not any(data):
            data[0] = 1.0
        c = dict(kind='zernike', shape=shape, data=data, radius=rng.choice([1, 2, 3, 5, 8, 2.5]), degree=rng.choice([0, 1, 2, 4, 8, 8, 12]))
        if rng.random() < 0.75:
            c['cm'] = [rng.randint(0, 2 * shape[0]) / 2.0 if rng.random() < 0.7 else rng.randint(-8, 8 * shape[0]) / 8.0,
                       rng.randint(0, 2 * shape[1]) / 2.0 if rng.random() < 0.7 else rng.randint(-8, 8 * shape[1]) / 8.0]
            c['scale'] = rng.choice([2.0, 0.5, 3.0, 255.0, 1e-3, 7.25, 1e6])
        else:
            c['cm'] = None
            c['scale'] = rng.choice([2.0, 0.5, 1024.0, 2.0 ** -10])
        out.append(c)
    # --- moments
    for _ in range(150 * N):
        shape = [rng.randint(1, 7), rng.randint(1, 7)]
        dtype = rng.choice(['uint8', 'int32', 'int64', 'uint16', 'bool', 'float64', 'int8'])
        n = shape[0] * shape[1]
        if dtype == 'float64':
            data = [rng.choice([rng.uniform(-5, 5), float(rng.randint(-3, 3))]) for _ in range(n)]
        elif dtype == 'bool':
            data = [rng.randint(0, 1) for _ in range(n)]
        else:
            lo, hi = gen.dt_range(dtype)
            data = [rng.choice([rng.randint(max(lo, -9), min(hi, 9)), rng.choice([lo, hi]), 0]) for _ in range(n)]
        cm = rng.choice([None, [rng.randint(-2, 7), rng.randint(-2, 7)], [rng.randint(0, 3), rng.randint(0, 3)],
                         [rng.uniform(0, 5), rng.uniform(0, 5)]])
        out.append(dict(kind='moments', shape=shape, dtype=dtype, data=data, p0=rng.randint(0, 4), p1=rng.randint(0, 4), cm=cm))
    # --- integral image
    for _ in range(250 * N):
        shape = [rng.choice([1, 2, 3, rng.randint(1, 8)]), rng.choice([1, 2, 3, rng.randint(1, 8)])]
        dtype = rng.choice(['uint8', 'int8', 'uint16', 'int16', 'uint32', 'int32', 'int64', 'uint64', 'float64', 'float32'])
        n = shape[0] * shape[1]
        if dtype.startswith('float'):
            data = [float(np.dtype(dtype).type(rng.choice([rng.uniform(-10, 10), float(rng.randint(-100, 100)), 0.0]))) for _ in range(n)]
            outdt = rng.choice(['float64', 'float64', 'float32'])
        else:
            lo, hi = gen.dt_range(dtype)
            data = [rng.choice([rng.randint(max(lo, -9), min(hi, 9)), rng.choice([lo, hi]), rng.randint(lo, hi)]) for _ in range(n)]
            outdt = rng.choice(['float64', 'float64', dtype, dtype, 'int64', 'int32', 'uint8', 'uint16'])
        if outdt.startswith('float') and not dtype.startswith('float'):
            data = [int(max(-2 ** 40, min(2 ** 40, v))) for v in data]
            lo, hi = gen.dt_range(dtype)
            data = [max(lo, min(hi, v)) for v in data]
        out.append(dict(kind='integral', shape=shape, dtype=dtype, data=data, out=outdt, layout=rng.choice(gen.LAYOUTS)))
    out.extend(c19_r4.cases(rng, N))
    # --- round 4: tas / pftas (own module; drawn last so that the earlier streams are unchanged)
    out.extend(c19_tas.cases(rng, tier))
    # --- round 4: size-threshold stream (counts crossing 2^8 / 2^15 / 2^16)
    out.extend(c19_big.cases(rng, tier))
    return out


def shrink(case):
    k = case.get('kind')
    if k in c19_r4.EVAL:
        yield from c19_r4.shrink(case)
        return
    if k in ('cooc', 'haralick', 'moments', 'integral', 'lbp', 'zernike', 'tas'):
        shape, data = case['shape'], case['data']
        A = np.array(data, dtype=object).reshape(shape)
        for ax in range(len(shape)):
            if shape[ax] > 1:
                for j in (shape[ax] - 1, 0):
                    B = np.delete(A, j, axis=ax)
                    yield dict(case, shape=list(B.shape), data=B.ravel().tolist())
        if case.get('layout', 'C') != 'C':
            yield dict(case, layout='C')
        if k in ('cooc', 'haralick'):
            mx = max(data)
            if mx > 1:
                yield dict(case, data=[min(v, mx - 1) for v in data])
    elif k == 'lbpmap':
        if 'lo' in case and case['hi'] - case['lo'] > 1:
            mid = (case['lo'] + case['hi']) // 2
            yield dict(case, hi=mid)
            yield dict(case, lo=mid)
        elif 'codes' in case and len(case['codes']) > 1:
            h = len(case['codes']) // 2
            yield dict(case, codes=case['codes'][:h])
            yield dict(case, codes=case['codes'][h:])
