"""C19 (round 4) — size-threshold stream: a handful of cases whose pixel / pair / histogram counts cross 2^8, 2^15, 2^16
(a counter, index or accumulator narrowed to 16 bits passes every small case).  Cases are compact (`gen` = seeded recipe),
the arrays are rebuilt here.  Judged with the Lean model where the driver is fast enough (cooccurence fold model = spec by
theorem C19_cooc_counts; `lbphist`; `tas`), and with exact O(N) numpy oracles whose agreement with the Lean specification
is established on the small cases of the other streams (pair counts by np.add.at; `_np_counts` of c19_tas)."""
from __future__ import annotations
import json, warnings
import numpy as np
from .. import core, gen
from . import c19_tas

D2 = [(0, 1), (1, 1), (1, 0), (1, -1)]


def _build(case):
    rs = np.random.RandomState(case['seed'])
    shape = tuple(case['shape'])
    what = case['what']
    if what in ('cooc', 'haralick'):
        a = np.zeros(shape, case['dtype'])
        if case['levels'] > 1:
            k = case.get('sprinkle', 40)
            idx = rs.randint(0, a.size, k)
            a.ravel()[idx] = rs.randint(1, case['levels'], k)
        return a
    if what == 'lbp':
        # dark image with a few bright pixels: the bin of code 0 alone holds more than 2^16 pixels
        a = np.zeros(shape, np.float64)
        a.ravel()[rs.randint(0, a.size, 10)] = 1.0
        return a
    if what == 'tas':
        return rs.randint(0, 256, shape).astype(case['dtype'])
    if what == 'zernike':
        return rs.rand(*shape) + 0.5
    raise core.Infra(f'c19_big: unknown recipe {what}')


def _pair_counts(f, d, m, sym):
    """exact O(N) oracle: C[a][b] = #{p | p, p+d inside, f p = a, f (p+d) = b} (+ transpose when symmetric)"""
    H, W = f.shape
    dy, dx = d
    ys, xs = np.mgrid[:H, :W]
    ok = (ys + dy >= 0) & (ys + dy < H) & (xs + dx >= 0) & (xs + dx < W)
    a = f[ys[ok], xs[ok]].astype(np.int64)
    b = f[ys[ok] + dy, xs[ok] + dx].astype(np.int64)
    C = np.zeros((m, m), np.int64)
    np.add.at(C, (a, b), 1)
    return C + C.T if sym else C


def eval_big(case):
    what = case['what']
    tags = dict(kind='big', what=what, size='threshold')
    sig = json.dumps(case, sort_keys=True)
    findings = []
    f = _build(case)
    with warnings.catch_warnings():
        warnings.simplefilter('ignore')
        if what == 'cooc':
            from mahotas.features import texture
            m = int(f.max()) + 1
            dist, sym, dr = case['dist'], case['sym'], case['dir']
            d = (D2[dr][0] * dist, D2[dr][1] * dist)
            res = np.asarray(texture.cooccurence(f, dr, symmetric=bool(sym), distance=dist)).astype(np.int64)
            want = _pair_counts(f, d, m, sym)
            tags['maxcount'] = int(want.max()).bit_length()
            if res.shape != want.shape or not np.array_equal(res, want):
                findings.append(dict(kind='property', key='cooccurence:counts:2d', detail=dict(
                    got=res.ravel().tolist()[:16], want=want.ravel().tolist()[:16], shape=list(f.shape))))
            drv = core.drive([f"c19 kind=cooc shape={gen.enc_shape(f.shape)} data={gen.enc_arr(f)} m={m} dir={dr} "
                              f"dist={dist} sym={sym} spec=0"])[0]
            model = np.array(core.ints(drv['model']), dtype=np.int64).reshape(m, m)
            if not np.array_equal(model, want):
                findings.append(dict(kind='model', key='cooccurence:big-oracle-vs-lean-model', detail=dict(model=model.ravel().tolist()[:16])))
        elif what == 'haralick':
            import mahotas.features as mf
            m = int(f.max()) + 1
            H = np.asarray(mf.haralick(f))
            drv = core.drive([f"c19 kind=haralick shape={gen.enc_shape(f.shape)} data={gen.enc_arr(f)} m={m} dist=1 iz=0"])[0]
            F = core.floats(drv['feats']).reshape(4, 19)
            for d_ in range(4):
                vx, vy, hx, hy = F[d_, 13:17]
                for k in range(13):
                    if (k == 2 and (vx < 1e-9 or vy < 1e-9)) or (k == 11 and max(hx, hy) < 1e-9):
                        continue
                    a, b = float(H[d_, k]), float(F[d_, k])
                    if not (abs(a - b) <= 1e-9 * max(1.0, abs(b))):
                        findings.append(dict(kind='property', key=f'haralick:formula:f{k + 1}', detail=dict(direction=d_, got=a, textbook=b, big=1)))
                        break
                if findings:
                    break
        elif what == 'lbp':
            import importlib
            import mahotas.features as mf
            lbpmod = importlib.import_module('mahotas.features.lbp')
            P, R = case['p'], case['radius']
            h = np.asarray(mf.lbp(f, R, P))
            codes = np.asarray(lbpmod.lbp_transform(f, R, P, preserve_shape=False)).ravel()
            if float(h.sum()) != f.size:
                findings.append(dict(kind='property', key='lbp:histogram-total', detail=dict(total=float(h.sum()), pixels=int(f.size))))
            drv = core.drive([f"c19 kind=lbphist p={P} codes={core.fmt_ints(codes.tolist())}"])[0]
            mh = core.ints(drv['hist'])
            if mh != [int(x) for x in h]:
                findings.append(dict(kind='model', key='lbp:histogram-model', detail=dict(got=[int(x) for x in h][:40], model=mh[:40])))
            tags['pixels'] = int(f.size).bit_length()
        elif what == 'tas':
            import mahotas.features as mf
            fn = case['fn']
            real = np.asarray(mf.tas(f) if fn == 'tas' else mf.pftas(f, case['T']))
            thresh = 30 if fn == 'tas' else case['T']
            if fn == 'tas':
                margin = 30.0
            else:
                px = f[f > thresh].ravel()
                margin = 0.0 if len(px) == 0 else float(px.std())
            total = np.sum(f > thresh)
            mu = float(((f > thresh) * f).sum() / (total + 1e-8))
            f64 = f.astype(np.float64)
            masks = [(f64 > mu - margin) & (f64 < mu + margin), f64 > mu - margin, f64 > mu]
            blocks = []
            for b in masks + [~b for b in masks]:
                off, _ = c19_tas._np_counts(b)
                off = off[:9]
                blocks.append(off / float(off.sum()) if off.sum() > 0 else off.astype(np.float64))
            want = np.concatenate(blocks)
            if real.shape != want.shape or not bool(np.all(real == want)):
                findings.append(dict(kind='model', key=f'{fn}:values', detail=dict(real=real.tolist()[:18], oracle=want.tolist()[:18], big=1)))
            drv = core.drive([f"c19 kind=tas shape={gen.enc_shape(f.shape)} margin={core.fmt_floats([margin])} specmask=0 "
                              f"idata={gen.enc_arr(f)} thresh={thresh}"])[0]
            M = core.floats(drv['tas'])
            if M.shape != real.shape or not bool(np.all(M == real)):
                findings.append(dict(kind='model', key=f'{fn}:values', detail=dict(real=real.tolist()[:18], model=M.tolist()[:18], big=2)))
            tags['pixels'] = int(f.size).bit_length()
        elif what == 'zernike':
            import mahotas.features as mf
            R, deg, cm = case['radius'], case['degree'], tuple(case['cm'])
            z = np.asarray(mf.zernike_moments(f, R, deg, cm=cm))
            Hh, Ww = f.shape
            rot = np.ascontiguousarray(np.rot90(f))
            zr = np.asarray(mf.zernike_moments(rot, R, deg, cm=(Ww - 1 - cm[1], cm[0])))
            tol = 1e-9 * max(1.0, float(np.max(np.abs(z))))
            if zr.shape != z.shape or not float(np.max(np.abs(zr - z))) <= tol:
                findings.append(dict(kind='property', key='zernike:rot90', detail=dict(k=1, big=1, z=z.tolist()[:6], zrot=zr.tolist()[:6])))
            # number of selected pixels, with the statements of zernike.py, against the Lean model's selection
            Y, X = np.mgrid[:Hh, :Ww]
            Dn = np.sqrt(((X - cm[1]) / R) ** 2 + ((Y - cm[0]) / R) ** 2)
            nsel = int(np.sum((np.maximum(Dn, 1e-9) <= 1.) & (f > 0)))
            tags['nsel'] = nsel.bit_length()
            drv = core.drive([f"c19 kind=zernike shape={gen.enc_shape(f.shape)} data={core.fmt_floats(f)} "
                              f"cm={core.fmt_floats(list(cm))} radius={core.fmt_floats([float(R)])} degree={deg}"])[0]
            if int(drv['nsel']) != nsel:
                findings.append(dict(kind='model', key='zernike:selection-model', detail=dict(numpy=nsel, model=int(drv['nsel']), big=1)))
            A = core.floats(drv['abs'])
            if A.shape != z.shape or not float(np.max(np.abs(A - z))) <= 1e-9 * max(1.0, float(np.max(np.abs(z)))):
                findings.append(dict(kind='model', key='zernike:moments-model', detail=dict(real=z.tolist()[:6], model=A.tolist()[:6], big=1)))
    return dict(findings=findings, nontrivial=True, sig=sig, tags=tags)


def cases(rng, tier):
    s = lambda: rng.randrange(1 << 30)
    out = [
        # > 65535 identical ordered pairs: entry [0][0] of the count matrix crosses 2^16 (symmetric: 2^17)
        dict(kind='big', what='cooc', shape=[257, 257], dtype='uint8', levels=rng.choice([1, 3]), dir=rng.randrange(4),
             dist=1, sym=rng.choice([0, 1]), seed=s()),
        # 2^15: 182 x 181 = 32942 horizontal pairs; 2^8: 16 x 16 = 256 vertical pairs of a 17 x 16 image
        dict(kind='big', what='cooc', shape=[182, 182], dtype='uint16', levels=2, dir=0, dist=1, sym=0, seed=s()),
        dict(kind='big', what='cooc', shape=[17, 16], dtype='int8', levels=1, dir=2, dist=1, sym=0, seed=s()),
        dict(kind='big', what='haralick', shape=[257, 257], dtype='uint8', levels=3, seed=s()),
        dict(kind='big', what='lbp', shape=[257, 256], p=rng.choice([4, 6]), radius=1, seed=s()),
        dict(kind='big', what='tas', shape=[257, 256], dtype='uint8', fn=rng.choice(['tas', 'pftas']), T=100, seed=s()),
        dict(kind='big', what='zernike', shape=[300, 300], radius=146, degree=2, cm=[149.5, 149.5], seed=s()),
    ]
    return out
