"""C19 (round 4) — haralick's 14th feature against Haralick's matrix Q of the Lean model (driver kind `harq`).

`f14 = sqrt(second largest eigenvalue of Q)`, `Q(i,j) = sum_k p(i,k) p(j,k) / (p_x(i) p_y(k))`.  The Lean model builds Q
from its own co-occurrence counts (theorems C19_cooc_counts, C19_haralick_ignore_zeros_distance, C19_haralick_Q: rows of
occupied levels sum to 1, Q reversible); the eigenvalues of that matrix are taken here with numpy (trusted) and the
square of the real output is compared with the second largest one."""
from __future__ import annotations
import numpy as np
from .. import core, gen

MAX_LEVELS = 24


def f14_findings(f, data, H14, iz, dist, ndirs):
    out = []
    m = int(f.max()) + 1
    if H14 is None or H14.shape != (ndirs, 14) or m > MAX_LEVELS:
        return out
    drv = core.drive([f"c19 kind=harq shape={gen.enc_shape(f.shape)} data={gen.enc_arr(data)} m={m} dist={dist} iz={iz}"])[0]
    if 'error' in drv:
        raise core.Infra(f"driver: {drv['error']}")
    Q = core.floats(drv['q']).reshape(ndirs, m, m)
    for d in range(ndirs):
        got = float(H14[d, 13])
        rs = Q[d].sum(axis=1)
        occ = rs > 0.5
        if not np.all((np.abs(rs - 1) <= 1e-9) | (rs == 0)):
            out.append(dict(kind='model', key='haralick:f14:Q-rows-sum-to-one', detail=dict(direction=d, rowsums=rs.tolist())))
            break
        if occ.sum() < 2:
            want2 = 0.0
        else:
            ev = np.sort(np.linalg.eigvals(Q[d][occ][:, occ]).real)
            if abs(ev[-1] - 1) > 1e-8:      # the largest eigenvalue of a row-stochastic matrix is 1: numpy went wrong
                continue
            want2 = max(0.0, float(ev[-2]))
        if not (got == got and -1e-9 <= got <= 1 + 1e-9 and abs(got * got - want2) <= 1e-8):
            out.append(dict(kind='property', key='haralick:f14:maximal-correlation', detail=dict(
                direction=d, got=got, textbook=float(np.sqrt(want2)), levels=int(occ.sum()))))
            break
    return out


def mean_findings(H, Hm, Hp):
    """`return_mean` / `return_mean_ptp` of the real code against the Lean model of `mean(axis=0)` / `ptp(axis=0)`
    (driver kind `harmean`) applied to the real feature matrix: bit for bit (rows are added in order, one division)."""
    H = np.asarray(H, dtype=np.float64)
    if H.ndim != 2 or not np.all(np.isfinite(H)):
        return []
    drv = core.drive([f"c19 kind=harmean w={H.shape[1]} feats={core.fmt_floats(H)}"])[0]
    if 'error' in drv:
        raise core.Infra(f"driver: {drv['error']}")
    mean, ptp = core.floats(drv['mean']), core.floats(drv['ptp'])
    out = []
    same = lambda a, b: a.shape == b.shape and bool(np.all(a == b))
    if not same(np.asarray(Hm, dtype=np.float64), mean):
        out.append(dict(kind='model', key='haralick:return_mean-model', detail=dict(got=np.asarray(Hm).tolist(), model=mean.tolist())))
    if not same(np.asarray(Hp, dtype=np.float64), np.concatenate((mean, ptp))):
        out.append(dict(kind='model', key='haralick:return_mean_ptp-model', detail=dict(got=np.asarray(Hp).tolist(), model=np.concatenate((mean, ptp)).tolist())))
    return out
