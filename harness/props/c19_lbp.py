"""C19 (round 4) — LBP sampling: the codes of the real `lbp_transform` against the Lean model of the whole pipeline
(driver kind `lbpt`: `interpolate.shift(order=1)` as modelled for C18, comparison with the centre pixel, bit assembly,
`_lbp.map`).  The sines/cosines are computed with the very numpy statements of `lbp.py` and handed to the model."""
from __future__ import annotations
import numpy as np
from .. import core, gen


def sampling_findings(im, P, R, iz, real_codes):
    if P > 30:
        return []
    image = np.asanyarray(im, dtype=np.float64)
    if not np.all(np.isfinite(image)):
        return []
    angles = np.linspace(0, 2 * np.pi, P + 1)[:-1]
    line = (f"c19 kind=lbpt shape={gen.enc_shape(image.shape)} data={core.fmt_floats(image)} "
            f"radius={core.fmt_floats([float(R)])} sin={core.fmt_floats(np.sin(angles))} cos={core.fmt_floats(np.cos(angles))} iz={int(iz)}")
    drv = core.drive([line])[0]
    if 'error' in drv:
        raise core.Infra(f"driver: {drv['error']}")
    model = core.ints(drv['codes'])
    if model != [int(c) for c in real_codes]:
        j = next((i for i, (a, b) in enumerate(zip(real_codes, model)) if int(a) != b), -1)
        return [dict(kind='model', key='lbp:transform-model', detail=dict(
            P=P, radius=float(R), pixel=j, n_real=len(real_codes), n_model=len(model),
            got=int(real_codes[j]) if j >= 0 else None, model=model[j] if j >= 0 else None))]
    return []
