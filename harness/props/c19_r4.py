"""C19, round 4 — option paths of `surf.integral` (in_place, dtype conversions, byte order), of `moments`
(normalize / normalise / cm=None / convert_to_float) and the radial polynomial of the Zernike kernel.
Hooked into c19.py (kinds `integral2`, `moments2`, `zradial`)."""
from __future__ import annotations
import json, math, warnings
from fractions import Fraction
import numpy as np
from .. import core, gen

INT_DTYPES = ['uint8', 'int8', 'uint16', 'int16', 'uint32', 'int32', 'int64', 'uint64']
I2_LAYOUTS = ['C', 'F', 'strided', 'negstride', 'offset', 'transposed', 'swapped']


def _data(case):
    """explicit `data`, or a compact description of a big image (`fill`): a constant or a seeded LCG stream"""
    if 'data' in case:
        return case['data']
    f = case['fill']
    n = int(np.prod(case['shape']))
    if f['kind'] == 'const':
        return [f['value']] * n
    lo, hi, x = f['lo'], f['hi'], f['seed']
    out = []
    for _ in range(n):
        x = (x * 6364136223846793005 + 1442695040888963407) % (1 << 64)
        out.append(lo + (x >> 33) % (hi - lo + 1))
    return out


def _prefix_exact(vals, h, w):
    """exact two-dimensional prefix sums of integers in O(h*w) (Python integers)"""
    out = [0] * (h * w)
    for i in range(h):
        run = 0
        for j in range(w):
            run += vals[i * w + j]
            out[i * w + j] = run + (out[(i - 1) * w + j] if i else 0)
    return out


BIG = 4096      # above this many pixels the Lean driver is not asked (its *specification* is quadratic); the O(N) Python oracle
                # above is the judge — on every small case the two are compared with each other (`integral:spec-vs-python`)


def _wrap(v: int, bits: int, signed: bool) -> int:
    m = 1 << bits
    r = v % m
    return r - m if signed and r >= m // 2 else r


def _native(dt: np.dtype) -> np.dtype:
    return np.dtype(dt).newbyteorder('=')


def eval_integral2(case):
    """surf.integral(f, in_place=…, dtype=…): every entry is the exact prefix sum of the (converted) input, reduced into
    the dtype's range for integer dtypes; in_place returns the very array; a byte-swapped array is summed as the values
    numpy shows (or refused with ValueError when asked to work in place)."""
    from mahotas.features import surf
    idt = np.dtype(case['dtype'])
    f = np.array(_data(case), dtype=object).astype(idt).reshape(case['shape'])
    layout = case.get('layout', 'C')
    if layout == 'swapped':
        f = f.astype(idt.newbyteorder('S'))
    else:
        f = gen.relayout(f, layout)
    inplace = bool(case.get('inplace'))
    odt = f.dtype if inplace else np.dtype(case['out'])
    if case.get('swap_out') and not inplace:
        odt = odt.newbyteorder('S')
    before = np.array(f.astype(_native(f.dtype)), copy=True)
    tags = dict(kind='integral2', dtype=case['dtype'], out=str(_native(odt)), layout=layout, inplace=int(inplace),
                swap_out=int(bool(case.get('swap_out'))), size=case.get('size', 'small'))
    sig = json.dumps(case, sort_keys=True)
    findings = []
    try:
        with warnings.catch_warnings():
            warnings.simplefilter('ignore')
            with np.errstate(all='ignore'):
                res = surf.integral(f, in_place=True) if inplace else surf.integral(f, dtype=odt)
    except ValueError as e:
        if inplace and not f.dtype.isnative:
            # the repaired behaviour: in-place work on byte-swapped memory is refused; nothing may have been written
            if not np.array_equal(before, f.astype(_native(f.dtype))):
                findings.append(dict(kind='property', key='integral:refused-but-modified', detail={}))
            return dict(findings=findings, nontrivial=True, sig=sig, tags=dict(tags, refused=1))
        findings.append(dict(kind='property', key=f'integral:raises:{layout}', detail=dict(error=repr(e)[:200])))
        return dict(findings=findings, nontrivial=True, sig=sig, tags=tags)
    except Exception as e:  # noqa
        findings.append(dict(kind='property', key=f'integral:raises:{layout}', detail=dict(error=repr(e)[:200])))
        return dict(findings=findings, nontrivial=True, sig=sig, tags=tags)
    res = np.asarray(res)
    if inplace:
        if res is not f and not np.shares_memory(res, f):
            findings.append(dict(kind='model', key='integral:in-place-returns-other-array', detail={}))
    elif not np.array_equal(before, f.astype(_native(f.dtype))):
        findings.append(dict(kind='property', key='integral:input-modified', detail={}))
    if res.shape != before.shape or _native(res.dtype) != _native(odt):
        findings.append(dict(kind='property', key='integral:shape-dtype',
                             detail=dict(shape=list(res.shape), dtype=str(res.dtype), want=str(odt))))
        return dict(findings=findings, nontrivial=True, sig=sig, tags=tags)
    h, w = before.shape
    nodt = _native(odt)
    with np.errstate(all='ignore'):
        conv = before.astype(nodt)                 # the conversion happens before the kernel runs (numpy's own cast)
    got = res.astype(_native(res.dtype))
    if nodt.kind in 'iu':
        bits = nodt.itemsize * 8
        vals = [int(x) for x in conv.ravel().tolist()]
        big = h * w > BIG
        drv = None if big else core.drive([f"c19 kind=integral w={w} data={gen.enc_arr(vals)} bits={bits} signed={1 if nodt.kind == 'i' else 0}"])[0]
        gl = [int(x) for x in got.ravel().tolist()]
        # independent expectation: exact prefix sums in Python integers, reduced once
        want = [_wrap(s, bits, nodt.kind == 'i') for s in _prefix_exact(vals, h, w)]
        if gl != want:
            k = next(i for i, (a, b) in enumerate(zip(gl, want)) if a != b)
            findings.append(dict(kind='property', key='integral:prefix-sum' + (':swapped' if layout == 'swapped' or case.get('swap_out') else ''),
                                 detail=dict(pos=[k // w, k % w], got=gl[k], want=want[k])))
        elif drv is not None:
            if core.ints(drv['spec']) != want:
                findings.append(dict(kind='model', key='integral:spec-vs-python', detail={}))
            if core.ints(drv.get('machine', '')) != gl:
                findings.append(dict(kind='model', key='integral:machine-model', detail={}))
    else:
        c64 = conv.astype(np.float64)
        if bool(np.all(c64 == np.round(c64))):
            exact = np.array([float(v) for v in _prefix_exact([int(v) for v in c64.ravel().tolist()], h, w)]).reshape(h, w)
        else:
            exact = np.array([[math.fsum(float(c64[a, b]) for a in range(i + 1) for b in range(j + 1)) for j in range(w)]
                              for i in range(h)]).reshape(h, w)
        scale = math.fsum(abs(float(v)) for v in c64.ravel())
        # the recurrence forms a(i-1,j) + a(i,j-1) before subtracting: intermediates reach twice the prefix sum
        allint = bool(np.all(c64 == np.round(c64))) and 3 * scale < (2 ** 53 if nodt == np.float64 else 2 ** 24)
        R = got.astype(np.float64)
        eps = 1e-9 if nodt == np.float64 else 1e-4
        ok = np.array_equal(R, exact) if allint else bool(np.all(np.abs(R - exact) <= eps * max(scale, 1e-300)))
        if not ok:
            k = int(np.argmax(np.abs(R - exact)))
            findings.append(dict(kind='property', key='integral:prefix-sum' + (':swapped' if layout == 'swapped' or case.get('swap_out') else ''),
                                 detail=dict(pos=[k // w, k % w], got=float(R.ravel()[k]), want=float(exact.ravel()[k]))))
        elif nodt == np.float64 and 0 < h * w <= BIG:
            drv = core.drive([f"c19 kind=integralf w={w} data={core.fmt_floats(c64)}"])[0]
            M = core.floats(drv['model']).reshape(h, w)
            if not np.array_equal(M, R):
                findings.append(dict(kind='model', key='integral:float-model', detail=dict(maxdiff=float(np.max(np.abs(M - R))))))
    return dict(findings=findings, nontrivial=bool(before.size > 1), sig=sig, tags=tags)


def _weights(n, pw, c, normalize):
    ws = [(Fraction(j) - c) ** pw for j in range(n)]
    cond = 1.0
    if normalize:
        s = sum(ws)
        sa = sum(abs(x) for x in ws)
        if s == 0:
            return None, None
        cond = float(sa / abs(s))
        ws = [x / s for x in ws]
    return ws, cond


def eval_moments2(case):
    """moments(img, p0, p1, cm, convert_to_float, normalize/normalise) against the exact rational value of the formula
    `momentsFull` transliterates (proved: plain = defining sum; normalised = defining sum / the two weight sums)."""
    import mahotas as mh
    img = np.array(_data(case), dtype=object).astype(case['dtype']).reshape(case['shape'])
    p0, p1 = case['p0'], case['p1']
    cm = case.get('cm')
    nz = bool(case.get('normalize'))
    kw = {}
    if nz:
        kw[case.get('spelling', 'normalize')] = True
    if not case.get('convert', True):
        kw['convert_to_float'] = False
    before = img.copy()
    sig = json.dumps(case, sort_keys=True)
    tags = dict(kind='moments2', dtype=case['dtype'], normalize=int(nz), cm=int(cm is not None), convert=int(case.get('convert', True)),
                size=case.get('size', 'small'))
    r, c = img.shape
    c0, c1 = (Fraction(float(cm[0])), Fraction(float(cm[1]))) if cm is not None else (Fraction(0), Fraction(0))
    w1, k1 = _weights(c, p1, c1, nz)
    w0, k0 = _weights(r, p0, c0, nz)
    if w1 is None or w0 is None or k1 * k0 > 1e3:
        # a weight vector sums to (nearly) zero: numpy divides by (nearly) zero — not compared (guarded tie)
        return dict(findings=[], nontrivial=False, sig=sig, tags=dict(tags, skipped='weight-sum-zero'))
    findings = []
    try:
        with warnings.catch_warnings():
            warnings.simplefilter('ignore')
            with np.errstate(all='ignore'):
                got = float(mh.moments(img, p0, p1, cm=tuple(cm) if cm is not None else None, **kw))
    except Exception as e:  # noqa
        findings.append(dict(kind='property', key='moments:raises', detail=dict(error=repr(e)[:200])))
        return dict(findings=findings, nontrivial=True, sig=sig, tags=tags)
    if not np.array_equal(before, img):
        findings.append(dict(kind='property', key='moments:input-modified', detail={}))
    vals = [[Fraction(float(img[i, j])) for j in range(c)] for i in range(r)]
    terms = [vals[i][j] * w0[i] * w1[j] for i in range(r) for j in range(c)]
    want = sum(terms)
    scale = float(sum(abs(t) for t in terms))
    tol = 1e-13 * k0 * k1 * max(scale, 1e-300) * min(max(r * c, 4), 1024)
    if not abs(got - float(want)) <= tol:
        key = 'moments:normalize-model' if nz else 'moments:defining-sum'
        findings.append(dict(kind='model' if nz else 'property', key=key,
                             detail=dict(got=got, want=float(want), p0=p0, p1=p1, cm=cm, normalize=nz)))
    elif (not nz and cm is not None and Fraction(float(cm[0]) + 1.0) == c0 + 1 and Fraction(float(cm[1]) + 1.0) == c1 + 1
          and abs(float(mh.moments(np.pad(img, ((1, 0), (1, 0))), p0, p1, cm=(float(cm[0]) + 1.0, float(cm[1]) + 1.0), **kw))
                  - float(want)) > tol):
        # C19_moments_translation: a zero row on top / zero column on the left with the centre moved along
        findings.append(dict(kind='property', key='moments:translation', detail=dict(p0=p0, p1=p1, cm=cm)))
    elif r * c <= BIG:
        line = (f"c19 kind=momentsf w={c} data={core.fmt_floats(img.astype(np.float64))} p0={p0} p1={p1} "
                f"hascm={1 if cm is not None else 0} cm={core.fmt_floats([float(cm[0]), float(cm[1])] if cm is not None else [0.0, 0.0])} "
                f"normalize={1 if nz else 0}")
        drv = core.drive([line])[0]
        M = float(core.floats(drv['model'])[0])
        if not abs(M - float(want)) <= tol:
            findings.append(dict(kind='model', key='moments:float-model', detail=dict(model=M, want=float(want), got=got)))
    return dict(findings=findings, nontrivial=bool(scale > 0), sig=sig, tags=tags)


def _radial_exact(n, l, d: Fraction):
    terms = []
    for m in range((n - l) // 2 + 1):
        co = Fraction((-1) ** m * math.factorial(n - m),
                      math.factorial(m) * math.factorial((n + l) // 2 - m) * math.factorial((n - l) // 2 - m))
        terms.append(co * d ** (n - 2 * m))
    return sum(terms), sum(abs(t) for t in terms)


def eval_zradial(case):
    """the real kernel `_zernike.znl` on one pixel (D=[d], A=[1], P=[1]) returns `(n+1)/pi * R_n^l(d)`: compared with the
    textbook radial polynomial evaluated exactly (and the Lean Float `zRadial`, proved to have the textbook coefficients)."""
    from mahotas.features import _zernike
    n, l = case['n'], case['l']
    ds = [float(x) for x in case['d']]
    sig = json.dumps(case, sort_keys=True)
    findings = []
    drv = core.drive([f"c19 kind=zradial n={n} l={l} d={core.fmt_floats(ds)}"])[0]
    M = core.floats(drv['r'])
    for k, d in enumerate(ds):
        z = complex(_zernike.znl(np.array([d]), np.array([1.0 + 0.0j]), np.array([1.0]), n, l))
        want, sa = _radial_exact(n, l, Fraction(d))
        fac = (n + 1) / math.pi
        tol = 1e-12 * max(float(sa), 1e-300)
        if not (abs(z.real / fac - float(want)) <= tol and abs(z.imag) <= tol * fac):
            findings.append(dict(kind='model', key='zernike:radial-textbook', detail=dict(n=n, l=l, d=d, got=z.real / fac, want=float(want))))
            break
        if not abs(float(M[k]) - float(want)) <= tol:
            findings.append(dict(kind='model', key='zernike:radial-model', detail=dict(n=n, l=l, d=d, model=float(M[k]), want=float(want))))
            break
    return dict(findings=findings, nontrivial=True, sig=sig, tags=dict(kind='zradial', n=n, table=int(n < 13)))


EVAL = dict(integral2=eval_integral2, moments2=eval_moments2, zradial=eval_zradial)


def cases(rng, N):
    out = []
    # --- integral: in_place / conversions / byte order
    for _ in range(200 * N):
        shape = [rng.choice([1, 2, 3, rng.randint(1, 8)]), rng.choice([1, 2, 3, rng.randint(1, 8)])]
        n = shape[0] * shape[1]
        dtype = rng.choice(INT_DTYPES + ['float64', 'float32'])
        inplace = rng.random() < 0.4
        layout = rng.choice(I2_LAYOUTS)
        if dtype.startswith('float'):
            data = [float(np.dtype(dtype).type(rng.choice([rng.uniform(-100, 100), float(rng.randint(-1000, 1000)), 0.0]))) for _ in range(n)]
            out_dt = rng.choice(['float64', 'float32', 'int32', 'int64', 'int16', 'uint8', dtype])
            if not out_dt.startswith('float'):
                lo, hi = gen.dt_range(out_dt)       # float -> integer conversion is defined for values inside the range only
                data = [min(max(v, lo), hi) for v in data]
        else:
            lo, hi = gen.dt_range(dtype)
            data = [rng.choice([rng.randint(max(lo, -9), min(hi, 9)), rng.choice([lo, hi]), rng.randint(lo, hi)]) for _ in range(n)]
            out_dt = rng.choice(INT_DTYPES + [dtype, dtype, 'float64', 'float32'])
            if out_dt.startswith('float'):
                data = [int(max(-2 ** 40, min(2 ** 40, v))) for v in data]
        out.append(dict(kind='integral2', shape=shape, dtype=dtype, data=data, out=out_dt, layout=layout,
                        inplace=int(inplace), swap_out=int(rng.random() < 0.25)))
    # --- size-threshold stream: element counts and sums crossing 2^8, 2^15, 2^16, 2^31, 2^32 (O(N) Python oracle)
    thr = [([257, 256], 'uint8', dict(kind='const', value=255), ['uint16', 'int32', 'float64', 'float32']),
           ([1, 65537], 'uint16', dict(kind='const', value=65535), ['uint32', 'int32', 'int64', 'uint16']),
           ([65537, 1], 'uint16', dict(kind='lcg', lo=0, hi=65535, seed=rng.randrange(1 << 32)), ['uint32', 'int64', 'float64']),
           ([255, 257], 'int16', dict(kind='lcg', lo=-32768, hi=32767, seed=rng.randrange(1 << 32)), ['int16', 'int32', 'float64']),
           ([129, 255], 'uint8', dict(kind='lcg', lo=0, hi=255, seed=rng.randrange(1 << 32)), ['uint8', 'uint16', 'int64'])]
    for shape, dtype, fill, outs in (thr if N > 1 else [thr[1], thr[2], rng.choice([thr[0], thr[3], thr[4]])]):
        out.append(dict(kind='integral2', shape=shape, dtype=dtype, fill=fill, out=rng.choice(outs),
                        layout=rng.choice(['C', 'F', 'strided']), inplace=0, swap_out=0, size='threshold'))
    for shape, dtype, fill in ([([257, 256], 'uint8', dict(kind='lcg', lo=0, hi=255, seed=rng.randrange(1 << 32))),
                               ([1, 65537], 'uint16', dict(kind='const', value=65535))]):
        out.append(dict(kind='moments2', shape=shape, dtype=dtype, fill=fill, p0=rng.randint(0, 2), p1=rng.randint(0, 2),
                        cm=rng.choice([None, [3, 5]]), normalize=0, convert=int(rng.random() < 0.5), size='threshold'))
    # --- moments options
    for _ in range(200 * N):
        shape = [rng.randint(1, 7), rng.randint(1, 7)]
        dtype = rng.choice(['uint8', 'int32', 'int64', 'uint16', 'bool', 'float64', 'int8', 'float32'])
        n = shape[0] * shape[1]
        if dtype.startswith('float'):
            data = [float(np.dtype(dtype).type(rng.choice([rng.uniform(-5, 5), float(rng.randint(-3, 3))]))) for _ in range(n)]
        elif dtype == 'bool':
            data = [rng.randint(0, 1) for _ in range(n)]
        else:
            lo, hi = gen.dt_range(dtype)
            data = [rng.choice([rng.randint(max(lo, -9), min(hi, 9)), rng.choice([lo, hi]), 0]) for _ in range(n)]
        cm = rng.choice([None, None, [rng.randint(-2, 7), rng.randint(-2, 7)], [rng.randint(0, 3), rng.randint(0, 3)],
                         [rng.uniform(0, 5), rng.uniform(0, 5)], [rng.randint(-8, 0) / 2.0, rng.randint(-8, 0) / 4.0]])
        out.append(dict(kind='moments2', shape=shape, dtype=dtype, data=data, p0=rng.randint(0, 4), p1=rng.randint(0, 4), cm=cm,
                        normalize=int(rng.random() < 0.6), spelling=rng.choice(['normalize', 'normalise']),
                        convert=int(rng.random() < 0.6)))
    # --- radial polynomial: every (n, l) of the default degrees, and beyond the factorial table
    pairs = [(n, l) for n in range(0, 25) for l in range(0, n + 1) if (n - l) % 2 == 0]
    for (n, l) in (pairs if N > 1 else rng.sample(pairs, 60)):
        ds = [0.0, 1.0, 0.5, 1e-9] + [rng.random() for _ in range(4)] + [rng.uniform(1.0, 1.2)]
        out.append(dict(kind='zradial', n=n, l=l, d=ds))
    return out


def shrink(case):
    k = case.get('kind')
    if k in ('integral2', 'moments2') and 'data' in case:
        shape, data = case['shape'], case['data']
        A = np.array(data, dtype=object).reshape(shape)
        for ax in range(2):
            if shape[ax] > 1:
                for j in (shape[ax] - 1, 0):
                    B = np.delete(A, j, axis=ax)
                    yield dict(case, shape=list(B.shape), data=B.ravel().tolist())
        if case.get('layout', 'C') not in ('C', 'swapped'):
            yield dict(case, layout='C')
        if case.get('swap_out'):
            yield dict(case, swap_out=0)
    elif k == 'zradial' and len(case['d']) > 1:
        for i in range(len(case['d'])):
            yield dict(case, d=[case['d'][i]])
