"""C19 (round 4) — Threshold Adjacency Statistics: the real `mahotas.features.tas` / `pftas` against the Lean model
`Model/C19Tas.lean` (driver kind `tas`) and against the counting specification (Lean `tasCount` and an independent
numpy count).  The property statement does not mention TAS: every finding here is `kind='model'`."""
from __future__ import annotations
import json, warnings
import numpy as np
from .. import core, gen

INT_DTYPES = ['uint8', 'uint8', 'uint16', 'int16', 'int32', 'int64', 'int8', 'uint32', 'uint64']
FLOAT_DTYPES = ['float64', 'float32']


def _img(case):
    return np.array(case['data'], dtype=object).astype(case['dtype']).reshape(case['shape'])


def _np_counts(b):
    """independent count: pixels that are NOT selected, by the number of selected neighbours (border reflected)"""
    nd = b.ndim
    saved = 3 ** nd
    pad = np.pad(b.astype(np.int64), 1, mode='symmetric')
    nb = np.zeros(b.shape, np.int64)
    for off in np.ndindex(*([3] * nd)):
        if all(o == 1 for o in off):
            continue
        nb += pad[tuple(slice(o, o + n) for o, n in zip(off, b.shape))]
    off_counts = np.bincount(nb[~b].ravel(), minlength=saved)[:saved]
    on_counts = np.bincount(nb[b].ravel(), minlength=saved)[:saved]
    return off_counts, on_counts


def eval_tas(case):
    import mahotas.features as mf
    from mahotas.thresholding import otsu
    img = _img(case)
    nd = img.ndim
    saved = 9 if nd == 2 else 27
    fn = case['fn']
    isint = img.dtype.kind in 'iub'
    tags = dict(kind='tas', fn=fn, ndim=nd, dtype=case['dtype'])
    findings = []
    sig = json.dumps(case, sort_keys=True)
    with warnings.catch_warnings():
        warnings.simplefilter('ignore')
        if fn == 'tas':
            real = mf.tas(img)
            thresh, margin = 30, 30.0
        else:
            T = case.get('T')
            if T is None:
                try:
                    T = otsu(img)
                except Exception:
                    return dict(findings=[], nontrivial=False, sig=sig, tags=dict(tags, otsu_failed=1))
                real = mf.pftas(img)
            else:
                real = mf.pftas(img, T)
            # the statements of `pftas` (the standard deviation comes from numpy's float pipeline: an input of the model)
            pixels = img[img > T].ravel()
            margin = 0.0 if len(pixels) == 0 else float(pixels.std())
            thresh = int(T)
    real = np.asarray(real)
    if real.shape != (6 * saved,):
        findings.append(dict(kind='model', key=f'{fn}:shape', detail=dict(shape=list(real.shape))))
        return dict(findings=findings, nontrivial=True, sig=sig, tags=tags)
    specmask = case.get('specmask', 0)
    line = f"c19 kind=tas shape={gen.enc_shape(img.shape)} margin={core.fmt_floats([margin])} specmask={specmask} "
    if isint:
        line += f"idata={gen.enc_arr([int(v) for v in img.ravel().tolist()])} thresh={thresh}"
        mu_np = None
    else:
        # `mu` of a float image goes through numpy's pairwise sum: the two statements of `_tas`, given to the model
        total = np.sum(img > thresh)
        mu_np = ((img > thresh) * img).sum() / (total + 1e-8)
        line += f"fdata={core.fmt_floats(img.astype(np.float64))} mu={core.fmt_floats([float(mu_np)])}"
    drv = core.drive([line])[0]
    if 'error' in drv:
        raise core.Infra(f"driver: {drv['error']}")
    M = core.floats(drv['tas'])
    mu = float(core.floats(drv['mu'])[0])
    if isint:
        total = np.sum(img > thresh)
        mu_ref = float(((img > thresh) * img).sum() / (total + 1e-8))
        if not (mu_ref == mu):
            findings.append(dict(kind='model', key=f'{fn}:mu', detail=dict(real=mu_ref, model=mu)))
    same = M.shape == real.shape and bool(np.all(M == real.astype(np.float64)))
    if not same:
        findings.append(dict(kind='model', key=f'{fn}:values', detail=dict(real=real.tolist(), model=M.tolist(), mu=mu, margin=margin)))
    # sanity of every block of the real output: in [0, 1]; sums to 1 (counts / their sum) or is all zero
    for blk in range(6):
        v = real[blk * saved:(blk + 1) * saved].astype(np.float64)
        if not (np.all(v >= 0) and np.all(v <= 1) and (abs(v.sum() - 1) <= 1e-12 or not v.any())):
            findings.append(dict(kind='model', key=f'{fn}:block-is-a-distribution', detail=dict(block=blk, values=v.tolist())))
            break
    # the counting specification, three ways: Lean fold model, Lean `tasCount`, numpy count — on binarisation `specmask`
    counts = core.ints(drv['counts'])
    spec = core.ints(drv['spec'])
    ham = core.ints(drv['ham'])
    f64 = img.astype(np.float64)
    mk = [(f64 > mu - margin) & (f64 < mu + margin), f64 > mu - margin, f64 > mu][specmask]
    off_counts, on_counts = _np_counts(mk)
    if counts[specmask * saved:(specmask + 1) * saved] != spec:
        findings.append(dict(kind='model', key=f'{fn}:lean-model-vs-lean-spec', detail=dict(model=counts, spec=spec)))
    if list(off_counts) != spec:
        findings.append(dict(kind='model', key=f'{fn}:spec-vs-numpy-count', detail=dict(spec=spec, numpy=off_counts.tolist())))
    if list(on_counts[::-1]) != ham:
        findings.append(dict(kind='model', key=f'{fn}:hamilton-vs-numpy-count', detail=dict(ham=ham, numpy=on_counts[::-1].tolist())))
    # the real blocks are those counts divided by their sum: positive half = unselected pixels by selected neighbours,
    # negative half (computed on ~b) = Hamilton's statistic of the selected pixels, index reversed (theorem C19_tas_complement)
    for name, blk, cnt in (('positive', specmask, np.array(spec)), ('negative', 3 + specmask, np.array(ham))):
        want = cnt / float(cnt.sum()) if cnt.sum() > 0 else cnt.astype(np.float64)
        got = real[blk * saved:(blk + 1) * saved].astype(np.float64)
        if not bool(np.all(got == want)):
            findings.append(dict(kind='model', key=f'{fn}:{name}-half-is-the-count-fraction', detail=dict(got=got.tolist(), want=want.tolist())))
    nontrivial = bool(mk.any() and not mk.all())
    return dict(findings=findings, nontrivial=nontrivial, sig=sig, tags=dict(tags, margin0=int(margin == 0)))


def cases(rng, tier):
    out = []
    N = dict(quick=1, thorough=10, search=3)[tier]
    for _ in range(120 * N):
        nd = rng.choice([2, 2, 3])
        shape = [rng.choice([1, 2, 3, 4, rng.randint(1, 8)]) for _ in range(nd)] if nd == 2 else \
                [rng.choice([1, 2, 3, rng.randint(1, 4)]) for _ in range(nd)]
        n = int(np.prod(shape))
        fn = rng.choice(['tas', 'pftas', 'pftas'])
        if rng.random() < 0.75:
            dtype = rng.choice(INT_DTYPES + (['bool'] if fn == 'tas' else []))
        else:
            dtype = rng.choice(FLOAT_DTYPES)
        if dtype == 'bool':
            data = [rng.randint(0, 1) for _ in range(n)]
        elif dtype in FLOAT_DTYPES:
            style = rng.random()
            data = [float(np.dtype(dtype).type(rng.choice([rng.uniform(0, 100), float(rng.randint(0, 90)), 0.0, 30.0, 60.0])
                                               if style < 0.8 else rng.uniform(-50, 150))) for _ in range(n)]
        else:
            lo, hi = gen.dt_range(dtype)
            top = min(hi, rng.choice([3, 40, 70, 127, 255, 1000]))
            bot = max(lo, rng.choice([0, 0, 0, -20]))
            style = rng.random()
            if style < 0.15:
                data = [rng.choice([bot, top])] * n
            elif style < 0.4:
                data = [rng.choice([bot, top, 30, 31, 60, 61, 59]) for _ in range(n)]
                data = [max(lo, min(hi, v)) for v in data]
            else:
                data = [rng.randint(bot, top) for _ in range(n)]
        if dtype != 'bool' and rng.random() < 0.3:
            # sparse: a dark image with a few bright pixels (isolated selected pixels, also in the interior of 3-D images:
            # they are the ones whose convolution value is the bare centre weight)
            shape = [rng.randint(3, 6) for _ in range(nd)] if nd == 2 else [rng.randint(3, 4) for _ in range(nd)]
            n = int(np.prod(shape))
            hi_v = rng.choice([100, 120, 200]) if dtype != 'int8' else 100
            data = [0] * n
            interior = [rng.randint(1, d - 2) for d in shape]       # not touching the reflecting border
            data[int(np.ravel_multi_index(interior, shape))] = hi_v
            for _ in range(rng.randint(0, 2)):
                data[rng.randrange(n)] = hi_v
            if dtype in FLOAT_DTYPES:
                data = [float(v) for v in data]
        c = dict(kind='tas', fn=fn, shape=shape, dtype=dtype, data=data, specmask=rng.randrange(3))
        if fn == 'pftas':
            if dtype in ('uint8', 'uint16', 'uint32') and rng.random() < 0.5:
                c['T'] = None
            else:
                vals = sorted(set(int(v) for v in data))
                c['T'] = rng.choice(vals + [vals[0] - 1 if vals[0] > (0 if dtype.startswith('u') else -100) else vals[0], vals[-1]])
        out.append(c)
    return out
