"""C20 — colour conversions follow the sRGB/CIE definitions; stretch is a monotone range map."""
from __future__ import annotations
import json, warnings
import numpy as np
from .. import core, gen
from . import c20_stretch as cs

ID = 'C20'
FOUNDATIONS = ['harness.foundation.pybody']   # stretchCore / capHi (stretchList) are tied to the current body of stretch.stretch
LEVEL = 'proof'
RULE = ('corpus; RGB lattice with 52 steps per channel (thorough: all 140608 triples, quick: a seeded slice) as block '
        'cases; full 0..255 ramps per channel (monotonicity on integer-valued channels); boundary values around the '
        'transfer-function knee (10.31475/255) and real-valued ramps at distance > 1e-6 from it; random triples; '
        'uint8/uint16/int32/float32/float64 inputs and dtype= requests; stretch/stretch_rgb: random, constant and '
        'two-valued images of 11 integer + 2 float dtypes x all three call forms x (min,max,dtype) requests inside the '
        'dtype range; as_rgb: channels None / number / array of 8 dtypes, each array channel = stretch(channel); call-level Lean model (argument decoding, dtype cast, stretch_rgb split, as_rgb incl. 1-D/N-D channels and its errors); dtype handling of the colour conversions (9 input dtypes x 12 dtype= requests, round-robin); size-threshold stream (tag size=threshold): 6 cases per run whose pixel count crosses 2^8, 2^15, 2^16 (+-1) with value ranges crossing 2^8 / 2^16 / 2^31 (stretch, stretch_rgb, as_rgb, the colour conversions on > 2^16 pixels incl. int32 values > 65535), judged like the small cases with the Lean driver (one image per protocol line); thorough adds two 2^24+1-pixel stretch images judged by the exact numpy-float64 oracle _stretch_oracle, whose bit-for-bit agreement with the Lean driver is established on every ordinary stretch case (stretch:oracle-vs-lean). Non-trivial = not all-black / not constant; distinct = distinct protocol line.')
ASSUMPTIONS = ['channel values lie in [0,255]; no NaN/inf',
               'a*, b* of greys: the 4-digit sRGB matrix (rows sum to (0.9505, 1, 1.089)) and the 5-digit white point of the '
               'standards do not agree further; Lean (C20_lab_grey_bound, over the reals) proves 0 <= a* <= 500/95047 = 0.00526 '
               'and -0.01041 = -3400/326649 <= b* <= 0 for every grey, and the real doubles are compared with these bounds '
               '+- 1e-9 (within the |a*| <= 0.006, |b*| <= 0.011 of DESIGN.md, which remain the image-level tolerances)',
               'xyz2rgb(rgb2xyz(c)) is compared with c within 0.25 (8-bit units) = 12.92*255*||Minv*M - I||_inf '
               '(Lean theorem C20_inverse_matrix); rounding recovers the 8-bit value',
               'absolute comparison with the Float model/spec: 1e-12 (XYZ), 1e-9 (Lab, back-converted RGB, grey); '
               'float32 inputs are computed by numpy in single precision: 2e-5 relative there',
               'monotonicity over the reals is a Lean theorem (C20_transfer_monotone: both segments strictly increasing and '
               '0.04045/12.92 <= ((0.04045+0.055)/1.055)^2.4, the function steps UP by 2.3e-9 at the knee); on the real '
               'doubles it is tested on integer-valued channels and on real values at distance > 1e-6 from the knee',
               'stretch: requested range min <= max lies inside the range of the requested dtype; image values finite, '
               '|v| < 2^63; bounds exactly representable in the requested dtype']
EXHAUSTIVE = {'thorough': True}
TRUSTED = ['numpy (array construction, dot, astype)', 'libm pow in the Lean runtime (Float.pow) within the stated tolerance']

KNEE = 0.04045 * 255.0
TOL = dict(xyz=1e-12, lab=1e-9, back=1e-9, grey=1e-9)
GREY_A, GREY_B = 0.006, 0.011          # tolerances of DESIGN.md (image-level checks with dtype slack)
# proved over the reals (C20_lab_grey_bound): 0 <= a* <= 500/95047, -3400/326649 <= b* <= 0 for every grey; the doubles of
# the real code are compared with these bounds with the Lab tolerance 1e-9
GREY_A_MAX, GREY_B_MIN = 500.0 / 95047.0, -3400.0 / 326649.0
RT_TOL = 0.25


def _colors():
    import mahotas.colors as c
    return c


def _arr(case):
    n = len(case['rgb']) // 3
    a = np.array(case['rgb'], dtype=np.float64).reshape(n, 1, 3)
    return a.astype(case.get('dtype', 'uint8'))


def _maxerr(a, b):
    a = np.asarray(a, float).ravel(); b = np.asarray(b, float).ravel()
    if a.shape != b.shape:
        return float('inf'), 0
    with np.errstate(invalid='ignore'):
        d = np.abs(a - b)
    d[np.isnan(d)] = np.inf
    i = int(np.argmax(d)) if d.size else 0
    return (float(d[i]) if d.size else 0.0), i


def _eval_rgb(case):
    c = _colors()
    A = _arr(case)
    n = A.shape[0]
    before = A.copy()
    f = []
    with warnings.catch_warnings():
        warnings.simplefilter('ignore')
        xyz = np.asarray(c.rgb2xyz(A))
        lab = np.asarray(c.rgb2lab(A))
        back = np.asarray(c.xyz2rgb(xyz))
        grey = np.asarray(c.rgb2grey(A))
        sep = np.asarray(c.rgb2sepia(A))
    if not np.array_equal(before, A):
        f.append(dict(kind='property', key='colors:input-modified', detail={}))
    vals = A.astype(np.float64).ravel()
    drv = core.drive(['c20 kind=rgb rgb=' + core.fmt_floats(vals)])[0]
    single = (A.dtype == np.float32)
    scale = 2e-5 if single else None
    def tol(name, ref):
        return (scale * max(1.0, float(np.max(np.abs(ref))) if len(ref) else 1.0)) if single else TOL[name]
    isint = bool(np.all(vals == np.round(vals)))
    for name, got, key in (('xyz', xyz, 'rgb2xyz'), ('lab', lab, 'rgb2lab')):
        spec = core.floats(drv[name + 'spec'])
        model = core.floats(drv[name])
        if got.shape != (n, 1, 3):
            f.append(dict(kind='property', key=f'{key}:shape', detail=dict(shape=list(got.shape))))
            continue
        e, i = _maxerr(got, spec)
        if e > tol(name, spec):
            t = i // 3
            f.append(dict(kind='property', key=f'{key}:standard', detail=dict(
                rgb=vals[3 * t:3 * t + 3].tolist(), got=got.reshape(-1, 3)[t].tolist(),
                standard=spec.reshape(-1, 3)[t].tolist(), err=e)))
        else:
            e2, i2 = _maxerr(got, model)
            if e2 > tol(name, model):
                f.append(dict(kind='model', key=f'{key}:model', detail=dict(err=e2, index=i2)))
    T = vals.reshape(-1, 3)
    X = xyz.reshape(-1, 3).astype(float) if xyz.shape == (n, 1, 3) else None
    Lb = lab.reshape(-1, 3).astype(float) if lab.shape == (n, 1, 3) else None
    if X is not None and Lb is not None and not single:
        white = np.all(T == 255, axis=1)
        black = np.all(T == 0, axis=1)
        greyrow = (T[:, 0] == T[:, 1]) & (T[:, 1] == T[:, 2])
        if white.any():
            w = X[white][0]
            if not (abs(w[1] - 1.0) <= 1e-12 and abs(w[0] - 0.9505) <= 1e-12 and abs(w[2] - 1.089) <= 1e-12):
                f.append(dict(kind='property', key='rgb2xyz:white', detail=dict(rgb=[255, 255, 255], got=w.tolist(),
                                                                                want=[0.9505, 1.0, 1.089])))
            if abs(Lb[white][0][0] - 100.0) > 1e-9:
                f.append(dict(kind='property', key='rgb2lab:white', detail=dict(rgb=[255, 255, 255], got=Lb[white][0].tolist(),
                                                                                want='L*=100, a*=b*=0')))
        if black.any() and np.any(X[black] != 0):
            f.append(dict(kind='property', key='rgb2xyz:black', detail=dict(rgb=[0, 0, 0], got=X[black][0].tolist())))
        if greyrow.any():
            ga, gb = Lb[greyrow][:, 1], Lb[greyrow][:, 2]
            bad = np.nonzero(~((ga >= -TOL['lab']) & (ga <= GREY_A_MAX + TOL['lab']) &
                               (gb >= GREY_B_MIN - TOL['lab']) & (gb <= TOL['lab'])))[0]
            if bad.size:
                j = int(bad[0])
                f.append(dict(kind='property', key='rgb2lab:grey', detail=dict(
                    rgb=T[greyrow][j].tolist(), got=Lb[greyrow][j].tolist(), want='a*=b*=0')))
    # round trip
    if back.shape == (n, 1, 3):
        e, i = _maxerr(back, vals)
        if e > (RT_TOL if not single else RT_TOL + 0.05):
            t = i // 3
            f.append(dict(kind='property', key='xyz2rgb:roundtrip', detail=dict(
                rgb=T[t].tolist(), back=back.reshape(-1, 3)[t].tolist(), err=e)))
        else:
            e2, i2 = _maxerr(back, core.floats(drv['back']))
            if e2 > (tol('back', [255.0]) if not single else 0.05):
                f.append(dict(kind='model', key='xyz2rgb:model', detail=dict(err=e2, index=i2)))
    else:
        f.append(dict(kind='property', key='xyz2rgb:shape', detail=dict(shape=list(back.shape))))
    # grey: the documented linear map 0.30 r + 0.59 g + 0.11 b
    want = 0.30 * T[:, 0] + 0.59 * T[:, 1] + 0.11 * T[:, 2]
    e, i = _maxerr(grey, want)
    if grey.shape != (n, 1) or e > (tol('grey', want) if not single else 2e-5 * 255):
        f.append(dict(kind='property', key='rgb2grey:linear', detail=dict(rgb=T[min(i, n - 1)].tolist(), err=e,
                                                                          shape=list(grey.shape))))
    else:
        e2, _ = _maxerr(grey, core.floats(drv['grey']))
        if e2 > (tol('grey', want) if not single else 2e-5 * 255):
            f.append(dict(kind='model', key='rgb2grey:model', detail=dict(err=e2)))
    # sepia
    if sep.shape != (n, 1, 3) or sep.dtype != np.uint8:
        f.append(dict(kind='property', key='rgb2sepia:shape-dtype', detail=dict(shape=list(sep.shape), dtype=str(sep.dtype))))
    else:
        g = [int(x) for x in sep.ravel()]
        if isint:
            specq = core.ints(core.drive(['c20 kind=sepiaq rgb=' + core.fmt_ints(vals)])[0]['sepia'])
            bad = [k for k, (a, b) in enumerate(zip(g, specq)) if a != b]
            if bad:
                t = bad[0] // 3
                f.append(dict(kind='property', key='rgb2sepia:linear-clipped', detail=dict(
                    rgb=T[t].tolist(), got=g[3 * t:3 * t + 3], want=specq[3 * t:3 * t + 3])))
        if not single:
            m = core.ints(drv['sepia'])
            bad = [k for k, (a, b) in enumerate(zip(g, m)) if a != b]
            # a float32 rounding tie can differ by BLAS summation order: guard with the exact margin
            if bad and isint and not any(x['key'].startswith('rgb2sepia') for x in f):
                f.append(dict(kind='model', key='rgb2sepia:model', detail=dict(index=bad[0], got=g[bad[0]], model=m[bad[0]])))
    # dtype= request
    dt = case.get('out')
    if dt:
        with warnings.catch_warnings():
            warnings.simplefilter('ignore')
            for fn in ('rgb2xyz', 'rgb2lab', 'rgb2grey'):
                o = getattr(c, fn)(A, dtype=np.dtype(dt))
                if o.dtype != np.dtype(dt):
                    f.append(dict(kind='property', key=f'{fn}:dtype', detail=dict(requested=dt, got=str(o.dtype))))
    return dict(findings=f, nontrivial=bool(np.any(vals != 0)), sig=('rgb', case.get('dtype'), hash(vals.tobytes())),
                n=n, tags=dict(kind='rgb', dtype=case.get('dtype', 'uint8'), cls=case.get('cls', 'random'), size=case.get('size', 'small')))


def _eval_rgbimg(case):
    """an h x w x 3 image in one of the seven memory layouts: every colour conversion is pixelwise, so its result must
    equal (bit-identical for integers, 1e-12 relative for floats) the result on the C-contiguous (n,1,3) column of the
    same pixels - the form `_eval_rgb` ties to the standard. Also: integer `dtype=` requests keep white at (100,0,0)
    and greys at a*=b*=0 (within the truncation of the cast), and no call modifies its input."""
    c = _colors()
    h, w = case['shape']
    base = np.array(case['rgb'], dtype=np.float64).reshape(h, w, 3).astype(case.get('dtype', 'uint8'))
    A = gen.relayout(base, case.get('layout', 'C'))
    col = np.ascontiguousarray(base.reshape(h * w, 1, 3))
    before = A.copy()
    f = []
    with warnings.catch_warnings():
        warnings.simplefilter('ignore')
        for fn in ('rgb2xyz', 'rgb2lab', 'rgb2grey', 'rgb2sepia', 'xyz2rgb', 'xyz2lab'):
            g = getattr(c, fn)
            src, ref_src = (A, col)
            if fn.startswith('xyz'):
                # feed XYZ values (computed from the column form) in the tested layout
                xyz_col = np.asarray(c.rgb2xyz(col))
                src = gen.relayout(xyz_col.reshape(h, w, 3), case.get('layout', 'C'))
                ref_src = xyz_col
            got = np.asarray(g(src))
            ref = np.asarray(g(ref_src))
            want_shape = (h, w) if fn == 'rgb2grey' else (h, w, 3)
            if got.shape != want_shape:
                f.append(dict(kind='property', key=f'{fn}:shape', detail=dict(shape=list(got.shape), layout=case.get('layout'))))
                continue
            ref = ref.reshape(want_shape)
            if got.dtype.kind in 'iub':
                ok = np.array_equal(got, ref)
            else:
                ok = bool(np.all(np.abs(got.astype(float) - ref.astype(float)) <= 1e-12 * (1 + np.abs(ref.astype(float)))))
            if not ok:
                bad = np.argwhere(got != ref)[0].tolist()
                f.append(dict(kind='property', key=f'{fn}:layout-or-position-dependent', detail=dict(
                    layout=case.get('layout'), at=bad, got=got[tuple(bad)].tolist() if got.ndim else float(got),
                    pixelwise=ref[tuple(bad)].tolist())))
        if not (np.array_equal(before, A) and before.dtype == A.dtype):
            f.append(dict(kind='property', key='colors:input-modified', detail=dict(layout=case.get('layout'))))
        dt = case.get('out')
        if dt:
            odt = np.dtype(dt)
            T = base.reshape(-1, 3).astype(float)
            white = np.all(T == 255, axis=1)
            greyrow = (T[:, 0] == T[:, 1]) & (T[:, 1] == T[:, 2])
            lab = np.asarray(c.rgb2lab(A, dtype=odt))
            if lab.dtype != odt:
                f.append(dict(kind='property', key='rgb2lab:dtype', detail=dict(requested=dt, got=str(lab.dtype))))
            elif lab.shape == (h, w, 3):
                L = lab.reshape(-1, 3).astype(float)
                slack = 1.0 if odt.kind in 'iu' else (0.13 if odt == np.float16 else 0.02)
                if white.any() and (abs(L[white][0][0] - 100.0) > slack or abs(L[white][0][1]) > slack or abs(L[white][0][2]) > slack):
                    f.append(dict(kind='property', key='rgb2lab:white', detail=dict(dtype=dt, got=L[white][0].tolist(),
                                                                                    want='L*=100, a*=b*=0')))
                if greyrow.any():
                    bad = np.nonzero((np.abs(L[greyrow][:, 1]) > slack) | (np.abs(L[greyrow][:, 2]) > slack))[0]
                    if bad.size:
                        f.append(dict(kind='property', key='rgb2lab:grey', detail=dict(
                            dtype=dt, rgb=T[greyrow][int(bad[0])].tolist(), got=L[greyrow][int(bad[0])].tolist(), want='a*=b*=0')))
    return dict(findings=f, nontrivial=bool(h > 1 and w > 1), sig=('rgbimg', json.dumps(case, sort_keys=True)),
                tags=dict(kind='rgbimg', dtype=case.get('dtype', 'uint8'), layout=case.get('layout', 'C'), out=case.get('out', '-'),
                          size=case.get('size', 'small')))


DT_IN = ['uint8', 'uint16', 'uint32', 'uint64', 'int16', 'int32', 'int64', 'float32', 'float64']
DT_OUT = ['uint8', 'uint16', 'uint32', 'int8', 'int16', 'int32', 'int64', 'float16', 'float32', 'float64', 'pyfloat']


def _eval_dtypes(case):
    """dtype handling of the colour conversions (every input dtype x every `dtype=` request):
    (1) an integer image is converted to double first: every conversion of it is bit-identical to the conversion of
        `img.astype(float64)` (also integer XYZ images for xyz2lab / xyz2rgb);
    (2) a `dtype=` request returns that dtype and is exactly `astype(dtype)` of the float64 result
        (rgb2xyz, rgb2lab, rgb2grey, xyz2lab, xyz2rgb); xyz2rgb(rgb2xyz(c), dtype=integer) returns c or c - 1
        (truncation of a value within 0.0764 of c), a float dtype returns c within the round-trip tolerance;
    (3) the Lean model fed with the *integers* (it converts them itself, `Float.ofInt`) agrees with the real doubles
        (1e-12 / 1e-9) and, for integer requests, with the real integers wherever the model value is not within 1e-6
        of an integer (libm's pow is only compared at 1e-9);
    (4) `rgb2gray` is `rgb2grey`."""
    c = _colors()
    vals = [int(v) for v in case['rgb']]
    n = len(vals) // 3
    A = np.array(vals, dtype=np.int64).reshape(n, 1, 3).astype(case['dtype'])
    Af = A.astype(np.float64)
    before = A.copy()
    out = case.get('out')
    odt = None if out is None else (float if out == 'pyfloat' else np.dtype(out))
    ndt = None if out is None else np.dtype(np.float64 if out == 'pyfloat' else out)
    f = []
    with warnings.catch_warnings(), np.errstate(all='ignore'):
        warnings.simplefilter('ignore')
        if c.rgb2gray is not c.rgb2grey:
            f.append(dict(kind='property', key='rgb2gray:alias', detail={}))
        res = {}
        for fn in ('rgb2xyz', 'rgb2lab', 'rgb2grey', 'rgb2sepia'):
            g = getattr(c, fn)
            res[fn] = np.asarray(g(A))
            ref = np.asarray(g(Af))
            if A.dtype.kind in 'iu' and not (res[fn].dtype == ref.dtype and np.array_equal(res[fn], ref)):
                f.append(dict(kind='property', key=f'{fn}:integer-input', detail=dict(dtype=case['dtype'])))
        xyz = res['rgb2xyz'].astype(np.float64)
        res['xyz2rgb'] = np.asarray(c.xyz2rgb(xyz))
        res['xyz2lab'] = np.asarray(c.xyz2lab(xyz))
        # integer XYZ images (0, 1, 2 — only the dtype handling matters)
        Xi = (np.array(vals, dtype=np.int64).reshape(n, 1, 3) % 3).astype(case['dtype'] if A.dtype.kind in 'iu' else 'int32')
        for fn in ('xyz2lab', 'xyz2rgb'):
            a1, a2 = np.asarray(getattr(c, fn)(Xi)), np.asarray(getattr(c, fn)(Xi.astype(np.float64)))
            if not (a1.dtype == a2.dtype and np.array_equal(a1, a2, equal_nan=True)):
                f.append(dict(kind='property', key=f'{fn}:integer-input', detail=dict(dtype=str(Xi.dtype))))
        if ndt is not None:
            for fn, src in (('rgb2xyz', A), ('rgb2lab', A), ('rgb2grey', A), ('xyz2lab', xyz), ('xyz2rgb', xyz)):
                o = np.asarray(getattr(c, fn)(src, dtype=odt))
                if o.dtype != ndt:
                    f.append(dict(kind='property', key=f'{fn}:dtype', detail=dict(requested=out, got=str(o.dtype))))
                    continue
                want = res[fn].astype(ndt)
                if fn == 'xyz2rgb' and ndt != np.int8:      # (int8 cannot hold 0..255: only `astype` is compared)
                    T = np.array(vals, dtype=np.float64).reshape(o.shape)
                    of = o.astype(np.float64)
                    if ndt.kind in 'iu':
                        ok = bool(np.all((of == T) | (of == T - 1)))
                    else:
                        ok = bool(np.all(np.abs(of - T) <= RT_TOL + (0.13 if ndt == np.float16 else 0.0)))
                    if not ok:
                        j = int(np.argmax(np.abs(of - T).ravel()))
                        f.append(dict(kind='property', key='xyz2rgb:roundtrip', detail=dict(
                            dtype=out, rgb=T.reshape(-1, 3)[j // 3].tolist(), back=of.reshape(-1, 3)[j // 3].tolist())))
                        continue
                if not np.array_equal(o, want, equal_nan=True):
                    f.append(dict(kind='model', key=f'{fn}:dtype-is-not-astype', detail=dict(requested=out)))
    if not (np.array_equal(before, A) and before.dtype == A.dtype):
        f.append(dict(kind='property', key='colors:input-modified', detail={}))
    # (3) the Lean model on the integers
    skipped = 0
    if not f and A.dtype.kind in 'iu':
        name = cs.DT_NAME.get(ndt.name, 'i64') if (ndt is not None and ndt.kind in 'iu') else 'i64'
        drv = core.drive([f'c20 kind=rgbint rgb={core.fmt_ints(vals)} out={name}'])[0]
        for key, fn, tol in (('xyz', 'rgb2xyz', TOL['xyz']), ('lab', 'rgb2lab', TOL['lab']), ('back', 'xyz2rgb', TOL['back']),
                             ('grey', 'rgb2grey', TOL['grey'])):
            m = core.floats(drv[key])
            e, i = _maxerr(res[fn], m)
            if e > tol:
                f.append(dict(kind='model', key=f'{fn}:model-integer-input', detail=dict(err=e, index=i)))
            elif ndt is not None and ndt.kind in 'iu' and (ndt.kind == 'i' or fn != 'rgb2lab') and \
                    (ndt != np.int8 or fn in ('rgb2xyz', 'rgb2lab')):      # only values inside the dtype's range
                src = A if fn != 'xyz2rgb' else xyz
                with warnings.catch_warnings(), np.errstate(all='ignore'):
                    warnings.simplefilter('ignore')
                    o = np.asarray(getattr(c, fn)(src, dtype=odt)).ravel()
                mi = core.ints(drv[key + 'int'])
                for k in range(len(mi)):
                    if abs(m[k] - round(m[k])) <= 1e-6:
                        skipped += 1
                    elif int(o[k]) != mi[k]:
                        f.append(dict(kind='model', key=f'{fn}:model-dtype-cast', detail=dict(index=k, got=int(o[k]), model=mi[k])))
                        break
    return dict(findings=f, nontrivial=bool(any(vals)), sig=('dtypes', json.dumps(case, sort_keys=True)), n=n,
                tags=dict(kind='dtypes', dtype=case['dtype'], out=out or '-', near_integer_skipped=min(skipped, 1)))


def _eval_ramp(case):
    """channel `ch` runs through `vals` (increasing); the other channels are fixed: every XYZ output and
    L* must be non-decreasing (a*, b* are differences and are not monotone)"""
    c = _colors()
    vals = np.array(case['vals'], dtype=np.float64)
    n = len(vals)
    A = np.zeros((n, 1, 3))
    for k in range(3):
        A[:, 0, k] = case['fixed'][k]
    A[:, 0, case['ch']] = vals
    A = A.astype(case.get('dtype', 'float64'))
    with warnings.catch_warnings():
        warnings.simplefilter('ignore')
        xyz = np.asarray(c.rgb2xyz(A), float).reshape(n, 3)
        lab = np.asarray(c.rgb2lab(A), float).reshape(n, 3)
    f = []
    slack = 0.0 if case.get('integer') else 1e-15
    for name, arr in (('X', xyz[:, 0]), ('Y', xyz[:, 1]), ('Z', xyz[:, 2]), ('L', lab[:, 0])):
        d = np.diff(arr)
        bad = np.nonzero(~(d >= -slack * (116 if name == 'L' else 1)))[0]
        if bad.size:
            j = int(bad[0])
            f.append(dict(kind='property', key='rgb2xyz:monotone' if name != 'L' else 'rgb2lab:L-monotone', detail=dict(
                channel=case['ch'], fixed=case['fixed'], v0=float(vals[j]), v1=float(vals[j + 1]), out=name,
                out0=float(arr[j]), out1=float(arr[j + 1]))))
            break
    return dict(findings=f, nontrivial=True, sig=('ramp', case['ch'], tuple(case['fixed']), hash(vals.tobytes())),
                n=n, tags=dict(kind='ramp', dtype=case.get('dtype', 'float64'), cls='integer' if case.get('integer') else 'real'))


# ---------------------------------------------------------------------------------------------- stretch

def _dt_bounds(dt):
    dt = np.dtype(dt)
    if dt == np.bool_:
        return 0, 1
    if dt.kind in 'iu':
        ii = np.iinfo(dt)
        return int(ii.min), int(ii.max)
    return (-2 ** 24, 2 ** 24) if dt == np.float32 else (-2 ** 40, 2 ** 40)   # exactly representable bounds


def _stretch_oracle(xv, lo, hi):
    """exact O(N) transliteration of the Lean `stretchList` at Float in numpy float64 (same operations in the same
    order: `(x - mn) * ((hi - lo) / ptp) + lo`, capped at `hi`; constant image -> `lo`). Its bit-for-bit agreement
    with the Lean driver is checked on every ordinary stretch case (`stretch:oracle-vs-lean`); the size-threshold
    cases too large for the protocol (2^24 + 1 pixels, thorough tier) are judged by it alone."""
    x = np.asarray(xv, np.float64)
    mn = x.min()
    sh = x - mn
    ptp = sh.max()
    if not ptp > 0:
        return np.full(x.shape, float(lo))
    y = sh * ((float(hi) - float(lo)) / ptp) + float(lo)
    if hi >= lo:
        y = np.where(float(hi) < y, float(hi), y)
    return y


def _eval_stretch_big(case):
    """a 1 x N image too large for the driver protocol: the statement's observables directly + the exact oracle"""
    import mahotas as mh
    g = np.random.default_rng(case['seed'])
    n = case['n']
    if case['dtype'].startswith('float'):
        img = (g.random(n) * case['span'] + case['base']).astype(case['dtype']).reshape(1, n)
    else:
        img = (g.integers(0, case['span'] + 1, n) + case['base']).astype(case['dtype']).reshape(1, n)
    before = img.copy()
    lo, hi, odt = case['lo'], case['hi'], np.dtype(case['out'])
    out = np.asarray(mh.stretch(img, lo, hi, dtype=odt))
    f = []
    if not np.array_equal(before, img):
        f.append(dict(kind='property', key='stretch:input-modified', detail={}))
    if out.dtype != odt or out.shape != img.shape:
        f.append(dict(kind='property', key='stretch:dtype', detail=dict(got=str(out.dtype), shape=list(out.shape))))
    else:
        xv = img.astype(np.float64).ravel()
        yv = out.ravel()
        order = np.argsort(xv, kind='stable')
        if np.any(np.diff(yv[order].astype(np.float64)) < 0):
            f.append(dict(kind='property', key='stretch:monotone', detail=dict(n=n)))
        if yv[int(np.argmin(xv))] != lo:
            f.append(dict(kind='property', key='stretch:min-to-lower-bound', detail=dict(got=float(yv[int(np.argmin(xv))]), want=lo)))
        if yv.min() < lo or yv.max() > hi:
            f.append(dict(kind='property', key='stretch:range', detail=dict(min=float(yv.min()), max=float(yv.max()), lo=lo, hi=hi)))
        if not f and not np.array_equal(_stretch_oracle(xv, lo, hi).astype(odt), yv):
            f.append(dict(kind='model', key='stretch:oracle', detail=dict(n=n)))
    return dict(findings=f, nontrivial=True, sig=json.dumps(case, sort_keys=True),
                tags=dict(kind='stretch', size='threshold', dtype=case['dtype'], out=case['out'], cls='2^24+1'))


def _eval_stretch(case):
    import mahotas as mh
    img = np.array(case['data'], dtype=object).astype(case['dtype']).reshape(case['shape'])
    img = gen.relayout(img, case.get('layout', 'C'))
    before = img.copy()
    form = case['form']
    odt = np.dtype(case['out'])
    fn = mh.stretch_rgb if case.get('rgb') else mh.stretch
    (arg0, arg1), (lo, hi) = cs.call_args(case)
    # how the dtype is requested: keyword with a numpy dtype (default), the Python type `float`, or not at all (uint8)
    kw = dict(dtype=odt)
    if case.get('dtype_as') == 'pyfloat' and odt == np.float64:
        kw = dict(dtype=float)
    elif case.get('dtype_as') == 'default' and odt == np.uint8:
        kw = {}
    err = None
    with warnings.catch_warnings():
        warnings.simplefilter('ignore')
        try:
            if form == 0:
                out = fn(img, **kw)
            elif form == 1:
                out = fn(img, arg0, **kw)
            else:
                out = fn(img, arg0, arg1, **kw)
        except Exception as e:  # noqa: any exception on a legitimate request is reported as `stretch:raises`
            err, out = f'{type(e).__name__}: {e}', None
    f = []
    if case.get('rgb') and img.ndim not in (2, 3):
        # stretch_rgb accepts 2-D and 3-D images only: the model says ValueError, so must the code
        drv = core.drive([cs.line_stretchrgb(img, arg0, arg1, odt if odt.kind != 'f' else np.dtype('int64'))])[0]
        f += cs.compare_rgb(drv, out, err)
        return dict(findings=f, nontrivial=True, sig=json.dumps(case, sort_keys=True),
                    tags=dict(kind='stretch_rgb', cls='bad-ndim', dtype=case['dtype'], out=case['out'], form=form))
    if err is not None:
        f.append(dict(kind='property', key='stretch:raises', detail=dict(error=err)))
        return dict(findings=f, nontrivial=True, sig=json.dumps(case, sort_keys=True), tags=dict(kind='stretch'))
    out = np.asarray(out)
    if not (np.array_equal(before, img) and before.dtype == img.dtype):
        f.append(dict(kind='property', key='stretch:input-modified', detail={}))
    if out.dtype != odt:
        f.append(dict(kind='property', key='stretch:dtype', detail=dict(requested=str(odt), got=str(out.dtype))))
    if out.shape != img.shape:
        f.append(dict(kind='property', key='stretch:shape', detail=dict(shape=list(out.shape))))
        return dict(findings=f, nontrivial=True, sig=json.dumps(case, sort_keys=True), tags=dict(kind='stretch'))
    chans = [(img[..., k], out[..., k]) for k in range(img.shape[2])] if (case.get('rgb') and img.ndim == 3) else [(img, out)]
    ftol = 0        # the scaled image is capped at max before the cast: no overshoot, for float outputs either
    nontriv = False
    # one driver run: the arithmetic model per channel (`stretch`), then the call-level model (`stretchcall` /
    # `stretchrgb`: argument decoding, cast to the requested dtype, per-channel split)
    lines = [f'c20 kind=stretch data={core.fmt_floats(x.astype(np.float64).ravel())} lo={lo} hi={hi}' for x, _ in chans if x.size]
    if case.get('rgb'):
        call_line = cs.line_stretchrgb(img, arg0, arg1, odt) if odt.kind != 'f' else None
    else:
        call_line = cs.line_stretchcall(img.astype(np.float64).ravel(), arg0, arg1, odt) if img.size else None
    drvs = core.drive(lines + ([call_line] if call_line else []))
    drv_iter = iter(drvs[:len(lines)])
    for ci, (x, y) in enumerate(chans):
        xv = x.astype(np.float64).ravel()
        yv = y.ravel()
        yl = [float(v) if odt.kind == 'f' else int(v) for v in yv.tolist()]
        if xv.size == 0:
            continue
        if xv.max() > xv.min():
            nontriv = True
        order = np.argsort(xv, kind='stable')
        ys = [yl[i] for i in order]
        xs = xv[order]
        for a in range(len(ys) - 1):
            if ys[a] > ys[a + 1] and xs[a] <= xs[a + 1]:
                f.append(dict(kind='property', key='stretch:monotone', detail=dict(
                    channel=ci, x0=float(xs[a]), x1=float(xs[a + 1]), y0=ys[a], y1=ys[a + 1])))
                break
        imin = int(np.argmin(xv))
        if yl[imin] != lo:
            f.append(dict(kind='property', key='stretch:min-to-lower-bound', detail=dict(channel=ci, got=yl[imin], want=lo)))
        if min(yl) < lo - ftol or max(yl) > hi + ftol:
            f.append(dict(kind='property', key='stretch:range', detail=dict(channel=ci, lo=lo, hi=hi, min=min(yl), max=max(yl))))
        # correspondence with the Lean model (Float, same operation order): bit-exact before the cast
        drv = next(drv_iter)
        mf = core.floats(drv['float'])
        if not np.array_equal(_stretch_oracle(xv, lo, hi), mf):
            f.append(dict(kind='model', key='stretch:oracle-vs-lean', detail=dict(channel=ci)))
        with np.errstate(all='ignore'):
            mcast = mf.astype(odt) if odt != np.bool_ else None
        if mcast is not None and not f:
            if not np.array_equal(mcast, yv):
                j = int(np.nonzero(mcast != yv)[0][0])
                f.append(dict(kind='model', key='stretch:model', detail=dict(channel=ci, index=j, got=yl[j],
                                                                             model=float(mf[j]))))
            elif odt.kind in 'iu' and np.all(np.abs(mf) < 2 ** 62):
                mi = core.ints(drv['int'])
                if mi != [int(v) for v in yl]:
                    f.append(dict(kind='model', key='stretch:model-trunc', detail=dict(channel=ci)))
                # the exact truncation `truncQ` (the one C20_stretch_int_cast is proved about) on the exact
                # rational values of the same doubles: must agree with the Float cast `truncF`
                elif 'intq' in drv and core.ints(drv['intq']) != mi:
                    f.append(dict(kind='model', key='stretch:model-truncq', detail=dict(channel=ci)))
    if call_line and not f:
        if case.get('rgb'):
            f += cs.compare_rgb(drvs[-1], out, None)
        else:
            f += cs.compare_call(drvs[-1], out, odt, lo, hi)
    return dict(findings=f, nontrivial=nontriv, sig=json.dumps(case, sort_keys=True),
                tags=dict(kind='stretch_rgb' if case.get('rgb') else 'stretch', dtype=case['dtype'], out=case['out'],
                          form=form, layout=case.get('layout', 'C'), cls=case.get('cls', 'random'),
                          dtype_as=case.get('dtype_as', 'numpy-dtype'), size=case.get('size', 'small')))


def _eval_asrgb(case):
    """`as_rgb(r, g, b)`: every array channel is `stretch(channel)` (0..255, uint8: the statement's monotone range map,
    checked directly and against `mahotas.stretch` itself), `None` is a zero channel, a number fills the channel"""
    import mahotas as mh
    shape = tuple(case['shape'])
    chans, befores = [], []
    for spec in case['chans']:
        if spec is None:
            chans.append(None)
        elif spec['t'] == 'scalar':
            chans.append(spec['v'])
        else:
            chans.append(np.array(spec['data'], dtype=object).astype(spec['dtype']).reshape(tuple(spec.get('shape', shape))))
        befores.append(None if not isinstance(chans[-1], np.ndarray) else chans[-1].copy())
    err = None
    with warnings.catch_warnings():
        warnings.simplefilter('ignore')
        try:
            out = np.asarray(mh.as_rgb(*chans))
        except (ValueError, AttributeError) as e:
            err, out = f'{type(e).__name__}: {e}', None
    # the Lean model of the whole call (Model/C20Stretch.lean `asRgb`): which argument fixes the shape, ValueErrors,
    # None / number / array channels, np.dstack's shape rules for 1-D, 2-D and N-D channels
    f = cs.compare_asrgb(core.drive([cs.line_asrgb(chans)])[0], out, err)
    nontriv = False
    if err is not None or case.get('cls') in ('error', 'nd'):
        if err is not None and case.get('cls') != 'error':
            f.append(dict(kind='property', key='as_rgb:raises', detail=dict(error=err)))
        return dict(findings=f, nontrivial=True, sig=json.dumps(case, sort_keys=True),
                    tags=dict(kind='as_rgb', cls=case.get('cls', 'image'), raised=err is not None))
    if out.shape != shape + (3,) or out.dtype != np.uint8:
        f.append(dict(kind='property', key='as_rgb:shape-dtype', detail=dict(shape=list(out.shape), dtype=str(out.dtype))))
        return dict(findings=f, nontrivial=True, sig=json.dumps(case, sort_keys=True), tags=dict(kind='as_rgb'))
    for k, (c, b0) in enumerate(zip(chans, befores)):
        y = out[..., k]
        if c is None:
            if y.any():
                f.append(dict(kind='property', key='as_rgb:none-channel-not-zero', detail=dict(channel=k)))
        elif not isinstance(c, np.ndarray):
            if not np.all(y == (int(c) % 256)):
                f.append(dict(kind='property', key='as_rgb:scalar-channel', detail=dict(channel=k, value=c)))
        else:
            if not (np.array_equal(b0, c) and b0.dtype == c.dtype):
                f.append(dict(kind='property', key='as_rgb:input-modified', detail=dict(channel=k)))
            xv = c.astype(np.float64).ravel()
            yv = y.ravel().astype(np.int64)
            if xv.max() > xv.min():
                nontriv = True
            order = np.argsort(xv, kind='stable')
            ys, xs = yv[order], xv[order]
            if np.any((ys[:-1] > ys[1:]) & (xs[:-1] <= xs[1:])):
                f.append(dict(kind='property', key='as_rgb:monotone', detail=dict(channel=k)))
            if int(yv[int(np.argmin(xv))]) != 0:
                f.append(dict(kind='property', key='as_rgb:min-to-lower-bound', detail=dict(channel=k, got=int(yv[int(np.argmin(xv))]))))
            with warnings.catch_warnings():
                warnings.simplefilter('ignore')
                ref = np.asarray(mh.stretch(c))
            if not np.array_equal(ref, y):
                f.append(dict(kind='property', key='as_rgb:channel-is-not-stretch', detail=dict(channel=k)))
    return dict(findings=f, nontrivial=nontriv, sig=json.dumps(case, sort_keys=True),
                tags=dict(kind='as_rgb', cls='image', size=case.get('size', 'small')))


def _asrgb_special(rng):
    """as_rgb calls outside the (h, w) image case: 1-D / 3-D channels (np.dstack's rules), channels of different
    shapes, no array channel at all (ValueError), numbers outside 0..255 (reduced modulo 256 by the uint8 cast)"""
    r = rng.random()
    def arr(shape):
        n = int(np.prod(shape))
        return dict(t='array', dtype=rng.choice(['uint8', 'int16', 'float64']), shape=list(shape),
                    data=[rng.randint(0, 100) for _ in range(n)])
    if r < 0.3:
        shape = rng.choice([[rng.randint(1, 6)], [rng.randint(1, 3), rng.randint(1, 3), rng.randint(1, 3)],
                            [rng.randint(1, 2), rng.randint(1, 3), rng.randint(1, 2), rng.randint(1, 2)]])
        chans = [rng.choice([None, dict(t='scalar', v=rng.randint(-300, 600)), arr(shape), arr(shape)]) for _ in range(3)]
        if not any(c is not None and c['t'] == 'array' for c in chans):
            chans[rng.randrange(3)] = arr(shape)
        return dict(kind='as_rgb', cls='nd', shape=shape, chans=chans)
    if r < 0.55:
        chans = [rng.choice([None, None, dict(t='scalar', v=rng.randint(0, 255))]) for _ in range(3)]
        return dict(kind='as_rgb', cls='error', shape=[1, 1], chans=chans)
    if r < 0.8:
        shape = [rng.randint(1, 4), rng.randint(1, 4)]
        other = rng.choice([[shape[1] + 1, shape[0]], [shape[0] * shape[1] + 1], shape + [1], [shape[0], shape[1] + 1]])
        chans = [arr(shape), arr(other), rng.choice([None, arr(shape), dict(t='scalar', v=3)])]
        rng.shuffle(chans)
        return dict(kind='as_rgb', cls='error', shape=shape, chans=chans)
    shape = [rng.randint(1, 4), rng.randint(1, 4)]
    chans = [arr(shape), dict(t='scalar', v=rng.choice([-1, 256, 300, -200, 1000, 255, 0])), rng.choice([None, dict(t='scalar', v=rng.randint(-1000, 1000))])]
    rng.shuffle(chans)
    return dict(kind='as_rgb', cls='image', shape=shape, chans=chans)


def _asrgb_case(rng):
    if rng.random() < 0.25:
        return _asrgb_special(rng)
    shape = [rng.randint(1, 5), rng.randint(1, 5)]
    n = shape[0] * shape[1]
    chans = []
    for _ in range(3):
        r = rng.random()
        if r < 0.15:
            chans.append(None)
        elif r < 0.3:
            chans.append(dict(t='scalar', v=rng.choice([0, 1, 7, 128, 255])))
        else:
            dtype = rng.choice(['uint8', 'uint16', 'int32', 'int64', 'float32', 'float64', 'int8', 'bool'])
            if dtype.startswith('float'):
                data = [float(np.dtype(dtype).type(rng.choice([rng.uniform(-5, 5), rng.uniform(0, 2500), 0.0, 1.0]))) for _ in range(n)]
            elif dtype == 'bool':
                data = [rng.randint(0, 1) for _ in range(n)]
            else:
                lo, hi = gen.dt_range(dtype)
                data = [rng.choice([rng.randint(max(lo, -300), min(hi, 300)), rng.randint(lo // 2, hi // 2), 0]) for _ in range(n)]
            if rng.random() < 0.1:
                data = [data[0]] * n
            chans.append(dict(t='array', dtype=dtype, data=data))
    if not any(c is not None and c['t'] == 'array' for c in chans):
        chans[rng.randrange(3)] = dict(t='array', dtype='uint8', data=[rng.randint(0, 255) for _ in range(n)])
    return dict(kind='as_rgb', shape=shape, chans=chans)


def _eval_sepia(case):
    """rgb2sepia / rgb2grey on integer-valued inputs OUTSIDE 0..255 (negative components, values above 255: int16/int32/float
    images, out-of-gamut colours returned by xyz2rgb): sepia is the documented linear map clipped to 0..255 on BOTH sides"""
    c = _colors()
    vals = [int(v) for v in case['rgb']]
    A = np.array(vals, dtype=np.float64).reshape(-1, 1, 3).astype(case['dtype'])
    A = gen.relayout(A, case.get('layout', 'C'))
    before = A.copy()
    f = []
    with warnings.catch_warnings():
        warnings.simplefilter('ignore')
        sep = np.asarray(c.rgb2sepia(A))
    if not np.array_equal(before, A):
        f.append(dict(kind='property', key='colors:input-modified', detail={}))
    want = core.ints(core.drive(['c20 kind=sepiaq rgb=' + core.fmt_ints(vals)])[0]['sepia'])
    if sep.shape != A.shape or sep.dtype != np.uint8:
        f.append(dict(kind='property', key='rgb2sepia:shape-dtype', detail=dict(shape=list(sep.shape), dtype=str(sep.dtype))))
    else:
        g = [int(x) for x in sep.ravel()]
        bad = [k for k, (a, b) in enumerate(zip(g, want)) if a != b]
        if bad:
            t = bad[0] // 3
            f.append(dict(kind='property', key='rgb2sepia:linear-clipped', detail=dict(
                rgb=vals[3 * t:3 * t + 3], got=g[3 * t:3 * t + 3], want=want[3 * t:3 * t + 3], dtype=case['dtype'])))
    return dict(findings=f, nontrivial=bool(any(v < 0 or v > 255 for v in vals)), sig=('sepia', case['dtype'], hash(tuple(vals))),
                n=len(vals) // 3, tags=dict(kind='sepia', dtype=case['dtype'], cls='out-of-range'))


def evaluate(cases):
    out = []
    for c in cases:
        k = c.get('kind')
        if k == 'sepia':
            out.append(_eval_sepia(c))
        elif k == 'rgb' or 'block' in c:
            out.append(_eval_rgb(c))
        elif k == 'ramp':
            out.append(_eval_ramp(c))
        elif k == 'stretch':
            out.append(_eval_stretch(c))
        elif k == 'rgbimg':
            out.append(_eval_rgbimg(c))
        elif k == 'as_rgb':
            out.append(_eval_asrgb(c))
        elif k == 'dtypes':
            out.append(_eval_dtypes(c))
        elif k == 'stretch_big':
            out.append(_eval_stretch_big(c))
        else:
            raise core.Infra(f'unknown case kind {k}')
    return out


# ---------------------------------------------------------------------------------------------- generators

def _corpus():
    d = core.VERIF / 'corpus' / ID
    return [json.loads(p.read_text())['case'] for p in sorted(d.glob('*.json'))] if d.exists() else []


LATTICE = list(range(0, 256, 5))          # 52 steps per channel
INT_IMG_DTYPES = ['bool', 'uint8', 'uint16', 'uint32', 'uint64', 'int8', 'int16', 'int32', 'int64']
OUT_DTYPES = ['uint8', 'uint16', 'uint32', 'int8', 'int16', 'int32', 'int64', 'uint64', 'float32', 'float64', 'bool']


def _stretch_case(rng):
    dtype = rng.choice(INT_IMG_DTYPES + ['float32', 'float64'])
    rgb = rng.random() < 0.3
    if rgb:
        shape = [rng.randint(1, 4), rng.randint(1, 4), rng.choice([1, 3, 3, 4])] if rng.random() < 0.8 else \
            [rng.randint(1, 4), rng.randint(1, 5)]
        if rng.random() < 0.04:         # neither 2-D nor 3-D: ValueError
            shape = rng.choice([[rng.randint(1, 6)], [rng.randint(1, 3), rng.randint(1, 3), 3, rng.randint(1, 2)]])
    else:
        shape = list(gen.small_shape(rng))
    n = int(np.prod(shape))
    cls = rng.choice(['random', 'random', 'random', 'constant', 'two-valued', 'limits'])
    if dtype in ('float32', 'float64'):
        base = [rng.choice([rng.uniform(-1, 1), rng.uniform(-1e6, 1e6), float(rng.randint(-5, 5)), rng.uniform(0, 1e-3)])
                for _ in range(n)]
        if cls == 'constant':
            base = [base[0]] * n
        elif cls == 'two-valued':
            base = [rng.choice(base[:2] if n > 1 else base) for _ in range(n)]
        data = [float(np.dtype(dtype).type(v)) for v in base]
    else:
        lo_, hi_ = gen.dt_range(dtype)
        if cls == 'constant':
            v = rng.choice([lo_, hi_, 0 if lo_ <= 0 else lo_, rng.randint(lo_, hi_)])
            data = [v] * n
        elif cls == 'two-valued':
            a, b = rng.randint(lo_, hi_), rng.randint(lo_, hi_)
            data = [rng.choice([a, b]) for _ in range(n)]
        elif cls == 'limits':
            data = [rng.choice(gen.boundary_values(dtype)) for _ in range(n)]
        else:
            w = rng.choice([3, 10, 255, hi_ - lo_])
            s = rng.randint(lo_, hi_ - min(w, hi_ - lo_))
            data = [rng.randint(s, s + min(w, hi_ - lo_)) for _ in range(n)]
        data = [int(v) for v in data]
    out = rng.choice(OUT_DTYPES)
    form = rng.choice([0, 1, 2, 2])
    blo, bhi = _dt_bounds(out)
    bhi = min(bhi, 2 ** 40); blo = max(blo, -2 ** 40)
    if form == 0 and bhi < 255:
        form = 1
    lo = 0
    hi = 255
    if form == 1:
        hi = rng.choice([bhi, 1, 0, rng.randint(0, bhi), rng.randint(0, min(bhi, 300))])
    elif form == 2:
        lo = rng.choice([blo, 0, rng.randint(blo, bhi), rng.randint(max(blo, -300), min(bhi, 300)), max(blo, -rng.randint(1, 100))])
        # (an upper bound of exactly 0 above a negative lower bound is a legitimate request, falsy in Python)
        hi = rng.choice([bhi, lo, lo + 1 if lo < bhi else lo, rng.randint(lo, bhi), rng.randint(lo, min(bhi, lo + 300)), 0 if lo <= 0 <= bhi else bhi])
    c = dict(kind='stretch', dtype=dtype, shape=shape, data=data, form=form, lo=int(lo), hi=int(hi), out=out,
             rgb=rgb, layout=rng.choice(gen.LAYOUTS), cls=cls)
    if form == 0 and rng.random() < 0.2:
        # stretch(img, None, x): the second positional argument is ignored, the range stays (0, 255)
        c.update(form=3, hi=int(rng.choice([0, 1, 100, 255, 1000, -5])))
    if out == 'float64' and rng.random() < 0.5:
        c['dtype_as'] = 'pyfloat'       # dtype=float
    elif out == 'uint8' and rng.random() < 0.4:
        c['dtype_as'] = 'default'       # no dtype argument
    return c


def _size_threshold_cases(rng, tier):
    """size-threshold stream: pixel counts crossing 2^8, 2^15, 2^16 (+-1) with value ranges crossing 2^8 / 2^16 / 2^31
    (a counter, index or accumulator narrowed to 16 bits or float32 passes every small case). Judged like the small
    cases (statement's observables + Lean driver, the pixels of one image in one protocol line); thorough tier adds
    2^24 + 1 pixels judged by the exact numpy oracle `_stretch_oracle`."""
    def npx(k):
        return 2 ** k + rng.choice([-1, 0, 1])
    def spread(n, centre, span):
        # n values around `centre`, many distinct, crossing it in both directions, in a scrambled order
        # the global minimum and maximum sit in the last two positions (a reduction whose counter stops early misses them)
        v = [int(centre - span // 2 + (i * 7919 + 13) % span) for i in range(n)]
        v[-1], v[-2] = centre - span // 2 - 1, centre + span // 2 + 1
        return v
    out = []
    n = npx(8)
    out.append(dict(kind='stretch', size='threshold', dtype='int16', shape=[1, n], data=spread(n, 256, 300), form=2, lo=-128, hi=127,
                    out='int8', rgb=False, layout='C', cls='threshold'))
    n = npx(16)
    dt = rng.choice(['int32', 'uint32', 'float64'])
    shape = rng.choice([[1, n], [257, 256]])
    n = shape[0] * shape[1]
    data = spread(n, 65536, 80000)
    form, lo, hi, odt = rng.choice([(2, 0, 65535, 'uint16'), (2, -70000, 70000, 'int32'), (1, 0, 65536, 'uint32'), (0, 0, 255, 'uint8')])
    out.append(dict(kind='stretch', size='threshold', dtype=dt, shape=shape, data=[float(v) for v in data] if dt == 'float64' else data,
                    form=form, lo=lo, hi=hi, out=odt, rgb=False, layout=rng.choice(['C', 'F', 'strided']), cls='threshold'))
    n = npx(15)
    data = [v for i in range(n) for v in (2 ** 31 - 40000 + (i * 7919) % 80000, 65536 - 300 + (i * 31) % 600, 255 - 100 + (i * 7) % 200)]
    out.append(dict(kind='stretch', size='threshold', dtype='uint32', shape=[1, n, 3], data=data, form=1, lo=0, hi=65535, out='uint16',
                    rgb=True, layout='C', cls='threshold'))
    n = npx(16)
    out.append(dict(kind='as_rgb', size='threshold', cls='image', shape=[1, n], chans=[
        dict(t='array', dtype='uint16', data=[1 + (i * 7919) % 65534 for i in range(n - 2)] + [65535, 0]),
        dict(t='array', dtype='float64', data=[float(65536 - 1000 + (i * 31) % 2000) + 0.5 for i in range(n)]),
        rng.choice([None, dict(t='scalar', v=rng.randint(0, 255))])]))
    # colour conversions on more than 2^16 pixels: column form against the Lean model, image form in a strided layout
    n = 2 ** 16 + rng.choice([1, 2])
    tri = [(i * 7919 + k * 101) % 256 for i in range(n) for k in range(3)]
    out.append(dict(kind='rgb', size='threshold', rgb=tri, dtype=rng.choice(['uint8', 'uint16', 'int32']), cls='threshold'))
    px = [(i * 31 + k * 57) % 256 for i in range(257 * 256) for k in range(3)]
    for j in range(0, len(px), 3 * 4099):          # a few pixels far beyond 16 bits (the conversions are pixelwise for any value)
        px[j] = 70000 + j % 1000
    out.append(dict(kind='rgbimg', size='threshold', shape=[257, 256], rgb=px, dtype='int32', layout=rng.choice(['C', 'F', 'strided'])))
    if tier == 'thorough':
        out.append(dict(kind='stretch_big', n=2 ** 24 + 1, seed=rng.randint(0, 2 ** 31), dtype='uint8', base=0, span=255,
                        lo=0, hi=255, out='uint8'))
        out.append(dict(kind='stretch_big', n=2 ** 24 + 1, seed=rng.randint(0, 2 ** 31), dtype='float32', base=-1, span=2,
                        lo=-(2 ** 24) - 1, hi=2 ** 24 + 1, out='int32'))
    return out


def cases(rng, tier):
    out = list(_corpus()) if tier != 'search' else []
    if tier != 'search':
        out += _size_threshold_cases(rng, tier)
    # always: white / black / greys and the knee
    greys = [v for g in range(256) for v in (g, g, g)]
    out.append(dict(kind='rgb', rgb=greys, dtype='uint8', cls='greys'))
    out.append(dict(kind='rgb', rgb=[float(v) for v in greys], dtype='float64', cls='greys'))
    knee_vals = [KNEE - 1e-3, KNEE - 1e-5, KNEE - 2e-6, KNEE + 2e-6, KNEE + 1e-5, KNEE + 1e-3, 10.0, 11.0, 0.0, 255.0, 1e-9, 254.999]
    kk = []
    for v in knee_vals:
        kk += [v, v, v, v, 0.0, 255.0, 128.0, v, rng.uniform(0, 255)]
    out.append(dict(kind='rgb', rgb=kk, dtype='float64', cls='knee'))
    # exhaustive lattice as blocks of one red value each (52 x 52 triples)
    reds = LATTICE if tier == 'thorough' else sorted(rng.sample(LATTICE, 4 if tier == 'quick' else 12))
    for r in reds:
        tri = [v for g in LATTICE for b in LATTICE for v in (r, g, b)]
        out.append(dict(kind='rgb', block='lattice', rgb=tri, dtype='uint8', cls='lattice'))
    if tier != 'thorough':
        # the corners and a seeded sample of the rest of the lattice
        tri = [v for _ in range(600) for v in (rng.choice(LATTICE), rng.choice(LATTICE), rng.choice(LATTICE))]
        out.append(dict(kind='rgb', rgb=tri + [0, 255, 255, 255, 0, 0, 255, 255, 0, 0, 0, 255], dtype='uint8', cls='lattice-sample'))
    # ramps: integer-valued 0..255 in every channel with the others fixed; real-valued away from the knee
    nr = dict(quick=30, thorough=300, search=120)[tier]
    for i in range(nr):
        fixed = [rng.choice([0, 255, rng.randint(0, 255)]) for _ in range(3)]
        out.append(dict(kind='ramp', ch=i % 3, fixed=fixed, vals=list(range(256)), integer=True,
                        dtype=rng.choice(['uint8', 'uint16', 'int32', 'float64'])))
        vals = sorted({rng.uniform(0, 255) if rng.random() < 0.7 else rng.uniform(KNEE - 0.5, KNEE + 0.5) for _ in range(200)})
        vals = [v for v in vals if abs(v / 255.0 - 0.04045) > 1e-6]
        out.append(dict(kind='ramp', ch=i % 3, fixed=[float(x) for x in fixed], vals=vals, integer=False, dtype='float64'))
    # sepia on components outside 0..255 (both signs)
    for i in range(dict(quick=12, thorough=120, search=40)[tier]):
        m = rng.randint(1, 40)
        pool = [-1, -10, -300, -32768, 0, 1, 255, 256, 300, 32767, 128]
        tri = [rng.choice(pool + [rng.randint(-400, 600)]) for _ in range(3 * m)]
        out.append(dict(kind='sepia', rgb=tri, dtype=rng.choice(['int16', 'int32', 'int64', 'float64', 'float32']),
                        layout=rng.choice(['C', 'C', 'F', 'strided'])))
    # random triples, several dtypes
    nt = dict(quick=40, thorough=400, search=160)[tier]
    for i in range(nt):
        dtype = rng.choice(['uint8', 'uint8', 'uint16', 'int32', 'int64', 'float32', 'float64', 'float64'])
        m = rng.randint(1, 60)
        if dtype.startswith('float'):
            tri = [rng.choice([rng.uniform(0, 255), float(rng.randint(0, 255)), rng.uniform(0, 12)]) for _ in range(3 * m)]
            tri = [float(np.dtype(dtype).type(v)) for v in tri]
        else:
            tri = [rng.choice([0, 255, rng.randint(0, 255), rng.randint(0, 15)]) for _ in range(3 * m)]
        c = dict(kind='rgb', rgb=tri, dtype=dtype, cls='random')
        if rng.random() < 0.3:
            c['out'] = rng.choice(['float32', 'float64'])
        out.append(c)
    # whole images (h, w > 1) in every memory layout, with integer / float dtype= requests for rgb2lab
    ni = dict(quick=120, thorough=1500, search=500)[tier]
    for i in range(ni):
        h, w = rng.randint(1, 5), rng.randint(1, 5)
        if i % 4:
            h, w = max(h, 2), max(w, 2)
        dtype = rng.choice(['uint8', 'uint8', 'uint16', 'int32', 'float32', 'float64'])
        px = []
        for _ in range(h * w):
            r = rng.random()
            if r < 0.15:
                px += [255, 255, 255]
            elif r < 0.4:
                g = rng.randint(0, 255); px += [g, g, g]
            else:
                px += [rng.randint(0, 255) for _ in range(3)]
        c = dict(kind='rgbimg', shape=[h, w], rgb=[float(v) for v in px] if dtype.startswith('float') else px, dtype=dtype,
                 layout=gen.LAYOUTS[i % len(gen.LAYOUTS)])
        if rng.random() < 0.5:
            c['out'] = rng.choice(['uint8', 'int8', 'int16', 'int32', 'int64', 'float32', 'float64', 'float16'])
        out.append(c)
    # dtype handling: every input dtype x every dtype= request (round-robin, so that each pair occurs in every tier)
    nd = dict(quick=len(DT_IN) * (len(DT_OUT) + 1), thorough=8 * len(DT_IN) * (len(DT_OUT) + 1), search=300)[tier]
    for i in range(nd):
        m = rng.randint(2, 12)
        tri = [255, 255, 255, 0, 0, 0, 200, 100, 50] + [rng.choice([rng.randint(0, 255), rng.randint(0, 15), 255]) for _ in range(3 * m)]
        g = rng.randint(0, 255)
        tri += [g, g, g]
        out.append(dict(kind='dtypes', rgb=tri, dtype=DT_IN[i % len(DT_IN)],
                        out=([None] + DT_OUT)[(i // len(DT_IN)) % (len(DT_OUT) + 1)]))
    ns = dict(quick=1500, thorough=15000, search=6000)[tier]
    for _ in range(ns):
        out.append(_stretch_case(rng))
    for _ in range(dict(quick=200, thorough=2000, search=600)[tier]):
        out.append(_asrgb_case(rng))
    return out


def shrink(case):
    if case.get('kind') in ('rgb', 'sepia') or 'block' in case:
        tri = case['rgb']
        n = len(tri) // 3
        if n > 1:
            yield dict(case, rgb=tri[:3 * (n // 2)], block=None) if False else {k: v for k, v in dict(case, rgb=tri[:3 * (n // 2)]).items() if k != 'block'}
            yield {k: v for k, v in dict(case, rgb=tri[3 * (n // 2):]).items() if k != 'block'}
        return
    if case.get('kind') == 'ramp':
        v = case['vals']
        if len(v) > 2:
            yield dict(case, vals=v[:len(v) // 2 + 1])
            yield dict(case, vals=v[len(v) // 2:])
        return
    if case.get('kind') == 'stretch':
        shape, data = case['shape'], case['data']
        A = np.array(data, dtype=object).reshape(shape)
        for ax in range(len(shape)):
            if shape[ax] > 1:
                for j in (shape[ax] - 1, 0):
                    B = np.delete(A, j, axis=ax)
                    yield dict(case, shape=list(B.shape), data=B.ravel().tolist())
        if case.get('layout', 'C') != 'C':
            yield dict(case, layout='C')
