"""C20 (round 4) — call-level model of `stretch` / `stretch_rgb` / `as_rgb` (Lean: Model/C20Stretch.lean):
protocol lines for the driver kinds `stretchcall`, `stretchrgb`, `asrgb` and the comparison of the real results
with them (argument decoding, cast to the requested dtype, per-channel split, dstack shape rules, ValueErrors)."""
from __future__ import annotations
import numpy as np
from .. import core

DT_NAME = {'bool': 'b1', 'uint8': 'u8', 'uint16': 'u16', 'uint32': 'u32', 'uint64': 'u64', 'int8': 'i8', 'int16': 'i16',
           'int32': 'i32', 'int64': 'i64', 'float32': 'f32', 'float64': 'f64'}


def call_args(case):
    """the positional arguments (arg0, arg1) the case passes to stretch / stretch_rgb, and the (lo, hi) Python decodes"""
    form = case['form']
    if form == 0:
        return (None, None), (0, 255)
    if form == 1:
        return (case['hi'], None), (0, case['hi'])
    if form == 3:                      # stretch(img, None, x): `arg1` is ignored when `arg0 is None`
        return (None, case['hi']), (0, 255)
    return (case['lo'], case['hi']), (case['lo'], case['hi'])


def _args_txt(arg0, arg1):
    return ('' if arg0 is None else f' arg0={int(arg0)}') + ('' if arg1 is None else f' arg1={int(arg1)}')


def line_stretchcall(xv, arg0, arg1, odt):
    return f'c20 kind=stretchcall data={core.fmt_floats(xv)}{_args_txt(arg0, arg1)} out={DT_NAME[np.dtype(odt).name]}'


def line_stretchrgb(img, arg0, arg1, odt):
    xv = np.ascontiguousarray(img).astype(np.float64).ravel()
    return (f'c20 kind=stretchrgb shape={core.fmt_ints(img.shape)} data={core.fmt_floats(xv)}{_args_txt(arg0, arg1)} '
            f'out={DT_NAME[np.dtype(odt).name]}')


def compare_call(drv, out, odt, lo, hi):
    """findings of the comparison of the real output `out` with the driver answer of `stretchcall`"""
    f = []
    if 'lo' in drv and (int(drv['lo']), int(drv['hi'])) != (int(lo), int(hi)):
        f.append(dict(kind='model', key='stretch:model-argument-decoding', detail=dict(model=[drv['lo'], drv['hi']], python=[lo, hi])))
        return f
    yv = np.ascontiguousarray(out).ravel()
    if np.dtype(odt).kind == 'f':
        m = core.floats(drv['float'])
        got = yv.astype(np.float64)
        if m.shape != got.shape or not np.array_equal(m, got):
            j = int(np.nonzero(m != got)[0][0]) if m.shape == got.shape else -1
            f.append(dict(kind='model', key='stretch:model-call-float', detail=dict(index=j, dtype=str(odt))))
    else:
        m = core.ints(drv['int'])
        got = [int(v) for v in yv.tolist()]
        if m != got:
            j = next((i for i, (a, b) in enumerate(zip(m, got)) if a != b), -1)
            f.append(dict(kind='model', key='stretch:model-call-int', detail=dict(
                index=j, dtype=str(odt), got=got[j] if 0 <= j < len(got) else None, model=m[j] if 0 <= j < len(m) else None)))
    return f


def compare_rgb(drv, out, err):
    f = []
    if drv.get('ok') == '0':
        if err is None or not err.replace(' ', '_').startswith(drv.get('error', '?')):
            f.append(dict(kind='model', key='stretch_rgb:model-error', detail=dict(model=drv.get('error'), real=err)))
        return f
    if err is not None:
        f.append(dict(kind='model', key='stretch_rgb:model-error', detail=dict(real=err)))
        return f
    m = core.ints(drv['int'])
    got = [int(v) for v in np.ascontiguousarray(out).ravel().tolist()]
    if m != got:
        f.append(dict(kind='model', key='stretch_rgb:model-per-channel', detail=dict(
            index=next((i for i, (a, b) in enumerate(zip(m, got)) if a != b), -1))))
    return f


def line_asrgb(chans):
    toks = ['c20 kind=asrgb']
    for k, c in enumerate(chans):
        if c is None:
            toks.append(f'c{k}=none')
        elif isinstance(c, np.ndarray):
            toks.append(f'c{k}=arr c{k}shape={core.fmt_ints(c.shape)} c{k}data={core.fmt_floats(c.astype(np.float64).ravel())}')
        else:
            toks.append(f'c{k}={int(c)}')
    return ' '.join(toks)


def compare_asrgb(drv, out, err):
    f = []
    if drv.get('ok') == '0':
        if err is None:
            f.append(dict(kind='model', key='as_rgb:model-error', detail=dict(model=drv.get('error'))))
        elif not err.replace(' ', '_').startswith(drv.get('error', '?')):
            f.append(dict(kind='model', key='as_rgb:model-error-message', detail=dict(model=drv.get('error'), real=err)))
        return f
    if err is not None:
        f.append(dict(kind='model', key='as_rgb:model-error', detail=dict(real=err)))
        return f
    if core.ints(drv['shape']) != list(out.shape):
        f.append(dict(kind='model', key='as_rgb:model-shape', detail=dict(model=drv['shape'], real=list(out.shape))))
        return f
    m = core.ints(drv['int'])
    got = [int(v) for v in np.ascontiguousarray(out).ravel().tolist()]
    if m != got:
        f.append(dict(kind='model', key='as_rgb:model-data', detail=dict(
            index=next((i for i, (a, b) in enumerate(zip(m, got)) if a != b), -1))))
    return f
