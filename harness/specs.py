"""Deterministic construction of call arguments from JSON specs (shared by the isolated worker and by the judges).

  A := {"a": {"dtype":…, "shape":[…], "fill":…, "seed":…, "layout":…, "hi":…, "p":…}}   an array
     | {"v": <json value>} | {"e": "<python expression>"} | {"t": [A, …]} | {"l": [A, …]}
"""
import numpy as np


def relayout(a, layout):
    """same logical content in another memory layout (the 7 layouts of harness/gen.py)"""
    if layout in (None, 'C') or a.ndim == 0 or a.size == 0:
        return a
    if layout == 'F':
        return np.asfortranarray(a)
    if layout == 'strided':
        big = np.empty(tuple(2 * s for s in a.shape), a.dtype)
        big[...] = a.flat[0]
        v = big[tuple(slice(None, None, 2) for _ in a.shape)]
        v[...] = a
        return v
    if layout == 'negstride':
        r = np.ascontiguousarray(a[tuple(slice(None, None, -1) for _ in a.shape)])
        return r[tuple(slice(None, None, -1) for _ in a.shape)]
    if layout == 'offset':
        big = np.empty(tuple(s + 2 for s in a.shape), a.dtype)
        big[...] = a.flat[0]
        v = big[tuple(slice(1, s + 1) for s in a.shape)]
        v[...] = a
        return v
    if layout == 'transposed':
        return np.ascontiguousarray(a.T).T
    if layout == 'readonly':
        r = a.copy()
        r.setflags(write=False)
        return r
    raise ValueError(layout)


def build_array(d):
    dtype = np.dtype(d['dtype']) if not isinstance(d['dtype'], list) else np.dtype([tuple(x) for x in d['dtype']])
    shape = tuple(d.get('shape', ()))
    rs = np.random.RandomState(d.get('seed', 0) % (2 ** 32))
    n = int(np.prod(shape)) if len(shape) else 1
    fill = d.get('fill', 'rand')
    hi = d.get('hi', 6)
    if fill == 'zeros':
        x = np.zeros(n)
    elif fill == 'ones':
        x = np.ones(n)
    elif fill == 'arange':
        x = np.arange(n)
    elif fill == 'bool':
        x = rs.rand(n) < d.get('p', 0.5)
    elif fill == 'centre':          # only the centre element (shape // 2) is set: the smallest non-empty element
        x = np.zeros(n)
        if n:
            x[int(np.ravel_multi_index(tuple(s // 2 for s in shape), shape)) if len(shape) else 0] = 1
    elif fill == 'labels':          # blobs of non-negative labels 0..hi
        x = rs.randint(0, hi + 1, n) * (rs.rand(n) < 0.7)
    elif fill == 'signed':
        x = rs.randint(-hi, hi + 1, n)
    elif fill == 'float':
        x = rs.randn(n) * hi
    elif fill == 'unit':
        x = rs.rand(n)
    elif fill == 'limits':          # values dense at the dtype limits
        if dtype.kind in 'iu':
            ii = np.iinfo(dtype)
            pool = np.array([ii.min, ii.max, 0, 1, ii.max - 1, ii.min + 1, ii.max // 2], dtype=object)
            x = pool[rs.randint(0, len(pool), n)]
        else:
            x = rs.randint(0, 2, n)
    else:                            # 'rand': small non-negative integers
        x = rs.randint(0, hi + 1, n)
    if dtype.kind == 'O':
        a = np.empty(n, object)
        a[:] = [int(v) for v in np.asarray(x).tolist()]
    elif dtype.kind in 'SU':
        a = np.array([str(int(v)) for v in np.asarray(x).tolist()], dtype=dtype)
    elif dtype.kind == 'V':
        a = np.zeros(n, dtype)
    elif dtype.kind == 'M' or dtype.kind == 'm':
        a = np.asarray(x, dtype='int64').view(dtype)
    else:
        a = np.asarray(x, dtype=object).astype(dtype) if dtype.kind in 'iu' and fill == 'limits' else np.asarray(x).astype(dtype)
    if d.get('negzero') and dtype.kind == 'f' and a.size:
        # zeros of either sign (equal as values, different as bit patterns): a result must not depend on the sign of a zero
        z = np.flatnonzero(a == 0)
        if z.size:
            a[z[rs.rand(z.size) < 0.5]] = -0.0
    a = a.reshape(shape)
    return relayout(a, d.get('layout'))


def build(A):
    if 'a' in A:
        return build_array(A['a'])
    if 'v' in A:
        return A['v']
    if 'e' in A:
        return eval(A['e'], {'np': np})
    if 't' in A:
        return tuple(build(x) for x in A['t'])
    if 'l' in A:
        return [build(x) for x in A['l']]
    raise ValueError('bad arg spec %r' % (A,))
