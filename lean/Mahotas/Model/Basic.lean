/-
Shared, import-free foundations for the executable models:
n-D index arithmetic (C order), and the line protocol used by the driver.
No Mathlib here: every file under `Model/` is linked into the native driver.
-/
namespace Mahotas

/-! ## n-D index arithmetic (C order) -/

/-- number of elements of a shape -/
def shapeSize : List Nat → Nat
  | [] => 1
  | d :: ds => d * shapeSize ds

/-- C-order unravel of a flat index (the first axis is the slowest). -/
def unravel : List Nat → Nat → List Nat
  | [], _ => []
  | _ :: ds, i => (i / shapeSize ds) :: unravel ds (i % shapeSize ds)

/-- C-order flat index of an (in-range) position. -/
def ravel : List Nat → List Nat → Nat
  | _ :: ds, p :: ps => p * shapeSize ds + ravel ds ps
  | _, _ => 0

/-- position inside the box `[0,shape)`? -/
def inside : List Nat → List Int → Bool
  | [], [] => true
  | d :: ds, p :: ps => decide (0 ≤ p) && decide (p < (d : Int)) && inside ds ps
  | _, _ => false

/-- flat index of an integer position (meaningful when `inside`). -/
def ravelI : List Nat → List Int → Nat
  | _ :: ds, p :: ps => p.toNat * shapeSize ds + ravelI ds ps
  | _, _ => 0

def unravelI (s : List Nat) (i : Nat) : List Int := (unravel s i).map Int.ofNat

/-- all positions of a shape in C scan order -/
def allPos (s : List Nat) : List (List Int) :=
  (List.range (shapeSize s)).map (unravelI s)

def addPos : List Int → List Int → List Int
  | a :: as, b :: bs => (a + b) :: addPos as bs
  | _, _ => []

def subPos : List Int → List Int → List Int
  | a :: as, b :: bs => (a - b) :: subPos as bs
  | _, _ => []

def negPos (a : List Int) : List Int := a.map (fun x => -x)

/-- centre `shape/2` of a filter, as used throughout mahotas -/
def centreOf (s : List Nat) : List Int := s.map (fun d => ((d / 2 : Nat) : Int))

/-- A logical n-D array in C order. -/
structure Img (α : Type) where
  shape : List Nat
  data  : Array α

namespace Img
variable {α : Type}

def size (im : Img α) : Nat := shapeSize im.shape

/-- read at an integer position; `dflt` outside the box (callers guard with `inside`). -/
def getD (im : Img α) (p : List Int) (dflt : α) : α :=
  if inside im.shape p then im.data.getD (ravelI im.shape p) dflt else dflt

def get? (im : Img α) (p : List Int) : Option α :=
  if inside im.shape p then im.data[ravelI im.shape p]? else none

def tabulate (shape : List Nat) (f : List Int → α) : Img α :=
  { shape := shape, data := ((allPos shape).map f).toArray }

end Img

/-! ## line protocol

One case per line: `op key=value key=value …`. A value is a comma separated list of
(decimal, possibly negative) integers, or a bare word. Floats cross the boundary as the
decimal value of their 64-bit pattern. -/

structure Args where
  op : String
  kv : List (String × String)

def splitKV (tok : String) : Option (String × String) :=
  match tok.splitOn "=" with
  | [k, v] => some (k, v)
  | _ => none

def parseLine (line : String) : Args :=
  let toks := (line.trimAscii.toString.splitOn " ").filter (· ≠ "")
  match toks with
  | [] => { op := "", kv := [] }
  | op :: rest => { op := op, kv := rest.filterMap splitKV }

namespace Args

def str (a : Args) (k : String) : String :=
  match a.kv.find? (·.1 == k) with
  | some (_, v) => v
  | none => ""

def has (a : Args) (k : String) : Bool := (a.kv.find? (·.1 == k)).isSome

def parseInts (s : String) : List Int :=
  if s == "" || s == "-" then [] else (s.splitOn ",").filterMap String.toInt?

def ints (a : Args) (k : String) : List Int := parseInts (a.str k)
def nats (a : Args) (k : String) : List Nat := (a.ints k).map Int.toNat
def int (a : Args) (k : String) (d : Int := 0) : Int := (a.ints k).headD d
def nat (a : Args) (k : String) (d : Nat := 0) : Nat := ((a.ints k).headD d).toNat
def floats (a : Args) (k : String) : List Float :=
  (a.ints k).map (fun b => Float.ofBits b.toNat.toUInt64)

end Args

def showInts (xs : List Int) : String := ",".intercalate (xs.map toString)
def showNats (xs : List Nat) : String := ",".intercalate (xs.map toString)
def showBools (xs : List Bool) : String := ",".intercalate (xs.map fun b => if b then "1" else "0")
def showFloats (xs : List Float) : String := ",".intercalate (xs.map fun f => toString f.toBits.toNat)
def showOptInts (xs : List (Option Int)) : String :=
  ",".intercalate (xs.map fun | some v => toString v | none => "u")

end Mahotas
