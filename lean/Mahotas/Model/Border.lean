/-
Border handling: transliteration of `fix_offset` (mahotas/_filters.h) and the
mathematical specifications of the six border modes.
-/
import Mahotas.Model.Basic
namespace Mahotas

inductive Mode | nearest | wrap | reflect | mirror | constant | ignore
deriving DecidableEq, Repr, Inhabited

/-- numbering of `ExtendMode` in `_filters.h` / `mode2int` in `_filters.py`
    (checked against the source by the translator, see `Generated/Tables.lean`). -/
def Mode.ofCode : Nat → Option Mode
  | 0 => some .nearest | 1 => some .wrap | 2 => some .reflect
  | 3 => some .mirror | 4 => some .constant | 5 => some .ignore
  | _ => none

def Mode.code : Mode → Nat
  | .nearest => 0 | .wrap => 1 | .reflect => 2 | .mirror => 3 | .constant => 4 | .ignore => 5

/-- `none` = `border_flag_value`. Transliteration of `fix_offset`;
    `(int)(a / b)` on non-negative operands is `Int.tdiv`. -/
def fixOffset (m : Mode) (cc : Int) (len : Int) : Option Int :=
  match m with
  | .mirror =>
    if cc < 0 then
      if len ≤ 1 then some 0 else
        let sz2 := 2 * len - 2
        let cc := sz2 * ((-cc).tdiv sz2) + cc
        some (if cc ≤ 1 - len then cc + sz2 else -cc)
    else if cc ≥ len then
      if len ≤ 1 then some 0 else
        let sz2 := 2 * len - 2
        let cc := cc - sz2 * (cc.tdiv sz2)
        some (if cc ≥ len then sz2 - cc else cc)
    else some cc
  | .reflect =>
    if cc < 0 then
      if len ≤ 1 then some 0 else
        let sz2 := 2 * len
        let cc := if cc < -sz2 then sz2 * ((-cc).tdiv sz2) + cc else cc
        if cc = 0 then some 0 else
        some (if cc < -len then cc + sz2 else -cc - 1)
    else if cc ≥ len then
      if len ≤ 1 then some 0 else
        let sz2 := 2 * len
        let cc := cc - sz2 * (cc.tdiv sz2)
        some (if cc ≥ len then sz2 - cc - 1 else cc)
    else some cc
  | .wrap =>
    if cc < 0 then
      if len ≤ 1 then some 0 else
        let cc := cc + len * ((-cc).tdiv len)
        some (if cc < 0 then cc + len else cc)
    else if cc ≥ len then
      if len ≤ 1 then some 0 else some (cc - len * (cc.tdiv len))
    else some cc
  | .nearest => some (if cc < 0 then 0 else if cc ≥ len then len - 1 else cc)
  | .ignore | .constant => if cc < 0 ∨ cc ≥ len then none else some cc

/-! ### specifications -/

def clampSpec (cc len : Int) : Int := max 0 (min cc (len - 1))

def wrapSpec (cc len : Int) : Int := cc % len

/-- `… c b a | a b c | c b a …` (period `2 len`) -/
def reflectSpec (cc len : Int) : Int :=
  let m := cc % (2 * len)
  if m < len then m else 2 * len - 1 - m

/-- `… c b | a b c | b a …` (period `2 len - 2`) -/
def mirrorSpec (cc len : Int) : Int :=
  if len ≤ 1 then 0 else
  let m := cc % (2 * len - 2)
  if m < len then m else 2 * len - 2 - m

/-- the specification of a border mode: where a (possibly outside) coordinate reads from;
    `none` = the sample is dropped (`ignore`) or replaced by the constant (`constant`). -/
def borderSpec (m : Mode) (cc len : Int) : Option Int :=
  match m with
  | .nearest => some (clampSpec cc len)
  | .wrap => some (wrapSpec cc len)
  | .reflect => some (reflectSpec cc len)
  | .mirror => some (mirrorSpec cc len)
  | .constant | .ignore => if 0 ≤ cc ∧ cc < len then some cc else none

/-- apply a border rule coordinate-wise; `none` if any coordinate is flagged
    (this is what one entry of the offset table of `init_filter_offsets` encodes). -/
def fixPos (m : Mode) : List Nat → List Int → Option (List Int)
  | d :: ds, p :: ps =>
    match fixOffset m p d, fixPos m ds ps with
    | some c, some cs => some (c :: cs)
    | _, _ => none
  | _, _ => some []

def specPos (m : Mode) : List Nat → List Int → Option (List Int)
  | d :: ds, p :: ps =>
    match borderSpec m p d, specPos m ds ps with
    | some c, some cs => some (c :: cs)
    | _, _ => none
  | _, _ => some []

def clampPos : List Nat → List Int → List Int
  | d :: ds, p :: ps => clampSpec p d :: clampPos ds ps
  | _, _ => []

end Mahotas
