/-
C01 — erosion and dilation (`_morph.cpp`: `erode`, `dilate`, `fast_binary_dilate_erode_2d`;
`morph.py`: `get_structuring_elem`, `disk`).
-/
import Mahotas.Model.Border
import Mahotas.Model.DType
namespace Mahotas.C01
open Mahotas

/-- The support of a structuring element as the filter iterator sees it: offsets `k - c`
    (C order) with their heights. With `compress` (bool images only, `is_bool(T())`)
    zero entries are dropped; otherwise every entry is kept and the arithmetic helpers decide. -/
def support (bshape : List Nat) (bc : Array Int) (compress : Bool) : List (List Int × Int) :=
  let c := centreOf bshape
  ((List.range (shapeSize bshape)).filterMap fun i =>
    let h := bc.getD i 0
    if compress && h == 0 then none else some (subPos (unravelI bshape i) c, h))

/-- read through the border rule the kernels use (`ExtendNearest`). -/
def readNearest (A : Img Int) (p : List Int) : Int :=
  match fixPos .nearest A.shape p with
  | some q => A.getD q 0
  | none => 0

/-- model of `erode<T>`: gather, running minimum starting from `max`. -/
def erodeAt (dt : DT) (A : Img Int) (sup : List (List Int × Int)) (p : List Int) : Int :=
  sup.foldl (fun v kh => min v (erodeSub dt (readNearest A (addPos p kh.1)) kh.2)) dt.hi

/-- `erode<T>` at one pixel as the inner loop is written, with the early exit
    `if (value == std::numeric_limits<T>::min()) break;` (an empty element gives the dtype maximum,
    which is also what the `if (!N2)` branch fills in). -/
def erodeAtExit (dt : DT) (A : Img Int) (sup : List (List Int × Int)) (p : List Int) : Int :=
  go sup dt.hi
where
  go : List (List Int × Int) → Int → Int
    | [], v => v
    | kh :: t, v =>
      let v' := min v (erodeSub dt (readNearest A (addPos p kh.1)) kh.2)
      if v' = dt.lo then v' else go t v'

def erodeModel (dt : DT) (A : Img Int) (sup : List (List Int × Int)) : Array Int :=
  ((allPos A.shape).map (erodeAtExit dt A sup)).toArray

/-- membership test of the specification: for bool images a non-zero entry, otherwise any entry
    different from the dtype minimum ("an entry equal to the dtype's smallest value means not in the element") -/
def isMember (dt : DT) (kh : List Int × Int) : Bool :=
  if dt.isBool then kh.2 ≠ 0 else kh.2 ≠ dt.lo

/-- specification: minimum over the members of the element of
    `saturate(A[clamp(p + k)] - h)`; empty minimum = dtype maximum. -/
def erodeSpecAt (dt : DT) (A : Img Int) (sup : List (List Int × Int)) (p : List Int) : Int :=
  (sup.filter (isMember dt)).foldl (fun v kh =>
      let a := A.getD (clampPos A.shape (addPos p kh.1)) 0
      min v (if dt.isBool then a else dt.clamp (a - kh.2))) dt.hi

/-- one scatter step of `dilate<T>`: pixel `p` raises every `clamp(p + k)` to `dilate_add(v, h)`. -/
def dilateScatter (dt : DT) (shape : List Nat) (v : Int) (p : List Int)
    (out : Array Int) (kh : List Int × Int) : Array Int :=
  match fixPos .nearest shape (addPos p kh.1) with
  | some q =>
    let i := ravelI shape q
    let nval := dilateAdd dt v kh.2
    if nval > out.getD i dt.lo then out.setIfInBounds i nval else out
  | none => out

/-- model of `dilate<T>` (scatter with clamp, running maximum, `min` is absorbing). -/
def dilateModel (dt : DT) (A : Img Int) (sup : List (List Int × Int)) : Array Int :=
  (allPos A.shape).foldl (fun out p =>
      let v := A.getD p dt.lo
      if v = dt.lo then out else sup.foldl (dilateScatter dt A.shape v p) out)
    (Array.replicate A.size dt.lo)

/-- specification (gather): maximum over the members of `saturate(A[clamp(q - k)] + h)`;
    image values equal to the dtype minimum are absorbing (−∞), empty maximum = dtype minimum. -/
def dilateSpecAt (dt : DT) (A : Img Int) (sup : List (List Int × Int)) (q : List Int) : Int :=
  (sup.filter (isMember dt)).foldl (fun v kh =>
      let a := A.getD (clampPos A.shape (subPos q kh.1)) dt.lo
      max v (if a = dt.lo then dt.lo else if dt.isBool then a else dt.clamp (a + kh.2))) dt.lo

/-- pixel `q` is *box-interior*: the element box placed at `q` and its reflection both lie inside the image. -/
def boxInterior (shape bshape : List Nat) (q : List Int) : Bool :=
  let c := centreOf bshape
  let far := subPos (bshape.map fun (d : Nat) => ((d : Int) - 1)) c
  inside shape (subPos q c) && inside shape (addPos q far) &&
  inside shape (subPos q far) && inside shape (addPos q c)

/-- the support is coordinate-wise star-shaped: with `k` every `k'` between 0 and `k`
    (coordinate-wise) is a member — true of centred crosses, boxes and disks. -/
def between (k' k : List Int) : Bool :=
  match k', k with
  | a :: as, b :: bs => ((decide (0 ≤ a) && decide (a ≤ b)) || (decide (b ≤ a) && decide (a ≤ 0))) && between as bs
  | [], [] => true
  | _, _ => false

def boxOffsets (bshape : List Nat) : List (List Int) :=
  (allPos bshape).map fun k => subPos k (centreOf bshape)

def starShaped (bshape : List Nat) (members : List (List Int)) : Bool :=
  members.all fun k => (boxOffsets bshape).all fun k' => !between k' k || members.contains k'

/-- flat: every member has the same height -/
def flatHeights (hs : List Int) : Bool :=
  match hs with
  | [] => true
  | h :: t => t.all (· == h)

/-! ### `fast_binary_dilate_erode_2d` (C-contiguous 2-D bool) -/

/-- the offset list built at the top of the fast path, `(dy, dx)` with `dx` clamped to `±Nx`
    (centre excluded); for dilation the offsets are reflected. -/
def fastPositions (Nx : Int) (bshape : List Nat) (bc : Array Int) (isErosion : Bool) : List (Int × Int) :=
  match bshape with
  | [By, Bx] =>
    let Cy : Int := (By / 2 : Nat); let Cx : Int := (Bx / 2 : Nat)
    ((List.range (By * Bx)).filterMap fun i =>
      if bc.getD i 0 == 0 then none else
      let dy : Int := ((i / Bx : Nat) : Int) - Cy
      let dx : Int := ((i % Bx : Nat) : Int) - Cx
      if dy == 0 && dx == 0 then none else
      let dx := if dx > Nx then Nx else if dx < -Nx then -Nx else dx
      some (if isErosion then (dy, dx) else (-dy, -dx)))
  | _ => []

def centreSet (bshape : List Nat) (bc : Array Int) : Bool :=
  match bshape with
  | [By, Bx] => bc.getD ((By / 2) * Bx + Bx / 2) 0 != 0
  | _ => false

/-- erosion branch, pixel `(y, x)`: AND over the offsets of the clamped read. -/
def fastErodeAt (A : Img Int) (bshape : List Nat) (bc : Array Int) (p : List Int) : Int :=
  match A.shape, p with
  | [_, Nx], [y, x] =>
    let init : Bool := if centreSet bshape bc then A.getD p 0 != 0 else true
    let r := (fastPositions Nx bshape bc true).foldl (fun v d =>
        v && (A.getD (clampPos A.shape [y + d.1, x + d.2]) 0 != 0)) init
    if r then 1 else 0
  | _, _ => 0

/-! the erosion branch as the row loops are written -/

/-- `out[j] &= b` on a 0/1 cell of the flat output -/
def andInto (res : Array Int) (j : Nat) (b : Int) : Array Int :=
  res.setIfInBounds j (if res.getD j 0 != 0 && b != 0 then 1 else 0)

/-- the row `y + dy` after `if ((y + dy) < 0) dy = -y; if ((y + dy) >= Ny) dy = -y+(Ny-1);` -/
def fastRow (Ny y : Nat) (dy : Int) : Nat :=
  let dy : Int := if (y : Int) + dy < 0 then -(y : Int) else dy
  let dy : Int := if (y : Int) + dy ≥ Ny then -(y : Int) + ((Ny : Int) - 1) else dy
  ((y : Int) + dy).toNat

/-- one (row, offset) pass of the erosion branch: `orow`/`irow` are the flat starts of the output row
    `res.data(y)` and of the input row `array.data(y + dy)`; a border loop of `|dx|` iterations ANDs the
    replicated edge pixel into the far columns, then the main loop of `n = Nx − |dx|` iterations walks
    the two (shifted) row pointers. -/
def fastErodeRow (data : Array Int) (Nx orow irow : Nat) (dx : Int) (res : Array Int) : Array Int :=
  let n := Nx - dx.natAbs
  if dx > 0 then
    let res := (List.range dx.toNat).foldl (fun res i =>
      andInto res (orow + (Nx - i - 1)) (data.getD (irow + (Nx - 1)) 0)) res
    (List.range n).foldl (fun res i => andInto res (orow + i) (data.getD (irow + dx.toNat + i) 0)) res
  else if dx < 0 then
    let res := (List.range (-dx).toNat).foldl (fun res i => andInto res (orow + i) (data.getD irow 0)) res
    (List.range n).foldl (fun res i => andInto res (orow + (-dx).toNat + i) (data.getD (irow + i) 0)) res
  else
    (List.range n).foldl (fun res i => andInto res (orow + i) (data.getD (irow + i) 0)) res

/-- erosion branch of `fast_binary_dilate_erode_2d`, loop by loop (rows, offsets, border loop, main loop). -/
def fastErodeLoops (A : Img Int) (bshape : List Nat) (bc : Array Int) : Array Int :=
  match A.shape with
  | [Ny, Nx] =>
    let init : Array Int := if centreSet bshape bc then A.data else Array.replicate A.size 1
    (List.range Ny).foldl (fun res y =>
      (fastPositions Nx bshape bc true).foldl (fun res d =>
        fastErodeRow A.data Nx (y * Nx) (fastRow Ny y d.1 * Nx) d.2 res) res) init
  | _ => A.data

/-- dilation branch (as repaired: scatter with clamp, like the generic kernel). -/
def fastDilate (A : Img Int) (bshape : List Nat) (bc : Array Int) : Array Int :=
  match A.shape with
  | [_, Nx] =>
    let init : Array Int := if centreSet bshape bc then A.data else Array.replicate A.size 0
    (allPos A.shape).foldl (fun out p =>
      if A.getD p 0 == 0 then out else
      match p with
      | [y, x] => (fastPositions Nx bshape bc true).foldl (fun out d =>
            out.setIfInBounds (ravelI A.shape (clampPos A.shape [y + d.1, x + d.2])) 1) out
      | _ => out) init
  | _ => A.data

/-! the dilation branch as the row loops are written -/

/-- `out[j] |= b` on a 0/1 cell of the flat output -/
def orInto (res : Array Int) (j : Nat) (b : Int) : Array Int :=
  res.setIfInBounds j (if res.getD j 0 != 0 || b != 0 then 1 else 0)

/-- one (row, offset) pass of the dilation branch: `orow` is the flat start of the output row
    `res.data(y + dy)`, `irow` of the input row `array.data(y)`; the border loop of `|dx|` iterations ORs
    the pixels that would leave the image into the edge cell, then the main loop of `n = Nx − |dx|`
    iterations walks the two (shifted) row pointers. -/
def fastDilateRow (data : Array Int) (Nx orow irow : Nat) (dx : Int) (res : Array Int) : Array Int :=
  let n := Nx - dx.natAbs
  if dx > 0 then
    let res := (List.range dx.toNat).foldl (fun res i =>
      orInto res (orow + (Nx - 1)) (data.getD (irow + (Nx - i - 1)) 0)) res
    (List.range n).foldl (fun res i => orInto res (orow + dx.toNat + i) (data.getD (irow + i) 0)) res
  else if dx < 0 then
    let res := (List.range (-dx).toNat).foldl (fun res i => orInto res orow (data.getD (irow + i) 0)) res
    (List.range n).foldl (fun res i => orInto res (orow + i) (data.getD (irow + (-dx).toNat + i) 0)) res
  else
    (List.range n).foldl (fun res i => orInto res (orow + i) (data.getD (irow + i) 0)) res

/-- dilation branch of `fast_binary_dilate_erode_2d` (as repaired), loop by loop. -/
def fastDilateLoops (A : Img Int) (bshape : List Nat) (bc : Array Int) : Array Int :=
  match A.shape with
  | [Ny, Nx] =>
    let init : Array Int := if centreSet bshape bc then A.data else Array.replicate A.size 0
    (List.range Ny).foldl (fun res y =>
      (fastPositions Nx bshape bc true).foldl (fun res d =>
        fastDilateRow A.data Nx (fastRow Ny y d.1 * Nx) (y * Nx) d.2 res) res) init
  | _ => A.data

/-! ### `get_structuring_elem` for `None`/integer arguments, and `disk` -/

/-- the ℓ1 ball of radius `r` in `{0,1,2}^d` as a 0/1 array (C order) -/
def crossElem (d : Nat) (r : Int) : Array Int :=
  let shape := List.replicate d 3
  ((allPos shape).map fun k =>
    let s : Int := (k.map fun x => ((x - 1).natAbs : Int)).foldl (· + ·) 0
    if s ≤ r then (1 : Int) else 0).toArray

def diskElem (d : Nat) (r : Nat) : Array Int :=
  let shape := List.replicate d (2 * r + 1)
  ((allPos shape).map fun k =>
    let s := (k.map fun x => (x - (r : Int)) * (x - (r : Int))).foldl (· + ·) 0
    if s < ((r * r : Nat) : Int) then (1 : Int) else 0).toArray

/-! ### driver entry -/

def handle (a : Args) : String :=
  let dt := DT.ofName (a.str "dt")
  let shape := a.nats "shape"
  let A : Img Int := { shape := shape, data := (a.ints "data").toArray }
  let bshape := a.nats "bshape"
  let bc := (a.ints "bc").toArray
  let sup := support bshape bc dt.isBool
  let members := sup.filter (isMember dt)
  match a.str "kind" with
  | "erode" =>
    let spec := (allPos shape).map (erodeSpecAt dt A sup)
    let model := (erodeModel dt A sup).toList
    let fast := if dt.isBool && shape.length == 2 then (allPos shape).map (fastErodeAt A bshape bc) else model
    let loops := if dt.isBool && shape.length == 2 then (fastErodeLoops A bshape bc).toList else model
    s!"spec={showInts spec} model={showInts model} fast={showInts fast} loops={showInts loops}"
  | "dilate" =>
    let spec := (allPos shape).map (dilateSpecAt dt A sup)
    let model := (dilateModel dt A sup).toList
    let fast := if dt.isBool && shape.length == 2 then (fastDilate A bshape bc).toList else model
    let loops := if dt.isBool && shape.length == 2 then (fastDilateLoops A bshape bc).toList else model
    let regular := starShaped bshape (members.map (·.1)) && flatHeights (members.map (·.2))
    let obs := (allPos shape).map fun q => regular || boxInterior shape bshape q
    s!"spec={showInts spec} model={showInts model} fast={showInts fast} loops={showInts loops} obs={showBools obs}"
  | "cross" => s!"elem={showInts (crossElem (a.nat "d") (a.int "r")).toList}"
  | "disk" => s!"elem={showInts (diskElem (a.nat "d") (a.nat "r")).toList}"
  | k => s!"error=unknown-kind-{k}"

end Mahotas.C01
