/-
C01 — erosion and dilation (`_morph.cpp`: `erode`, `dilate`, `fast_binary_dilate_erode_2d`;
`morph.py`: `get_structuring_elem`, `disk`).
-/
import Mahotas.Model.Border
import Mahotas.Model.DType
import Mahotas.Generated.Tables
namespace Mahotas.C01
open Mahotas

/-- The support of a structuring element as the filter iterator sees it: offsets `k - c`
    (C order) with their heights. With `compress` (bool images only, `is_bool(T())`)
    zero entries are dropped; otherwise every entry is kept and the arithmetic helpers decide. -/
def support (bshape : List Nat) (bc : Array Int) (compress : Bool) : List (List Int × Int) :=
  let c := centreOf bshape
  ((List.range (shapeSize bshape)).filterMap fun i =>
    let h := bc.getD i 0
    if compress && h == 0 then none else some (subPos (unravelI bshape i) c, h))

/-- read through the border rule the kernels use (`ExtendNearest`). -/
def readNearest (A : Img Int) (p : List Int) : Int :=
  match fixPos .nearest A.shape p with
  | some q => A.getD q 0
  | none => 0

/-- model of `erode<T>`: gather, running minimum starting from `max`. -/
def erodeAt (dt : DT) (A : Img Int) (sup : List (List Int × Int)) (p : List Int) : Int :=
  sup.foldl (fun v kh => min v (erodeSub dt (readNearest A (addPos p kh.1)) kh.2)) dt.hi

/-- `erode<T>` at one pixel as the inner loop is written, with the early exit
    `if (value == std::numeric_limits<T>::min()) break;` (an empty element gives the dtype maximum,
    which is also what the `if (!N2)` branch fills in). -/
def erodeAtExit (dt : DT) (A : Img Int) (sup : List (List Int × Int)) (p : List Int) : Int :=
  go sup dt.hi
where
  go : List (List Int × Int) → Int → Int
    | [], v => v
    | kh :: t, v =>
      let v' := min v (erodeSub dt (readNearest A (addPos p kh.1)) kh.2)
      if v' = dt.lo then v' else go t v'

def erodeModel (dt : DT) (A : Img Int) (sup : List (List Int × Int)) : Array Int :=
  ((allPos A.shape).map (erodeAtExit dt A sup)).toArray

/-- membership test of the specification: for bool images a non-zero entry, otherwise any entry
    different from the dtype minimum ("an entry equal to the dtype's smallest value means not in the element") -/
def isMember (dt : DT) (kh : List Int × Int) : Bool :=
  if dt.isBool then kh.2 ≠ 0 else kh.2 ≠ dt.lo

/-- specification: minimum over the members of the element of
    `saturate(A[clamp(p + k)] - h)`; empty minimum = dtype maximum. -/
def erodeSpecAt (dt : DT) (A : Img Int) (sup : List (List Int × Int)) (p : List Int) : Int :=
  (sup.filter (isMember dt)).foldl (fun v kh =>
      let a := A.getD (clampPos A.shape (addPos p kh.1)) 0
      min v (if dt.isBool then a else dt.clamp (a - kh.2))) dt.hi

/-- one scatter step of `dilate<T>`: pixel `p` raises every `clamp(p + k)` to `dilate_add(v, h)`. -/
def dilateScatter (dt : DT) (shape : List Nat) (v : Int) (p : List Int)
    (out : Array Int) (kh : List Int × Int) : Array Int :=
  match fixPos .nearest shape (addPos p kh.1) with
  | some q =>
    let i := ravelI shape q
    let nval := dilateAdd dt v kh.2
    if nval > out.getD i dt.lo then out.setIfInBounds i nval else out
  | none => out

/-- model of `dilate<T>` (scatter with clamp, running maximum, `min` is absorbing). -/
def dilateModel (dt : DT) (A : Img Int) (sup : List (List Int × Int)) : Array Int :=
  (allPos A.shape).foldl (fun out p =>
      let v := A.getD p dt.lo
      if v = dt.lo then out else sup.foldl (dilateScatter dt A.shape v p) out)
    (Array.replicate A.size dt.lo)

/-- specification (gather): maximum over the members of `saturate(A[clamp(q - k)] + h)`;
    image values equal to the dtype minimum are absorbing (−∞), empty maximum = dtype minimum. -/
def dilateSpecAt (dt : DT) (A : Img Int) (sup : List (List Int × Int)) (q : List Int) : Int :=
  (sup.filter (isMember dt)).foldl (fun v kh =>
      let a := A.getD (clampPos A.shape (subPos q kh.1)) dt.lo
      max v (if a = dt.lo then dt.lo else if dt.isBool then a else dt.clamp (a + kh.2))) dt.lo

/-- pixel `q` is *box-interior*: the element box placed at `q` and its reflection both lie inside the image. -/
def boxInterior (shape bshape : List Nat) (q : List Int) : Bool :=
  let c := centreOf bshape
  let far := subPos (bshape.map fun (d : Nat) => ((d : Int) - 1)) c
  inside shape (subPos q c) && inside shape (addPos q far) &&
  inside shape (subPos q far) && inside shape (addPos q c)

/-- the support is coordinate-wise star-shaped: with `k` every `k'` between 0 and `k`
    (coordinate-wise) is a member — true of centred crosses, boxes and disks. -/
def between (k' k : List Int) : Bool :=
  match k', k with
  | a :: as, b :: bs => ((decide (0 ≤ a) && decide (a ≤ b)) || (decide (b ≤ a) && decide (a ≤ 0))) && between as bs
  | [], [] => true
  | _, _ => false

def boxOffsets (bshape : List Nat) : List (List Int) :=
  (allPos bshape).map fun k => subPos k (centreOf bshape)

def starShaped (bshape : List Nat) (members : List (List Int)) : Bool :=
  members.all fun k => (boxOffsets bshape).all fun k' => !between k' k || members.contains k'

/-- coordinate-wise star-shaped **and height-monotone towards the centre**: every box offset `k'` between 0
    and a member `k` is a member whose height is at least that of `k` (flat star-shaped elements pass; so does
    the cross on a signed dtype, whose off-footprint cells are members of height 0; so does any "pyramid") -/
def starMonotone (bshape : List Nat) (members : List (List Int × Int)) : Bool :=
  members.all fun kh => (boxOffsets bshape).all fun k' =>
    !between k' kh.1 || members.any fun kh' => kh'.1 == k' && decide (kh.2 ≤ kh'.2)

/-- flat: every member has the same height -/
def flatHeights (hs : List Int) : Bool :=
  match hs with
  | [] => true
  | h :: t => t.all (· == h)

/-! ### `fast_binary_dilate_erode_2d` (C-contiguous 2-D bool) -/

/-- the offset list built at the top of the fast path, `(dy, dx)` with `dx` clamped to `±Nx`
    (centre excluded); for dilation the offsets are reflected. -/
def fastPositions (Nx : Int) (bshape : List Nat) (bc : Array Int) (isErosion : Bool) : List (Int × Int) :=
  match bshape with
  | [By, Bx] =>
    let Cy : Int := (By / 2 : Nat); let Cx : Int := (Bx / 2 : Nat)
    ((List.range (By * Bx)).filterMap fun i =>
      if bc.getD i 0 == 0 then none else
      let dy : Int := ((i / Bx : Nat) : Int) - Cy
      let dx : Int := ((i % Bx : Nat) : Int) - Cx
      if dy == 0 && dx == 0 then none else
      let dx := if dx > Nx then Nx else if dx < -Nx then -Nx else dx
      some (if isErosion then (dy, dx) else (-dy, -dx)))
  | _ => []

def centreSet (bshape : List Nat) (bc : Array Int) : Bool :=
  match bshape with
  | [By, Bx] => bc.getD ((By / 2) * Bx + Bx / 2) 0 != 0
  | _ => false

/-- erosion branch, pixel `(y, x)`: AND over the offsets of the clamped read. -/
def fastErodeAt (A : Img Int) (bshape : List Nat) (bc : Array Int) (p : List Int) : Int :=
  match A.shape, p with
  | [_, Nx], [y, x] =>
    let init : Bool := if centreSet bshape bc then A.getD p 0 != 0 else true
    let r := (fastPositions Nx bshape bc true).foldl (fun v d =>
        v && (A.getD (clampPos A.shape [y + d.1, x + d.2]) 0 != 0)) init
    if r then 1 else 0
  | _, _ => 0

/-! the erosion branch as the row loops are written -/

/-- `out[j] &= b` on a 0/1 cell of the flat output -/
def andInto (res : Array Int) (j : Nat) (b : Int) : Array Int :=
  res.setIfInBounds j (if res.getD j 0 != 0 && b != 0 then 1 else 0)

/-- the row `y + dy` after `if ((y + dy) < 0) dy = -y; if ((y + dy) >= Ny) dy = -y+(Ny-1);` -/
def fastRow (Ny y : Nat) (dy : Int) : Nat :=
  let dy : Int := if (y : Int) + dy < 0 then -(y : Int) else dy
  let dy : Int := if (y : Int) + dy ≥ Ny then -(y : Int) + ((Ny : Int) - 1) else dy
  ((y : Int) + dy).toNat

/-- one (row, offset) pass of the erosion branch: `orow`/`irow` are the flat starts of the output row
    `res.data(y)` and of the input row `array.data(y + dy)`; a border loop of `|dx|` iterations ANDs the
    replicated edge pixel into the far columns, then the main loop of `n = Nx − |dx|` iterations walks
    the two (shifted) row pointers. -/
def fastErodeRow (data : Array Int) (Nx orow irow : Nat) (dx : Int) (res : Array Int) : Array Int :=
  let n := Nx - dx.natAbs
  if dx > 0 then
    let res := (List.range dx.toNat).foldl (fun res i =>
      andInto res (orow + (Nx - i - 1)) (data.getD (irow + (Nx - 1)) 0)) res
    (List.range n).foldl (fun res i => andInto res (orow + i) (data.getD (irow + dx.toNat + i) 0)) res
  else if dx < 0 then
    let res := (List.range (-dx).toNat).foldl (fun res i => andInto res (orow + i) (data.getD irow 0)) res
    (List.range n).foldl (fun res i => andInto res (orow + (-dx).toNat + i) (data.getD (irow + i) 0)) res
  else
    (List.range n).foldl (fun res i => andInto res (orow + i) (data.getD (irow + i) 0)) res

/-- erosion branch of `fast_binary_dilate_erode_2d`, loop by loop (rows, offsets, border loop, main loop). -/
def fastErodeLoops (A : Img Int) (bshape : List Nat) (bc : Array Int) : Array Int :=
  match A.shape with
  | [Ny, Nx] =>
    let init : Array Int := if centreSet bshape bc then A.data else Array.replicate A.size 1
    (List.range Ny).foldl (fun res y =>
      (fastPositions Nx bshape bc true).foldl (fun res d =>
        fastErodeRow A.data Nx (y * Nx) (fastRow Ny y d.1 * Nx) d.2 res) res) init
  | _ => A.data

/-- dilation branch (as repaired: scatter with clamp, like the generic kernel). -/
def fastDilate (A : Img Int) (bshape : List Nat) (bc : Array Int) : Array Int :=
  match A.shape with
  | [_, Nx] =>
    let init : Array Int := if centreSet bshape bc then A.data else Array.replicate A.size 0
    (allPos A.shape).foldl (fun out p =>
      if A.getD p 0 == 0 then out else
      match p with
      | [y, x] => (fastPositions Nx bshape bc true).foldl (fun out d =>
            out.setIfInBounds (ravelI A.shape (clampPos A.shape [y + d.1, x + d.2])) 1) out
      | _ => out) init
  | _ => A.data

/-! the dilation branch as the row loops are written -/

/-- `out[j] |= b` on a 0/1 cell of the flat output -/
def orInto (res : Array Int) (j : Nat) (b : Int) : Array Int :=
  res.setIfInBounds j (if res.getD j 0 != 0 || b != 0 then 1 else 0)

/-- one (row, offset) pass of the dilation branch: `orow` is the flat start of the output row
    `res.data(y + dy)`, `irow` of the input row `array.data(y)`; the border loop of `|dx|` iterations ORs
    the pixels that would leave the image into the edge cell, then the main loop of `n = Nx − |dx|`
    iterations walks the two (shifted) row pointers. -/
def fastDilateRow (data : Array Int) (Nx orow irow : Nat) (dx : Int) (res : Array Int) : Array Int :=
  let n := Nx - dx.natAbs
  if dx > 0 then
    let res := (List.range dx.toNat).foldl (fun res i =>
      orInto res (orow + (Nx - 1)) (data.getD (irow + (Nx - i - 1)) 0)) res
    (List.range n).foldl (fun res i => orInto res (orow + dx.toNat + i) (data.getD (irow + i) 0)) res
  else if dx < 0 then
    let res := (List.range (-dx).toNat).foldl (fun res i => orInto res orow (data.getD (irow + i) 0)) res
    (List.range n).foldl (fun res i => orInto res (orow + i) (data.getD (irow + (-dx).toNat + i) 0)) res
  else
    (List.range n).foldl (fun res i => orInto res (orow + i) (data.getD (irow + i) 0)) res

/-- dilation branch of `fast_binary_dilate_erode_2d` (as repaired), loop by loop. -/
def fastDilateLoops (A : Img Int) (bshape : List Nat) (bc : Array Int) : Array Int :=
  match A.shape with
  | [Ny, Nx] =>
    let init : Array Int := if centreSet bshape bc then A.data else Array.replicate A.size 0
    (List.range Ny).foldl (fun res y =>
      (fastPositions Nx bshape bc true).foldl (fun res d =>
        fastDilateRow A.data Nx (fastRow Ny y d.1 * Nx) (y * Nx) d.2 res) res) init
  | _ => A.data

/-! ### `get_structuring_elem` for `None`/integer arguments, and `disk` -/

/-- the ℓ1 ball of radius `r` in `{0,1,2}^d` as a 0/1 array (C order) -/
def crossElem (d : Nat) (r : Int) : Array Int :=
  let shape := List.replicate d 3
  ((allPos shape).map fun k =>
    let s : Int := (k.map fun x => ((x - 1).natAbs : Int)).foldl (· + ·) 0
    if s ≤ r then (1 : Int) else 0).toArray

def diskElem (d : Nat) (r : Nat) : Array Int :=
  let shape := List.replicate d (2 * r + 1)
  ((allPos shape).map fun k =>
    let s := (k.map fun x => (x - (r : Int)) * (x - (r : Int))).foldl (· + ·) 0
    if s < ((r * r : Nat) : Int) then (1 : Int) else 0).toArray

/-! ### the Python dispatch: `get_structuring_elem(A, Bc)` (`morph.py`) -/

/-- the `Bc` argument of `get_structuring_elem` / `erode` / `dilate` as Python sees it -/
inductive BcArg where
  /-- `Bc is None` -/
  | none
  /-- `type(Bc) == int` (a Python integer of any size and sign) -/
  | int (v : Int)
  /-- an ndarray with integer or boolean entries: its shape and its entries in C order -/
  | array (bshape : List Nat) (bc : Array Int)

/-- the two `ValueError`s of `get_structuring_elem` -/
inductive SEError where
  /-- `A.ndim != Bc.ndim` -/
  | rank
  /-- `Bc.size == 0` -/
  | empty
deriving DecidableEq, Repr

/-- `(len(A.shape), Bc) in translate_sizes` and `translate_sizes[len(A.shape), Bc]`, over the table
    extracted from `morph.py` (`Generated.translateSizes`: (ndim, count, radius)) -/
def translateLookup (ndim : Nat) (v : Int) : Option Nat :=
  (Generated.translateSizes.find? fun t => t.1 == ndim && (t.2.1 : Int) == v).map (·.2.2)

/-- the cast `np.asanyarray(Bc, A.dtype)` of one integer/boolean entry: to bool `x != 0`, to an integer
    dtype the value modulo `2^bits` (C conversion) -/
def castTo (dt : DT) (x : Int) : Int :=
  if dt.isBool then (if x ≠ 0 then 1 else 0) else dt.wrap x

/-- the loop at the end of `get_structuring_elem`:
    `Bc = np.zeros((3,)*d); for i in range(Bc.size): pos = np.unravel_index(i, Bc.shape); pos -= centre;`
    `if np.sum(np.abs(pos)) <= max1: Bc.flat[i] = 1` (`centre` is all ones) -/
def crossLoop (d : Nat) (max1 : Int) : Array Int :=
  let shape := List.replicate d 3
  (List.range (shapeSize shape)).foldl (fun bc i =>
      let pos := unravelI shape i
      if (pos.map fun x => ((x - 1).natAbs : Int)).foldl (· + ·) 0 ≤ max1 then bc.setIfInBounds i 1 else bc)
    (Array.replicate (shapeSize shape) 0)

/-- the tail of `get_structuring_elem` once `Bc` is an integer: the literal 3×3 cross for 2-D arrays and
    `Bc == 1`, otherwise the loop -/
def crossOfInt (ndim : Nat) (r : Int) : List Nat × Array Int :=
  if ndim == 2 && r == 1 then ([3, 3], Generated.defaultCross.toArray)
  else (List.replicate ndim 3, crossLoop ndim r)

/-- `get_structuring_elem(A, Bc)` for an array `A` of dtype `dt` and rank `ndim`: the element's shape and its
    entries in C order (the returned array is C-contiguous and of dtype `dt`), or the `ValueError` raised. -/
def getStructuringElem (dt : DT) (ndim : Nat) (Bc : BcArg) : Except SEError (List Nat × Array Int) :=
  match Bc with
  | .none => .ok (crossOfInt ndim 1)
  | .int v =>
    match translateLookup ndim v with
    | some r => .ok (crossOfInt ndim r)
    | none => .ok (crossOfInt ndim v)
  | .array bshape bc =>
    if ndim != bshape.length then .error .rank
    else
      let bc := bc.map (castTo dt)
      if shapeSize bshape == 0 then .error .empty
      else .ok (bshape, bc)      -- `Bc.copy()` when not contiguous: same logical content

/-! ### the C++ dispatch: `py_erode` / `py_dilate` (`_morph.cpp`) -/

/-- the numpy flags of the input array that `PyArray_ISCARRAY` looks at -/
structure ArrFlags where
  cContiguous : Bool
  aligned : Bool
  writeable : Bool
  notSwapped : Bool
deriving DecidableEq, Repr

/-- `PyArray_ISCARRAY(array)`: `NPY_ARRAY_CARRAY = C_CONTIGUOUS | ALIGNED | WRITEABLE`, native byte order -/
def ArrFlags.isCArray (f : ArrFlags) : Bool := f.cContiguous && f.aligned && f.writeable && f.notSwapped

inductive Path where
  | fast | generic
deriving DecidableEq, Repr

/-- `numpy::check_type<bool>(array) && PyArray_NDIM(array) == 2 && PyArray_ISCARRAY(array)` -/
def pathOf (dt : DT) (ndim : Nat) (fl : ArrFlags) : Path :=
  if dt.isBool && ndim == 2 && fl.isCArray then .fast else .generic

/-- `py_erode`: the fast binary branch (row loops) or the generic `erode<T>` (which compresses the footprint
    for bool only) -/
def erodeDispatch (dt : DT) (fl : ArrFlags) (A : Img Int) (bshape : List Nat) (bc : Array Int) : Array Int :=
  match pathOf dt A.shape.length fl with
  | .fast => fastErodeLoops A bshape bc
  | .generic => erodeModel dt A (support bshape bc dt.isBool)

/-- `py_dilate` -/
def dilateDispatch (dt : DT) (fl : ArrFlags) (A : Img Int) (bshape : List Nat) (bc : Array Int) : Array Int :=
  match pathOf dt A.shape.length fl with
  | .fast => fastDilateLoops A bshape bc
  | .generic => dilateModel dt A (support bshape bc dt.isBool)

/-- `morph.erode(A, Bc)`: `get_structuring_elem`, then `_morph.erode` -/
def erodePy (dt : DT) (fl : ArrFlags) (A : Img Int) (Bc : BcArg) : Except SEError (Array Int) :=
  match getStructuringElem dt A.shape.length Bc with
  | .error e => .error e
  | .ok (bshape, bc) => .ok (erodeDispatch dt fl A bshape bc)

/-- `morph.dilate(A, Bc)` -/
def dilatePy (dt : DT) (fl : ArrFlags) (A : Img Int) (Bc : BcArg) : Except SEError (Array Int) :=
  match getStructuringElem dt A.shape.length Bc with
  | .error e => .error e
  | .ok (bshape, bc) => .ok (dilateDispatch dt fl A bshape bc)

/-! ### driver entry -/

/-- protocol: `arg=none | arg=int v=<n> | arg=array bshape=… bc=…` -/
def bcArgOf (a : Args) : BcArg :=
  match a.str "arg" with
  | "none" => .none
  | "int" => .int (a.int "v")
  | _ => .array (a.nats "bshape") (a.ints "bc").toArray

/-- protocol: `flags=c,a,w,s` (0/1 each: C-contiguous, aligned, writeable, native byte order) -/
def flagsOf (a : Args) : ArrFlags :=
  match a.ints "flags" with
  | [c, al, w, s] => { cContiguous := c != 0, aligned := al != 0, writeable := w != 0, notSwapped := s != 0 }
  | _ => { cContiguous := false, aligned := false, writeable := false, notSwapped := false }

def showSEError : SEError → String
  | .rank => "rank"
  | .empty => "empty"

def handle (a : Args) : String :=
  let dt := DT.ofName (a.str "dt")
  let shape := a.nats "shape"
  let A : Img Int := { shape := shape, data := (a.ints "data").toArray }
  -- the element: given as an array (`bshape`, `bc`), or — when `arg=` is present — whatever
  -- `get_structuring_elem(A, Bc)` makes of the Python-level argument
  let se : Except SEError (List Nat × Array Int) :=
    if a.has "arg" then getStructuringElem dt (if a.has "ndim" then a.nat "ndim" else shape.length) (bcArgOf a)
    else .ok (a.nats "bshape", (a.ints "bc").toArray)
  match se with
  | .error e => s!"error={showSEError e}"
  | .ok (bshape, bc) =>
  let sup := support bshape bc dt.isBool
  let members := sup.filter (isMember dt)
  -- `flags=` present: also print the path `py_erode`/`py_dilate` take and what they return
  let disp (f : DT → ArrFlags → Img Int → List Nat → Array Int → Array Int) : String :=
    if a.has "flags" then
      let fl := flagsOf a
      let p := match pathOf dt shape.length fl with | .fast => "fast" | .generic => "generic"
      s!" path={p} dispatch={showInts (f dt fl A bshape bc).toList}"
    else ""
  match a.str "kind" with
  | "erode" =>
    let spec := (allPos shape).map (erodeSpecAt dt A sup)
    let model := (erodeModel dt A sup).toList
    let fast := if dt.isBool && shape.length == 2 then (allPos shape).map (fastErodeAt A bshape bc) else model
    let loops := if dt.isBool && shape.length == 2 then (fastErodeLoops A bshape bc).toList else model
    s!"spec={showInts spec} model={showInts model} fast={showInts fast} loops={showInts loops}{disp erodeDispatch}"
  | "dilate" =>
    let spec := (allPos shape).map (dilateSpecAt dt A sup)
    let model := (dilateModel dt A sup).toList
    let fast := if dt.isBool && shape.length == 2 then (fastDilate A bshape bc).toList else model
    let loops := if dt.isBool && shape.length == 2 then (fastDilateLoops A bshape bc).toList else model
    let flat := starShaped bshape (members.map (·.1)) && flatHeights (members.map (·.2))
    let regular := flat || starMonotone bshape members
    let obs := (allPos shape).map fun q => regular || boxInterior shape bshape q
    let cls := if flat then "flat" else if regular then "monotone" else "none"
    s!"spec={showInts spec} model={showInts model} fast={showInts fast} loops={showInts loops} obs={showBools obs} cls={cls}{disp dilateDispatch}"
  | "getse" => s!"ok=1 bshape={showNats bshape} elem={showInts bc.toList}"
  | "cross" => s!"elem={showInts (crossElem (a.nat "d") (a.int "r")).toList}"
  | "disk" => s!"elem={showInts (diskElem (a.nat "d") (a.nat "r")).toList}"
  | k => s!"error=unknown-kind-{k}"

end Mahotas.C01
