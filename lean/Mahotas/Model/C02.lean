/-
C02 — opening, closing, conditional operators, top-hats, `subm`
(`morph.py`: `open`, `close`, `cerode`, `cdilate`, `tophat_open`, `tophat_close`, `subm`;
 `_morph.cpp`: `subm`). The compositions are exactly the Python ones, built from the C01 kernels.
-/
import Mahotas.Model.C01
import Mahotas.Model.C14
namespace Mahotas.C02
open Mahotas Mahotas.C01

/-- `_morph.erode(f, Bc, out)` as an image -/
def erodeImg (dt : DT) (A : Img Int) (sup : List (List Int × Int)) : Img Int :=
  -- the kernel's running minimum without the early exit of `erodeModel`; the exit is unobservable
  -- (`C01.erodeAtExit_eq` / `C01_erode_model_eq_spec`)
  { shape := A.shape, data := ((allPos A.shape).map (erodeAt dt A sup)).toArray }

/-- `_morph.dilate(f, Bc, out)` as an image -/
def dilateImg (dt : DT) (A : Img Int) (sup : List (List Int × Int)) : Img Int :=
  { shape := A.shape, data := dilateModel dt A sup }

/-- `np.minimum` / `np.maximum` / `subm` on two images of the same shape -/
def map2 (op : Int → Int → Int) (A B : Img Int) : Img Int :=
  { shape := A.shape
    data := ((List.range A.size).map fun i => op (A.data.getD i 0) (B.data.getD i 0)).toArray }

/-- `open(f) = dilate(erode(f).copy(), out=eroded)` -/
def openModel (dt : DT) (A : Img Int) (sup : List (List Int × Int)) : Img Int :=
  dilateImg dt (erodeImg dt A sup) sup

/-- `close(f) = erode(dilate(f).copy(), out=dilated)` -/
def closeModel (dt : DT) (A : Img Int) (sup : List (List Int × Int)) : Img Int :=
  erodeImg dt (dilateImg dt A sup) sup

/-- `cerode(f, g) = maximum(erode(maximum(f, g)), g)` -/
def cerodeModel (dt : DT) (f g : Img Int) (sup : List (List Int × Int)) : Img Int :=
  map2 max (erodeImg dt (map2 max f g) sup) g

/-- the loop of `cdilate`: `f = minimum(dilate(f), g)`, at most `n` times, stopping early at a fixed point -/
def cdilateLoop (dt : DT) (g : Img Int) (sup : List (List Int × Int)) : Nat → Img Int → Img Int
  | 0, f => f
  | n + 1, f =>
    let f' := map2 min (dilateImg dt f sup) g
    if f'.data == f.data then f' else cdilateLoop dt g sup n f'

/-- `cdilate(f, g, Bc, n)` -/
def cdilateModel (dt : DT) (f g : Img Int) (sup : List (List Int × Int)) (n : Nat) : Img Int :=
  cdilateLoop dt g sup n (map2 min f g)

/-- `subm(a, b)` element by element -/
def submModel (dt : DT) (a b : Img Int) : Img Int := map2 (submElem dt) a b

/-- `tophat_open(f) = subm(f, open(f))` -/
def tophatOpenModel (dt : DT) (f : Img Int) (sup : List (List Int × Int)) : Img Int :=
  submModel dt f (openModel dt f sup)

/-- `tophat_close(f) = subm(close(f), f)` -/
def tophatCloseModel (dt : DT) (f : Img Int) (sup : List (List Int × Int)) : Img Int :=
  submModel dt (closeModel dt f sup) f

/-! ### `open` / `close` as buffer programs (`morph.py:393-472` with `out=`)

`open(f, Bc, out)` runs `eroded = erode(f, Bc, out=out)` — the kernel stores `*rpos = value` into **every** cell
of the caller's buffer in scan order, whatever it held —, then `tmp = eroded.copy()`, then
`dilate(tmp, Bc, out=eroded)`: `std::fill(out, min)` followed by the scatter loop, which reads `tmp` and
raises cells of `eroded`. `close` is symmetric. A buffer is an `Array Int` of the size of the image
(`_get_output` checks dtype, shape and C-contiguity). -/

/-- `_morph.erode(A, Bc, out)`: every cell of `out` is overwritten, in scan order -/
def erodeInto (dt : DT) (A : Img Int) (sup : List (List Int × Int)) (out : Array Int) : Array Int :=
  (List.range A.size).foldl (fun o i => o.setIfInBounds i (erodeAt dt A sup (unravelI A.shape i))) out

/-- `std::fill(rpos, rpos + res.size(), v)` -/
def fillBuf (out : Array Int) (v : Int) : Array Int :=
  (List.range out.size).foldl (fun o i => o.setIfInBounds i v) out

/-- `_morph.dilate(A, Bc, out)` with `A` and `out` distinct buffers: fill, then scatter reading `A` -/
def dilateInto (dt : DT) (A : Img Int) (sup : List (List Int × Int)) (out : Array Int) : Array Int :=
  (allPos A.shape).foldl (fun o p =>
      let v := A.getD p dt.lo
      if v = dt.lo then o else sup.foldl (dilateScatter dt A.shape v p) o)
    (fillBuf out dt.lo)

/-- `open(f, Bc, out=out)` as the source runs it: erode into `out`, copy, dilate the copy into `out` -/
def openBuf (dt : DT) (A : Img Int) (sup : List (List Int × Int)) (out : Array Int) : Array Int :=
  let eroded := erodeInto dt A sup out
  let tmp : Img Int := { shape := A.shape, data := eroded }    -- `eroded.copy()`
  dilateInto dt tmp sup eroded

/-- `close(f, Bc, out=out)`: dilate into `out`, copy, erode the copy into `out` -/
def closeBuf (dt : DT) (A : Img Int) (sup : List (List Int × Int)) (out : Array Int) : Array Int :=
  let dilated := dilateInto dt A sup out
  let tmp : Img Int := { shape := A.shape, data := dilated }   -- `dilated.copy()`
  erodeInto dt tmp sup dilated

/-- `dilate(buf, Bc, out=buf)` — what `open` would run **without** the copy: input and output are the same
    memory, so the fill destroys the input and the loop reads the cells it is writing -/
def dilateInPlace (dt : DT) (shape : List Nat) (sup : List (List Int × Int)) (buf : Array Int) : Array Int :=
  (allPos shape).foldl (fun st p =>
      let v := st.getD (ravelI shape p) dt.lo
      if v = dt.lo then st else sup.foldl (dilateScatter dt shape v p) st)
    (fillBuf buf dt.lo)

/-- `erode(buf, Bc, out=buf)` — `close` without the copy: each stored minimum is read back by later pixels -/
def erodeInPlace (dt : DT) (shape : List Nat) (sup : List (List Int × Int)) (buf : Array Int) : Array Int :=
  (List.range (shapeSize shape)).foldl (fun st i =>
      st.setIfInBounds i (erodeAt dt { shape := shape, data := st } sup (unravelI shape i))) buf

/-- `open` without the copy (the aliasing the comment in the source warns about) -/
def openAliased (dt : DT) (A : Img Int) (sup : List (List Int × Int)) (out : Array Int) : Array Int :=
  dilateInPlace dt A.shape sup (erodeInto dt A sup out)

/-- `close` without the copy -/
def closeAliased (dt : DT) (A : Img Int) (sup : List (List Int × Int)) (out : Array Int) : Array Int :=
  erodeInPlace dt A.shape sup (dilateInto dt A sup out)

/-! ### `subm(a, b, out=…)` as a buffer program (`morph.py`: `out = _get_output(a, out)`; `if out is not a: out[:] = a`;
`_morph.subm(out, b)` — the C++ loop works **in place** on its first argument, one cell at a time) -/

/-- `_morph.subm(out, b)` with `out` and `b` distinct memory: cell `i` becomes `subm(out[i], b[i])` -/
def submInPlace (dt : DT) (out b : Array Int) : Array Int :=
  (List.range out.size).foldl (fun o i => o.setIfInBounds i (submElem dt (o.getD i 0) (b.getD i 0))) out

/-- `_morph.subm(out, out)`: both iterators walk the same memory -/
def submInPlaceSelf (dt : DT) (out : Array Int) : Array Int :=
  (List.range out.size).foldl (fun o i => o.setIfInBounds i (submElem dt (o.getD i 0) (o.getD i 0))) out

/-- `out[:] = a` -/
def copyInto (out a : Array Int) : Array Int :=
  (List.range out.size).foldl (fun o i => o.setIfInBounds i (a.getD i 0)) out

/-- what `out=` names: nothing / a separate buffer with arbitrary contents, the first operand, the second operand -/
inductive OutArg where
  | fresh (buf : Array Int)
  | aliasA
  | aliasB

/-- `morph.subm(a, b, out)` as it is since fix e250a86: when `out` shares memory with `b` the subtrahend is copied
    **before** `out` is overwritten with `a` -/
def submBuf (dt : DT) (a b : Array Int) : OutArg → Array Int
  | .aliasA => submInPlace dt a b
  | .fresh buf => submInPlace dt (copyInto buf a) b
  | .aliasB => submInPlace dt (copyInto b a) b          -- `b = b.copy()` first: the loop still reads the old `b`

/-- the wrapper before the fix: with `out=b`, `out[:] = a` destroyed `b` and the loop subtracted the buffer from itself -/
def submBufUnfixed (dt : DT) (a b : Array Int) : OutArg → Array Int
  | .aliasB => submInPlaceSelf dt (copyInto b a)
  | o => submBuf dt a b o

/-- the seeded numpy "fast path" for unsigned operands, `np.subtract(a, b, out=out); out[out > a] = 0`, run with
    `out=a`: the underflow mask is computed after `a` has been overwritten (so it is empty) -/
def submMaskAfter (dt : DT) (a b : Array Int) : Array Int :=
  let diff := (List.range a.size).foldl (fun o i => o.setIfInBounds i (dt.wrap (o.getD i 0 - b.getD i 0))) a
  -- `a` *is* `diff` now: `diff > a` is false everywhere
  (List.range diff.size).foldl (fun o i => if o.getD i 0 > diff.getD i 0 then o.setIfInBounds i 0 else o) diff

/-- largest height of a member of the element (0 for an empty one) -/
def maxHeight (dt : DT) (sup : List (List Int × Int)) : Int :=
  (sup.filter (isMember dt)).foldl (fun m kh => max m kh.2) 0

/-- the statement's "values stay clear of the dtype's saturation limits", made precise:
    every pixel lies in `[lo + 2H, hi - 2H]` with `H` the largest height of the element, so that two
    composed operators never saturate and never produce the absorbing value `lo`.
    Boolean images are always in the domain. -/
def clearOf (dt : DT) (sup : List (List Int × Int)) (A : Img Int) : Bool :=
  dt.isBool || A.data.all fun v => decide (dt.lo + 2 * maxHeight dt sup ≤ v) && decide (v ≤ dt.hi - 2 * maxHeight dt sup)

def handle (a : Args) : String :=
  let dt := DT.ofName (a.str "dt")
  match a.str "kind" with
  | "subm" =>
    let xs := a.ints "a"
    let ys := a.ints "b"
    let model := List.zipWith (submElem dt) xs ys
    let spec := List.zipWith (fun x y => dt.clamp (x - y)) xs ys
    let prog :=
      if a.has "outmode" then
        let arg := match a.str "outmode" with
          | "alias-a" => OutArg.aliasA
          | "alias-b" => OutArg.aliasB
          | _ => OutArg.fresh (a.ints "buf").toArray
        s!" prog={showInts (submBuf dt xs.toArray ys.toArray arg).toList}"
      else ""
    s!"model={showInts model} spec={showInts spec}{prog}"
  | "ops" =>
    let shape := a.nats "shape"
    let f : Img Int := { shape := shape, data := (a.ints "f").toArray }
    let g : Img Int := { shape := shape, data := (a.ints "g").toArray }
    let bshape := a.nats "bshape"
    let bc := (a.ints "bc").toArray
    let sup := support bshape bc dt.isBool
    let n := a.nat "n"
    let sh (x : Img Int) := showInts x.data.toList
    s!"erode={sh (erodeImg dt f sup)} dilate={sh (dilateImg dt f sup)} open={sh (openModel dt f sup)} close={sh (closeModel dt f sup)} cerode={sh (cerodeModel dt f g sup)} cdilate={sh (cdilateModel dt f g sup n)} thopen={sh (tophatOpenModel dt f sup)} thclose={sh (tophatCloseModel dt f sup)} clearf={if clearOf dt sup f then 1 else 0} clearg={if clearOf dt sup g then 1 else 0} symstar={if C14.symStarB (sup.filter (isMember dt)) then 1 else 0}" ++
      (if a.has "buf1" then
        s!" openbuf={showInts (openBuf dt f sup (a.ints "buf1").toArray).toList} closebuf={showInts (closeBuf dt f sup (a.ints "buf2").toArray).toList} openalias={showInts (openAliased dt f sup (a.ints "buf1").toArray).toList} closealias={showInts (closeAliased dt f sup (a.ints "buf2").toArray).toList}"
       else "")
  | k => s!"error=unknown-kind-{k}"

end Mahotas.C02
