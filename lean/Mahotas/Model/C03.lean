/-
C03 — `label` (`mahotas/_labeled.cpp`: `find`, `join`, `compress`, `label`; `labeled.py`: `label`).

The model is a transliteration: the int32 output buffer doubles as the union–find parent array
(`data[i] = i` for foreground, `-1` for background), every foreground pixel is joined with the
*value read at* each neighbour the filter iterator yields, every pixel is compressed, and the roots
are renumbered in order of first appearance with an ordered map seeded with `-1 ↦ 0`.
The specification (`specLabels`) is written independently: least flat index of the component
(fixpoint of neighbour-minimum over the symmetric adjacency) and numbering by counting roots.
-/
import Mahotas.Model.Border
import Mahotas.Model.DType
namespace Mahotas.C03
open Mahotas

/-! ### union–find on the label buffer -/

/-- `find(data, i)`: recursive, full path compression on the way back. `fuel` bounds the recursion
    (the C++ recursion terminates because the parent forest is acyclic; `N + 1` always suffices). -/
def find : Nat → Array Int → Nat → Array Int × Nat
  | 0, par, i => (par, i)
  | fuel + 1, par, i =>
    let p := par.getD i (-1)
    if p = (i : Int) then (par, i) else
    let res := find fuel par p.toNat
    (res.1.setIfInBounds i (res.2 : Int), res.2)

/-- `join(data, i, j)`: `data[find i] = find j`. -/
def join (fuel : Nat) (par : Array Int) (i j : Nat) : Array Int :=
  let r1 := find fuel par i
  let r2 := find fuel r1.1 j
  r2.1.setIfInBounds r1.2 (r2.2 : Int)

/-- `compress(data, i)` -/
def compress (fuel : Nat) (par : Array Int) (i : Nat) : Array Int := (find fuel par i).1

/-! ### neighbours through the filter iterator -/

/-- the offsets `k - c` (C order over the element, `c = shape / 2`) of the non-zero entries:
    `filter_iterator(..., compress = true)` -/
def offsets (bshape : List Nat) (bc : Array Int) : List (List Int) :=
  let c := centreOf bshape
  (List.range (shapeSize bshape)).filterMap fun i =>
    if bc.getD i 0 == 0 then none else some (subPos (unravelI bshape i) c)

/-- flat indices the iterator yields at position `p`, in footprint order. With `Mode.constant`
    (the code as repaired) an out-of-image neighbour is flagged and `retrieve` returns false;
    with `Mode.nearest` (the pinned code) it is clamped onto a border pixel. -/
def neighbours (m : Mode) (shape : List Nat) (offs : List (List Int)) (p : List Int) : List Nat :=
  offs.filterMap fun k => (fixPos m shape (addPos p k)).map (ravelI shape)

/-- one pixel of the scan loop: join `i` with the value stored at every retrieved neighbour -/
def scanPixel (m : Mode) (shape : List Nat) (offs : List (List Int)) (fuel : Nat)
    (par : Array Int) (i : Nat) : Array Int :=
  if par.getD i (-1) = -1 then par else
  (neighbours m shape offs (unravelI shape i)).foldl (fun par nb =>
      let v := par.getD nb (-1)
      if v = -1 then par else join fuel par i v.toNat) par

def initParents (data : List Int) : Array Int :=
  ((List.range data.length).map fun i => if data.getD i 0 ≠ 0 then (i : Int) else -1).toArray

/-- the parent array after the scan and the final compression of every pixel -/
def parents (m : Mode) (shape : List Nat) (data : List Int) (offs : List (List Int)) : Array Int :=
  let n := data.length
  let fuel := n + 1
  let par := (List.range n).foldl (scanPixel m shape offs fuel) (initParents data)
  (List.range n).foldl (fun par i => if par.getD i (-1) = -1 then par else compress fuel par i) par

/-! ### first-seen renumbering (shared with `relabel`) -/

/-- the `std::map<int,int> seen` loop: `seen` as an association list, `next` the next fresh label;
    returns the rewritten buffer and `next - 1`. -/
def renumGo (seen : List (Int × Int)) (next : Int) : List Int → List Int × Int
  | [] => ([], next - 1)
  | v :: vs =>
    match seen.lookup v with
    | some l => let r := renumGo seen next vs; (l :: r.1, r.2)
    | none => let r := renumGo ((v, next) :: seen) (next + 1) vs; (next :: r.1, r.2)

/-- renumber with `bg ↦ 0` (label: `bg = -1`; relabel: `bg = 0`) -/
def renumber (bg : Int) (vals : List Int) : List Int × Int := renumGo [(bg, 0)] 1 vals

/-- model of `label`: labels (C order) and the returned count -/
def labelModel (m : Mode) (shape : List Nat) (data : List Int) (bshape : List Nat) (bc : Array Int) :
    List Int × Int :=
  renumber (-1) (parents m shape data (offsets bshape bc)).toList

/-! ### address-level model (round 4): flat deltas into the int32 buffer

`label()` walks the C-contiguous int32 buffer `labeled` with `iter` (flat index `i`) and reads its neighbours as
`*(iter + offsets_[j])`: the offset table of `filter_iterator` holds, for the border class of the current position and the
`j`-th footprint entry `k`, either the border flag (`ExtendConstant`: the neighbour `p + k` leaves the image, `retrieve`
returns false) or the FLAT DELTA `Σ_d k_d · stride_d` with the element strides `stride_d = Π_{e>d} shape_e` of the buffer.
The coordinate model above computes the neighbour's coordinates and ravels them; this one adds the delta to the address. -/

/-- flat delta of the offset `k` in a C-contiguous buffer of shape `shape` (element strides) -/
def flatDelta : List Nat → List Int → Int
  | _ :: ds, k :: ks => k * (shapeSize ds : Int) + flatDelta ds ks
  | _, _ => 0

/-- `filter.retrieve(iter, j, arr_val)` at flat index `i` for the footprint entry `k`: `none` = the border flag
(`retrieve` returns false), `some a` = the ADDRESS (element index into the buffer) that is read -/
def retrieveAddr (shape : List Nat) (i : Nat) (k : List Int) : Option Nat :=
  if inside shape (addPos (unravelI shape i) k) then some ((i : Int) + flatDelta shape k).toNat else none

/-- one pixel of the scan loop on addresses: `if (filter.retrieve(iter, j, arr_val) && arr_val != -1) join(data, i, arr_val)` -/
def scanPixelAddr (shape : List Nat) (offs : List (List Int)) (fuel : Nat) (par : Array Int) (i : Nat) : Array Int :=
  if par.getD i (-1) = -1 then par else
  offs.foldl (fun par k =>
      match retrieveAddr shape i k with
      | none => par
      | some a =>
        let v := par.getD a (-1)
        if v = -1 then par else join fuel par i v.toNat) par

def parentsAddr (shape : List Nat) (data : List Int) (offs : List (List Int)) : Array Int :=
  let n := data.length
  let fuel := n + 1
  let par := (List.range n).foldl (scanPixelAddr shape offs fuel) (initParents data)
  (List.range n).foldl (fun par i => if par.getD i (-1) = -1 then par else compress fuel par i) par

/-- `label` on addresses: labels (C order) and the returned count -/
def labelAddr (shape : List Nat) (data : List Int) (bshape : List Nat) (bc : Array Int) : List Int × Int :=
  renumber (-1) (parentsAddr shape data (offsets bshape bc)).toList

/-- every address the scan reads: for the bounds statement (`C03_addr_reads_in_bounds`) and the driver -/
def addrReads (shape : List Nat) (n : Nat) (offs : List (List Int)) : List Nat :=
  (List.range n).flatMap fun i => offs.filterMap (retrieveAddr shape i)

/-! ### specification, computed independently of union–find -/

/-- symmetric inside-image foreground neighbours of flat index `i` -/
def symNeighbours (shape : List Nat) (fg : Array Bool) (offs : List (List Int)) (i : Nat) : List Nat :=
  let p := unravelI shape i
  (offs ++ offs.map negPos).filterMap fun k =>
    let q := addPos p k
    if inside shape q then
      let j := ravelI shape q
      if fg.getD j false then some j else none
    else none

/-- one relaxation sweep: every foreground pixel takes the minimum representative among itself and
    its symmetric neighbours; returns the new array and whether anything changed -/
def sweep (shape : List Nat) (fg : Array Bool) (offs : List (List Int)) (order : List Nat)
    (rep : Array Nat) : Array Nat × Bool :=
  order.foldl (fun (st : Array Nat × Bool) i =>
    if !fg.getD i false then st else
    let cur := st.1.getD i i
    let best := (symNeighbours shape fg offs i).foldl (fun b j => min b (st.1.getD j j)) cur
    if best < cur then (st.1.setIfInBounds i best, true) else st) (rep, false)

def fixRep (shape : List Nat) (fg : Array Bool) (offs : List (List Int)) (n : Nat) :
    Nat → Array Nat → Array Nat
  | 0, rep => rep
  | fuel + 1, rep =>
    let s1 := sweep shape fg offs (List.range n) rep
    let s2 := sweep shape fg offs (List.range n).reverse s1.1
    if s1.2 || s2.2 then fixRep shape fg offs n fuel s2.1 else s2.1

/-- specification of `label`: pixel `i` gets 0 when background, otherwise the rank (1-based) of its
    component among the components ordered by their least flat index; count = number of components. -/
def specLabels (shape : List Nat) (data : List Int) (bshape : List Nat) (bc : Array Int) : List Int × Int :=
  let n := data.length
  let fg : Array Bool := (data.map fun v => decide (v ≠ 0)).toArray
  let offs := offsets bshape bc
  let rep := fixRep shape fg offs n (2 * n + 2) ((List.range n).toArray)
  let isRoot := fun (r : Nat) => fg.getD r false && rep.getD r r == r
  let labels := (List.range n).map fun i =>
    if fg.getD i false then (((List.range (rep.getD i i + 1)).filter isRoot).length : Int) else 0
  (labels, (((List.range n).filter isRoot).length : Int))

/-! ### driver entry -/

def handle (a : Args) : String :=
  let shape := a.nats "shape"
  let data := a.ints "data"
  let bshape := a.nats "bshape"
  let bc := (a.ints "bc").toArray
  match a.str "kind" with
  | "label" =>
    let m := if a.str "mode" == "nearest" then Mode.nearest else Mode.constant
    let md := labelModel m shape data bshape bc
    let sp := specLabels shape data bshape bc
    let ad := labelAddr shape data bshape bc
    let reads := addrReads shape data.length (offsets bshape bc)
    let oob := (reads.filter fun a => decide (data.length ≤ a)).length
    s!"spec={showInts sp.1} nspec={sp.2} model={showInts md.1} nmodel={md.2} addr={showInts ad.1} naddr={ad.2} oob={oob}"
  | k => s!"error=unknown-kind-{k}"

end Mahotas.C03
