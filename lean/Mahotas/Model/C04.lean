/-
C04 — seeded watershed (`_morph.cpp`: `cwatershed`, `py_cwatershed`, `margin_of`;
`numpypp/array.hpp`: `pos_to_flat`, `flat_to_pos`, `at_flat`; `morph.py`: `cwatershed`).

Two executable definitions live here:

* the **specification** `specRun` — the property's own algorithm over *coordinates*: a queue of
  `(cost, insertion index, position)`, extract-min on `(cost, index)`, markers queued in scan
  order, a label handed to every still-unlabelled neighbour *inside the image*; a queued pixel
  visited from a pixel with another label is a line pixel. No margins, no flat deltas, no statuses.
* the **model** `modelRun` — a transliteration of the C++: neighbour table with flat deltas
  (zero deltas skipped) and Chebyshev steps, `margin_of` lower bounds with recomputation,
  statuses white/grey/black, flat-index access to the cost, the (zero-filled, as repaired)
  `res` and `lines` buffers.

Costs are integers: the flooding only ever *compares* costs, so the harness sends integer dtypes
as they are and floating surfaces as their dense ranks (NaN excluded).
-/
import Mahotas.Model.Border
import Mahotas.Model.DType
namespace Mahotas.C04
open Mahotas

/-! ### priority queue as a list: extract-min on `(cost, insertion index)` -/

/-- `MarkerInfo::operator<` reversed: `a` is served before `b` -/
def keyLt (a b : Int × Nat) : Bool := decide (a.1 < b.1) || (a.1 == b.1 && decide (a.2 < b.2))

def minBy {α : Type} (key : α → Int × Nat) : α → List α → α
  | m, [] => m
  | m, x :: xs => minBy key (if keyLt (key x) (key m) then x else m) xs

/-- the entry with the least `(cost, idx)` and the queue without it (insertion indices are unique) -/
def extractMin {α : Type} (key : α → Int × Nat) : List α → Option (α × List α)
  | [] => none
  | x :: xs =>
    let m := minBy key x xs
    some (m, (x :: xs).filter fun e => (key e).2 != (key m).2)

/-! ### writing into an image at a coordinate -/

def imgSet {α : Type} (im : Img α) (p : List Int) (v : α) : Img α :=
  if inside im.shape p then { im with data := im.data.setIfInBounds (ravelI im.shape p) v } else im

/-! ### specification: priority flooding over coordinates -/

structure SQE where
  cost : Int
  idx : Nat
  pos : List Int
deriving Repr

structure SSt where
  queue : List SQE
  idx : Nat
  label : Img Int
  lines : Img Bool

def SQE.key (e : SQE) : Int × Nat := (e.cost, e.idx)

/-- the offsets `k - centre` of the non-zero entries of the neighbourhood, in C order -/
def offsets (bshape : List Nat) (bc : Array Int) : List (List Int) :=
  (List.range (shapeSize bshape)).filterMap fun j =>
    if bc.getD j 0 == 0 then none else some (subPos (unravelI bshape j) (centreOf bshape))

/-- markers are queued in scan order and keep their labels -/
def specInit (surf : Img Int) (markers : Img Int) : SSt :=
  (allPos surf.shape).foldl (fun st p =>
      let m := markers.getD p 0
      if m == 0 then st else
        { st with queue := st.queue ++ [⟨surf.getD p 0, st.idx, p⟩], idx := st.idx + 1,
                  label := imgSet st.label p m })
    { queue := [], idx := 0,
      label := ⟨surf.shape, Array.replicate (shapeSize surf.shape) 0⟩,
      lines := ⟨surf.shape, Array.replicate (shapeSize surf.shape) false⟩ }

/-- the finalised pixel `p` looks at its neighbour `p + off` -/
def specVisit (surf : Img Int) (p : List Int) (st : SSt) (off : List Int) : SSt :=
  let q := addPos p off
  if !inside surf.shape q then st else
  let lp := st.label.getD p 0
  let lq := st.label.getD q 0
  if lq == 0 then
    -- still unlabelled: receives the label and is queued
    { st with queue := st.queue ++ [⟨surf.getD q 0, st.idx, q⟩], idx := st.idx + 1,
              label := imgSet st.label q lp }
  else if st.queue.any (fun e => e.pos == q) then
    -- queued: a line pixel when visited from another label
    if lp != lq then { st with lines := imgSet st.lines q true } else st
  else st

def specStep (surf : Img Int) (offs : List (List Int)) (st : SSt) : Option SSt :=
  match extractMin SQE.key st.queue with
  | none => none
  | some (e, rest) => some (offs.foldl (specVisit surf e.pos) { st with queue := rest })

def specRun (surf : Img Int) (offs : List (List Int)) : Nat → SSt → SSt
  | 0, st => st
  | n + 1, st =>
    match specStep surf offs st with
    | none => st
    | some st' => specRun surf offs n st'

/-! ### model: transliteration of `cwatershed<T>` -/

def axisMargin (n : Nat) (x : Int) : Int := min x ((n : Int) - x - 1)

/-- `std::numeric_limits<npy_intp>::max()` -/
def idxMax : Int := 9223372036854775807

/-- `margin_of(position, ref)` -/
def marginOf : List Nat → List Int → Int
  | d :: ds, p :: ps => min (axisMargin d p) (marginOf ds ps)
  | _, _ => idxMax

/-- `pos_to_flat` applied to an offset (entries may be negative) -/
def posToFlat : List Nat → List Int → Int
  | _ :: ds, p :: ps => p * (shapeSize ds : Int) + posToFlat ds ps
  | _, _ => 0

/-- Chebyshev length of an offset (`NeighbourElem::step`) -/
def chebStep : List Int → Int
  | [] => 0
  | x :: xs => max (x.natAbs : Int) (chebStep xs)

structure Nb where
  delta : Int
  step : Int
  off : List Int
deriving Repr

/-- the neighbour table of one offset; `delta == 0` entries are skipped (`if (!delta) continue`) -/
def nbOf (shape : List Nat) (o : List Int) : Option Nb :=
  let delta := posToFlat shape o
  if delta == 0 then none else some ⟨delta, chebStep o, o⟩

def neighbours (shape : List Nat) (offs : List (List Int)) : List Nb := offs.filterMap (nbOf shape)

structure QE where
  cost : Int
  idx : Nat
  pos : Nat
  margin : Int
deriving Repr

def QE.key (e : QE) : Int × Nat := (e.cost, e.idx)

/-- statuses: 0 white, 1 grey, 2 black -/
structure MSt where
  queue : List QE
  idx : Nat
  status : Array Nat
  res : Array Int
  lines : Array Bool

/-- marker scan: push `(cost, idx++, flat, margin_of)`, copy the label, mark grey -/
def modelInit (surf : Img Int) (markers : Img Int) : MSt :=
  let n := shapeSize surf.shape
  (List.range n).foldl (fun st i =>
      let m := markers.data.getD i 0
      if m == 0 then st else
        let mpos := unravelI surf.shape i
        { st with queue := st.queue ++ [⟨surf.data.getD i 0, st.idx, i, marginOf surf.shape mpos⟩],
                  idx := st.idx + 1,
                  res := st.res.setIfInBounds i m,
                  status := st.status.setIfInBounds i 1 })
    { queue := [], idx := 0, status := Array.replicate n 0,
      res := Array.replicate n 0, lines := Array.replicate n false }

/-- the bounds decision of the inner loop: `none` = `continue` (outside the image),
    `some (nmargin, margin')` = go on with the neighbour's margin and the updated lower bound -/
def nbCheck (shape : List Nat) (pos : Nat) (margin : Int) (nb : Nb) : Option (Int × Int) :=
  let nmargin := margin - nb.step
  if nmargin < 0 then
    let long := addPos (unravelI shape pos) nb.off
    let nm := marginOf shape long
    if nm < 0 then none
    else some (nm, if nm - nb.step > margin then nm - nb.step else margin)
  else some (nmargin, margin)

def modelVisit (surf : Img Int) (next : QE) (acc : MSt × Int) (nb : Nb) : MSt × Int :=
  let (st, margin) := acc
  match nbCheck surf.shape next.pos margin nb with
  | none => (st, margin)
  | some (nmargin, margin') =>
    let npos := ((next.pos : Int) + nb.delta).toNat
    -- `switch (status[npos])`: white / grey / (black: nothing)
    if st.status.getD npos 0 == 0 then
      ({ st with queue := st.queue ++ [⟨surf.data.getD npos 0, st.idx, npos, nmargin⟩],
                 idx := st.idx + 1,
                 res := st.res.setIfInBounds npos (st.res.getD next.pos 0),
                 status := st.status.setIfInBounds npos 1 }, margin')
    else if st.status.getD npos 0 == 1 then
      (if st.res.getD next.pos 0 != st.res.getD npos 0
        then { st with lines := st.lines.setIfInBounds npos true } else st, margin')
    else (st, margin')

def modelStep (surf : Img Int) (nbs : List Nb) (st : MSt) : Option MSt :=
  match extractMin QE.key st.queue with
  | none => none
  | some (e, rest) =>
    let st1 := { st with queue := rest, status := st.status.setIfInBounds e.pos 2 }
    some (nbs.foldl (modelVisit surf e) (st1, e.margin)).1

def modelRun (surf : Img Int) (nbs : List Nb) : Nat → MSt → MSt
  | 0, st => st
  | n + 1, st =>
    match modelStep surf nbs st with
    | none => st
    | some st' => modelRun surf nbs n st'

/-! ### driver entry -/

/-- every pixel is queued at most once, so `size + 1` steps always drain the queue
    (the driver reports `done` so that the harness can insist on it) -/
def fuelOf (shape : List Nat) : Nat := shapeSize shape + 1

def cwatershedSpec (surf markers : Img Int) (bshape : List Nat) (bc : Array Int) : SSt :=
  specRun surf (offsets bshape bc) (fuelOf surf.shape) (specInit surf markers)

def cwatershedModel (surf markers : Img Int) (bshape : List Nat) (bc : Array Int) : MSt :=
  modelRun surf (neighbours surf.shape (offsets bshape bc)) (fuelOf surf.shape) (modelInit surf markers)

/-- `markers = np.asanyarray(markers, np.int64)` (`morph.py:314`) on one value of an integer or boolean marker image
(`_verify_is_integer_type` has rejected every other dtype): numpy's C cast to a signed 64-bit integer — the value
modulo `2^64` read as two's complement. The identity on every dtype but `uint64`, whose values `≥ 2^63` become
negative labels. -/
def castMarker (v : Int) : Int :=
  let w := v % 18446744073709551616
  if w ≥ 9223372036854775808 then w - 18446744073709551616 else w

/-- the marker image as `_morph.cwatershed` receives it -/
def castMarkers (m : Img Int) : Img Int := ⟨m.shape, m.data.map castMarker⟩

/-- `mahotas.cwatershed(surface, markers, Bc)` below `get_structuring_elem`: the cast of the markers, then the kernel -/
def cwatershedPy (surf markers : Img Int) (bshape : List Nat) (bc : Array Int) : MSt :=
  cwatershedModel surf (castMarkers markers) bshape bc

def handle (a : Args) : String :=
  match a.str "kind" with
  | "ws" =>
    let shape := a.nats "shape"
    let surf : Img Int := ⟨shape, (a.ints "data").toArray⟩
    -- `mcast=1`: the markers are sent as the caller's values (any integer dtype) and cast here
    let markers : Img Int := if a.has "mcast" then castMarkers ⟨shape, (a.ints "markers").toArray⟩
      else ⟨shape, (a.ints "markers").toArray⟩
    let bshape := a.nats "bshape"
    let bc := (a.ints "bc").toArray
    let s := cwatershedSpec surf markers bshape bc
    let m := cwatershedModel surf markers bshape bc
    let done := s.queue.isEmpty && m.queue.isEmpty
    s!"spec={showInts s.label.data.toList} slines={showBools s.lines.data.toList} model={showInts m.res.toList} mlines={showBools m.lines.toList} done={if done then 1 else 0}"
  | k => s!"error=unknown-kind-{k}"

end Mahotas.C04
