/-
C05 — squared Euclidean distance transform and generalised Voronoi
(`_distance.cpp`: `dist_transform`, `py_dt`; `distance.py`: `distance`; `segmentation.py`: `gvoronoi`).

* **model**: the Felzenszwalb–Huttenlocher lower envelope of parabolas (`v`, `z` as a stack, top
  first; `z[0] = -inf` is `none`), the read-out walk `while (z[k+1] < q) ++k`, origin tracking, the
  pass along every axis, and the finite "infinity" fill values chosen in Python.
  All sampled values are integers; the only quotient is the intersection abscissa `s`, computed
  here in exact rational arithmetic (`Rat`). In the C code it is one correctly rounded double
  division of integers below 2^53 and is only ever *compared* with other such quotients or with
  integers, so every comparison has the same outcome for axis lengths below 2^12 (assumption).
* **specification**: brute-force minimum of the squared Euclidean distance to a background pixel.
-/
import Mahotas.Model.Border
import Mahotas.Model.DType
namespace Mahotas.C05
open Mahotas

/-! ### one-dimensional transform (`dist_transform`) -/

/-- abscissa at which the parabolas rooted at `u` and `v` intersect -/
def sInt (g : Nat → Rat) (u v : Nat) : Rat :=
  ((g v + (v : Rat) ^ 2) - (g u + (u : Rat) ^ 2)) / 2 / ((v : Rat) - (u : Rat))

/-- `(v[k], z[k])`, top of the stack first; `z = none` is `-inf` -/
abbrev Stack := List (Nat × Option Rat)

/-- `s <= z[k]` (the pop condition, `!(s > z[k])`) -/
def leOpt (s : Rat) : Option Rat → Bool
  | none => false
  | some z => decide (s ≤ z)

/-- `z[k] < x` -/
def ltOpt (z : Option Rat) (x : Rat) : Bool :=
  match z with
  | none => true
  | some z => decide (z < x)

/-- the `do { … --k; } while (true)` loop: pop while `s(v[k], q) <= z[k]` -/
def popTo (g : Nat → Rat) (q : Nat) : Stack → Stack
  | [] => []
  | (v, z) :: rest => if leOpt (sInt g v q) z then popTo g q rest else (v, z) :: rest

def topV : Stack → Nat
  | [] => 0
  | (v, _) :: _ => v

/-- `++k; v[k] = q; z[k] = s` -/
def push (g : Nat → Rat) (q : Nat) (st : Stack) : Stack :=
  (q, some (sInt g (topV (popTo g q st)) q)) :: popTo g q st

/-- the stack after the first loop has handled `q = 1 … m` -/
def build (g : Nat → Rat) : Nat → Stack
  | 0 => [(0, none)]
  | m + 1 => push g (m + 1) (build g m)

/-- root of the first entry from the top whose `z` is below `x`: the parabola that owns `x` -/
def owner : Stack → Rat → Nat
  | [], _ => 0
  | (v, z) :: rest, x => if ltOpt z x then v else owner rest x

/-- the read-out walk on the stack turned bottom first: `while (z[k+1] < q) ++k` -/
def advance (x : Rat) : List (Nat × Option Rat) → List (Nat × Option Rat)
  | e :: e' :: rest => if ltOpt e'.2 x then advance x (e' :: rest) else e :: e' :: rest
  | l => l

def headV : List (Nat × Option Rat) → Nat
  | [] => 0
  | (v, _) :: _ => v

/-- second loop: for `q = 0 … n-1` the owning root `v[k]`, walking `k` upwards -/
def readOwners (n : Nat) (bottomFirst : List (Nat × Option Rat)) : List Nat :=
  ((List.range n).foldl (fun (acc : List (Nat × Option Rat) × List Nat) (q : Nat) =>
      let cur := advance (q : Rat) acc.1
      (cur, acc.2 ++ [headV cur])) (bottomFirst, [])).2

/-- the owners as the C code finds them -/
def owners1d (f : Array Int) : List Nat :=
  let g : Nat → Rat := fun i => ((f.getD i 0 : Int) : Rat)
  match f.size with
  | 0 => []
  | m + 1 => readOwners (m + 1) (build g m).reverse

/-- the owners by searching the stack from the top (what the walk is proved/validated to compute) -/
def owners1dTop (f : Array Int) : List Nat :=
  let g : Nat → Rat := fun i => ((f.getD i 0 : Int) : Rat)
  match f.size with
  | 0 => []
  | m + 1 => (List.range (m + 1)).map fun (q : Nat) => owner (build g m) (q : Rat)

/-- `Df[q] = square(q - v[k]) + f[v[k]]` -/
def valueAt (f : Array Int) (q v : Nat) : Int := ((q : Int) - (v : Int)) ^ 2 + f.getD v 0

def dt1d (f : Array Int) : List Int :=
  (List.zip (List.range f.size) (owners1d f)).map fun qv => valueAt f qv.1 qv.2

/-- specification of one pass: `min_v (q - v)^2 + f v` -/
def minPlus1d (f : Array Int) (q : Nat) : Int :=
  (List.range f.size).foldl (fun m v => min m (valueAt f q v)) (valueAt f q 0)

/-! ### passes along the axes of an n-D array -/

/-- element stride (C order) of axis `ax` -/
def strideOf (shape : List Nat) (ax : Nat) : Nat := shapeSize (shape.drop (ax + 1))

/-- the root chosen by the read-out walk for abscissa `q` -/
def ownerAt (f : Array Int) (q : Nat) : Nat := (owners1d f).getD q 0

/-- the copy-back loop `for q: f[q*stride] = Df[q]` (and `orig[q*ostride] = ot[q]`): element `q` of the
staging buffer goes to address `addr q` -/
def writeLine (a : Array Int) (addr : Nat → Nat) (vals : Nat → Int) (n : Nat) : Array Int :=
  (List.range n).foldl (fun a q => a.setIfInBounds (addr q) (vals q)) a

/-- `dist_transform(Df, f, n, stride, z, v, orig, ot, ostride)` on the line whose `t`-th element lives at
address `addr t` of the value buffer and `oaddr t` of the origin buffer: the line is read, the owners
are computed, `Df[q] = (q - v[k])² + f[v[k]]` and `ot[q] = orig[v[k]]` are staged and then copied back -/
def dtLineA (fo : Array Int × Array Int) (addr oaddr : Nat → Nat) (n : Nat) : Array Int × Array Int :=
  let line : Array Int := ((List.range n).map fun (t : Nat) => fo.1.getD (addr t) 0).toArray
  let own : Array Nat := (owners1d line).toArray
  (writeLine fo.1 addr (fun q => valueAt line q (own.getD q 0)) n,
   writeLine fo.2 oaddr (fun q => fo.2.getD (oaddr (own.getD q 0)) 0) n)

/-- address of element `t` of a strided line: `f + offset` then `[t*stride]` (element units) -/
def lineAddr (off st : Int) (t : Nat) : Nat := (off + (t : Int) * st).toNat

/-- `dist_transform` on a strided line of the flat buffers -/
def dtLine (fo : Array Int × Array Int) (off st ooff ost : Int) (n : Nat) : Array Int × Array Int :=
  dtLineA fo (lineAddr off st) (lineAddr ooff ost) n

/-- one iteration of `for (k …)` in `py_dt`: `n = dim(k)` elements per line with stride `sk = strides[k]`,
`outer = size/n` lines starting at `start * strides[1-k]` -/
def dtPass (fo : Array Int × Array Int) (n outer : Nat) (b sk so ob osk oso : Int) : Array Int × Array Int :=
  (List.range outer).foldl (fun acc (start : Nat) =>
      dtLine acc (b + (start : Int) * so) sk (ob + (start : Int) * oso) osk n) fo

/-- `py_dt(f, orig)` on a 2-D view of shape `(d0, d1)`: data pointer at element `b` of the buffer,
element strides `(s0, s1)` — any sign, any order — and the same for `orig` (`ob`, `os0`, `os1`).
`size == 0` returns at once; otherwise the pass along axis 0 (`size/d0` lines) then along axis 1. -/
def pyDt (fo : Array Int × Array Int) (d0 d1 : Nat) (b s0 s1 ob os0 os1 : Int) : Array Int × Array Int :=
  let size := d0 * d1
  if size == 0 then fo else
    dtPass (dtPass fo d0 (size / d0) b s0 s1 ob os0 os1) d1 (size / d1) b s1 s0 ob os1 os0

/-- the Python loop of `distance()` for one axis of an array that is not 2-D:
`lines = np.moveaxis(f, axis, -1); for idx in np.ndindex(*lines.shape[:-1]): _distance.dt(lines[idx][None,:], None)`.
The lines are enumerated by their first element: the flat indices `i` whose coordinate along `ax`
is 0, in increasing order — which is the `ndindex` order of the remaining axes. Each call gets the `(1, n)` view with data pointer `i` and strides `(0, stride)`. -/
def passAxis (shape : List Nat) (ax : Nat) (fo : Array Int × Array Int) : Array Int × Array Int :=
  let n := shape.getD ax 1
  let st := strideOf shape ax
  (List.range (shapeSize shape)).foldl (fun (acc : Array Int × Array Int) i =>
      if (unravel shape i).getD ax 0 != 0 then acc else pyDt acc 1 n (i : Int) 0 (st : Int) (i : Int) 0 (st : Int))
    fo

def sumSq : List Nat → Int
  | [] => 0
  | s :: ss => (s : Int) * (s : Int) + sumSq ss

/-- the fill value for foreground pixels chosen in `distance.py` / `segmentation.py`:
    `len(shape)*max(shape)**2+1` for 2-D, `sum(s*s for s in shape)+1` otherwise -/
def sentinel (shape : List Nat) : Int :=
  if shape.length == 2 then 2 * ((shape.foldl max 0 : Nat) : Int) ^ 2 + 1
  else sumSq shape + 1

/-- `distance(bw)` (metric `euclidean2`) together with the tracked origins, as `distance.py` and
`segmentation.gvoronoi` drive `_distance.dt` now: `bw` non-zero = foreground; the buffers `f`
(`np.zeros(bw.shape)` filled with the sentinel) and `orig` (`np.arange(size).reshape(shape)`) are
C-contiguous. A 2-D array is handed to `py_dt` whole (strides `(d1, 1)`); for every other rank the
axes are processed in order through `(1, n)` views (`passAxis`). -/
def distanceModel (shape : List Nat) (bw : Array Int) : Array Int × Array Int :=
  let f0 : Array Int := bw.map fun b => if b == 0 then 0 else sentinel shape
  let o0 : Array Int := ((List.range (shapeSize shape)).map fun (i : Nat) => (i : Int)).toArray
  match shape with
  | [d0, d1] => pyDt (f0, o0) d0 d1 0 (d1 : Int) 1 0 (d1 : Int) 1
  | _ => (List.range shape.length).foldl (fun fo ax => passAxis shape ax fo) (f0, o0)

/-- the wrapper's last step: `metric='euclidean'` takes `np.sqrt(f, f)` of the double array that holds
the squared transform; `euclidean2` returns it as it is -/
def distanceWrapper (shape : List Nat) (bw : Array Int) (euclidean : Bool) : Array Float :=
  let f : Array Float := (distanceModel shape bw).1.map Float.ofInt
  if euclidean then f.map Float.sqrt else f

/-! ### the same passes at the level of coordinates

`distance.py` reaches the lines of an n-D array through `np.moveaxis`/`np.ndindex` views, i.e.
logically: every pixel receives the value of the 1-D transform of the line through it along the
axis. `distanceCoord` states the passes in this form (no strides); the driver runs it next to the
flat/stride form above and the harness insists that both agree with the implementation. -/

/-- the line through `p` along axis `ax` -/
def lineOf (im : Img Int) (p : List Int) (ax : Nat) : Array Int :=
  ((List.range (im.shape.getD ax 0)).map fun (t : Nat) => im.getD (p.set ax (t : Int)) 0).toArray

/-- one pass along axis `ax`: values and tracked origins (flat indices) -/
def passCoord (fo : Img Int × Img Int) (ax : Nat) : Img Int × Img Int :=
  (Img.tabulate fo.1.shape fun p =>
      let line := lineOf fo.1 p ax
      let q := (p.getD ax 0).toNat
      valueAt line q (ownerAt line q),
   Img.tabulate fo.1.shape fun p =>
      let line := lineOf fo.1 p ax
      let q := (p.getD ax 0).toNat
      fo.2.getD (p.set ax ((ownerAt line q : Nat) : Int)) 0)

/-- the initial images: 0 on the background, the fill value elsewhere; origins = own flat index -/
def initCoord (shape : List Nat) (bw : Array Int) : Img Int × Img Int :=
  (Img.tabulate shape fun p => if bw.getD (ravelI shape p) 0 == 0 then 0 else sentinel shape,
   Img.tabulate shape fun p => ((ravelI shape p : Nat) : Int))

def distanceCoord (shape : List Nat) (bw : Array Int) : Img Int × Img Int :=
  (List.range shape.length).foldl passCoord (initCoord shape bw)

/-! ### specification -/

def sqDist : List Int → List Int → Int
  | a :: as, b :: bs => (a - b) * (a - b) + sqDist as bs
  | _, _ => 0

/-- minimum squared distance from `p` to a pixel where `sel` holds; `none` if there is none -/
def nearest2 (shape : List Nat) (sel : Array Bool) (p : List Int) : Option Int :=
  (List.range (shapeSize shape)).foldl (fun (m : Option Int) i =>
      if sel.getD i false then
        let d := sqDist p (unravelI shape i)
        match m with
        | none => some d
        | some m => some (min m d)
      else m) none

/-- largest attainable squared distance inside the box -/
def maxDist2 : List Nat → Int
  | [] => 0
  | s :: ss => ((s : Int) - 1) * ((s : Int) - 1) + maxDist2 ss

/-- `edt2`: at every pixel the minimum squared distance to the background, `-1` when there is none -/
def edtSpec (shape : List Nat) (bw : Array Int) : List Int :=
  let sel := bw.map (· == 0)
  (allPos shape).map fun p => (nearest2 shape sel p).getD (-1)

/-- gvoronoi: for every pixel the labels of the labelled pixels at minimum distance -/
def voronoiSpec (shape : List Nat) (lab : Array Int) (p : List Int) : List Int :=
  let sel := lab.map (· != 0)
  match nearest2 shape sel p with
  | none => []
  | some d =>
    ((List.range (shapeSize shape)).filterMap fun i =>
      if sel.getD i false && sqDist p (unravelI shape i) == d then some (lab.getD i 0) else none).eraseDups

/-! ### `segmentation.gvoronoi` (every rank since the round-4 repair) -/

/-- `gvoronoi(labeled)`: `bw = (labeled == 0)`, the transform of `bw` with `orig = arange(size)` tracked through
`_distance.dt` (one call for a 2-D image, the per-axis loop over `(1, n)` line views of `f` AND `orig` otherwise —
both are what `distanceModel` does), result `labeled.flat[orig]` in C order. -/
def gvoronoiModel (shape : List Nat) (lab : Array Int) : List Int :=
  let bw := lab.map fun l => if l == 0 then (1 : Int) else 0
  (distanceModel shape bw).2.toList.map fun i => lab.getD i.toNat 0

/-! ### driver entry -/

def showAcc (xs : List (List Int)) : String :=
  ",".intercalate (xs.map fun l => "|".intercalate (l.map toString))

def handle (a : Args) : String :=
  let shape := a.nats "shape"
  match a.str "kind" with
  | "dist" =>
    let bw := (a.ints "data").toArray
    let m := (distanceCoord shape bw).1.data
    let fl := (distanceModel shape bw).1
    let spec := edtSpec shape bw
    let wrap := if a.has "eucl" then
        s!" wrap={showFloats (distanceWrapper shape bw (a.nat "eucl" == 1)).toList}" else ""
    s!"spec={showInts spec} model={showInts m.toList} flat={showInts fl.toList} maxd={maxDist2 shape}{wrap}"
  | "gvor" =>
    -- labels; background of the transform = labelled pixels
    let lab := (a.ints "data").toArray
    let bw := lab.map fun l => if l == 0 then (1 : Int) else 0
    let o := (distanceCoord shape bw).2.data
    let model := o.toList.map fun i => lab.getD i.toNat 0
    let flat := gvoronoiModel shape lab
    let acc := (allPos shape).map (voronoiSpec shape lab)
    s!"acc={showAcc acc} model={showInts model} flat={showInts flat}"
  | "distl" =>
    -- specification only, O(N * #background): for very long lines with sparse background
    let bw := (a.ints "data").toArray
    let sel := (List.range bw.size).filter fun i => bw.getD i 1 == 0
    let selP := sel.map (unravelI shape)
    let spec := (allPos shape).map fun p => (selP.foldl (fun (m : Option Int) q =>
        let d := sqDist p q
        match m with | none => some d | some m => some (min m d)) none).getD (-1)
    s!"spec={showInts spec} maxd={maxDist2 shape}"
  | "gvorl" =>
    -- specification only, O(N * #labelled pixels)
    let lab := (a.ints "data").toArray
    let sel := (List.range lab.size).filter fun i => lab.getD i 0 != 0
    let selP := sel.map fun i => (unravelI shape i, lab.getD i 0)
    let acc := (allPos shape).map fun p =>
      let d := selP.foldl (fun (m : Option Int) ql =>
        let d := sqDist p ql.1
        match m with | none => some d | some m => some (min m d)) none
      match d with
      | none => []
      | some d => (selP.filterMap fun ql => if sqDist p ql.1 == d then some ql.2 else none).eraseDups
    s!"acc={showAcc acc}"
  | "dt1d" =>
    let f := (a.ints "data").toArray
    let spec := (List.range f.size).map (minPlus1d f)
    s!"spec={showInts spec} model={showInts (dt1d f)} walk={showNats (owners1d f)} top={showNats (owners1dTop f)}"
  | k => s!"error=unknown-kind-{k}"

end Mahotas.C05
