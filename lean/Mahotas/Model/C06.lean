/-
C06 — convolve / convolve1d / gaussian_filter
(`_convolve.cpp`: `convolve<T>`, `convolve1d<T>`; `convolve.py`: `convolve`, `convolve1d`,
`gaussian_filter1d`, `gaussian_filter`).

The numeric kernels are written once, polymorphic in `[Add α] [Mul α] [Zero α]`: the driver runs
them at `Float` (bit-exact with the C++ `double` accumulation: SSE2, no contraction), the theorems
in `Properties/C06.lean` are about the same definitions over any commutative semiring.
-/
import Mahotas.Model.Border
import Mahotas.Model.DType
import Mahotas.Generated.Edge
namespace Mahotas.C06
open Mahotas

section kernels
variable {α : Type} [Add α] [Mul α] [Zero α]

/-! ### generic n-D kernel `convolve<T>` -/

/-- the kernel position `i` (C order) as an offset from the centre `shape/2` -/
def offsetOf (wshape : List Nat) (i : Nat) : List Int :=
  subPos (unravelI wshape i) (centreOf wshape)

/-- the filter as `filter_iterator(array, filter, mode, compress=true)` presents it: the non-zero
    weights in C order with their offsets `j − c`. -/
def support (isZero : α → Bool) (wshape : List Nat) (w : Array α) : List (List Int × α) :=
  (List.range (shapeSize wshape)).filterMap fun i =>
    let x := w.getD i 0
    if isZero x then none else some (offsetOf wshape i, x)

/-- `fiter.retrieve`: the sample at a possibly outside position, through `fix_offset` on every axis;
    `none` = `border_flag_value` (constant / ignore). -/
def sample (m : Mode) (f : Img α) (p : List Int) : Option α :=
  match fixPos m f.shape p with
  | some q => some (f.getD q 0)
  | none => none

/-- the accumulator `cur` of `convolve<T>` at pixel `p`: footprint order, flagged samples skipped. -/
def convAcc (m : Mode) (f : Img α) (sup : List (List Int × α)) (p : List Int) : α :=
  sup.foldl (fun cur kw =>
    match sample m f (addPos p kw.1) with
    | some v => cur + v * kw.2
    | none => cur) 0

/-! ### specification: the defining sum -/

/-- the sample the statement prescribes: `f` at the position the border rule selects; an
    out-of-image sample contributes 0 in `constant` (cval = 0) and is dropped in `ignore`. -/
def specSample (m : Mode) (f : Img α) (p : List Int) : α :=
  match specPos m f.shape p with
  | some q => f.getD q 0
  | none => 0

/-- `Σ_j w[j] · f[border(p + j − c)]`, `c = shape(w)/2`, over *all* kernel positions. -/
def convSpec (m : Mode) (f : Img α) (wshape : List Nat) (w : Array α) (p : List Int) : α :=
  ((List.range (shapeSize wshape)).map fun i =>
    w.getD i 0 * specSample m f (addPos p (offsetOf wshape i))).sum

/-! ### the row-wise fast path `convolve1d<T>` (2-D C-array view `[N0, N1]`, filter along axis 1) -/

/-- interior loop body: direct reads `base0[x + j − c]`, every weight (zeros included). -/
def fastInterior (f : Img α) (w : Array α) (y x : Nat) : α :=
  (List.range w.size).foldl (fun cur (j : Nat) =>
    cur + f.getD [(y : Int), (x : Int) + (j : Int) - ((w.size / 2 : Nat) : Int)] 0 * w.getD j 0) 0

/-- border loop body: offsets through `fix_offset(mode, x + j − c, N1)`; a flagged sample reads as 0. -/
def fastBorder (m : Mode) (f : Img α) (w : Array α) (N1 : Nat) (y x : Nat) : α :=
  (List.range w.size).foldl (fun cur (j : Nat) =>
    cur + (match fixOffset m ((x : Int) + (j : Int) - ((w.size / 2 : Nat) : Int)) N1 with
           | some o => f.getD [(y : Int), o] 0
           | none => 0) * w.getD j 0) 0

/-- `x = (x_ < centre ? x_ : (N1 − 1) − (x_ − centre))` -/
def borderX (c N1 x_ : Nat) : Nat := if x_ < c then x_ else (N1 - 1) - (x_ - c)

/-- the columns written by the interior loop `for (x = c; x != N1 − c; ++x)` (guarded by `c < N1`) -/
def interiorXs (Nf N1 : Nat) : List Nat :=
  if Nf / 2 ≥ N1 then [] else List.range' (Nf / 2) (N1 - Nf / 2 - Nf / 2)

/-- the columns written by the border loop `for (x_ = 0; x_ != 2c && x_ < N1; ++x_)` -/
def borderXs (Nf N1 : Nat) : List Nat :=
  (List.range (min (2 * (Nf / 2)) N1)).map (borderX (Nf / 2) N1)

/-- all columns written for one row, in program order -/
def fastXs (Nf N1 : Nat) : List Nat := interiorXs Nf N1 ++ borderXs Nf N1

/-- the writes `(y, x, cur)` of `convolve1d<T>` in program order -/
def fastWrites (m : Mode) (f : Img α) (w : Array α) (N0 N1 : Nat) : List (Nat × Nat × α) :=
  ((List.range N0).flatMap fun y => (interiorXs w.size N1).map fun x => (y, x, fastInterior f w y x)) ++
  ((borderXs w.size N1).flatMap fun x => (List.range N0).map fun y => (y, x, fastBorder m f w N1 y x))

/-- the output buffer after the writes (`none` = never written) -/
def applyWrites {β : Type} (N0 N1 : Nat) (ws : List (Nat × Nat × β)) : Array (Option β) :=
  ws.foldl (fun out (t : Nat × Nat × β) => out.setIfInBounds (t.1 * N1 + t.2.1) (some t.2.2))
    (Array.replicate (N0 * N1) none)

/-! ### `convolve1d` (Python): path choice and the transposition / reshape glue -/

/-- replace coordinate `axis` of a position -/
def setAxis : List Int → Nat → Int → List Int
  | [], _, _ => []
  | _ :: ps, 0, v => v :: ps
  | p :: ps, a + 1, v => p :: setAxis ps a v

/-- the row of the `(-1, N)` view that contains pixel `p`: `f.transpose(others + [axis]).reshape(-1, N)`
    read at the logical level, as a `[1, N]` image -/
def lineThrough (f : Img α) (axis : Nat) (p : List Int) : Img α :=
  let N1 := f.shape.getD axis 1
  { shape := [1, N1], data := ((List.range N1).map fun (x : Nat) => f.getD (setAxis p axis (x : Int)) 0).toArray }

/-- kernel shape `[1,…,Nf,…,1]` (`weights[None,…,:,…,None]`) -/
def embedShape (ndim axis Nf : Nat) : List Nat :=
  (List.range ndim).map fun d => if d = axis then Nf else 1

/-- value the fast path leaves at pixel `p` (accumulator, before the cast) -/
def fastAt (m : Mode) (f : Img α) (axis : Nat) (w : Array α) (p : List Int) : α :=
  let N1 := f.shape.getD axis 1
  let line := lineThrough f axis p
  let x := (p.getD axis 0).toNat
  if (interiorXs w.size N1).contains x then fastInterior line w 0 x else fastBorder m line w N1 0 x

/-- `convolve1d(f, w, axis, mode)` (Python) with the weights already cast: path choice
    `f.flags.contiguous and len(w) < f.shape[axis]`; `cast` is the store into the output dtype. -/
def convolve1dG (cast : α → α) (isZero : α → Bool) (m : Mode) (f : Img α) (contig : Bool) (axis : Nat)
    (w : Array α) : List α × Bool :=
  let N1 := f.shape.getD axis 1
  if contig && decide (w.size < N1) then
    ((allPos f.shape).map fun p => cast (fastAt m f axis w p), true)
  else
    let sup := support isZero (embedShape f.shape.length axis w.size) w
    ((allPos f.shape).map fun p => cast (convAcc m f sup p), false)

/-- one pass of `gaussian_filter`: `gaussian_filter1d` (= `convolve1d` with the weights `w`) along
    `ax` on a C-contiguous buffer, result stored in a buffer of the same shape -/
def gaussianPass (cast : α → α) (isZero : α → Bool) (m : Mode) (cur : Img α) (ax : Nat) (w : Array α) : Img α :=
  { shape := cur.shape, data := (convolve1dG cast isZero m cur true ax w).1.toArray }

/-- `gaussian_filter`: `for axis in range(array.ndim)` one pass per axis, weights `ws axis` -/
def gaussianFilterG (cast : α → α) (isZero : α → Bool) (m : Mode) (f : Img α) (ws : Nat → Array α) : Img α :=
  (List.range f.shape.length).foldl (fun cur ax => gaussianPass cast isZero m cur ax (ws ax)) f

end kernels

/-! ### Gaussian weights, polymorphic in the scalars and in the exponential -/

section gauss
variable {K : Type} [Add K] [Sub K] [Mul K] [Div K] [Neg K] [Zero K]

/-- the factor of one sample: `weights *= …` of `gaussian_filter1d` for the derivative order
    (`x` the abscissa, `v` the normalised Gaussian sample); orders above 3 are refused by the code -/
def gaussTerm (ofNat : Nat → K) (s2 : K) (order : Nat) (x v : K) : K :=
  match order with
  | 0 => v
  | 1 => v * (-x / s2)
  | 2 => v * ((x * x / s2 - ofNat 1) / s2)
  | _ => v * ((ofNat 3 - x * x / s2) * x / (s2 * s2))

/-- the weights of `gaussian_filter1d` for `lw = int(4σ + 0.5)`, `s2 = σ²`: samples `e x` of
    `exp(−x²/2σ²)` at `x = i − lw`, `i = 0 … 2·lw`, normalised by their sum, multiplied by the
    derivative polynomials, odd orders flipped (the kernel is applied by correlation). `ofNat` embeds
    the naturals (`np.arange(…, dtype=float)` and the literals `1.`, `3.0`); the driver passes
    `Float.ofNat` and `fun x => Float.exp (x * x / (-2.0 * s2))`, the theorems `Nat.cast` and any
    positive even function. -/
def gaussWeightsG (ofNat : Nat → K) (e : K → K) (s2 : K) (lw order : Nat) : Array K :=
  let xs := (List.range (2 * lw + 1)).map fun i => ofNat i - ofNat lw
  let g := xs.map e
  let tot := g.foldl (· + ·) 0
  let g := g.map (· / tot)
  let ws := (List.zip xs g).map fun xv => gaussTerm ofNat s2 order xv.1 xv.2
  (if order % 2 == 1 then ws.reverse else ws).toArray

end gauss

/-! ### `laplacian_2D` weights -/

section laplacian
variable {K : Type} [Add K] [Sub K] [Div K] [Neg K]

/-- the 3×3 weights of `laplacian_2D(array, alpha)` in C order, `alpha` already clamped to `[0, 1]`:
    `ver_hor_weight = (1. - alpha) / (alpha + 1.)`, `diag_weight = alpha / (alpha + 1.)`,
    `center = -4. / (alpha + 1.)`. -/
def laplacianWeightsG (ofNat : Nat → K) (alpha : K) : Array K :=
  let vh := (ofNat 1 - alpha) / (alpha + ofNat 1)
  let dg := alpha / (alpha + ofNat 1)
  let ce := (-(ofNat 4)) / (alpha + ofNat 1)
  #[dg, vh, dg, vh, ce, vh, dg, vh, dg]

end laplacian

/-! ### `edge.py` (round 4): `sobel` and `dog`, built from the C06 kernels

The filter tables are `Generated.hsobelNum` / `vsobelNum` / `…Div` / `…Shape`, regenerated from `edge.py` by
`translator/tables.py` on every run. -/

section edge
variable {K : Type} [Add K] [Sub K] [Mul K] [Div K] [Zero K]

/-- `np.array([[…]])/8.`: every numerator over the divisor -/
def sobelWeightsG (ofInt : Int → K) (num : List Int) (div : Nat) : Array K :=
  (num.map fun n => ofInt n / ofInt (div : Int)).toArray

/-- the two linear responses of `sobel`: `vfiltered = convolve(img, _vsobel_filter, mode='nearest')` and
`hfiltered = convolve(img, _hsobel_filter, mode='nearest')` (generic kernel, float64 image: no cast) -/
def sobelLinearG (isZero : K → Bool) (ofInt : Int → K) (f : Img K) : List K × List K :=
  let wv := sobelWeightsG ofInt Generated.vsobelNum Generated.vsobelDiv
  let wh := sobelWeightsG ofInt Generated.hsobelNum Generated.hsobelDiv
  ((allPos f.shape).map fun p => convAcc .nearest f (support isZero Generated.vsobelShape wv) p,
   (allPos f.shape).map fun p => convAcc .nearest f (support isZero Generated.hsobelShape wh) p)

/-- `sobel(img, just_filter=True)` after the normalisation: `vfiltered**2 + hfiltered**2` -/
def sobelFilteredG (isZero : K → Bool) (ofInt : Int → K) (f : Img K) : List K :=
  let vh := sobelLinearG isZero ofInt f
  List.zipWith (fun v h => v * v + h * h) vh.1 vh.2

/-- `dog(img, sigma1, multiplier, just_filter=True)`: `G2 - G1`, both `gaussian_filter(img, σ, mode='nearest')` with the
per-axis weights `w1`, `w2` (float64: identity cast) -/
def dogG (isZero : K → Bool) (f : Img K) (w1 w2 : Nat → Array K) : List K :=
  List.zipWith (fun g2 g1 => g2 - g1) (gaussianFilterG id isZero .nearest f w2).data.toList
    (gaussianFilterG id isZero .nearest f w1).data.toList

end edge

/-! ### Float instantiation: dtype casts, Gaussian weights, driver -/

/-- C++ `T(cur)` / numpy `astype` for the value ranges the check uses (results inside the dtype range):
    f64 identity, f32 rounding, integers truncation toward zero, bool `!= 0`. -/
def castTo (dt : String) (x : Float) : Float :=
  match dt with
  | "f64" => x
  | "f32" => x.toFloat32.toFloat
  | "b1" => if x == 0 then 0 else 1
  | _ => if x < 0 then x.ceil else x.floor

def fIsZero (x : Float) : Bool := x == 0

/-! ### the C cast `static_cast<T>(double)` with its domain (round 4)

[conv.fpint]: a floating value converted to an integer type is truncated toward zero; the behaviour is UNDEFINED when
the truncated value cannot be represented in `T` (the docstring of `convolve` documents it). Polymorphic in the scalars
(`floor`/`ceil` abstract) so that the theorems (`C06_cast_in_range`) speak about the definition the driver runs at `Float`. -/

/-- truncation toward zero -/
def truncG {α : Type} [LT α] [DecidableRel (α := α) (· < ·)] (floor ceil : α → α) (zero x : α) : α :=
  if x < zero then ceil x else floor x

/-- `static_cast<T>(x)` for an integer type with the values `lo ≤ v < hi1`: `some` of the truncated value when it is
representable, `none` where the C++ standard leaves the conversion undefined (also NaN at `Float`: every comparison is
false). -/
def castIntG {α : Type} [LT α] [LE α] [DecidableRel (α := α) (· < ·)] [DecidableRel (α := α) (· ≤ ·)]
    (floor ceil : α → α) (zero lo hi1 x : α) : Option α :=
  let t := truncG floor ceil zero x
  if lo ≤ t ∧ t < hi1 then some t else none

/-- `(lo, hi + 1)` of the integer dtypes (both exactly representable doubles); `none` for `f64`, `f32`, `b1`, whose
conversions from double are defined for every value (`bool`: `x != 0`) -/
def dtBounds : String → Option (Float × Float)
  | "u8" => some (0, 256)
  | "u16" => some (0, 65536)
  | "u32" => some (0, 4294967296)
  | "u64" => some (0, 18446744073709551616)
  | "i8" => some (-128, 128)
  | "i16" => some (-32768, 32768)
  | "i32" => some (-2147483648, 2147483648)
  | "i64" => some (-9223372036854775808, 9223372036854775808)
  | _ => none

/-- is the conversion of the accumulator `x` to the dtype defined by the C++ standard? Exactly the cells where this is
`false` are excluded from the comparison with the real code. -/
def castDefined (dt : String) (x : Float) : Bool :=
  match dtBounds dt with
  | none => true
  | some (lo, hi1) => (castIntG Float.floor Float.ceil 0 lo hi1 x).isSome

/-- `weights.astype(f.dtype)`: numpy's cast is the same C conversion, so a weight whose truncation is not representable
(a negative weight for an unsigned image, 300 for `uint8`) puts the whole call outside the documented domain -/
def weightsDefined (dt : String) (w : Array Float) : Bool := w.all (castDefined dt)

def showDefined (xs : List Bool) : String := ",".intercalate (xs.map fun b => if b then "1" else "0")

/-- per pixel: is the cast of the accumulator of `convolve` defined? -/
def convolveDefined (dt : String) (m : Mode) (f : Img Float) (wshape : List Nat) (w : Array Float) : List Bool :=
  let wc := w.map (castTo dt)
  (allPos f.shape).map fun p => castDefined dt (convSpec m f wshape wc p)

def mkImg (shape : List Nat) (xs : List Float) : Img Float := { shape := shape, data := xs.toArray }

/-- `convolve(f, w, mode)`: weights cast to `f.dtype`, generic kernel, cast of the accumulator -/
def convolveModel (dt : String) (m : Mode) (f : Img Float) (wshape : List Nat) (w : Array Float) : List Float :=
  let wc := w.map (castTo dt)
  let sup := support fIsZero wshape wc
  (allPos f.shape).map fun p => castTo dt (convAcc m f sup p)

def convolveSpec (dt : String) (m : Mode) (f : Img Float) (wshape : List Nat) (w : Array Float) : List Float :=
  let wc := w.map (castTo dt)
  (allPos f.shape).map fun p => castTo dt (convSpec m f wshape wc p)

/-- normalised axis (`_get_axis`) -/
def normAxis (ndim : Nat) (axis : Int) : Nat := (if axis < 0 then axis + ndim else axis).toNat

/-- `convolve1d(f, w, axis, mode)`: Python path choice `f.flags.contiguous and len(w) < f.shape[axis]`;
    both paths see the weights cast to `f.dtype` (the fast path then widens them to double). -/
def convolve1dModel (dt : String) (m : Mode) (f : Img Float) (contig : Bool) (axis : Nat) (w : Array Float) :
    List Float × Bool :=
  convolve1dG (castTo dt) fIsZero m f contig axis (w.map (castTo dt))

def convolve1dSpec (dt : String) (m : Mode) (f : Img Float) (axis : Nat) (w : Array Float) : List Float :=
  convolveSpec dt m f (embedShape f.shape.length axis w.size) w

/-- `gaussian_filter1d` weights: `lw = int(4σ + 0.5)`, normalised samples of `exp(−x²/2σ²)`,
    derivative polynomials, odd orders flipped (the kernel is applied by correlation). -/
def gaussWeights (sigma : Float) (order : Nat) : Array Float :=
  let s2 := sigma * sigma
  let lw := (4.0 * sigma + 0.5).floor.toUInt64.toNat
  gaussWeightsG Float.ofNat (fun x => Float.exp (x * x / (-2.0 * s2))) s2 lw order

/-- `gaussian_filter`: successive `gaussian_filter1d` along axes 0, 1, …; every pass stores in `dt`. -/
def gaussianFilterModel (dt : String) (m : Mode) (f : Img Float) (contig : Bool)
    (sigmas : List Float) (orders : List Nat) : List Float :=
  -- the first pass reads a C-contiguous copy (`output[...] = array`), so every pass can take the fast path
  let _ := contig
  (gaussianFilterG (castTo dt) fIsZero m f fun ax =>
    (gaussWeights (sigmas.getD ax 1.0) (orders.getD ax 0)).map (castTo dt)).data.toList

/-- the Python argument `sigma` / `order` of `gaussian_filter`: a scalar or a sequence (list, tuple) -/
inductive SeqArg (α : Type) where
  | scalar (v : α)
  | seq (vs : List α)

/-- `_normalize_sequence(array, value, fname)` (`internal.py`): a scalar is repeated once per dimension; a sequence must have
one element per dimension, otherwise `ValueError` (`none`) -/
def normalizeSeq {α : Type} (ndim : Nat) : SeqArg α → Option (List α)
  | .scalar v => some (List.replicate ndim v)
  | .seq vs => if vs.length = ndim then some vs else none

/-- `gaussian_filter(array, sigma, order, mode)` from its Python arguments: both are normalised, then one
`gaussian_filter1d` pass per axis with `sigmas[axis]`, `orders[axis]` (`none` = the `ValueError` of `_normalize_sequence`) -/
def gaussianFilterPy (dt : String) (m : Mode) (f : Img Float) (sigma : SeqArg Float) (order : SeqArg Nat) :
    Option (List Float) :=
  match normalizeSeq f.shape.length order, normalizeSeq f.shape.length sigma with
  | some os, some ss => some (gaussianFilterModel dt m f true ss os)
  | _, _ => none

/-- `alpha = max(0, min(alpha, 1))` as Python evaluates it (`min` / `max` return the first argument
    unless a later one is strictly smaller / larger) -/
def clampAlpha (a : Float) : Float :=
  let y := if 1 < a then 1 else a
  if 0 < y then y else 0

def modeOf (a : Args) : Mode := (Mode.ofCode (a.nat "mode")).getD .reflect

def handle (a : Args) : String :=
  let dt := a.str "dt"
  let shape := a.nats "shape"
  let f := mkImg shape (a.floats "data")
  let m := modeOf a
  match a.str "kind" with
  | "convolve" =>
    let wshape := a.nats "wshape"
    let w := (a.floats "w").toArray
    s!"spec={showFloats (convolveSpec dt m f wshape w)} model={showFloats (convolveModel dt m f wshape w)} defined={showDefined (convolveDefined dt m f wshape w)} wdef={if weightsDefined dt w then 1 else 0}"
  | "convolve1d" =>
    let w := (a.floats "w").toArray
    let axis := normAxis shape.length (a.int "axis")
    let (model, fast) := convolve1dModel dt m f (a.nat "contig" == 1) axis w
    let dfd := convolveDefined dt m f (embedShape f.shape.length axis w.size) w
    s!"spec={showFloats (convolve1dSpec dt m f axis w)} model={showFloats model} path={if fast then "fast" else "generic"} defined={showDefined dfd} wdef={if weightsDefined dt w then 1 else 0}"
  | "fastwrites" =>
    -- the raw write sequence of the fast path on a 2-D image (columns per row, coverage)
    let w := (a.floats "w").toArray
    let N0 := shape.getD 0 0
    let N1 := shape.getD 1 0
    let out := applyWrites N0 N1 (fastWrites m f w N0 N1)
    let xs := fastXs w.size N1
    let vals := out.toList.map fun | some v => castTo dt v | none => 0
    let dfd := out.toList.map fun | some v => castDefined dt v | none => true
    s!"xs={showNats xs} unwritten={(out.toList.filter Option.isNone).length} out={showFloats vals} defined={showDefined dfd}"
  | "laplacian" =>
    -- `laplacian_2D(array, alpha)` = `convolve(array as double, weights(alpha), mode='nearest')`
    let w := laplacianWeightsG Float.ofNat (clampAlpha ((a.floats "alpha").headD 0.2))
    s!"spec={showFloats (convolveSpec "f64" .nearest f [3, 3] w)} model={showFloats (convolveModel "f64" .nearest f [3, 3] w)}"
  | "sobel" =>
    -- `sobel(img, just_filter=True)`: `img -= img.min(); ptp = np.ptp(img); if ptp == 0: return img; img /= ptp`, then
    -- the two 3×3 convolutions in `nearest` mode, squares, sum
    let xs := f.data.toList
    let mn := xs.foldl (fun a b => if b < a then b else a) (xs.headD 0)
    let x1 := xs.map (· - mn)
    let ptp := x1.foldl (fun a b => if a < b then b else a) 0
    if ptp == 0 then s!"model={showFloats x1} ptp=0"
    else
      let g := mkImg shape (x1.map (· / ptp))
      let vh := sobelLinearG fIsZero Float.ofInt g
      s!"model={showFloats (sobelFilteredG fIsZero Float.ofInt g)} v={showFloats vh.1} h={showFloats vh.2} ptp=1"
  | "dog" =>
    let s1 := (a.floats "sigma").headD 2.0
    let s2 := s1 * (a.floats "mult").headD 1.001
    s!"model={showFloats (dogG fIsZero f (fun _ => gaussWeights s1 0) (fun _ => gaussWeights s2 0))}"
  | "gaussw" =>
    s!"w={showFloats (gaussWeights ((a.floats "sigma").headD 1.0) (a.nat "order")).toList}"
  | "gaussian1d" =>
    let w := gaussWeights ((a.floats "sigma").headD 1.0) (a.nat "order")
    let axis := normAxis shape.length (a.int "axis")
    let (model, fast) := convolve1dModel dt m f (a.nat "contig" == 1) axis w
    s!"model={showFloats model} path={if fast then "fast" else "generic"}"
  | "gaussian" =>
    let sig := a.floats "sigma"
    let ord := a.nats "order"
    -- `sform=scalar` / `oform=scalar`: the caller passed a scalar (first entry); otherwise the sequence as sent
    let sa : SeqArg Float := if a.str "sform" == "scalar" then .scalar (sig.headD 1.0) else .seq sig
    let oa : SeqArg Nat := if a.str "oform" == "scalar" then .scalar (ord.headD 0) else .seq ord
    match gaussianFilterPy dt m f sa oa with
    | some r => s!"model={showFloats r}"
    | none => "raises=ValueError"
  | k => s!"error=unknown-kind-{k}"

end Mahotas.C06
