/-
C07 — rank / median / mean filters, template_match, find
(`_convolve.cpp`: `rank_filter<T>`, `mean_filter<T>`, `template_match<T>`, `find2d<T>`;
`convolve.py`: the wrappers). Values are exact integers (integer dtypes, or integer-valued floats);
`tmAtWrap` redoes `template_match` in the wrap-around arithmetic of an integer image dtype.
-/
import Mahotas.Model.Border
import Mahotas.Model.DType
namespace Mahotas.C07
open Mahotas

/-- kernel position `i` (C order) as an offset from the centre `shape/2` -/
def offsetOf (bshape : List Nat) (i : Nat) : List Int :=
  subPos (unravelI bshape i) (centreOf bshape)

/-- the neighbourhood as `filter_iterator(array, Bc, mode, compress=true)` presents it:
    offsets of the non-zero entries of `Bc`, C order -/
def footprint (bshape : List Nat) (bc : Array Int) : List (List Int) :=
  (List.range (shapeSize bshape)).filterMap fun i =>
    if bc.getD i 0 == 0 then none else some (offsetOf bshape i)

/-! ### samples -/

/-- the samples `rank_filter` / `mean_filter` gather at pixel `p`: in-image samples through
    `fix_offset`; a flagged sample becomes `cval = 0` in `constant` mode (the wrappers accept no other
    value) and is dropped in `ignore` mode. -/
def gather (m : Mode) (f : Img Int) (fp : List (List Int)) (p : List Int) : List Int :=
  fp.filterMap fun k =>
    match fixPos m f.shape (addPos p k) with
    | some q => some (f.getD q 0)
    | none => if m = .constant then some 0 else none

/-- the samples the statement selects: the neighbourhood placed at `p`, out-of-image positions taken
    per the border rule (constant: 0, ignore: dropped) -/
def specSamples (m : Mode) (f : Img Int) (fp : List (List Int)) (p : List Int) : List Int :=
  fp.filterMap fun k =>
    match specPos m f.shape (addPos p k) with
    | some q => some (f.getD q 0)
    | none => if m = .constant then some 0 else none

/-! ### rank filter -/

/-- `currank`: the rank itself when every sample is present, otherwise rescaled in proportion,
    `npy_intp(n * rank / double(N2))` (= `⌊n·rank / N2⌋` for all sizes below 2^26). -/
def curRank (n N2 rank : Nat) : Nat := if n ≠ N2 then n * rank / N2 else rank

def leB (a b : Int) : Bool := decide (a ≤ b)

/-- contract of `std::nth_element(first, first + k, last); first[k]`: the element that would be at
    index `k` if the range were sorted. `none`: `k` outside the range (the C++ reads a stale slot). -/
def nthElement (xs : List Int) (k : Nat) : Option Int := (xs.mergeSort leB)[k]?

/-- `rank_filter<T>` at pixel `p`; `none` = nothing defined is written (rank outside `[0, N2)`: early
    return; no sample at all: stale value). -/
def rankAt (m : Mode) (f : Img Int) (fp : List (List Int)) (rank : Int) (p : List Int) : Option Int :=
  if rank < 0 ∨ rank ≥ (fp.length : Int) then none else
  let s := gather m f fp p
  nthElement s (curRank s.length fp.length rank.toNat)

/-! ### `currank` in the arithmetic the C++ uses -/

/-- the three operations of `npy_intp(n * rank / double(N2))`: conversion of the 64-bit integers `n * rank`
    and `N2` to the floating type, the division there, and the truncating conversion back. -/
structure RankOps (α : Type) where
  ofNat : Nat → α
  div : α → α → α
  trunc : α → Nat

/-- binary64, as the compiled code (`Float.toUInt64` truncates towards zero; the quotient is non-negative) -/
def floatRankOps : RankOps Float := ⟨Float.ofNat, (· / ·), fun x => x.toUInt64.toNat⟩

/-- `currank` as the C++ evaluates it: `n * rank` is a product of 64-bit integers (exact), converted to the
    floating type, divided by `double(N2)`, truncated. Generic in the arithmetic: the driver runs it with
    `floatRankOps`; `C07_currank_double_eq_floor` instantiates it with every round-to-nearest of 53 bits. -/
def curRankG {α : Type} (o : RankOps α) (n N2 rank : Nat) : Nat :=
  if n ≠ N2 then o.trunc (o.div (o.ofNat (n * rank)) (o.ofNat N2)) else rank

/-- `rank_filter<T>` at pixel `p` with `currank` evaluated through `o` -/
def rankAtG {α : Type} (o : RankOps α) (m : Mode) (f : Img Int) (fp : List (List Int)) (rank : Int)
    (p : List Int) : Option Int :=
  if rank < 0 ∨ rank ≥ (fp.length : Int) then none else
  let s := gather m f fp p
  nthElement s (curRankG o s.length fp.length rank.toNat)

/-- specification: `v` is the `k`-th smallest (0-based) of `xs`: fewer than or exactly `k` samples
    are smaller, more than `k` are smaller or equal. -/
def IsKthSmallest (xs : List Int) (k : Nat) (v : Int) : Prop :=
  v ∈ xs ∧ xs.countP (fun x => decide (x < v)) ≤ k ∧ k < xs.countP (fun x => decide (x ≤ v))

/-- executable form of the specification (first sample satisfying `IsKthSmallest`) -/
def kthSmallest (xs : List Int) (k : Nat) : Option Int :=
  xs.find? fun v => decide (xs.countP (fun x => decide (x < v)) ≤ k) &&
    decide (k < xs.countP (fun x => decide (x ≤ v)))

def rankSpecAt (m : Mode) (f : Img Int) (fp : List (List Int)) (rank : Int) (p : List Int) : Option Int :=
  if rank < 0 ∨ rank ≥ (fp.length : Int) then none else
  let s := specSamples m f fp p
  kthSmallest s (curRank s.length fp.length rank.toNat)

/-- `median_filter`: `rank = Bc.sum() // 2` -/
def medianRank (bc : Array Int) : Int := (bc.toList.foldl (· + ·) 0) / 2

/-! ### mean filter -/

/-- `mean_filter<T>` at pixel `p`: `(sum, n)`; the output is `sum / n` in double -/
def meanParts (m : Mode) (f : Img Int) (fp : List (List Int)) (p : List Int) : Int × Nat :=
  let s := gather m f fp p
  (s.foldl (· + ·) 0, s.length)

def meanSpecParts (m : Mode) (f : Img Int) (fp : List (List Int)) (p : List Int) : Int × Nat :=
  let s := specSamples m f fp p
  (s.sum, s.length)

/-! ### template_match -/

/-- `template_match<T>` at pixel `p` (`compress = false`: every template entry takes part; flagged
    samples are skipped in `constant` and `ignore` alike); `delta = val > tj ? val - tj : tj - val`. -/
def tmAt (m : Mode) (f : Img Int) (tshape : List Nat) (t : Array Int) (p : List Int) : Int :=
  (List.range (shapeSize tshape)).foldl (fun diff2 j =>
    match fixPos m f.shape (addPos p (offsetOf tshape j)) with
    | some q =>
      let val := f.getD q 0
      let tj := t.getD j 0
      let delta := if val > tj then val - tj else tj - val
      diff2 + delta * delta
    | none => diff2) 0

/-- specification: sum of squared differences between the template and the window centred at `p`
    (centre `shape/2`), over the samples the border rule provides -/
def tmSpecAt (m : Mode) (f : Img Int) (tshape : List Nat) (t : Array Int) (p : List Int) : Int :=
  ((List.range (shapeSize tshape)).map fun j =>
    match specPos m f.shape (addPos p (offsetOf tshape j)) with
    | some q => (f.getD q 0 - t.getD j 0) ^ 2
    | none => 0).sum

/-! ### template_match in the arithmetic of the image dtype `T` -/

/-- the type in which C++ evaluates `val - tj`, `delta*delta` and `diff2 + delta*delta` for operands
    of type `T`: the integral promotions turn `bool`, 8- and 16-bit operands (signed or unsigned) into
    `int` (32 bits, wrapping under `-fno-strict-overflow` — `65535*65535` does overflow `int`);
    32- and 64-bit operands stay in `T` (unsigned: modular by the standard; signed: wraps, same flag). -/
def promote (dt : DT) : DT := if dt.card ≤ 65536 then dtI 32 else dt

/-- conversion of a value of the promoted type back to `T` (`const T delta = …`, `diff2 += …`):
    reduction modulo `2^bits` into the range of `T`; for `bool` any non-zero value becomes `true`. -/
def castT (dt : DT) (x : Int) : Int :=
  if dt.isBool then (if x ≠ 0 then 1 else 0) else dt.wrap x

/-- `template_match<T>` at pixel `p` in the arithmetic of the image dtype, operation by operation:
    `const T delta = (val > tj ? val - tj : tj - val); diff2 += delta*delta;` with `T diff2 = T(0)`.
    The subtraction, the product and the sum are evaluated in the promoted type (`promote`), each
    wrapping there; `delta` and the new `diff2` are converted back to `T` (`castT`). Samples and
    template entries are the stored values (inside the range of `T`); floats are not modelled here. -/
def tmAtWrap (dt : DT) (m : Mode) (f : Img Int) (tshape : List Nat) (t : Array Int) (p : List Int) : Int :=
  let ar := promote dt
  (List.range (shapeSize tshape)).foldl (fun diff2 j =>
    match fixPos m f.shape (addPos p (offsetOf tshape j)) with
    | some q =>
      let val := f.getD q 0
      let tj := t.getD j 0
      let delta := castT dt (ar.wrap (if val > tj then val - tj else tj - val))
      castT dt (ar.wrap (diff2 + ar.wrap (delta * delta)))
    | none => diff2) 0

/-- the whole centred window lies inside the image (where `constant` mode is compared) -/
def windowInside (shape tshape : List Nat) (p : List Int) : Bool :=
  let c := centreOf tshape
  inside shape (subPos p c) &&
  inside shape (addPos (subPos p c) (tshape.map fun (d : Nat) => (d : Int) - 1))

/-! ### find (2-D exact template search) -/

/-- the comparison loops of `find2d` at top-left corner `(y, x)` -/
def matchesAt (f t : Img Int) (y x : Nat) : Bool :=
  match t.shape with
  | [Nt0, Nt1] =>
    (List.range Nt0).all fun sy => (List.range Nt1).all fun sx =>
      f.getD [((y + sy : Nat) : Int), ((x + sx : Nat) : Int)] 0 == t.getD [(sy : Int), (sx : Int)] 0
  | _ => false

/-- the positions `find2d` marks, in loop order:
    `for (y = 0; y < N0 && y + Nt0 <= N0; ++y) for (x = 0; x < N1 && x + Nt1 <= N1; ++x)` -/
def findMarks (f t : Img Int) : List (Nat × Nat) :=
  match f.shape, t.shape with
  | [N0, N1], [Nt0, Nt1] =>
    ((List.range N0).takeWhile fun y => decide (y + Nt0 ≤ N0)).flatMap fun y =>
      (((List.range N1).takeWhile fun x => decide (x + Nt1 ≤ N1)).filter fun x => matchesAt f t y x).map fun x => (y, x)
  | _, _ => []

/-- specification: the template occurs in the image with its top-left corner at `(y, x)` -/
def OccursAt (f t : Img Int) (y x : Nat) : Prop :=
  ∃ N0 N1 Nt0 Nt1, f.shape = [N0, N1] ∧ t.shape = [Nt0, Nt1] ∧ y + Nt0 ≤ N0 ∧ x + Nt1 ≤ N1 ∧
    ∀ sy < Nt0, ∀ sx < Nt1,
      f.getD [((y + sy : Nat) : Int), ((x + sx : Nat) : Int)] 0 = t.getD [(sy : Int), (sx : Int)] 0

/-- executable form of `OccursAt` (used by the driver as the spec) -/
def occursAtB (f t : Img Int) (y x : Nat) : Bool :=
  match f.shape, t.shape with
  | [N0, N1], [Nt0, Nt1] => decide (y + Nt0 ≤ N0) && decide (x + Nt1 ≤ N1) && matchesAt f t y x
  | _, _ => false

/-! ### template_match, generic in the arithmetic of `T` (float dtypes) -/

/-- the operations `template_match<T>` performs on values of type `T` -/
structure TmOps (α : Type) where
  zero : α
  sub : α → α → α
  mul : α → α → α
  add : α → α → α
  gt : α → α → Bool

def intTmOps : TmOps Int := ⟨0, (· - ·), (· * ·), (· + ·), fun a b => decide (a > b)⟩
/-- `T = double` (SSE2 doubles, no FMA contraction: every operation rounds once) -/
def floatTmOps : TmOps Float := ⟨0.0, (· - ·), (· * ·), (· + ·), fun a b => decide (a > b)⟩
/-- `T = float`: every operation is performed and rounded in binary32 -/
def float32TmOps : TmOps Float32 := ⟨0.0, (· - ·), (· * ·), (· + ·), fun a b => decide (a > b)⟩

/-- `template_match<T>` at pixel `p`, operation by operation, in the arithmetic `o`:
    `T diff2 = T(0); … const T delta = (val > tj ? val - tj : tj - val); diff2 += delta*delta;`.
    `tmAtG intTmOps = tmAt`; the driver runs it with `floatTmOps` / `float32TmOps` for float images. -/
def tmAtG {α : Type} (o : TmOps α) (m : Mode) (f : Img α) (tshape : List Nat) (t : Array α) (p : List Int) : α :=
  (List.range (shapeSize tshape)).foldl (fun diff2 j =>
    match fixPos m f.shape (addPos p (offsetOf tshape j)) with
    | some q =>
      let val := f.getD q o.zero
      let tj := t.getD j o.zero
      let delta := if o.gt val tj then o.sub val tj else o.sub tj val
      o.add diff2 (o.mul delta delta)
    | none => diff2) o.zero

/-! ### mean_filter in the arithmetic of the C++ (`double sum`, `sum / n`) -/

/-- `gather` for any value type (`zero` = the `cval` of `constant` mode, the only one the wrappers accept) -/
def gatherG {α : Type} (zero : α) (m : Mode) (f : Img α) (fp : List (List Int)) (p : List Int) : List α :=
  fp.filterMap fun k =>
    match fixPos m f.shape (addPos p k) with
    | some q => some (f.getD q zero)
    | none => if m = .constant then some zero else none

/-- the operations of `double sum = 0; … sum += val; … *rpos = sum / n;` -/
structure MeanOps (α : Type) where
  zero : α
  add : α → α → α
  div : α → α → α
  ofNat : Nat → α

def floatMeanOps : MeanOps Float := ⟨0.0, (· + ·), (· / ·), Float.ofNat⟩

/-- `mean_filter<T>` at pixel `p`: the samples (already converted to double — exact for every float value and every
    integer below `2^53`) are added one by one in scan order starting from `0`, the sum is divided by the number of
    samples converted to double. The driver runs it with `floatMeanOps` (kind `meanf`). -/
def meanAtG {α : Type} (o : MeanOps α) (m : Mode) (f : Img α) (fp : List (List Int)) (p : List Int) : α :=
  let s := gatherG o.zero m f fp p
  o.div (s.foldl o.add o.zero) (o.ofNat s.length)

/-! ### majority_filter (`_morph.cpp: py_majority_filter`, wrapper in `morph.py`) -/

/-- number of non-zero pixels of the `N × N` window with top-left corner `(y, x)` -/
def windowCount (f : Img Int) (N y x : Nat) : Nat :=
  ((List.range N).map fun dy => ((List.range N).filter fun dx =>
    f.getD [((y + dy : Nat) : Int), ((x + dx : Nat) : Int)] 0 != 0).length).sum

/-- the pixels `py_majority_filter` sets, in loop order: the output is cleared; nothing happens when
    `rows < N || cols < N`; otherwise `for (y = 0; y != rows-N; ++y) for (x = 0; x != cols-N; ++x)` writes `true`
    at `(y + N/2, x + N/2)` when the window with top-left corner `(y, x)` holds `count >= N*N/2` set pixels. -/
def majorityMarks (f : Img Int) (N : Nat) : List (Nat × Nat) :=
  match f.shape with
  | [rows, cols] =>
    if rows < N ∨ cols < N then [] else
    (List.range (rows - N)).flatMap fun y =>
      (((List.range (cols - N)).filter fun x => decide (N * N / 2 ≤ windowCount f N y x)).map
        fun x => (y + N / 2, x + N / 2))
  | _ => []

/-- the window size the wrapper passes down: an even `N` is replaced by `N + 1` (with a warning) -/
def majorityN (N : Nat) : Nat := if N % 2 = 0 then N + 1 else N

/-- closed form: pixel `(Y, X)` is set iff the `N × N` window centred on it (top-left `(Y − N/2, X − N/2)`)
    lies inside the image **and is not the last such window of its row or column** (`y < rows − N`, not `≤`),
    and at least `⌊N²/2⌋` of its pixels are set. -/
def majoritySpecB (f : Img Int) (N Y X : Nat) : Bool :=
  match f.shape with
  | [rows, cols] =>
    decide (N / 2 ≤ Y) && decide (Y - N / 2 + N < rows) && decide (N / 2 ≤ X) && decide (X - N / 2 + N < cols) &&
      decide (N * N / 2 ≤ windowCount f N (Y - N / 2) (X - N / 2))
  | _ => false

/-! ### driver entry -/

def modeOf (a : Args) : Mode := (Mode.ofCode (a.nat "mode")).getD .reflect

def showMean (parts : List (Int × Nat)) : String :=
  showFloats (parts.map fun (s, n) => Float.ofInt s / Float.ofNat n)

def handle (a : Args) : String :=
  let shape := a.nats "shape"
  let f : Img Int := { shape := shape, data := (a.ints "data").toArray }
  let m := modeOf a
  let bshape := a.nats "bshape"
  let bc := (a.ints "bc").toArray
  match a.str "kind" with
  | "rank" =>
    let fp := footprint bshape bc
    let rank := a.int "rank"
    let ps := allPos shape
    s!"spec={showOptInts (ps.map (rankSpecAt m f fp rank))} model={showOptInts (ps.map (rankAt m f fp rank))} dmodel={showOptInts (ps.map (rankAtG floatRankOps m f fp rank))} n2={fp.length}"
  | "median" =>
    let fp := footprint bshape bc
    let rank := medianRank bc
    let ps := allPos shape
    s!"spec={showOptInts (ps.map (rankSpecAt m f fp rank))} model={showOptInts (ps.map (rankAt m f fp rank))} dmodel={showOptInts (ps.map (rankAtG floatRankOps m f fp rank))} rank={rank}"
  | "mean" =>
    let fp := footprint bshape bc
    let ps := allPos shape
    let sp := ps.map (meanSpecParts m f fp)
    s!"sum={showInts (sp.map (·.1))} n={showNats (sp.map (·.2))} model={showMean (ps.map (meanParts m f fp))}"
  | "tm" =>
    let ps := allPos shape
    let dt := DT.ofName (a.str "dt")
    s!"spec={showInts (ps.map (tmSpecAt m f bshape bc))} model={showInts (ps.map (tmAt m f bshape bc))} wrap={showInts (ps.map (tmAtWrap dt m f bshape bc))} obs={showBools (ps.map (windowInside shape bshape))}"
  | "tmf" =>
    -- float images: `data`/`bc` = the values times `2^s` as exact integers (specification: exact SSD, scaled by
    -- `4^s`), `fdata`/`fbc` = the same values as binary64 patterns (model: the arithmetic of `T`, bit for bit)
    let ps := allPos shape
    let fd := a.floats "fdata"
    let ft := a.floats "fbc"
    let modelF : List Float :=
      if a.str "ft" == "f32" then
        let g : Img Float32 := { shape := shape, data := (fd.map Float.toFloat32).toArray }
        let t : Array Float32 := (ft.map Float.toFloat32).toArray
        ps.map fun p => (tmAtG float32TmOps m g bshape t p).toFloat
      else
        let g : Img Float := { shape := shape, data := fd.toArray }
        ps.map fun p => tmAtG floatTmOps m g bshape ft.toArray p
    s!"spec={showInts (ps.map (tmSpecAt m f bshape bc))} exact={showInts (ps.map (tmAt m f bshape bc))} model={showFloats modelF} obs={showBools (ps.map (windowInside shape bshape))}"
  | "meanf" =>
    -- `data` = the values times `2^s` as exact integers (specification: exact sum, number of samples, sum of magnitudes),
    -- `fdata` = the values as binary64 patterns (model: the double accumulation of the C++, bit for bit)
    let fp := footprint bshape bc
    let ps := allPos shape
    let sp := ps.map (meanSpecParts m f fp)
    let fabs : Img Int := { shape := shape, data := f.data.map Int.natAbs |>.map Int.ofNat }
    let g : Img Float := { shape := shape, data := (a.floats "fdata").toArray }
    s!"sum={showInts (sp.map (·.1))} n={showNats (sp.map (·.2))} asum={showInts (ps.map fun p => (meanSpecParts m fabs fp p).1)} model={showFloats (ps.map (meanAtG floatMeanOps m g fp))}"
  | "currank" =>
    -- `n`, `n2`, `rank`: lists of equal length; the C++ expression in binary64 against the integer floor
    let ns := a.nats "n"
    let n2s := a.nats "n2"
    let rs := a.nats "rank"
    let tr := (ns.zip (n2s.zip rs))
    s!"model={showNats (tr.map fun (n, n2, r) => curRankG floatRankOps n n2 r)} spec={showNats (tr.map fun (n, n2, r) => curRank n n2 r)}"
  | "majority" =>
    let N := majorityN (a.nat "n")
    let marks := majorityMarks f N
    let N1 := shape.getD 1 0
    let ps := (List.range (shapeSize shape)).map fun i => (i / N1, i % N1)
    s!"spec={showBools (ps.map fun (y, x) => majoritySpecB f N y x)} model={showBools (ps.map fun q => marks.contains q)}"
  | "find" =>
    let t : Img Int := { shape := bshape, data := bc }
    let marks := findMarks f t
    let N1 := shape.getD 1 0
    let ps := (List.range (shapeSize shape)).map fun i => (i / N1, i % N1)
    s!"spec={showBools (ps.map fun (y, x) => occursAtB f t y x)} model={showBools (ps.map fun q => marks.contains q)}"
  | k => s!"error=unknown-kind-{k}"

end Mahotas.C07
