/-
C07 — rank / median / mean filters, template_match, find
(`_convolve.cpp`: `rank_filter<T>`, `mean_filter<T>`, `template_match<T>`, `find2d<T>`;
`convolve.py`: the wrappers). Values are exact integers (integer dtypes, or integer-valued floats);
`tmAtWrap` redoes `template_match` in the wrap-around arithmetic of an integer image dtype.
-/
import Mahotas.Model.Border
import Mahotas.Model.DType
namespace Mahotas.C07
open Mahotas

/-- kernel position `i` (C order) as an offset from the centre `shape/2` -/
def offsetOf (bshape : List Nat) (i : Nat) : List Int :=
  subPos (unravelI bshape i) (centreOf bshape)

/-- the neighbourhood as `filter_iterator(array, Bc, mode, compress=true)` presents it:
    offsets of the non-zero entries of `Bc`, C order -/
def footprint (bshape : List Nat) (bc : Array Int) : List (List Int) :=
  (List.range (shapeSize bshape)).filterMap fun i =>
    if bc.getD i 0 == 0 then none else some (offsetOf bshape i)

/-! ### samples -/

/-- the samples `rank_filter` / `mean_filter` gather at pixel `p`: in-image samples through
    `fix_offset`; a flagged sample becomes `cval = 0` in `constant` mode (the wrappers accept no other
    value) and is dropped in `ignore` mode. -/
def gather (m : Mode) (f : Img Int) (fp : List (List Int)) (p : List Int) : List Int :=
  fp.filterMap fun k =>
    match fixPos m f.shape (addPos p k) with
    | some q => some (f.getD q 0)
    | none => if m = .constant then some 0 else none

/-- the samples the statement selects: the neighbourhood placed at `p`, out-of-image positions taken
    per the border rule (constant: 0, ignore: dropped) -/
def specSamples (m : Mode) (f : Img Int) (fp : List (List Int)) (p : List Int) : List Int :=
  fp.filterMap fun k =>
    match specPos m f.shape (addPos p k) with
    | some q => some (f.getD q 0)
    | none => if m = .constant then some 0 else none

/-! ### rank filter -/

/-- `currank`: the rank itself when every sample is present, otherwise rescaled in proportion,
    `npy_intp(n * rank / double(N2))` (= `⌊n·rank / N2⌋` for all sizes below 2^26). -/
def curRank (n N2 rank : Nat) : Nat := if n ≠ N2 then n * rank / N2 else rank

def leB (a b : Int) : Bool := decide (a ≤ b)

/-- contract of `std::nth_element(first, first + k, last); first[k]`: the element that would be at
    index `k` if the range were sorted. `none`: `k` outside the range (the C++ reads a stale slot). -/
def nthElement (xs : List Int) (k : Nat) : Option Int := (xs.mergeSort leB)[k]?

/-- `rank_filter<T>` at pixel `p`; `none` = nothing defined is written (rank outside `[0, N2)`: early
    return; no sample at all: stale value). -/
def rankAt (m : Mode) (f : Img Int) (fp : List (List Int)) (rank : Int) (p : List Int) : Option Int :=
  if rank < 0 ∨ rank ≥ (fp.length : Int) then none else
  let s := gather m f fp p
  nthElement s (curRank s.length fp.length rank.toNat)

/-- specification: `v` is the `k`-th smallest (0-based) of `xs`: fewer than or exactly `k` samples
    are smaller, more than `k` are smaller or equal. -/
def IsKthSmallest (xs : List Int) (k : Nat) (v : Int) : Prop :=
  v ∈ xs ∧ xs.countP (fun x => decide (x < v)) ≤ k ∧ k < xs.countP (fun x => decide (x ≤ v))

/-- executable form of the specification (first sample satisfying `IsKthSmallest`) -/
def kthSmallest (xs : List Int) (k : Nat) : Option Int :=
  xs.find? fun v => decide (xs.countP (fun x => decide (x < v)) ≤ k) &&
    decide (k < xs.countP (fun x => decide (x ≤ v)))

def rankSpecAt (m : Mode) (f : Img Int) (fp : List (List Int)) (rank : Int) (p : List Int) : Option Int :=
  if rank < 0 ∨ rank ≥ (fp.length : Int) then none else
  let s := specSamples m f fp p
  kthSmallest s (curRank s.length fp.length rank.toNat)

/-- `median_filter`: `rank = Bc.sum() // 2` -/
def medianRank (bc : Array Int) : Int := (bc.toList.foldl (· + ·) 0) / 2

/-! ### mean filter -/

/-- `mean_filter<T>` at pixel `p`: `(sum, n)`; the output is `sum / n` in double -/
def meanParts (m : Mode) (f : Img Int) (fp : List (List Int)) (p : List Int) : Int × Nat :=
  let s := gather m f fp p
  (s.foldl (· + ·) 0, s.length)

def meanSpecParts (m : Mode) (f : Img Int) (fp : List (List Int)) (p : List Int) : Int × Nat :=
  let s := specSamples m f fp p
  (s.sum, s.length)

/-! ### template_match -/

/-- `template_match<T>` at pixel `p` (`compress = false`: every template entry takes part; flagged
    samples are skipped in `constant` and `ignore` alike); `delta = val > tj ? val - tj : tj - val`. -/
def tmAt (m : Mode) (f : Img Int) (tshape : List Nat) (t : Array Int) (p : List Int) : Int :=
  (List.range (shapeSize tshape)).foldl (fun diff2 j =>
    match fixPos m f.shape (addPos p (offsetOf tshape j)) with
    | some q =>
      let val := f.getD q 0
      let tj := t.getD j 0
      let delta := if val > tj then val - tj else tj - val
      diff2 + delta * delta
    | none => diff2) 0

/-- specification: sum of squared differences between the template and the window centred at `p`
    (centre `shape/2`), over the samples the border rule provides -/
def tmSpecAt (m : Mode) (f : Img Int) (tshape : List Nat) (t : Array Int) (p : List Int) : Int :=
  ((List.range (shapeSize tshape)).map fun j =>
    match specPos m f.shape (addPos p (offsetOf tshape j)) with
    | some q => (f.getD q 0 - t.getD j 0) ^ 2
    | none => 0).sum

/-! ### template_match in the arithmetic of the image dtype `T` -/

/-- the type in which C++ evaluates `val - tj`, `delta*delta` and `diff2 + delta*delta` for operands
    of type `T`: the integral promotions turn `bool`, 8- and 16-bit operands (signed or unsigned) into
    `int` (32 bits, wrapping under `-fno-strict-overflow` — `65535*65535` does overflow `int`);
    32- and 64-bit operands stay in `T` (unsigned: modular by the standard; signed: wraps, same flag). -/
def promote (dt : DT) : DT := if dt.card ≤ 65536 then dtI 32 else dt

/-- conversion of a value of the promoted type back to `T` (`const T delta = …`, `diff2 += …`):
    reduction modulo `2^bits` into the range of `T`; for `bool` any non-zero value becomes `true`. -/
def castT (dt : DT) (x : Int) : Int :=
  if dt.isBool then (if x ≠ 0 then 1 else 0) else dt.wrap x

/-- `template_match<T>` at pixel `p` in the arithmetic of the image dtype, operation by operation:
    `const T delta = (val > tj ? val - tj : tj - val); diff2 += delta*delta;` with `T diff2 = T(0)`.
    The subtraction, the product and the sum are evaluated in the promoted type (`promote`), each
    wrapping there; `delta` and the new `diff2` are converted back to `T` (`castT`). Samples and
    template entries are the stored values (inside the range of `T`); floats are not modelled here. -/
def tmAtWrap (dt : DT) (m : Mode) (f : Img Int) (tshape : List Nat) (t : Array Int) (p : List Int) : Int :=
  let ar := promote dt
  (List.range (shapeSize tshape)).foldl (fun diff2 j =>
    match fixPos m f.shape (addPos p (offsetOf tshape j)) with
    | some q =>
      let val := f.getD q 0
      let tj := t.getD j 0
      let delta := castT dt (ar.wrap (if val > tj then val - tj else tj - val))
      castT dt (ar.wrap (diff2 + ar.wrap (delta * delta)))
    | none => diff2) 0

/-- the whole centred window lies inside the image (where `constant` mode is compared) -/
def windowInside (shape tshape : List Nat) (p : List Int) : Bool :=
  let c := centreOf tshape
  inside shape (subPos p c) &&
  inside shape (addPos (subPos p c) (tshape.map fun (d : Nat) => (d : Int) - 1))

/-! ### find (2-D exact template search) -/

/-- the comparison loops of `find2d` at top-left corner `(y, x)` -/
def matchesAt (f t : Img Int) (y x : Nat) : Bool :=
  match t.shape with
  | [Nt0, Nt1] =>
    (List.range Nt0).all fun sy => (List.range Nt1).all fun sx =>
      f.getD [((y + sy : Nat) : Int), ((x + sx : Nat) : Int)] 0 == t.getD [(sy : Int), (sx : Int)] 0
  | _ => false

/-- the positions `find2d` marks, in loop order:
    `for (y = 0; y < N0 && y + Nt0 <= N0; ++y) for (x = 0; x < N1 && x + Nt1 <= N1; ++x)` -/
def findMarks (f t : Img Int) : List (Nat × Nat) :=
  match f.shape, t.shape with
  | [N0, N1], [Nt0, Nt1] =>
    ((List.range N0).takeWhile fun y => decide (y + Nt0 ≤ N0)).flatMap fun y =>
      (((List.range N1).takeWhile fun x => decide (x + Nt1 ≤ N1)).filter fun x => matchesAt f t y x).map fun x => (y, x)
  | _, _ => []

/-- specification: the template occurs in the image with its top-left corner at `(y, x)` -/
def OccursAt (f t : Img Int) (y x : Nat) : Prop :=
  ∃ N0 N1 Nt0 Nt1, f.shape = [N0, N1] ∧ t.shape = [Nt0, Nt1] ∧ y + Nt0 ≤ N0 ∧ x + Nt1 ≤ N1 ∧
    ∀ sy < Nt0, ∀ sx < Nt1,
      f.getD [((y + sy : Nat) : Int), ((x + sx : Nat) : Int)] 0 = t.getD [(sy : Int), (sx : Int)] 0

/-- executable form of `OccursAt` (used by the driver as the spec) -/
def occursAtB (f t : Img Int) (y x : Nat) : Bool :=
  match f.shape, t.shape with
  | [N0, N1], [Nt0, Nt1] => decide (y + Nt0 ≤ N0) && decide (x + Nt1 ≤ N1) && matchesAt f t y x
  | _, _ => false

/-! ### driver entry -/

def modeOf (a : Args) : Mode := (Mode.ofCode (a.nat "mode")).getD .reflect

def showMean (parts : List (Int × Nat)) : String :=
  showFloats (parts.map fun (s, n) => Float.ofInt s / Float.ofNat n)

def handle (a : Args) : String :=
  let shape := a.nats "shape"
  let f : Img Int := { shape := shape, data := (a.ints "data").toArray }
  let m := modeOf a
  let bshape := a.nats "bshape"
  let bc := (a.ints "bc").toArray
  match a.str "kind" with
  | "rank" =>
    let fp := footprint bshape bc
    let rank := a.int "rank"
    let ps := allPos shape
    s!"spec={showOptInts (ps.map (rankSpecAt m f fp rank))} model={showOptInts (ps.map (rankAt m f fp rank))} n2={fp.length}"
  | "median" =>
    let fp := footprint bshape bc
    let rank := medianRank bc
    let ps := allPos shape
    s!"spec={showOptInts (ps.map (rankSpecAt m f fp rank))} model={showOptInts (ps.map (rankAt m f fp rank))} rank={rank}"
  | "mean" =>
    let fp := footprint bshape bc
    let ps := allPos shape
    let sp := ps.map (meanSpecParts m f fp)
    s!"sum={showInts (sp.map (·.1))} n={showNats (sp.map (·.2))} model={showMean (ps.map (meanParts m f fp))}"
  | "tm" =>
    let ps := allPos shape
    let dt := DT.ofName (a.str "dt")
    s!"spec={showInts (ps.map (tmSpecAt m f bshape bc))} model={showInts (ps.map (tmAt m f bshape bc))} wrap={showInts (ps.map (tmAtWrap dt m f bshape bc))} obs={showBools (ps.map (windowInside shape bshape))}"
  | "find" =>
    let t : Img Int := { shape := bshape, data := bc }
    let marks := findMarks f t
    let N1 := shape.getD 1 0
    let ps := (List.range (shapeSize shape)).map fun i => (i / N1, i % N1)
    s!"spec={showBools (ps.map fun (y, x) => occursAtB f t y x)} model={showBools (ps.map fun q => marks.contains q)}"
  | k => s!"error=unknown-kind-{k}"

end Mahotas.C07
