/-
C08 — executable model of the *accessor layer* of `mahotas/numpypp/array.hpp`.

Every native kernel touches its array arguments only through a handful of accessors:
`iterator_base` (constructor computing `steps_`, `operator++`), `at(pos)` / `data(pos)`
(`PyArray_GetPtr`), `at_flat(p)` (as repaired: `p /= dim(d)`), `pos_to_flat`, `flat_to_pos`,
and the row pointer idiom `data(y) + x*step`.  They are transliterated here over *address-level
views*: a base offset, a shape and element strides that may be negative or non-monotone
(exactly what numpy hands to the C++ for Fortran, strided, reversed, offset, transposed views).

Addresses are element offsets (`Int`) into one flat memory; `sizeof(BaseType)` is divided out as
the C++ does.  No Mathlib here (linked into the driver).
-/
import Mahotas.Model.Basic
namespace Mahotas.C08
open Mahotas

/-- an address-level view of an n-D array: what `PyArrayObject` gives the C++ -/
structure View where
  base    : Int
  shape   : List Nat
  strides : List Int          -- element strides (bytes / itemsize), one per axis
  carray  : Bool := false     -- `PyArray_ISCARRAY`: C-contiguous (aligned, writeable)
deriving Repr, DecidableEq

/-- `Σ stride_i * pos_i` -/
def dot : List Int → List Nat → Int
  | s :: ss, p :: ps => s * (p : Int) + dot ss ps
  | _, _ => 0

/-- **the meaning of a view**: the address of the logical element at `pos` -/
def View.addr (v : View) (pos : List Nat) : Int := v.base + dot v.strides pos

/-- strides of a C-contiguous array of this shape -/
def cStrides : List Nat → List Int
  | [] => []
  | _ :: ds => (shapeSize ds : Int) :: cStrides ds

/-! ### `iterator_base` -/

/-- the constructor's loop, axes already reversed (fastest axis first):
    `steps_[i] = stride - cummul; cummul *= dim; cummul += steps_[i]*dim` -/
def mkSteps : List Int → List Nat → Int → List Int
  | s :: ss, d :: ds, cum => (s - cum) :: mkSteps ss ds (cum * (d : Int) + (s - cum) * (d : Int))
  | _, _, _ => []

/-- iterator state: `data_`, `steps_`, `dimensions_`, `position_` (all in *reversed* axis order,
    as in the C++: "This is not actually the position we are at, but the reverse") -/
structure Iter where
  data  : Int
  steps : List Int
  dims  : List Nat
  pos   : List Nat
deriving Repr, DecidableEq

def Iter.begin (v : View) : Iter :=
  { data := v.base
    steps := mkSteps v.strides.reverse v.shape.reverse 0
    dims := v.shape.reverse
    pos := v.shape.reverse.map (fun _ => 0) }

/-- the loop of `operator++` over the (reversed) axes -/
def incrGo : List Int → List Nat → List Nat → Int → List Nat × Int
  | st :: sts, d :: ds, p :: ps, data =>
      let data := data + st
      if p + 1 ≠ d then ((p + 1) :: ps, data)
      else
        let r := incrGo sts ds ps data
        (0 :: r.1, r.2)
  | _, _, ps, data => (ps, data)

def Iter.incr (it : Iter) : Iter :=
  let r := incrGo it.steps it.dims it.pos it.data
  { it with pos := r.1, data := r.2 }

def Iter.incrN (it : Iter) : Nat → Iter
  | 0 => it
  | k + 1 => (it.incrN k).incr

/-- `iterator_base::position()`: the stored position, reversed back -/
def Iter.position (it : Iter) : List Nat := it.pos.reverse

/-! ### positional and flat access -/

/-- `array_base::at(pos)` / `data(pos)`: `PyArray_GetPtr` = `data + Σ pos[i]*strides[i]` -/
def View.at (v : View) (pos : List Nat) : Int := v.base + dot v.strides pos

/-- the loop of `at_flat` (axes reversed: `for d = nd-1 … 0`): `c = p % dim(d); p /= dim(d); base += c*stride(d)` -/
def atFlatGo : List Nat → List Int → Nat → Int → Int
  | d :: ds, s :: ss, p, b => atFlatGo ds ss (p / d) (b + ((p % d : Nat) : Int) * s)
  | _, _, _, b => b

/-- `aligned_array::at_flat(p)` as repaired (`if (is_carray_) return data()[p];` then the loop) -/
def View.atFlat (v : View) (p : Nat) : Int :=
  if v.carray then v.base + (p : Int) else atFlatGo v.shape.reverse v.strides.reverse p v.base

/-- the loop of `at_flat` **before** the repair (`p /= dim(d-1)` — pinned tree); kept so that the
    defect can be exhibited as a theorem about a definition -/
def atFlatOldGo : List Nat → List Int → Nat → Int → Int
  | d :: ds, s :: ss, p, b => atFlatOldGo ds ss (p / (ds.headD d)) (b + ((p % d : Nat) : Int) * s)
  | _, _, _, b => b

/-- `pos_to_flat`: `res += pos[d]*cummul; cummul *= dim(d)` for `d = nd-1 … 0` (axes reversed) -/
def posToFlatGo : List Nat → List Int → Int → Int
  | d :: ds, p :: ps, cum => p * cum + posToFlatGo ds ps (cum * (d : Int))
  | _, _, _ => 0

def View.posToFlat (v : View) (pos : List Int) : Int := posToFlatGo v.shape.reverse pos.reverse 1

/-- `flat_to_pos` loop (axes reversed, C `%` and `/` truncate towards zero); returns the reversed
    position and what is left of `p` -/
def flatToPosGo : List Nat → Int → List Int × Int
  | d :: ds, p =>
      let r := flatToPosGo ds (Int.tdiv p (d : Int))
      (Int.tmod p (d : Int) :: r.1, r.2)
  | [], p => ([], p)

/-- `flat_to_pos(p)`, including `if (p) res.position_[0] += p * dim(0)` -/
def View.flatToPos (v : View) (p : Int) : List Int :=
  let r := flatToPosGo v.shape.reverse p
  match r.1.reverse, v.shape with
  | x :: xs, d0 :: _ => (if r.2 ≠ 0 then x + r.2 * (d0 : Int) else x) :: xs
  | l, _ => l

/-- the 2-D row idiom `data(y) + x*step` (`PyArray_GETPTR1` then pointer arithmetic with `stride(1)`) -/
def View.rowPtr (v : View) (y x : Nat) : Int :=
  match v.strides with
  | s0 :: s1 :: _ => v.base + (y : Int) * s0 + (x : Int) * s1
  | _ => v.base

/-! ### reading through the accessors (memory = function from address to value) -/

def readIter {α} (mem : Int → α) (v : View) (k : Nat) : α := mem ((Iter.begin v).incrN k).data
def readAtFlat {α} (mem : Int → α) (v : View) (p : Nat) : α := mem (v.atFlat p)
def readAt {α} (mem : Int → α) (v : View) (pos : List Nat) : α := mem (v.at pos)

/-- the logical content of a view of a memory, in C order -/
def logical {α} (mem : Int → α) (v : View) : List α :=
  (List.range (shapeSize v.shape)).map (fun k => mem (v.addr (unravel v.shape k)))

/-! ### one complete kernel over views: `labeled_foldl` of `_labeled.cpp`

`for (i = 0; i != N; ++i, ++iterator, ++literator) if (0 <= *literator < maxlabel)
 result[*literator] = f(*iterator, result[*literator]);` after `std::fill(result, result+maxlabel, start)`. -/

/-- the loop body on the logical sequences of values and labels -/
def labeledFoldList {α} (f : α → α → α) (start : α) (maxlabel : Nat) (vals : List α) (labels : List Int) : Array α :=
  (vals.zip labels).foldl
    (fun (res : Array α) (p : α × Int) =>
      if 0 ≤ p.2 ∧ p.2 < (maxlabel : Int) then res.modify p.2.toNat (fun r => f p.1 r) else res)
    (Array.replicate maxlabel start)

/-- the kernel as the C++ runs it: both arrays read through their iterators, step by step -/
def labeledFoldView {α} (f : α → α → α) (start : α) (maxlabel : Nat)
    (mA : Int → α) (vA : View) (mL : Int → Int) (vL : View) : Array α :=
  let n := shapeSize vA.shape
  labeledFoldList f start maxlabel ((List.range n).map (readIter mA vA)) ((List.range n).map (readIter mL vL))

/-! ### machine-level detail: `stride()` divides by `sizeof` in *unsigned* arithmetic

`PyArray_STRIDE(a,i)/sizeof(T)` has type `size_t`: a negative byte stride becomes `2^64 - |s|`
before the division.  With a power-of-two item size dividing the stride the quotient, multiplied
back in wrapping pointer arithmetic, is the signed element stride again. -/

def two64 : Nat := 18446744073709551616

/-- the byte offset the C++ adds for `c` steps along an axis with byte stride `sb`, item size `sz`:
    `c * ((size_t)sb / sz)` elements = that many `* sz` bytes, modulo `2^64` -/
def unsignedStepBytes (sb : Int) (sz c : Nat) : Nat :=
  (c * ((sb % (two64 : Int)).toNat / sz) * sz) % two64

/-! ### Python-side normalisation: which numpy call stands between the user's array and a native guard

The native entry points of `_labeled`, `_histogram`, `_convex` demand `PyArray_ISCARRAY` (C-contiguous,
aligned, writeable).  What the wrapper calls first decides whether a Fortran / strided / read-only view
of valid data reaches them in acceptable form or turns into an exception. -/

/-- the flags of an array that matter here; `fOrder`: the axis order is Fortran-like (what
`order='K'` preserves in a copy) -/
structure Flags where
  ccontig   : Bool
  aligned   : Bool
  writeable : Bool
  fOrder    : Bool
deriving DecidableEq, Repr

/-- a freshly allocated C-ordered array -/
def Flags.fresh : Flags := { ccontig := true, aligned := true, writeable := true, fOrder := false }

/-- `PyArray_ISCARRAY` -/
def Flags.isCArray (f : Flags) : Bool := f.ccontig && f.aligned && f.writeable

inductive Norm
  | ascontiguousarray     -- `np.ascontiguousarray(a)`: the array itself when already C-contiguous
  | requireCAW            -- `np.require(a, requirements='CAW')`
  | requireCW             -- `np.require(a, requirements='CW')`
  | arrayC                -- `np.array(a, order='C')`: always a fresh C-ordered copy
  | arrayK                -- `np.array(a)` (order='K'): a fresh copy that keeps a Fortran-like axis order
  | asanyarray            -- no normalisation
deriving DecidableEq, Repr

def Norm.apply : Norm → Flags → Flags
  | .ascontiguousarray, f => if f.ccontig then f else Flags.fresh
  | .requireCAW, f => if f.ccontig && f.aligned && f.writeable then f else Flags.fresh
  | .requireCW, f => if f.ccontig && f.writeable then f else Flags.fresh
  | .arrayC, _ => Flags.fresh
  | .arrayK, f => { Flags.fresh with ccontig := !f.fOrder, fOrder := f.fOrder }
  | .asanyarray, f => f

def Norm.ofString : String → Option Norm
  | "ascontiguousarray" => some .ascontiguousarray
  | "require:CAW" => some .requireCAW
  | "require:CW" => some .requireCW
  | "array:C" => some .arrayC
  | "array:K" => some .arrayK
  | "asanyarray" => some .asanyarray
  | _ => none

/-- does the composition *normalisation → native ISCARRAY guard* accept an array with these flags? -/
def wrapperAccepts (n : Norm) (f : Flags) : Bool := (n.apply f).isCArray

/-! ### purity: which buffer an in-place native kernel receives

`haar/ihaar/daubechies/idaubechies` (through `_wavelet_array`), `relabel/remove_regions` (through
`_as_labeled`) and `surf.integral` call native kernels that overwrite their argument. -/

inductive Target
  | user    -- the caller's own array
  | copy    -- a fresh array produced by `copy()`, `astype(...)` or `np.array(...)`
deriving DecidableEq, Repr

/-- numpy calls that always return a fresh array -/
def producesCopy : String → Bool
  | "copy" => true
  | "astype" => true
  | "array" => true
  | _ => false

/-- the wrapper pattern `if not flag: a = <copying call>(a)`; otherwise the user's array goes through -/
def inplaceTarget (flag : Bool) (calls : List String) : Target :=
  if !flag && calls.all producesCopy && !calls.isEmpty then .copy else .user

/-! ### driver -/

def viewOf (a : Args) : View :=
  { base := a.int "base", shape := a.nats "shape", strides := a.ints "strides",
    carray := a.nat "carray" == 1 }

/-- the addresses the iterator visits: `data_` after `k = 0 … size-1` increments (the very `incrN` the theorems are about) -/
def iterAddrs (v : View) : List Int :=
  (List.range (shapeSize v.shape)).map fun k => ((Iter.begin v).incrN k).data

def handle (a : Args) : String :=
  match a.str "kind" with
  | "view" =>
    let v := viewOf a
    let n := shapeSize v.shape
    let ks := List.range n
    let spec := ks.map (fun k => v.addr (unravel v.shape k))
    let it := iterAddrs v
    let af := ks.map v.atFlat
    let p2f := ks.map (fun k => v.posToFlat (unravelI v.shape k))
    let f2p := ks.map (fun (k : Nat) => decide (v.flatToPos (Int.ofNat k) = unravelI v.shape k))
    let row := match v.shape with
      | [h, w] => (List.range h).flatMap (fun y => (List.range w).map (fun x => v.rowPtr y x))
      | _ => []
    s!"spec={showInts spec} iter={showInts it} atflat={showInts af} p2f={showInts p2f} f2p={showBools f2p} row={showInts row}"
  | "oldatflat" =>
    let v := viewOf a
    let ks := List.range (shapeSize v.shape)
    s!"old={showInts (ks.map (fun p => atFlatOldGo v.shape.reverse v.strides.reverse p v.base))} spec={showInts (ks.map (fun k => v.addr (unravel v.shape k)))}"
  | "lsum" =>
    let vA : View := { base := a.int "abase", shape := a.nats "shape", strides := a.ints "astrides" }
    let vL : View := { base := a.int "lbase", shape := a.nats "shape", strides := a.ints "lstrides" }
    let amem := (a.ints "amem").toArray
    let lmem := (a.ints "lmem").toArray
    let mA : Int → Int := fun ad => amem.getD ad.toNat 0
    let mL : Int → Int := fun ad => lmem.getD ad.toNat 0
    let r := labeledFoldView (fun (x r : Int) => x + r) 0 (a.nat "maxlabel") mA vA mL vL
    s!"sum={showInts r.toList}"
  | "norm" =>
    match Norm.ofString (a.str "norm") with
    | none => "error=unknown-norm"
    | some n =>
      let f : Flags := { ccontig := a.nat "c" == 1, aligned := a.nat "al" == 1, writeable := a.nat "w" == 1, fOrder := a.nat "fo" == 1 }
      let r := n.apply f
      s!"c={if r.ccontig then 1 else 0} al={if r.aligned then 1 else 0} w={if r.writeable then 1 else 0} accepts={if wrapperAccepts n f then 1 else 0}"
  | "ustep" =>
    s!"bytes={unsignedStepBytes (a.int "sb") (a.nat "sz") (a.nat "c")}"
  | k => s!"error=unknown-kind-{k}"

end Mahotas.C08
