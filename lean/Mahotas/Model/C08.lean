/-
C08 — driver entry of the accessor-layer / view-kernel model.

The definitions live in `Model/C08Base.lean` (accessor layer, filter iterator over views, the round-2/3 view kernels) and in
the round-4 extension files `Model/C08Views*.lean` (further view kernels, each with its own `handle…` for its driver kinds).
This file only dispatches protocol lines `c08 kind=…`.  No Mathlib here (linked into the driver).
-/
import Mahotas.Model.C08Base
import Mahotas.Model.C08ViewsA
import Mahotas.Model.C08ViewsB
namespace Mahotas.C08
open Mahotas

/-- the round-1..3 driver kinds (`view`, `oldatflat`, `lsum`, `kview`, `norm`, `ustep`) -/
def handleBase (a : Args) : String :=
  match a.str "kind" with
  | "view" =>
    let v := viewOf a
    let n := shapeSize v.shape
    let ks := List.range n
    let spec := ks.map (fun k => v.addr (unravel v.shape k))
    let it := iterAddrs v
    let af := ks.map v.atFlat
    let p2f := ks.map (fun k => v.posToFlat (unravelI v.shape k))
    let f2p := ks.map (fun (k : Nat) => decide (v.flatToPos (Int.ofNat k) = unravelI v.shape k))
    let row := match v.shape with
      | [h, w] => (List.range h).flatMap (fun y => (List.range w).map (fun x => v.rowPtr y x))
      | _ => []
    s!"spec={showInts spec} iter={showInts it} atflat={showInts af} p2f={showInts p2f} f2p={showBools f2p} row={showInts row}"
  | "oldatflat" =>
    let v := viewOf a
    let ks := List.range (shapeSize v.shape)
    s!"old={showInts (ks.map (fun p => atFlatOldGo v.shape.reverse v.strides.reverse p v.base))} spec={showInts (ks.map (fun k => v.addr (unravel v.shape k)))}"
  | "lsum" =>
    let vA : View := { base := a.int "abase", shape := a.nats "shape", strides := a.ints "astrides" }
    let vL : View := { base := a.int "lbase", shape := a.nats "shape", strides := a.ints "lstrides" }
    let amem := (a.ints "amem").toArray
    let lmem := (a.ints "lmem").toArray
    let mA : Int → Int := fun ad => amem.getD ad.toNat 0
    let mL : Int → Int := fun ad => lmem.getD ad.toNat 0
    let r := labeledFoldView (fun (x r : Int) => x + r) 0 (a.nat "maxlabel") mA vA mL vL
    s!"sum={showInts r.toList}"
  | "kview" =>
    -- a kernel over views: `amem/abase/ashape/astrides/acarray` the array, `b…` the filter (structuring element,
    -- weights, template), `m…` the markers (cwatershed); memories are integer lists indexed by address
    let mk := fun (pre : String) =>
      let mem := (a.ints (pre ++ "mem")).toArray
      let v : View := { base := a.int (pre ++ "base"), shape := a.nats (pre ++ "shape"),
                        strides := a.ints (pre ++ "strides"), carray := a.nat (pre ++ "carray") == 1 }
      ((fun (ad : Int) => if ad < 0 then (0 : Int) else mem.getD ad.toNat 0), v)
    let (mA, vA) := mk "a"
    let (mB, vB) := mk "b"
    let dt := DT.ofName (a.str "dt")
    let m := (Mode.ofCode (a.nat "mode")).getD .nearest
    let ob := fun (r : Array (Option Bool)) => showOptInts (r.toList.map fun o => o.map fun b => if b then (1 : Int) else 0)
    match a.str "kernel" with
    | "erode" => s!"out={showOptInts (pyErodeView dt mA vA mB vB).toList}"
    | "dilate" => s!"out={showOptInts (pyDilateView dt mA vA mB vB).toList}"
    | "locmax" => s!"out={ob (locView false mA vA mB vB)}"
    | "locmin" => s!"out={ob (locView true mA vA mB vB)}"
    | "convolve" => s!"out={showOptInts (convolveView 0 (fun x => x == 0) id m mA vA mB vB).toList}"
    | "rank" => s!"out={showOptInts (rankView m (a.int "rank") mA vA mB vB).toList}"
    | "mean" =>
      let r := (meanView m mA vA mB vB).toList
      s!"sum={showOptInts (r.map fun o => o.map (·.1))} n={showOptInts (r.map fun o => o.map fun x => (x.2 : Int))}"
    | "tm" => s!"out={showOptInts (tmView m mA vA mB vB).toList}"
    | "borders" => s!"out={ob (bordersView m mA vA mB vB)}"
    | "hitmiss" => s!"out={showOptInts (hitmissView mA vA mB vB).toList}"
    | "bbox" => s!"out={showInts (bboxView mA vA)}"
    | "com" =>
      let ops : C13.NumOps Int := { zero := 0, add := (· + ·), mul := (· * ·), div := fun x _ => x, ofNat := Int.ofNat }
      -- numerators and totals are exact integers; the division is left to the harness
      let vals := (List.range (shapeSize vA.shape)).map (readIter mA vA)
      let tot := vals.foldl (· + ·) 0
      s!"num={showInts (comView ops mA vA [])} tot={tot}"
    | "cwatershed" =>
      let (mM, vM) := mk "m"
      let r := cwatershedView mA vA mM vM mB vB
      s!"out={showInts r.res.toList} lines={showBools r.lines.toList}"
    | "line" =>
      s!"out={showInts (lineVals mA vA (a.nat "axis") (a.nats "p"))}"
    | k => s!"error=unknown-kernel-{k}"
  | "norm" =>
    match Norm.ofString (a.str "norm") with
    | none => "error=unknown-norm"
    | some n =>
      let f : Flags := { ccontig := a.nat "c" == 1, aligned := a.nat "al" == 1, writeable := a.nat "w" == 1, fOrder := a.nat "fo" == 1 }
      let r := n.apply f
      s!"c={if r.ccontig then 1 else 0} al={if r.aligned then 1 else 0} w={if r.writeable then 1 else 0} accepts={if wrapperAccepts n f then 1 else 0}"
  | "ustep" =>
    s!"bytes={unsignedStepBytes (a.int "sb") (a.nat "sz") (a.nat "c")}"
  | k => s!"error=unknown-kind-{k}"


/-- protocol entry: round-4 kinds are tried first, everything else is `handleBase` -/
def handle (a : Args) : String :=
  match a.str "kind" with
  | "kviewA" => handleViewsA a
  | "kviewB" => handleViewsB a
  | _ => handleBase a

end Mahotas.C08
