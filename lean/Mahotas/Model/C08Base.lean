/-
C08 — executable model of the *accessor layer* of `mahotas/numpypp/array.hpp`.

Every native kernel touches its array arguments only through a handful of accessors:
`iterator_base` (constructor computing `steps_`, `operator++`), `at(pos)` / `data(pos)`
(`PyArray_GetPtr`), `at_flat(p)` (as repaired: `p /= dim(d)`), `pos_to_flat`, `flat_to_pos`,
and the row pointer idiom `data(y) + x*step`.  They are transliterated here over *address-level
views*: a base offset, a shape and element strides that may be negative or non-monotone
(exactly what numpy hands to the C++ for Fortran, strided, reversed, offset, transposed views).

Addresses are element offsets (`Int`) into one flat memory; `sizeof(BaseType)` is divided out as
the C++ does.  No Mathlib here (linked into the driver).
-/
import Mahotas.Model.Basic
import Mahotas.Model.FilterIter
import Mahotas.Model.DType
import Mahotas.Model.C04
import Mahotas.Model.C07
import Mahotas.Model.C13
import Mahotas.Model.C14
namespace Mahotas.C08
open Mahotas

/-- an address-level view of an n-D array: what `PyArrayObject` gives the C++ -/
structure View where
  base    : Int
  shape   : List Nat
  strides : List Int          -- element strides (bytes / itemsize), one per axis
  carray  : Bool := false     -- `PyArray_ISCARRAY`: C-contiguous (aligned, writeable)
deriving Repr, DecidableEq

/-- `Σ stride_i * pos_i` -/
def dot : List Int → List Nat → Int
  | s :: ss, p :: ps => s * (p : Int) + dot ss ps
  | _, _ => 0

/-- **the meaning of a view**: the address of the logical element at `pos` -/
def View.addr (v : View) (pos : List Nat) : Int := v.base + dot v.strides pos

/-- strides of a C-contiguous array of this shape -/
def cStrides : List Nat → List Int
  | [] => []
  | _ :: ds => (shapeSize ds : Int) :: cStrides ds

/-! ### `iterator_base` -/

/-- the constructor's loop, axes already reversed (fastest axis first):
    `steps_[i] = stride - cummul; cummul *= dim; cummul += steps_[i]*dim` -/
def mkSteps : List Int → List Nat → Int → List Int
  | s :: ss, d :: ds, cum => (s - cum) :: mkSteps ss ds (cum * (d : Int) + (s - cum) * (d : Int))
  | _, _, _ => []

/-- iterator state: `data_`, `steps_`, `dimensions_`, `position_` (all in *reversed* axis order,
    as in the C++: "This is not actually the position we are at, but the reverse") -/
structure Iter where
  data  : Int
  steps : List Int
  dims  : List Nat
  pos   : List Nat
deriving Repr, DecidableEq

def Iter.begin (v : View) : Iter :=
  { data := v.base
    steps := mkSteps v.strides.reverse v.shape.reverse 0
    dims := v.shape.reverse
    pos := v.shape.reverse.map (fun _ => 0) }

/-- the loop of `operator++` over the (reversed) axes -/
def incrGo : List Int → List Nat → List Nat → Int → List Nat × Int
  | st :: sts, d :: ds, p :: ps, data =>
      let data := data + st
      if p + 1 ≠ d then ((p + 1) :: ps, data)
      else
        let r := incrGo sts ds ps data
        (0 :: r.1, r.2)
  | _, _, ps, data => (ps, data)

def Iter.incr (it : Iter) : Iter :=
  let r := incrGo it.steps it.dims it.pos it.data
  { it with pos := r.1, data := r.2 }

def Iter.incrN (it : Iter) : Nat → Iter
  | 0 => it
  | k + 1 => (it.incrN k).incr

/-- `iterator_base::position()`: the stored position, reversed back -/
def Iter.position (it : Iter) : List Nat := it.pos.reverse

/-! ### positional and flat access -/

/-- `array_base::at(pos)` / `data(pos)`: `PyArray_GetPtr` = `data + Σ pos[i]*strides[i]` -/
def View.at (v : View) (pos : List Nat) : Int := v.base + dot v.strides pos

/-- the loop of `at_flat` (axes reversed: `for d = nd-1 … 0`): `c = p % dim(d); p /= dim(d); base += c*stride(d)` -/
def atFlatGo : List Nat → List Int → Nat → Int → Int
  | d :: ds, s :: ss, p, b => atFlatGo ds ss (p / d) (b + ((p % d : Nat) : Int) * s)
  | _, _, _, b => b

/-- `aligned_array::at_flat(p)` as repaired (`if (is_carray_) return data()[p];` then the loop) -/
def View.atFlat (v : View) (p : Nat) : Int :=
  if v.carray then v.base + (p : Int) else atFlatGo v.shape.reverse v.strides.reverse p v.base

/-- the loop of `at_flat` **before** the repair (`p /= dim(d-1)` — pinned tree); kept so that the
    defect can be exhibited as a theorem about a definition -/
def atFlatOldGo : List Nat → List Int → Nat → Int → Int
  | d :: ds, s :: ss, p, b => atFlatOldGo ds ss (p / (ds.headD d)) (b + ((p % d : Nat) : Int) * s)
  | _, _, _, b => b

/-- `pos_to_flat`: `res += pos[d]*cummul; cummul *= dim(d)` for `d = nd-1 … 0` (axes reversed) -/
def posToFlatGo : List Nat → List Int → Int → Int
  | d :: ds, p :: ps, cum => p * cum + posToFlatGo ds ps (cum * (d : Int))
  | _, _, _ => 0

def View.posToFlat (v : View) (pos : List Int) : Int := posToFlatGo v.shape.reverse pos.reverse 1

/-- `flat_to_pos` loop (axes reversed, C `%` and `/` truncate towards zero); returns the reversed
    position and what is left of `p` -/
def flatToPosGo : List Nat → Int → List Int × Int
  | d :: ds, p =>
      let r := flatToPosGo ds (Int.tdiv p (d : Int))
      (Int.tmod p (d : Int) :: r.1, r.2)
  | [], p => ([], p)

/-- `flat_to_pos(p)`, including `if (p) res.position_[0] += p * dim(0)` -/
def View.flatToPos (v : View) (p : Int) : List Int :=
  let r := flatToPosGo v.shape.reverse p
  match r.1.reverse, v.shape with
  | x :: xs, d0 :: _ => (if r.2 ≠ 0 then x + r.2 * (d0 : Int) else x) :: xs
  | l, _ => l

/-- the 2-D row idiom `data(y) + x*step` (`PyArray_GETPTR1` then pointer arithmetic with `stride(1)`) -/
def View.rowPtr (v : View) (y x : Nat) : Int :=
  match v.strides with
  | s0 :: s1 :: _ => v.base + (y : Int) * s0 + (x : Int) * s1
  | _ => v.base

/-! ### reading through the accessors (memory = function from address to value) -/

def readIter {α} (mem : Int → α) (v : View) (k : Nat) : α := mem ((Iter.begin v).incrN k).data
def readAtFlat {α} (mem : Int → α) (v : View) (p : Nat) : α := mem (v.atFlat p)
def readAt {α} (mem : Int → α) (v : View) (pos : List Nat) : α := mem (v.at pos)

/-- the logical content of a view of a memory, in C order -/
def logical {α} (mem : Int → α) (v : View) : List α :=
  (List.range (shapeSize v.shape)).map (fun k => mem (v.addr (unravel v.shape k)))

/-! ### one complete kernel over views: `labeled_foldl` of `_labeled.cpp`

`for (i = 0; i != N; ++i, ++iterator, ++literator) if (0 <= *literator < maxlabel)
 result[*literator] = f(*iterator, result[*literator]);` after `std::fill(result, result+maxlabel, start)`. -/

/-- the loop body on the logical sequences of values and labels -/
def labeledFoldList {α} (f : α → α → α) (start : α) (maxlabel : Nat) (vals : List α) (labels : List Int) : Array α :=
  (vals.zip labels).foldl
    (fun (res : Array α) (p : α × Int) =>
      if 0 ≤ p.2 ∧ p.2 < (maxlabel : Int) then res.modify p.2.toNat (fun r => f p.1 r) else res)
    (Array.replicate maxlabel start)

/-- the kernel as the C++ runs it: both arrays read through their iterators, step by step -/
def labeledFoldView {α} (f : α → α → α) (start : α) (maxlabel : Nat)
    (mA : Int → α) (vA : View) (mL : Int → Int) (vL : View) : Array α :=
  let n := shapeSize vA.shape
  labeledFoldList f start maxlabel ((List.range n).map (readIter mA vA)) ((List.range n).map (readIter mL vL))

/-! ### machine-level detail: `stride()` divides by `sizeof` in *unsigned* arithmetic

`PyArray_STRIDE(a,i)/sizeof(T)` has type `size_t`: a negative byte stride becomes `2^64 - |s|`
before the division.  With a power-of-two item size dividing the stride the quotient, multiplied
back in wrapping pointer arithmetic, is the signed element stride again. -/

def two64 : Nat := 18446744073709551616

/-- the byte offset the C++ adds for `c` steps along an axis with byte stride `sb`, item size `sz`:
    `c * ((size_t)sb / sz)` elements = that many `* sz` bytes, modulo `2^64` -/
def unsignedStepBytes (sb : Int) (sz c : Nat) : Nat :=
  (c * ((sb % (two64 : Int)).toNat / sz) * sz) % two64

/-! ### Python-side normalisation: which numpy call stands between the user's array and a native guard

The native entry points of `_labeled`, `_histogram`, `_convex` demand `PyArray_ISCARRAY` (C-contiguous,
aligned, writeable).  What the wrapper calls first decides whether a Fortran / strided / read-only view
of valid data reaches them in acceptable form or turns into an exception. -/

/-- the flags of an array that matter here; `fOrder`: the axis order is Fortran-like (what
`order='K'` preserves in a copy) -/
structure Flags where
  ccontig   : Bool
  aligned   : Bool
  writeable : Bool
  fOrder    : Bool
deriving DecidableEq, Repr

/-- a freshly allocated C-ordered array -/
def Flags.fresh : Flags := { ccontig := true, aligned := true, writeable := true, fOrder := false }

/-- `PyArray_ISCARRAY` -/
def Flags.isCArray (f : Flags) : Bool := f.ccontig && f.aligned && f.writeable

inductive Norm
  | ascontiguousarray     -- `np.ascontiguousarray(a)`: the array itself when already C-contiguous
  | requireCAW            -- `np.require(a, requirements='CAW')`
  | requireCW             -- `np.require(a, requirements='CW')`
  | arrayC                -- `np.array(a, order='C')`: always a fresh C-ordered copy
  | arrayK                -- `np.array(a)` (order='K'): a fresh copy that keeps a Fortran-like axis order
  | asanyarray            -- no normalisation
deriving DecidableEq, Repr

def Norm.apply : Norm → Flags → Flags
  | .ascontiguousarray, f => if f.ccontig then f else Flags.fresh
  | .requireCAW, f => if f.ccontig && f.aligned && f.writeable then f else Flags.fresh
  | .requireCW, f => if f.ccontig && f.writeable then f else Flags.fresh
  | .arrayC, _ => Flags.fresh
  | .arrayK, f => { Flags.fresh with ccontig := !f.fOrder, fOrder := f.fOrder }
  | .asanyarray, f => f

def Norm.ofString : String → Option Norm
  | "ascontiguousarray" => some .ascontiguousarray
  | "require:CAW" => some .requireCAW
  | "require:CW" => some .requireCW
  | "array:C" => some .arrayC
  | "array:K" => some .arrayK
  | "asanyarray" => some .asanyarray
  | _ => none

/-- does the composition *normalisation → native ISCARRAY guard* accept an array with these flags? -/
def wrapperAccepts (n : Norm) (f : Flags) : Bool := (n.apply f).isCArray

/-! ### purity: which buffer an in-place native kernel receives

`haar/ihaar/daubechies/idaubechies` (through `_wavelet_array`), `relabel/remove_regions` (through
`_as_labeled`) and `surf.integral` call native kernels that overwrite their argument. -/

inductive Target
  | user    -- the caller's own array
  | copy    -- a fresh array produced by `copy()`, `astype(...)` or `np.array(...)`
deriving DecidableEq, Repr

/-- numpy calls that always return a fresh array -/
def producesCopy : String → Bool
  | "copy" => true
  | "astype" => true
  | "array" => true
  | _ => false

/-- the wrapper pattern `if not flag: a = <copying call>(a)`; otherwise the user's array goes through -/
def inplaceTarget (flag : Bool) (calls : List String) : Target :=
  if !flag && calls.all producesCopy && !calls.isEmpty then .copy else .user

/-! ## T2 / T3 — kernels over views

Every neighbourhood kernel of `_morph.cpp`, `_convolve.cpp`, `_labeled.cpp` has the shape
`for (i = 0; i != N; ++i, ++rpos, filter.iterate_both(iter)) { … filter.retrieve(iter, j, val) … }`:
the array is read through its iterator (`*iter`) and through `*(&*iter + offsets[j])`, where the offsets
were multiplied with the strides of the array handed to the `filter_iterator` constructor. The models below
are written against views: the pointer is `iterPtr` (the transliterated `operator++`), the offset table is the
transliterated `init_filter_offsets`/`iterate_both` of `Model/FilterIter.lean`, outputs start unwritten
(`none`, F15). -/

/-- `&*iter` at loop iteration `i` (after `i` applications of `operator++`) -/
def iterPtr (v : View) (i : Nat) : Int := ((Iter.begin v).incrN i).data

/-- a constructed `filter_iterator<T>` -/
structure FiltV (α : Type) where
  fi : FilterIter.FIter
  /-- `PyArray_DIMS(array)` -/
  ashape : List Nat
  /-- `PyArray_STRIDES(array)` in elements: what `init_filter_offsets` multiplies the coordinate offsets with -/
  astrides : List Int
  /-- `filter_data_` -/
  fdata : Array α

/-- the filter argument as the constructor reads it with `aligned_array<T>::iterator fiter(filter)` -/
def filtVals {α : Type} (mF : Int → α) (vF : View) : List α :=
  (List.range (shapeSize vF.shape)).map (readIter mF vF)

/-- the constructor of `filter_iterator` (`_filters.h`). `compress`: footprint `!!*fiter` and the compressed
copy of the data are read through the filter's own iterator; otherwise `footprint = 0` (every entry takes part)
and `filter_data_` is the raw data pointer of the filter, indexed as `filter_data_[j]`. -/
def mkFiltV {α : Type} (isNZ : α → Bool) (vA : View) (mF : Int → α) (vF : View) (m : Mode) (compress : Bool) :
    FiltV α :=
  let n := shapeSize vF.shape
  let vals := filtVals mF vF
  { fi := FilterIter.mkFIter m vA.shape vF.shape
            (if compress then (vals.map isNZ).toArray else Array.replicate n true)
    ashape := vA.shape
    astrides := vA.strides
    fdata := if compress then (vals.filter isNZ).toArray
             else ((List.range n).map fun (j : Nat) => mF (vF.base + (j : Int))).toArray }

/-- `retrieve(iterator, j, val)` at loop iteration `i`, `&*iterator = ptr`: `none` = `border_flag_value`
(or a table index past the end, which F6 excludes) -/
def FiltV.retrieve {α : Type} (fv : FiltV α) (mem : Int → α) (ptr : Int) (i j : Nat) : Option α :=
  match FilterIter.retrieve fv.fi (FilterIter.stateAfter fv.fi fv.ashape i) j with
  | some (some off) => some (mem (ptr + FilterIter.elemOffset fv.astrides off))
  | _ => none

/-- what the inner loop `for (j = 0; j != N2; ++j)` sees: `(retrieve(iter, j, ·), filter[j])` -/
def FiltV.neigh {α : Type} (fv : FiltV α) (d : α) (mem : Int → α) (ptr : Int) (i : Nat) : List (Option α × α) :=
  (List.range fv.fi.size).map fun j => (fv.retrieve mem ptr i j, fv.fdata.getD j d)

/-- `for (i = 0; i != N; ++i, ++rpos) *rpos = g(i);` on an output nobody has written yet -/
def pixelLoop {β : Type} (N : Nat) (g : Nat → β) : Array (Option β) :=
  (List.range N).foldl (fun res i => res.setIfInBounds i (some (g i))) (Array.replicate N none)

/-- loops that only ever store `true` (`*rpos = true` / `*out = true`) into an output the caller zero-filled
(`PyArray_FILLWBYTE(output, 0)` in `py_locminmax`, `output.fill(False)` in `labeled.borders`) -/
def markLoop (N : Nat) (g : Nat → Bool) : Array (Option Bool) :=
  (List.range N).foldl (fun res i => if g i then res.setIfInBounds i (some true) else res)
    (Array.replicate N (some false))

/-! ### erode, dilate, locmin_max (`_morph.cpp`) -/

/-- inner loop of `erode<T>`: `value = min(value, erode_sub(arr_val, filter[j])); if (value == min) break;`
(`arr_val = T()` when nothing is retrieved) -/
def erodeInner (dt : DT) : List (Option Int × Int) → Int → Int
  | [], v => v
  | ab :: t, v =>
    let v' := min v (erodeSub dt (ab.1.getD 0) ab.2)
    if v' = dt.lo then v' else erodeInner dt t v'

/-- `erode<T>(res, array, Bc)` as repaired (empty element: `std::fill(rpos, rpos + N, max)`) -/
def erodeView (dt : DT) (mA : Int → Int) (vA : View) (mB : Int → Int) (vB : View) : Array (Option Int) :=
  let N := shapeSize vA.shape
  let fv := mkFiltV (fun x => x != 0) vA mB vB .nearest dt.isBool
  if fv.fi.size = 0 then pixelLoop N fun _ => dt.hi
  else pixelLoop N fun i => erodeInner dt (fv.neigh 0 mA (iterPtr vA i) i) dt.hi

/-- `res` as `_get_output` hands it to the kernels: a C-contiguous array of the input's shape -/
def outView (shape : List Nat) : View := { base := 0, shape := shape, strides := cStrides shape, carray := true }

/-- one `j` of the inner loop of `dilate<T>`: `nval = dilate_add(value, filter[j]); retrieve(rpos, j, arr_val);
if (nval > arr_val) filter.set(rpos, j, nval);` on the flat output (`rpos = res.data() + i`) -/
def dilateStep (dt : DT) (fv : FiltV Int) (value : Int) (i : Nat) (res : Array (Option Int)) (j : Nat) :
    Array (Option Int) :=
  let nval := dilateAdd dt value (fv.fdata.getD j 0)
  match FilterIter.retrieve fv.fi (FilterIter.stateAfter fv.fi fv.ashape i) j with
  | some (some off) =>
    let a := ((i : Int) + FilterIter.elemOffset fv.astrides off).toNat
    if nval > ((res.getD a none).getD 0) then res.setIfInBounds a (some nval) else res
  | _ => res

/-- `dilate<T>(res, array, Bc)`: `array` is read only as `*iter`; the filter is built on `res` -/
def dilateView (dt : DT) (mA : Int → Int) (vA : View) (mB : Int → Int) (vB : View) : Array (Option Int) :=
  let N := shapeSize vA.shape
  let fv := mkFiltV (fun x => x != 0) (outView vA.shape) mB vB .nearest dt.isBool
  let res := pixelLoop N fun _ => dt.lo                     -- `std::fill(rpos, rpos + res.size(), min)`
  if fv.fi.size = 0 then res else
  (List.range N).foldl (fun res i =>
    let value := readIter mA vA i
    if value = dt.lo then res
    else (List.range fv.fi.size).foldl (dilateStep dt fv value i) res) res

/-- inner loop of `locmin_max<T>`: `goto skip_to_next` as soon as a neighbour beats `cur` -/
def locInner (isMin : Bool) (cur : Int) : List (Option Int × Int) → Bool
  | [] => true
  | ab :: t =>
    let a := ab.1.getD 0
    if (isMin && decide (a < cur)) || (!isMin && decide (a > cur)) then false else locInner isMin cur t

/-- `locmin_max<T>(res, array, Bc, is_min)` as repaired: the filter is built from `array` -/
def locView (isMin : Bool) (mA : Int → Int) (vA : View) (mB : Int → Int) (vB : View) : Array (Option Bool) :=
  let fv := mkFiltV (fun x => x != 0) vA mB vB .nearest true
  markLoop (shapeSize vA.shape) fun i => locInner isMin (readIter mA vA i) (fv.neigh 0 mA (iterPtr vA i) i)

/-! ### `fast_binary_dilate_erode_2d` with unwritten cells (F15 of the binary fast path of `py_erode` / `py_dilate`)

The row loops of the fast path only ever *update* the output (`&=`, `|=`): they rely on the `std::copy` /
`std::fill_n` in front of them having assigned every cell. Here the output starts unwritten (`none`) and an update of an
unwritten cell leaves it unwritten, so that "every cell is assigned before the row loops" is a theorem
(`C08_defined_everywhere_fast_binary`) instead of an assumption of the `Int`-celled loops of `Model/C01.lean`. -/

/-- `out[j] &= b` on a cell that may still be unwritten -/
def andIntoO (res : Array (Option Int)) (j : Nat) (b : Int) : Array (Option Int) :=
  res.setIfInBounds j ((res.getD j none).map fun r => if r != 0 && b != 0 then 1 else 0)

/-- `out[j] |= b` on a cell that may still be unwritten -/
def orIntoO (res : Array (Option Int)) (j : Nat) (b : Int) : Array (Option Int) :=
  res.setIfInBounds j ((res.getD j none).map fun r => if r != 0 || b != 0 then 1 else 0)

/-- `C01.fastErodeRow` (border loop of `|dx|` iterations, main loop of `Nx − |dx|`) on `Option` cells -/
def fastErodeRowO (data : Array Int) (Nx orow irow : Nat) (dx : Int) (res : Array (Option Int)) : Array (Option Int) :=
  let n := Nx - dx.natAbs
  if dx > 0 then
    let res := (List.range dx.toNat).foldl (fun res i =>
      andIntoO res (orow + (Nx - i - 1)) (data.getD (irow + (Nx - 1)) 0)) res
    (List.range n).foldl (fun res i => andIntoO res (orow + i) (data.getD (irow + dx.toNat + i) 0)) res
  else if dx < 0 then
    let res := (List.range (-dx).toNat).foldl (fun res i => andIntoO res (orow + i) (data.getD irow 0)) res
    (List.range n).foldl (fun res i => andIntoO res (orow + (-dx).toNat + i) (data.getD (irow + i) 0)) res
  else
    (List.range n).foldl (fun res i => andIntoO res (orow + i) (data.getD (irow + i) 0)) res

/-- `C01.fastDilateRow` on `Option` cells -/
def fastDilateRowO (data : Array Int) (Nx orow irow : Nat) (dx : Int) (res : Array (Option Int)) : Array (Option Int) :=
  let n := Nx - dx.natAbs
  if dx > 0 then
    let res := (List.range dx.toNat).foldl (fun res i =>
      orIntoO res (orow + (Nx - 1)) (data.getD (irow + (Nx - i - 1)) 0)) res
    (List.range n).foldl (fun res i => orIntoO res (orow + dx.toNat + i) (data.getD (irow + i) 0)) res
  else if dx < 0 then
    let res := (List.range (-dx).toNat).foldl (fun res i => orIntoO res orow (data.getD (irow + i) 0)) res
    (List.range n).foldl (fun res i => orIntoO res (orow + i) (data.getD (irow + (-dx).toNat + i) 0)) res
  else
    (List.range n).foldl (fun res i => orIntoO res (orow + i) (data.getD (irow + i) 0)) res

/-- `fast_binary_dilate_erode_2d(res, array, Bc, is_erosion)`: `array` is a 2-D bool C-array read through its raw data
pointer (`array.data()[k]`, `array.data(y)[x]`), `Bc` through `Bc.at(y, x)` (any strides); `res` is C-contiguous and
starts unwritten, receives `std::copy(array.data(), array.data() + N, res.data())` (centre set) or
`std::fill_n(res.data(), N, is_erosion)`, then the row loops of `Model/C01.lean` update it in place. -/
def fastBinaryView (isErosion : Bool) (mA : Int → Int) (vA : View) (mB : Int → Int) (vB : View) : Array (Option Int) :=
  match vA.shape, vB.shape with
  | [Ny, Nx], [By, Bx] =>
    let N := Ny * Nx
    let data := ((List.range N).map fun (k : Nat) => mA (vA.base + (k : Int))).toArray
    let bc := ((List.range (By * Bx)).map fun (k : Nat) => mB (vB.at [k / Bx, k % Bx])).toArray
    let init : Array (Option Int) :=
      if C01.centreSet [By, Bx] bc then pixelLoop N fun k => data.getD k 0
      else pixelLoop N fun _ => if isErosion then 1 else 0
    (List.range Ny).foldl (fun res y =>
      (C01.fastPositions Nx [By, Bx] bc true).foldl (fun res d =>
        if isErosion then fastErodeRowO data Nx (y * Nx) (C01.fastRow Ny y d.1 * Nx) d.2 res
        else fastDilateRowO data Nx (C01.fastRow Ny y d.1 * Nx) (y * Nx) d.2 res) res) init
  | _, _ => Array.replicate (shapeSize vA.shape) none

/-- the dispatch of `py_erode`: `check_type<bool>(array) && PyArray_NDIM(array) == 2 && PyArray_ISCARRAY(array)` -/
def pyErodeView (dt : DT) (mA : Int → Int) (vA : View) (mB : Int → Int) (vB : View) : Array (Option Int) :=
  if dt.isBool && vA.shape.length == 2 && vA.carray then fastBinaryView true mA vA mB vB
  else erodeView dt mA vA mB vB

/-- the dispatch of `py_dilate` (same test) -/
def pyDilateView (dt : DT) (mA : Int → Int) (vA : View) (mB : Int → Int) (vB : View) : Array (Option Int) :=
  if dt.isBool && vA.shape.length == 2 && vA.carray then fastBinaryView false mA vA mB vB
  else dilateView dt mA vA mB vB

/-! ### convolve, rank_filter, mean_filter, template_match (`_convolve.cpp`), borders (`_labeled.cpp`) -/

/-- inner loop of `convolve<T>`: `if (fiter.retrieve(iter, j, val)) cur += double(val)*fiter[j];` -/
def convInner {α : Type} [Add α] [Mul α] (l : List (Option α × α)) (zero : α) : α :=
  l.foldl (fun cur ab => match ab.1 with | some v => cur + v * ab.2 | none => cur) zero

/-- `convolve<T>(array, filter, result, mode)`; `cast` is the final `T(cur)` -/
def convolveView {α : Type} [Add α] [Mul α] (zero : α) (isZero : α → Bool) (cast : α → α) (m : Mode)
    (mA : Int → α) (vA : View) (mW : Int → α) (vW : View) : Array (Option α) :=
  let fv := mkFiltV (fun x => !isZero x) vA mW vW m true
  pixelLoop (shapeSize vA.shape) fun i => cast (convInner (fv.neigh zero mA (iterPtr vA i) i) zero)

/-- the samples `rank_filter` / `mean_filter` collect: `if (retrieve) …val… else if (mode == ExtendConstant) …cval…`
(`cval = 0`: the wrappers accept no other value) -/
def gatherInner (m : Mode) (l : List (Option Int × Int)) : List Int :=
  l.filterMap fun ab => match ab.1 with
    | some v => some v
    | none => if m = .constant then some 0 else none

/-- `rank_filter<T>`: nothing is written when `rank` is outside `[0, N2)` (the wrapper now raises first);
a pixel is `none` when `nth_element` has no `currank`-th sample -/
def rankView (m : Mode) (rank : Int) (mA : Int → Int) (vA : View) (mB : Int → Int) (vB : View) :
    Array (Option Int) :=
  let N := shapeSize vA.shape
  let fv := mkFiltV (fun x => x != 0) vA mB vB m true
  let N2 := fv.fi.size
  if rank < 0 ∨ rank ≥ (N2 : Int) then Array.replicate N none
  else (pixelLoop N fun i =>
    let s := gatherInner m (fv.neigh 0 mA (iterPtr vA i) i)
    C07.nthElement s (C07.curRank s.length N2 rank.toNat)).map fun o => o.bind id

/-- `mean_filter<T>`: `(sum, n)` per pixel, the output is `sum / n` in double -/
def meanView (m : Mode) (mA : Int → Int) (vA : View) (mB : Int → Int) (vB : View) : Array (Option (Int × Nat)) :=
  let fv := mkFiltV (fun x => x != 0) vA mB vB m true
  pixelLoop (shapeSize vA.shape) fun i =>
    let s := gatherInner m (fv.neigh 0 mA (iterPtr vA i) i)
    (s.foldl (· + ·) 0, s.length)

/-- inner loop of `template_match<T>` (`just_equality = false`) -/
def tmInner (l : List (Option Int × Int)) : Int :=
  l.foldl (fun diff2 ab => match ab.1 with
    | some val =>
      let tj := ab.2
      let delta := if val > tj then val - tj else tj - val
      diff2 + delta * delta
    | none => diff2) 0

/-- `template_match<T>(res, f, t, mode, false)`: `filter_iterator(f, t, mode, compress = false)`, so `fiter[j]` is
the raw `t.data()[j]` (the wrapper passes a C-contiguous template since 6f6fc49) -/
def tmView (m : Mode) (mA : Int → Int) (vA : View) (mT : Int → Int) (vT : View) : Array (Option Int) :=
  let fv := mkFiltV (fun x => x != 0) vA mT vT m false
  pixelLoop (shapeSize vA.shape) fun i => tmInner (fv.neigh 0 mA (iterPtr vA i) i)

/-- `borders<T>`: `if (fiter.retrieve(iter, j, val) && (val != cur)) { *out = true; break; }` -/
def bordersView (m : Mode) (mA : Int → Int) (vA : View) (mB : Int → Int) (vB : View) : Array (Option Bool) :=
  let fv := mkFiltV (fun x => x != 0) vA mB vB m true
  markLoop (shapeSize vA.shape) fun i =>
    let cur := readIter mA vA i
    (fv.neigh 0 mA (iterPtr vA i) i).any fun ab => match ab.1 with | some v => v != cur | none => false

/-! ### `at_flat` kernels: hitmiss, cwatershed (`_morph.cpp`) -/

/-- the array as a kernel sees it that only ever calls `at_flat(i)`, `0 ≤ i < N` -/
def flatImg {α : Type} (mem : Int → α) (v : View) : Img α :=
  { shape := v.shape, data := ((List.range (shapeSize v.shape)).map (readAtFlat mem v)).toArray }

/-- `hitmiss`'s neighbour table: `Bc` is walked with its iterator, `*Bi != 2` entries give
`delta = input.pos_to_flat(Bi.position() - centre)` and the required value -/
def hmTable (vA : View) (mB : Int → Int) (vB : View) : List (Int × Int) :=
  (List.range (shapeSize vB.shape)).filterMap fun j =>
    let b := readIter mB vB j
    if b == 2 then none
    else some (vA.posToFlat (subPos (((Iter.begin vB).incrN j).position.map Int.ofNat) (centreOf vB.shape)), b)

/-- `hitmiss<T>(res, input, Bc)`: loop control (`flat_to_pos`, margins, `slack`) depends on the dimensions only and is
taken from `C14.hmEvaluated`; the input is read as `input.at_flat(i + delta)` -/
def hitmissView (mA : Int → Int) (vA : View) (mB : Int → Int) (vB : View) : Array (Option Int) :=
  let tab := hmTable vA mB vB
  pixelLoop (shapeSize vA.shape) fun i =>
    if C14.hmEvaluated vA.shape vB.shape (vA.flatToPos (i : Int)) then
      (if tab.all fun e => readAtFlat mA vA ((i : Int) + e.1).toNat == e.2 then 1 else 0)
    else 0

/-- `cwatershed<T>`: the surface and the markers are read as `at_flat(i)` only (marker scan, `array.at_flat(npos)`),
the structuring element through its iterator; everything else works on flat indices of the C-contiguous outputs
(zero-filled since 57cffc7) -/
def cwatershedView (mS : Int → Int) (vS : View) (mM : Int → Int) (vM : View) (mB : Int → Int) (vB : View) :
    C04.MSt :=
  C04.cwatershedModel (flatImg mS vS) (flatImg mM vM) vB.shape (filtVals mB vB).toArray

/-! ### bbox, center_of_mass -/

/-- generic `bbox<T>`: `*pos` and `pos.position()` of the array iterator -/
def bboxGenericView (mA : Int → Int) (vA : View) : List Int :=
  C13.bboxFinish ((List.range (shapeSize vA.shape)).foldl (fun ext i =>
    if readIter mA vA i ≠ 0 then C13.bboxUpdate ext (((Iter.begin vA).incrN i).position.map Int.ofNat) else ext)
    (C13.bboxInit vA.shape))

/-- `py_bbox`: `carray2_bbox` walks the raw data pointer when the array is a 2-D C-array, `bbox<T>` otherwise -/
def bboxView (mA : Int → Int) (vA : View) : List Int :=
  match vA.carray, vA.shape with
  | true, [N0, N1] => C13.bboxFast N0 N1 ((List.range (N0 * N1)).map fun (k : Nat) => mA (vA.base + (k : Int)))
  | _, _ => bboxGenericView mA vA

/-- `center_of_mass<T>`: `*pos` of the iterator, `pos.index_rev(j)`; `labels` is a C-contiguous `int32` copy made by the
wrapper and indexed as `labels[i]` -/
def comView {α : Type} (ops : C13.NumOps α) (mA : Int → α) (vA : View) (labels : List Int) : List α :=
  C13.comModelG ops vA.shape ((List.range (shapeSize vA.shape)).map (readIter mA vA)) labels

/-! ### distance (`distance.py` as repaired: one 1-D pass per line, each line addressed by its own strides) -/

/-- the line of `f` through `p` along `axis`: a `(1, n)` view whose only non-trivial stride is the array's stride
on that axis -/
def lineView (v : View) (axis : Nat) (p : List Nat) : View :=
  { base := v.addr (p.set axis 0), shape := [v.shape.getD axis 0], strides := [v.strides.getD axis 0] }

/-- what `_distance.dt` reads from one line (`f[i*stride]`) -/
def lineVals {α : Type} (mem : Int → α) (v : View) (axis : Nat) (p : List Nat) : List α :=
  (List.range (v.shape.getD axis 0)).map fun t => mem ((lineView v axis p).addr [t])

/-! ### driver -/

def viewOf (a : Args) : View :=
  { base := a.int "base", shape := a.nats "shape", strides := a.ints "strides",
    carray := a.nat "carray" == 1 }

/-- the addresses the iterator visits: `data_` after `k = 0 … size-1` increments (the very `incrN` the theorems are about) -/
def iterAddrs (v : View) : List Int :=
  (List.range (shapeSize v.shape)).map fun k => ((Iter.begin v).incrN k).data

end Mahotas.C08
