/-
C08 (round 4) — further kernels over address-level views: the kernels of `_morph.cpp` that touch their array arguments
through `at(pos)` (`PyArray_GetPtr`: `data + Σ pos[i]*strides[i]`) and walk the structuring element with its iterator:
`remove_fake_regmin_max` (after `locmin_max`), `close_holes`, `majority_filter`.

As everywhere in the C08 model an array argument is a memory `mem : Int → α` plus a `View` (base, shape, element strides of
ANY sign/order); the kernels read it only through the accessor the C++ uses.  No Mathlib here (linked into the driver).
-/
import Mahotas.Model.C08Base
import Mahotas.Model.C19
namespace Mahotas.C08
open Mahotas

/-- the array as a kernel sees it that only ever calls `array.at(pos)` with valid positions
(`PyArray_GetPtr(a, pos)`, the transliterated `View.at`): one read per position, tabulated in C order -/
def atImg {α : Type} (mem : Int → α) (v : View) : Img α :=
  { shape := v.shape
    data := ((List.range (shapeSize v.shape)).map fun k => readAt mem v (unravel v.shape k)).toArray }

/-- `neighbours(Bc)` of `_morph.cpp` (l.78–91): `Bc` is walked with its own iterator (`*startc`, `startc.position()`),
non-zero entries other than the centre give `position − centre` -/
def nbView (mB : Int → Int) (vB : View) : List (List Int) :=
  C14.neighbours vB.shape (filtVals mB vB).toArray

/-! ### `py_regminmax`: `locmin_max` then `remove_fake_regmin_max` (`_morph.cpp` l.318–390) -/

/-- `py_regminmax`: `PyArray_FILLWBYTE(output, 0); locmin_max<T>(output, array, Bc, is_min);
remove_fake_regmin_max<T>(output, array, Bc, is_min)`. The second kernel scans the (C-contiguous) output with its
iterator, reads the image as `f.at(pos)` / `f.at(npos)` after `f.validposition(npos)`, and clears marks through
`regmin.at(npos)`. A cell `locmin_max` left unwritten would stay unwritten (there is none: `C08_defined_everywhere_regmin_max`). -/
def regView (isMin : Bool) (mA : Int → Int) (vA : View) (mB : Int → Int) (vB : View) : Array (Option Bool) :=
  let marks := locView isMin mA vA mB vB
  if marks.all Option.isSome then
    (C14.removeFake isMin (atImg mA vA) (nbView mB vB) (marks.map fun o => o.getD false)).map some
  else marks

/-! ### `close_holes` (`_morph.cpp` l.489–538) -/

/-- `close_holes(ref, f, Bc)`: `f` is a fresh `PyArray_SimpleNew` array (unwritten) that receives
`std::fill_n(f.data(), f.size(), false)` first; `ref` is read as `ref.at(pos)` only (border seeding, then
`ref.validposition(npos) && !ref.at(npos)`), `Bc` through `neighbours(Bc)`; the final loop negates every cell of `f`. -/
def closeHolesView (mR : Int → Int) (vR : View) (mB : Int → Int) (vB : View) : Array (Option Bool) :=
  (C14.closeHoles (atImg mR vR) (nbView mB vB)).map some

/-! ### `majority_filter` (`_morph.cpp: py_majority_filter`) -/

/-- number of set pixels in the `n × n` window whose top-left corner is `(y, x)`: `if (input.at(y+dy, x+dx)) ++count` -/
def majorityCount (n : Nat) (px : Nat → Nat → Bool) (y x : Nat) : Nat :=
  ((List.range n).flatMap fun dy => (List.range n).map fun dx => px (y + dy) (x + dx)).countP id

/-- the two loops of `py_majority_filter` on an output that `PyArray_FILLWBYTE(res_a, 0)` has zero-filled:
`for (y = 0; y != rows-N; ++y) { output_iter = output.data() + (y+N/2)*output.stride(0) + N/2;
 for (x = 0; x != cols-N; ++x) { …count…; if (count >= T) *output_iter = true; ++output_iter; } }` with `T = N*N/2`
(the last window row/column is not visited: `!= rows-N`, not `<=` — modelled as it is); nothing is stored when
`rows < N || cols < N`. `px y x` is the pixel test `input.at(y, x)`. -/
def majorityLoops (rows cols n : Nat) (px : Nat → Nat → Bool) : Array (Option Bool) :=
  let init : Array (Option Bool) := Array.replicate (rows * cols) (some false)
  if rows < n || cols < n then init
  else
    (List.range (rows - n)).foldl (fun res y =>
      (List.range (cols - n)).foldl (fun res x =>
        if majorityCount n px y x ≥ n * n / 2 then res.setIfInBounds ((y + n / 2) * cols + n / 2 + x) (some true)
        else res) res) init

/-- `majority_filter` on a view of the input: `input.at(y+dy, x+dx)` is `PyArray_GETPTR2` -/
def majorityView (n : Nat) (mA : Int → Int) (vA : View) : Array (Option Bool) :=
  match vA.shape with
  | [rows, cols] => majorityLoops rows cols n fun y x => readAt mA vA [y, x] != 0
  | _ => Array.replicate (shapeSize vA.shape) none

/-- the same kernel on a logical image (what a C-contiguous copy of the input would give) -/
def majorityLogical (n : Nat) (A : Img Int) : Array (Option Bool) :=
  match A.shape with
  | [rows, cols] => majorityLoops rows cols n fun y x => A.getD [(y : Int), (x : Int)] 0 != 0
  | _ => Array.replicate (shapeSize A.shape) none

/-! ### `filter_iterator::iterate_both(iterator)` reading the position from the ARRAY iterator

`Model/FilterIter.lean` keeps its own odometer (`State.posRev`) next to the table pointer. The C++ has no such copy:
`iterate_both` reads `iterator.index_rev(d)` and `iterator.dimension_rev(d)` of the array iterator it is handed, moves
`cur_offsets_idx_`, and then does `++iterator`. This is that loop, on the transliterated `Iter` of `Model/C08Base.lean`. -/

/-- the pair (array iterator, `cur_offsets_idx_ − offsets_.begin()`) a kernel loop carries -/
structure BothState where
  it : Iter
  cur : Int
deriving Repr

/-- `fiter.iterate_both(iter)`: `p = iterator.index_rev(d)` is `it.pos[d]`, `iterator.dimension_rev(d)` is `it.dims[d]`
(both stored reversed by `iterator_base`); then `++iterator` -/
def iterateBothV (fi : FilterIter.FIter) (s : BothState) : BothState :=
  { cur := FilterIter.iterateBoth fi.its (s.it.pos.map Int.ofNat) s.it.dims s.cur
    it := s.it.incr }

/-- `iter = array.begin(); filter_iterator fiter(…);` then `n` times `fiter.iterate_both(iter)` -/
def bothAfter (fi : FilterIter.FIter) (v : View) : Nat → BothState
  | 0 => { it := Iter.begin v, cur := 0 }
  | n + 1 => iterateBothV fi (bothAfter fi v n)

/-- `retrieve(iterator, j, val)` through the joint loop state: `*(&*iterator + cur_offsets_idx_[j])` -/
def retrieveBoth {α : Type} (fv : FiltV α) (mem : Int → α) (v : View) (i j : Nat) : Option α :=
  let s := bothAfter fv.fi v i
  match fv.fi.offsets[(s.cur + (j : Int)).toNat]? with
  | some (some off) => some (mem (s.it.data + FilterIter.elemOffset fv.astrides off))
  | _ => none

/-! ### `cooccurence<T>` (`features/_texture.cpp` l.22–40) -/

/-- `cooccurence<T>(res, array, Bc)`: the image is walked with its iterator (`val = *iter`), `Bc` — the wrapper's one-hot
`3^nd` direction array — becomes a compressed `filter_iterator(array, Bc, ExtendIgnore, true)`, and wherever
`filter.retrieve(iter, 0, val2)` delivers a neighbour `++res.at(val, val2)` (the `mm × mm` int32 result was zero-filled by the
wrapper; `res.at(i, j)` is cell `i*mm + j` of its logical content). The `throw` on negative values is not modelled: values
are in `[0, mm)` (the wrapper sizes the result from the maximum). -/
def coocView (mm : Nat) (mA : Int → Int) (vA : View) (mB : Int → Int) (vB : View) : Array Nat :=
  let fv := mkFiltV (fun x => x != 0) vA mB vB .ignore true
  (List.range (shapeSize vA.shape)).foldl (fun acc i =>
      match (fv.neigh 0 mA (iterPtr vA i) i).head? with
      | some (some val2, _) => acc.modify ((readIter mA vA i).toNat * mm + val2.toNat) (· + 1)
      | _ => acc)
    (Array.replicate (mm * mm) 0)

/-! ### purity: which buffer reaches a native kernel that overwrites an array argument

`Generated/CopyGuards.lean: inplaceSites` lists EVERY call of such a kernel in the Python sources with the provenance of the
buffer the wrapper hands over. `siteTarget` says what that buffer is when the caller did NOT ask for in-place operation
(`out=None`, `inline/inplace/in_place=False`): a fresh array for `fresh` (allocated or copied in the wrapper) and `out`
(`_get_output` allocates when no `out` is given; with `out=` the kernel works on the caller's OUTPUT, which is asked for),
the copy-guard decision (`inplaceTarget false`) for a helper / flag listed in `copyGuards`, the caller's array otherwise. -/

def siteTarget (guards : List (String × String × List String)) (site : String × String × String × String) : Target :=
  let kind := site.2.2.1
  let detail := site.2.2.2
  if kind == "fresh" || kind == "out" then .copy
  else if kind == "guarded" then
    match guards.find? (fun g => g.1 == detail) with
    | some g => inplaceTarget false g.2.2
    | none => .user
  else if kind == "flag" then
    match guards.find? (fun g => g.1 == site.1 && g.2.1 == detail) with
    | some g => inplaceTarget false g.2.2
    | none => .user
  else .user

/-! ### driver: `c08 kind=kviewA kernel=… amem= abase= ashape= astrides= bmem= bbase= bshape= bstrides= n= min=` -/

def handleViewsA (a : Args) : String :=
  let mk := fun (pre : String) =>
    let mem := (a.ints (pre ++ "mem")).toArray
    let v : View := { base := a.int (pre ++ "base"), shape := a.nats (pre ++ "shape"),
                      strides := a.ints (pre ++ "strides"), carray := a.nat (pre ++ "carray") == 1 }
    ((fun (ad : Int) => if ad < 0 then (0 : Int) else mem.getD ad.toNat 0), v)
  let (mA, vA) := mk "a"
  let (mB, vB) := mk "b"
  let ob := fun (r : Array (Option Bool)) => showOptInts (r.toList.map fun o => o.map fun b => if b then (1 : Int) else 0)
  match a.str "kernel" with
  | "regmax" => s!"out={ob (regView false mA vA mB vB)}"
  | "regmin" => s!"out={ob (regView true mA vA mB vB)}"
  | "close_holes" => s!"out={ob (closeHolesView mA vA mB vB)}"
  | "majority" => s!"out={ob (majorityView (a.nat "n") mA vA)}"
  | "cooccurence" => s!"out={showNats (coocView (a.nat "mm") mA vA mB vB).toList}"
  | k => s!"error=unknown-kernel-{k}"

end Mahotas.C08
