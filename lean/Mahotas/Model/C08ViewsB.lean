/-
C08 (round 4) — the in-place row kernels of `_convolve.cpp` (`haar`, `ihaar`, `wavelet`, `iwavelet`) over address-level
views: each row is addressed as `data = array.data(y)` (`PyArray_GETPTR1`) and walked with `step = array.stride(1)`
(`data[p*step]`), transformed into a private buffer and stored back (`data[step*x] = buffer[x]`); `convolve.py` calls the
kernel on `f` and on the transposed view `f.T`. With `inline=True` the view is the caller's own array, whatever its
strides. The row transforms themselves are the owner's (`Model/C17.lean`, polymorphic in the scalar type).

No Mathlib here (linked into the driver).
-/
import Mahotas.Model.C08Base
import Mahotas.Model.C17
namespace Mahotas.C08
open Mahotas

/-- a memory that is updated in place. (A one-field structure rather than a bare function: a kernel returning a bare
`Int → α` would be compiled as a function of one more argument and re-run its loops at every read.) -/
structure Mem (α : Type) where
  rd : Int → α

/-- a store `*p = x` into a memory -/
def wr {α : Type} (m : Mem α) (a : Int) (x : α) : Mem α := ⟨fun b => if b = a then x else m.rd b⟩

/-- one iteration `y` of the outer loop of `haar<T>` / `ihaar<T>` / `wavelet<T>` / `iwavelet<T>`:
`T* data = array.data(y)`; every read is `data[p*step]` (`_access`, `low[x*step]`, `high[x*step]` with
`high = data + step*(N1/2)` as repaired by 63fe463) of the memory AS IT IS when the row is entered, the results go to
`buffer` (`T N1 row x` is `buffer[x]`; the never-written last slot of an odd row keeps `T()`), then
`for (x = 0; x != N1; ++x) data[step*x] = buffer[x];` -/
def rowInPlace {α : Type} (T : Nat → (Nat → α) → Nat → α) (N1 : Nat) (step data : Int) (m : Mem α) : Mem α :=
  let row : Nat → α := fun p => m.rd (data + (p : Int) * step)
  (List.range N1).foldl (fun m' (x : Nat) => wr m' (data + step * (x : Int)) (T N1 row x)) m

/-- the kernel on a 2-D view: `N0 = dim(0)`, `N1 = dim(1)`, `step = stride(1)`, `array.data(y) = base + y*stride(0)`;
returns the memory after the call -/
def rowsInPlaceView {α : Type} (T : Nat → (Nat → α) → Nat → α) (m : Mem α) (v : View) : Mem α :=
  match v.shape, v.strides with
  | [N0, N1], [s0, s1] => (List.range N0).foldl (fun m (y : Nat) => rowInPlace T N1 s1 (v.base + (y : Int) * s0) m) m
  | _, _ => m

/-- `f.T` of a 2-D array: same data pointer, dimensions and strides swapped -/
def transposeView (v : View) : View :=
  match v.shape, v.strides with
  | [a, b], [s, t] => { base := v.base, shape := [b, a], strides := [t, s], carray := false }
  | _, _ => v

/-- `_convolve.K(f); _convolve.K(f.T)` (`convolve.haar`, `ihaar`, `daubechies`) -/
def rowsThenCols {α : Type} (T : Nat → (Nat → α) → Nat → α) (m : Mem α) (v : View) : Mem α :=
  rowsInPlaceView T (rowsInPlaceView T m v) (transposeView v)

/-- `_convolve.K(f.T); _convolve.K(f)` (`convolve.idaubechies`) -/
def colsThenRows {α : Type} (T : Nat → (Nat → α) → Nat → α) (m : Mem α) (v : View) : Mem α :=
  rowsInPlaceView T (rowsInPlaceView T m (transposeView v)) v

/-- the logical image a 2-D view presents, as the total function the C17 model works on (only `y < N0`, `x < N1` matter) -/
def toIm {α : Type} (m : Mem α) (v : View) : C17.Im α :=
  fun y x => m.rd (v.base + (y : Int) * v.strides.getD 0 0 + (x : Int) * v.strides.getD 1 0)

/-- the row of `ihaar<T>` **before** repair 63fe463: `T* high = data + step*N1/2`, which C parses as `(step*N1)/2`
(truncating): for an odd length and `|step| ≥ 2` the high-pass half starts `step/2` elements too far. Kept so that the
defect is a theorem about a definition (`C08_ihaar_pinned_wrong`). `mem` is read at `data + …` directly. -/
def ihaarRowPinned {α : Type} [Add α] [Sub α] [Div α] [NatCast α] (N1 : Nat) (step data : Int) (m : Int → α) (k : Nat) : α :=
  if k < 2 * (N1 / 2) then
    let l := m (data + ((k / 2 : Nat) : Int) * step)
    let h := m (data + (step * (N1 : Int)).tdiv 2 + ((k / 2 : Nat) : Int) * step)
    if k % 2 = 0 then (l - h) / C17.two else (l + h) / C17.two
  else C17.zero

/-! ### driver: `c08 kind=kviewB kernel=haar|ihaar|daubechies|idaubechies code= mem= base= shape= strides=`
(`mem` = the whole root buffer as binary64 patterns; answers the whole buffer after the call) -/

local instance : NatCast Float := ⟨Float.ofNat⟩
local instance : IntCast Float := ⟨Float.ofInt⟩

def handleViewsB (a : Args) : String :=
  let mem := (a.floats "mem").toArray
  let v : View := { base := a.int "base", shape := a.nats "shape", strides := a.ints "strides" }
  let m : Mem Float := ⟨fun ad => if ad < 0 then 0.0 else mem.getD ad.toNat 0.0⟩
  let out := fun (m' : Mem Float) => showFloats ((List.range mem.size).map fun (k : Nat) => m'.rd (k : Int))
  let cs : List Float := C17.coeffsOf (a.nat "code")
  match a.str "kernel" with
  | "haar" => s!"mem={out (rowsThenCols C17.haarRow m v)}"
  | "ihaar" => s!"mem={out (rowsThenCols C17.ihaarRow m v)}"
  | "daubechies" => s!"mem={out (rowsThenCols (C17.waveletRow cs) m v)}"
  | "idaubechies" => s!"mem={out (colsThenRows (C17.iwaveletRow cs) m v)}"
  | k => s!"error=unknown-kernel-{k}"

end Mahotas.C08
