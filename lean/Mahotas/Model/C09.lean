/-
C09 — executable model of the `out=` convention.

(a) `getOutput` — the decision function of `mahotas/internal.py::_get_output`, tests in the order
    of the code (dtype, shape, C-contiguity);
(b) `hitmissOut` — `hitmiss`'s own hand-written validation (`morph.py`), as repaired (contiguity);
(c) buffer-flow programs — the Python wrappers that pass one buffer through several passes
    (`erode`/`dilate`, `open`, `close`, `cerode`, `subm`, `tophat_open/close`, and the Gaussian
    ping-pong of the pinned tree), written in a tiny shallow embedding: a heap of buffers with a
    descriptor (dtype, shape, contiguity) and a *symbolic* content, explicit state passing, and a
    result that is either `ok value state` or `raise reason state`.

No Mathlib here (linked into the driver).
-/
import Mahotas.Model.Basic
namespace Mahotas.C09
open Mahotas

/-- what `_get_output` looks at in an array -/
structure Desc where
  dtype   : Nat          -- canonical dtype code (kind, itemsize)
  shape   : List Nat
  ccontig : Bool         -- `flags.contiguous` (= C-contiguous)
deriving DecidableEq, Repr

inductive Reject
  | dtype | shape | contig
deriving DecidableEq, Repr

def Reject.name : Reject → String
  | .dtype => "dtype" | .shape => "shape" | .contig => "contig"

/-- outcome of `_get_output(array, out, fname, dtype)` -/
inductive Decision
  | fresh (d : Desc)        -- `np.empty(array.shape, dtype)`
  | useOut                  -- `return out`
  | reject (r : Reject)     -- `raise ValueError`
deriving DecidableEq, Repr

/-- the three tests of `_get_output` in source order (kept as data so that the translator's
    extraction of the *current* source can be compared with it) -/
def getOutputChecks : List String := ["dtype", "shape", "contiguous"]

/-- transliteration of `_get_output` (the deprecated `output=` alias is resolved by the caller) -/
def getOutput (array : Desc) (out : Option Desc) (dtype : Option Nat) : Decision :=
  let dt := match dtype with
    | none => array.dtype
    | some d => d
  match out with
  | none => .fresh { dtype := dt, shape := array.shape, ccontig := true }
  | some o =>
    if o.dtype ≠ dt then .reject .dtype
    else if o.shape ≠ array.shape then .reject .shape
    else if !o.ccontig then .reject .contig
    else .useOut

/-! ### `hitmiss` validates by hand -/

inductive HMDecision
  | fresh | useOut | useView | valueError | typeError
deriving DecidableEq, Repr

def dtBool : Nat := 98001     -- 'b', 1 byte
def dtU8 : Nat := 117001      -- 'u', 1 byte

/-- `hitmiss`: `input` here is the array *after* the bool→uint8 view -/
def hitmissOut (input : Desc) (out : Option Desc) : HMDecision :=
  match out with
  | none => .fresh
  | some o =>
    if o.shape ≠ input.shape then .valueError
    else if !o.ccontig then .valueError
    else if o.dtype ≠ input.dtype then
      (if o.dtype = dtBool ∧ input.dtype = dtU8 then .useView else .typeError)
    else .useOut

/-! ### buffer-flow programs -/

inductive Op
  | erode | dilate | maximum | subm | gauss1d | kernel
deriving DecidableEq, Repr

/-- symbolic content of a buffer -/
inductive Val
  | inp   : Nat → Val               -- logical content of input buffer n at call time
  | old   : Val                     -- whatever the user's `out` buffer held before the call
  | undef : Val                     -- `np.empty`
  | ap    : Op → Val → Val → Val
deriving DecidableEq, Repr

structure Buf where
  desc : Desc
  val  : Val
deriving DecidableEq, Repr

/-- the heap: buffer identity = index -/
structure St where
  heap : List Buf
deriving DecidableEq, Repr

def St.val (s : St) (b : Nat) : Val := match s.heap[b]? with | some x => x.val | none => .undef
def St.desc (s : St) (b : Nat) : Desc :=
  match s.heap[b]? with | some x => x.desc | none => { dtype := 0, shape := [], ccontig := false }

/-- result of running a wrapper: a value and the heap, or an exception and the heap -/
inductive R (α : Type)
  | ok (a : α) (s : St)
  | raise (r : Reject) (s : St)

def R.bind {α β} : R α → (α → St → R β) → R β
  | .ok a s, f => f a s
  | .raise r s, _ => .raise r s

/-- allocate a fresh C-contiguous buffer -/
def alloc (d : Desc) (v : Val) (s : St) : R Nat :=
  .ok s.heap.length { heap := s.heap ++ [{ desc := { d with ccontig := true }, val := v }] }

/-- a kernel (or numpy) writes the whole buffer `b` -/
def write (b : Nat) (v : Val) (s : St) : St :=
  { heap := s.heap.modify b (fun x => { x with val := v }) }

/-- `_get_output(array, out, …, dtype)` on buffers -/
def getOut (array : Nat) (out : Option Nat) (dtype : Option Nat) (s : St) : R Nat :=
  match getOutput (s.desc array) (out.map s.desc) dtype with
  | .fresh d => alloc d .undef s
  | .useOut => (match out with | some o => .ok o s | none => alloc (s.desc array) .undef s)
  | .reject r => .raise r s

/-- `erode(A, Bc, out)`: `output = _get_output(A, out, 'erode'); return _morph.erode(A, Bc, output)` -/
def kernel1 (op : Op) (a bc : Nat) (out : Option Nat) (dtype : Option Nat) (s : St) : R Nat :=
  (getOut a out dtype s).bind fun o s => .ok o (write o (.ap op (s.val a) (s.val bc)) s)

def erodeP (a bc : Nat) (out : Option Nat) : St → R Nat := kernel1 .erode a bc out none
def dilateP (a bc : Nat) (out : Option Nat) : St → R Nat := kernel1 .dilate a bc out none

/-- `open`: `eroded = erode(f, Bc, out=out); return dilate(eroded.copy(), Bc, out=eroded)` -/
def openP (f bc : Nat) (out : Option Nat) (s : St) : R Nat :=
  (erodeP f bc out s).bind fun eroded s =>
  (alloc (s.desc eroded) (s.val eroded) s).bind fun tmp s =>
  dilateP tmp bc (some eroded) s

/-- `close`: `dilated = dilate(f, Bc, out=out); return erode(dilated.copy(), Bc, out=dilated)` -/
def closeP (f bc : Nat) (out : Option Nat) (s : St) : R Nat :=
  (dilateP f bc out s).bind fun dilated s =>
  (alloc (s.desc dilated) (s.val dilated) s).bind fun tmp s =>
  erodeP tmp bc (some dilated) s

/-- `cerode`: `f = np.maximum(f, g); out = _get_output(f, out); f = _morph.erode(f, Bc, out);
    return np.maximum(f, g, out=f)` -/
def cerodeP (f g bc : Nat) (out : Option Nat) (s : St) : R Nat :=
  (alloc (s.desc f) (.ap .maximum (s.val f) (s.val g)) s).bind fun f1 s =>
  (getOut f1 out none s).bind fun o s =>
  let s := write o (.ap .erode (s.val f1) (s.val bc)) s
  .ok o (write o (.ap .maximum (s.val o) (s.val g)) s)

/-- `subm`: `out = _get_output(a, out); if out is not a: out[:] = a; return _morph.subm(out, b)` -/
def submP (a b : Nat) (out : Option Nat) (s : St) : R Nat :=
  (getOut a out none s).bind fun o s =>
  let s := if o ≠ a then write o (s.val a) s else s
  .ok o (write o (.ap .subm (s.val o) (s.val b)) s)

/-- `tophat_close`: `out = _get_output(f, out); fc = close(f, Bc); return subm(fc, f, out=out)` -/
def tophatCloseP (f bc : Nat) (out : Option Nat) (s : St) : R Nat :=
  (getOut f out none s).bind fun o s =>
  (closeP f bc none s).bind fun fc s =>
  submP fc f (some o) s

/-- `tophat_open`: `out = _get_output(f, out); fo = open(f, Bc); return subm(f, fo, out=out)` -/
def tophatOpenP (f bc : Nat) (out : Option Nat) (s : St) : R Nat :=
  (getOut f out none s).bind fun o s =>
  (openP f bc none s).bind fun fo s =>
  submP f fo (some o) s

/-- one pass of the Gaussian ping-pong on the **pinned** tree: `gaussian_filter1d(output, …, noutput)`
    forwards its 7th positional argument to the deprecated `output=`, which `convolve1d` never
    sees: every pass allocates a fresh buffer -/
def gauss1dPinnedP (src bc : Nat) (_out : Option Nat) (s : St) : R Nat :=
  kernel1 .gauss1d src bc none none s

/-- `gaussian_filter` on the pinned tree for `n` axes: `output = _get_output(array, out);
    output[...] = array; noutput = None; for axis: noutput = g1d(output, …, noutput);
    output, noutput = noutput, output; return output` -/
def gaussPinnedLoop (bc : Nat) : Nat → Nat → Option Nat → St → R Nat
  | 0, output, _, s => .ok output s
  | n + 1, output, noutput, s =>
    (gauss1dPinnedP output bc noutput s).bind fun no s => gaussPinnedLoop bc n no (some output) s

def gaussPinnedP (a bc : Nat) (out : Option Nat) (naxes : Nat) (s : St) : R Nat :=
  (getOut a out none s).bind fun o s =>
  gaussPinnedLoop bc naxes o none (write o (s.val a) s)

/-- one pass with `out` honoured (the convention): `convolve1d(array, w, axis, out=out)` -/
def gauss1dP (src bc : Nat) (out : Option Nat) (s : St) : R Nat := kernel1 .gauss1d src bc out none s

/-- a Gaussian ping-pong that satisfies the convention: the passes alternate between the user's
    buffer and one scratch buffer; when the last pass landed in the scratch buffer it is copied back -/
def gaussLoop (bc : Nat) : Nat → Nat → Option Nat → St → R Nat
  | 0, output, _, s => .ok output s
  | n + 1, output, noutput, s =>
    (gauss1dP output bc noutput s).bind fun no s => gaussLoop bc n no (some output) s

def gaussRepairedP (a bc : Nat) (out : Option Nat) (naxes : Nat) (s : St) : R Nat :=
  (getOut a out none s).bind fun o s =>
  (gaussLoop bc naxes o none (write o (s.val a) s)).bind fun r s =>
  if r ≠ o then .ok o (write o (s.val r) s) else .ok o s

/-! ### Round 2: the wrappers repaired after the first report -/

/-- `convolve1d(f, weights, axis, out)` as repaired (e068ee1). Fast path (`f` C-contiguous and the kernel shorter than
the axis): `out = _get_output(f, out, 'convolve1d')` validates against **`f` itself** (not the reshaped 2-D view);
along the last axis the native kernel writes straight into `out.reshape(rows)` (the same buffer); along any other
axis it writes a temporary of the transposed shape and `out[...] = tmp.reshape(tshape).transpose(rindices)` copies it
back. Otherwise `return convolve(f, weights[…], out=out)`. -/
def convolve1dP (f w : Nat) (out : Option Nat) (fast lastAxis : Bool) (s : St) : R Nat :=
  if fast then
    (getOut f out none s).bind fun o s =>
      if lastAxis then .ok o (write o (.ap .kernel (s.val f) (s.val w)) s)
      else
        (alloc (s.desc f) .undef s).bind fun tmp s =>
          let s := write tmp (.ap .kernel (s.val f) (s.val w)) s
          .ok o (write o (s.val tmp) s)
  else kernel1 .kernel f w out none s

/-- the deprecated alias as `_get_output(array, out, fname, dtype, output)` resolves it:
`if output is not None: if out is not None: (ignore output) else: out = output` -/
def resolveAlias (out output : Option Nat) : Option Nat :=
  match out with
  | some o => some o
  | none => output

/-- `open(f, Bc, out, output)` as repaired (399d97f): `eroded = erode(f, Bc, out=out, output=output)` -/
def openAliasP (f bc : Nat) (out output : Option Nat) : St → R Nat := openP f bc (resolveAlias out output)

/-- `close(f, Bc, out, output)` as repaired -/
def closeAliasP (f bc : Nat) (out output : Option Nat) : St → R Nat := closeP f bc (resolveAlias out output)

/-- what `interpolate.zoom` looks at in a supplied `out` -/
structure ZOut where
  desc : Desc
  isArray : Bool        -- `isinstance(out, np.ndarray)`
  writeable : Bool      -- `out.flags.writeable`
deriving DecidableEq, Repr

inductive ZDecision
  | fresh           -- `np.empty(output_shape, array.dtype)`
  | direct          -- the kernel writes `out` itself
  | viaTemp         -- other dtype: the kernel writes a float temporary, then `o_out[:] = out[:]`
  | valueError
deriving DecidableEq, Repr

/-- `zoom`'s own validation as repaired (1873bd9): `out` fixes shape *and* dtype; it must be an array of the input's
rank, C-contiguous and writeable — anything else is a `ValueError` raised before the native code runs -/
def zoomDecision (array : Desc) (out : Option ZOut) : ZDecision :=
  match out with
  | none => .fresh
  | some o =>
    if !o.isArray || o.desc.shape.length ≠ array.shape.length then .valueError
    else if !(o.desc.ccontig && o.writeable) then .valueError
    else if o.desc.dtype ≠ array.dtype then .viaTemp else .direct

/-- the buffer flow of `zoom` (`oshape`: the shape computed from the zoom factor when no `out` is given) -/
def zoomP (a : Nat) (out : Option Nat) (zo : Option ZOut) (oshape : List Nat) (s : St) : R Nat :=
  match zoomDecision (s.desc a) zo, out with
  | .fresh, _ =>
    (alloc { dtype := (s.desc a).dtype, shape := oshape, ccontig := true } .undef s).bind fun o s =>
      .ok o (write o (.ap .kernel (s.val a) (s.val a)) s)
  | .direct, some o => .ok o (write o (.ap .kernel (s.val a) (s.val a)) s)
  | .viaTemp, some o =>
    (alloc { dtype := (s.desc a).dtype, shape := (s.desc o).shape, ccontig := true } .undef s).bind fun tmp s =>
      let s := write tmp (.ap .kernel (s.val a) (s.val a)) s
      .ok o (write o (s.val tmp) s)
  | _, _ => .raise .contig s

/-! ### Round 4: `out` aliased to an input (the `np.may_share_memory` guards of the wrappers)

Buffer identity stands for "may share memory": every view of a buffer carries the identity of the buffer it was carved from,
so `np.may_share_memory(x, y)` is `x == y` on the heap. An out-of-place native kernel reads its operands WHILE it writes
its result; an operand that is the result buffer itself is therefore read partly overwritten, and as far as the result is
concerned its content is unspecified (`undef`). -/

/-- what a kernel that is writing buffer `o` sees in operand buffer `b` -/
def readWhile (s : St) (o b : Nat) : Val := if b = o then .undef else s.val b

/-- an out-of-place native kernel `kernel(a, bc, o)` -/
def kernelWrite (op : Op) (a bc o : Nat) (s : St) : St :=
  write o (.ap op (readWhile s o a) (readWhile s o bc)) s

/-- `if np.may_share_memory(x, o): x = x.copy()`; `guard = false` is the wrapper without that statement -/
def unalias (guard : Bool) (x o : Nat) (s : St) : R Nat :=
  if guard && x == o then alloc (s.desc x) (s.val x) s else .ok x s

/-- a single-pass wrapper as of round 4:
`output = _get_output(A, out, dtype); if np.may_share_memory(A, output): A = A.copy();
[if np.may_share_memory(Bc, output): Bc = Bc.copy();] return kernel(A, Bc, output)`
(dilate, erode, locmax/locmin/regmax/regmin, majority_filter, hitmiss, convolve, convolve1d on its fast path,
median/mean/rank filter, template_match, border(s), shift, zoom). The second operand is protected either by a guard of
its own in the wrapper (erode, dilate, template_match) or because the native filter iterator copies the filter into its
own tables before the first store (`new_filter_data`, offsets: convolve, rank/median/mean filter, locmin_max, regmin_max,
hitmiss, border(s)) — both are a private copy taken before `out` is written; `guard = false` drops both. -/
def kernel1G (guard : Bool) (op : Op) (a bc : Nat) (out : Option Nat) (dtype : Option Nat) (s : St) : R Nat :=
  (getOut a out dtype s).bind fun o s =>
  (unalias guard a o s).bind fun a' s =>
  (unalias guard bc o s).bind fun bc' s =>
  .ok o (kernelWrite op a' bc' o s)

/-- `if np.may_share_memory(Bc, out): Bc = Bc.copy()` in front of a two-pass wrapper (`out` may be `None`) -/
def unaliasOpt (guard : Bool) (x : Nat) (out : Option Nat) (s : St) : R Nat :=
  match out with
  | some o => unalias guard x o s
  | none => .ok x s

/-- `open` over the guarded `erode`/`dilate` -/
def openGP (guard : Bool) (f bc : Nat) (out : Option Nat) (s : St) : R Nat :=
  (unaliasOpt guard bc out s).bind fun bc s =>
  (kernel1G guard .erode f bc out none s).bind fun eroded s =>
  (alloc (s.desc eroded) (s.val eroded) s).bind fun tmp s =>
  kernel1G guard .dilate tmp bc (some eroded) none s

/-- `close` over the guarded `dilate`/`erode` -/
def closeGP (guard : Bool) (f bc : Nat) (out : Option Nat) (s : St) : R Nat :=
  (unaliasOpt guard bc out s).bind fun bc s =>
  (kernel1G guard .dilate f bc out none s).bind fun dilated s =>
  (alloc (s.desc dilated) (s.val dilated) s).bind fun tmp s =>
  kernel1G guard .erode tmp bc (some dilated) none s

/-- `cerode` as of round 4: `f = maximum(f, g); out = _get_output(f, out); if may_share_memory(g, out): g = g.copy();
f = _morph.erode(f, Bc, out); return np.maximum(f, g, out=f)` (the final `maximum` is an element-wise ufunc: in place is fine) -/
def cerodeGP (guard : Bool) (f g bc : Nat) (out : Option Nat) (s : St) : R Nat :=
  (alloc (s.desc f) (.ap .maximum (s.val f) (s.val g)) s).bind fun f1 s =>
  (getOut f1 out none s).bind fun o s =>
  (unalias guard g o s).bind fun g' s =>
  (unalias guard bc o s).bind fun bc s =>
  let s := kernelWrite .erode f1 bc o s
  .ok o (write o (.ap .maximum (s.val o) (s.val g')) s)

/-- `subm` as of round 4: `out = _get_output(a, out); if out is not a: (if may_share_memory(out, b): b = b.copy()); out[:] = a;
return _morph.subm(out, b)` — the native `subm` works in place on its first argument (element-wise) -/
def submGP (guard : Bool) (a b : Nat) (out : Option Nat) (s : St) : R Nat :=
  (getOut a out none s).bind fun o s =>
  if o ≠ a then
    (unalias guard b o s).bind fun b' s =>
    let s := write o (s.val a) s
    .ok o (write o (.ap .subm (s.val o) (s.val b')) s)
  else .ok o (write o (.ap .subm (s.val o) (s.val b)) s)

/-- `tophat_close`: `out = _get_output(f, out); fc = close(f, Bc); return subm(fc, f, out=out)` -/
def tophatCloseGP (guard : Bool) (f bc : Nat) (out : Option Nat) (s : St) : R Nat :=
  (getOut f out none s).bind fun o s =>
  (closeGP guard f bc none s).bind fun fc s =>
  submGP guard fc f (some o) s

/-- `tophat_open`: `out = _get_output(f, out); fo = open(f, Bc); return subm(f, fo, out=out)` -/
def tophatOpenGP (guard : Bool) (f bc : Nat) (out : Option Nat) (s : St) : R Nat :=
  (getOut f out none s).bind fun o s =>
  (openGP guard f bc none s).bind fun fo s =>
  submGP guard f fo (some o) s

/-- "store, then in-place kernel" wrappers (`label`: `output[:] = (array != 0); _labeled.label(output, Bc)`;
`spline_filter(1d)`: `output[...] = array; _interpolate.spline_filter1d(output, …)`): the whole-buffer store is
element-wise (a self-assignment when `out` is the input) and the kernel then only works on `output` (and, for `label`, reads
the structuring element, which the wrapper copies first when it shares memory with `output`) -/
def inplaceP (guard : Bool) (op : Op) (a bc : Nat) (out : Option Nat) (dtype : Option Nat) (s : St) : R Nat :=
  (getOut a out dtype s).bind fun o s =>
  (unalias guard bc o s).bind fun bc s =>     -- `label`: `if np.may_share_memory(Bc, output): Bc = Bc.copy()` before the store
  let s := write o (s.val a) s
  .ok o (write o (.ap op (s.val o) (readWhile s o bc)) s)

/-- the whole flow of `hitmiss` (round 4): its hand-written validation (`hitmissOut`; the first failing test in source order:
shape, contiguity, dtype), the uint8 view of a bool buffer (same buffer identity), the aliasing guard
`if np.may_share_memory(input, out): input = input.copy()`, then the native kernel -/
def hitmissP (guard : Bool) (inp bc : Nat) (out : Option Nat) (s : St) : R Nat :=
  match hitmissOut (s.desc inp) (out.map s.desc), out with
  | .fresh, _ =>
    (alloc (s.desc inp) .undef s).bind fun o s => .ok o (kernelWrite .kernel inp bc o s)
  | .useOut, some o | .useView, some o =>
    (unalias guard inp o s).bind fun inp' s => .ok o (kernelWrite .kernel inp' bc o s)
  | _, some o =>
    .raise (if (s.desc o).shape ≠ (s.desc inp).shape then .shape else if !(s.desc o).ccontig then .contig else .dtype) s
  | _, none => .raise .dtype s

/-! ### initial states -/

/-- heap at call time: inputs `0 … k-1` (content `inp i`), then the user's `out` (content `old`) -/
def initSt (inputs : List Desc) (out : Option Desc) : St :=
  { heap := (inputs.zipIdx.map fun (d, i) => { desc := d, val := .inp i }) ++
            (match out with | some o => [{ desc := o, val := .old }] | none => []) }

def outId (inputs : List Desc) (out : Option Desc) : Option Nat := out.map fun _ => inputs.length

/-! ### driver -/

partial def showVal : Val → String
  | .inp n => s!"i{n}"
  | .old => "old"
  | .undef => "undef"
  | .ap op a b => s!"{reprStr op}({showVal a};{showVal b})".replace "Mahotas.C09.Op." ""

def descOf (a : Args) (pfx : String) : Desc :=
  { dtype := a.nat (pfx ++ "dt"), shape := a.nats (pfx ++ "shape"), ccontig := a.nat (pfx ++ "contig") == 1 }

def showR (inputs : List Desc) (out : Option Desc) (r : R Nat) : String :=
  let oid := outId inputs out
  let outv := fun (s : St) => match oid with | some o => showVal (s.val o) | none => "-"
  match r with
  | .ok b s => s!"res=ok ret={if some b = oid then "out" else "fresh"} val={showVal (s.val b)} outval={outv s}"
  | .raise r s => s!"res=raise why={r.name} outval={outv s}"

def handle (a : Args) : String :=
  let arr := descOf a "a"
  let out : Option Desc := if a.has "odt" then some (descOf a "o") else none
  match a.str "kind" with
  | "getout" =>
    let dt : Option Nat := if a.has "dt" then some (a.nat "dt") else none
    match getOutput arr out dt with
    | .fresh d => s!"dec=fresh dt={d.dtype} shape={showNats d.shape}"
    | .useOut => "dec=out"
    | .reject r => s!"dec=reject why={r.name}"
  | "hitmiss" =>
    match hitmissOut arr out with
    | .fresh => "dec=fresh" | .useOut => "dec=out" | .useView => "dec=view"
    | .valueError => "dec=ValueError" | .typeError => "dec=TypeError"
  | "flow" =>
    let fn := a.str "fn"
    let two := [arr, arr]          -- f, Bc (the element's descriptor is never inspected)
    let three := [arr, arr, arr]   -- f, g, Bc
    let dt : Option Nat := if a.has "dt" then some (a.nat "dt") else none
    match fn with
    | "kernel" => showR two out (kernel1 .kernel 0 1 (outId two out) dt (initSt two out))
    | "open" => showR two out (openP 0 1 (outId two out) (initSt two out))
    | "close" => showR two out (closeP 0 1 (outId two out) (initSt two out))
    | "cerode" => showR three out (cerodeP 0 1 2 (outId three out) (initSt three out))
    | "subm" => showR two out (submP 0 1 (outId two out) (initSt two out))
    | "tophat_close" => showR two out (tophatCloseP 0 1 (outId two out) (initSt two out))
    | "tophat_open" => showR two out (tophatOpenP 0 1 (outId two out) (initSt two out))
    | "gaussian_pinned" => showR two out (gaussPinnedP 0 1 (outId two out) arr.shape.length (initSt two out))
    | "gaussian" => showR two out (gaussRepairedP 0 1 (outId two out) arr.shape.length (initSt two out))
    | "gaussian1d" => showR two out (gauss1dP 0 1 (outId two out) (initSt two out))
    | "convolve1d" =>
      showR two out (convolve1dP 0 1 (outId two out) (a.nat "fast" == 1) (a.nat "last" == 1) (initSt two out))
    | "open_alias" => showR two out (openAliasP 0 1 none (outId two out) (initSt two out))
    | "close_alias" => showR two out (closeAliasP 0 1 none (outId two out) (initSt two out))
    | "zoom" =>
      let one := [arr]
      let zo : Option ZOut := out.map fun o => { desc := o, isArray := true, writeable := a.nat "owrite" == 1 }
      s!"dec={reprStr (zoomDecision arr zo)} {showR one out (zoomP 0 (outId one out) zo (a.nats "zshape") (initSt one out))}".replace "Mahotas.C09.ZDecision." ""
    | f => s!"error=unknown-flow-{f}"
  | "alias" =>
    -- Round 4: `out` IS input buffer `i`; answer: does the run return that buffer, and does it hold what the run without out returns?
    let fn := a.str "fn"
    let i := a.nat "i"
    let g := a.nat "guard" == 1
    let bcd : Desc := if a.has "bdt" then descOf a "b" else arr
    let two := [arr, bcd]
    let three := [arr, arr, bcd]
    let dt : Option Nat := if a.has "dt" then some (a.nat "dt") else none
    let run : Option (Option Nat → St → R Nat) × List Desc := match fn with
      | "kernel" => (some (fun o => kernel1G g .kernel 0 1 o dt), two)
      | "open" => (some (openGP g 0 1), two)
      | "close" => (some (closeGP g 0 1), two)
      | "cerode" => (some (cerodeGP g 0 1 2), three)
      | "subm" => (some (submGP g 0 1), two)
      | "tophat_close" => (some (tophatCloseGP g 0 1), two)
      | "tophat_open" => (some (tophatOpenGP g 0 1), two)
      | "inplace" => (some (fun o => inplaceP g .kernel 0 1 o dt), two)
      | "hitmiss" => (some (hitmissP g 0 1), two)
      | "gaussian" => (some (fun o => gaussRepairedP 0 1 o arr.shape.length), two)
      | _ => (none, two)
    match run with
    | (none, _) => s!"error=unknown-alias-flow-{fn}"
    | (some P, inputs) =>
      let base := match P none (initSt inputs none) with
        | .ok b s => some (s.val b)
        | .raise _ _ => none
      match P (some i) (initSt inputs none) with
      | .ok b s => s!"res=ok ret={if b == i then "out" else "fresh"} val={showVal (s.val b)} same={if some (s.val b) == base then 1 else 0}"
      | .raise r _ => s!"res=raise why={r.name}"
  | k => s!"error=unknown-kind-{k}"

end Mahotas.C09
