/-
C10 — memory safety. Index-arithmetic models of the native loops: every definition below
enumerates (for concrete parameters) the indices a loop of the real C++ dereferences, each paired
with the number of valid indices of the buffer (or axis) it is applied to. The theorems in
`Properties/C10.lean` show, for ALL parameters of the documented domain, that every such index is
in range. The same definitions answer the protocol lines below, so the harness can run them on
valid parameters (expect `ok=1`) and on invalid ones (expect `ok=0`).

Protocol (`c10 kind=<k> …`; every value is a decimal integer or a comma separated list):

  kind=filter  shape=<ints> fshape=<ints> mode=<0..5, Mode.ofCode>
      -> `fill=<list> idx=<list> ok=<0|1> n=<len> rows=<list> nrows=<int>`
         `idx`  = for every array position p (C scan order, outer) and every filter coordinate k
                  (C scan order, inner) the C-order flat index of the element the filter iterator
                  reads (`ravelZ`, signed), or -1 for the border flag;
         `ok`   = 1 iff every non-flag coordinate list is inside `shape`; `n` = length of `idx`;
         `rows` = for every array position (scan order) the row of the offsets table the pointer
                  arithmetic of `iterate_both` has reached (`scanState`; proved equal to `tableRow`);
         `nrows`= `offsets_size` = Π min(shape_d, fshape_d);
         `fill` = for every table row the C-order flat index of the `position[]` at which
                  `init_filter_offsets` computed it (`fillPos`).
  kind=region  a= f=
      -> `idx= rep= pos=`; one axis of length a under a filter of length f: `idx` = index of the
         offsets region used at coordinate p = 0..a-1 (`iterate_both`), `rep` = the `position[]` that
         region's offsets were computed at, `pos` = `position[]` of the regions 0..min(a,f)-1.
  kind=fastbin ny= nx= dy= dx= erosion=<0|1> [clamp=<0|1>, default 1]
      -> `ok= n= term=`; all rows y in [0,ny) of `fast_binary_dilate_erode_2d` for ONE raw offset
         (dy,dx) = (y_B - Cy, x_B - Cx). `clamp=0` drops the clamp of dx to [-nx,nx] (the pre-repair code).
  kind=conv1d  n1= nf= mode=<0..5>
      -> `ok= n= term=`; one row of `convolve1d` (fast path), N1 = n1 columns, Nf = nf weights.
  kind=find2d  n0= n1= t0= t1= [incl=<0|1>, default 0: loops `y < N0-Nt0`; 1: `y <= N0-Nt0`]
      -> `ok= n=`
  kind=majority rows= cols= n=
      -> `ok= n= term=`
  kind=hitmiss shape=<ints> bshape=<ints> [margin=<0|1>, default 1; 0 removes the margin test]
      -> `ok= n= term=`
  kind=dt      n= [pop=<ints>] [adv=<ints>, default 1] [guard=<0|1>, default 1]
      -> `ok= n= term=`; `dist_transform` on a line of n elements. The float tests are oracles that
         are functions of (q,k): `s > z[k]` is FALSE (pop, --k) iff pop[(q+k) % len(pop)] != 0
         (empty list: never pop; `pop=1`: pop as long as allowed); `z[k+1] < q` is TRUE (++k) iff
         adv[(q+k) % len(adv)] != 0. With `guard=1` the two facts the kernel relies on hold:
         the test against z[0] = -inf succeeds (s is not NaN) and z[kmax+1] = +inf is never < q.
         `guard=0` drops both (NaN input): `term=0` when k reaches -1.
  kind=bbox    ndim= maxlabel= label=
      -> `ok= n=`; `bbox_labeled`: extrema[2*ndim*label + 2j (+1)], allocation 2*ndim*(maxlabel+1).
  kind=foldl   maxi= label=
      -> `ok= n=`; `labeled_foldl`: result[label] behind the guard `0 <= label < maxi`.
  kind=com     ndim= maxlabel= label= size= lsize=
      -> `ok= n=`; `center_of_mass` with labels: totals[label], centers[label*ndim+j], labels[i] for
         every flat i < size (labels buffer has lsize elements).
  kind=cooc    m0= m1= v= v2=
      -> `ok= n=`; `cooccurence`: `res.at(v, v2)` on a result of shape (m0, m1) (skipped when v or v2 < 0).
  kind=plusminus n= plus= minus=
      -> `ok= n=`; `compute_plus_minus` on an n x n matrix with `px_plus_y` of `plus` and `px_minus_y` of `minus` elements.
  kind=zoomshift shape=<ints> order=<0..5> mode=<0..5> coord=<ints, one per axis>
      -> `ok= n= term= sum= flag= idx=`; `zoom_shift` at ONE output position of a C-contiguous array: `coord` holds
         per axis `round(cc)` (outside the array) resp. `floor(cc)` / `floor(cc+0.5)` (inside); `flag=1` when the
         border rule flags an axis (no access); else all `(order+1)^rank` indices `idxs[fi]` against the array size;
         `sum` = Σ of the indices, `idx` = the indices in the order of `fi` (compared by the harness with a direct
         evaluation and with the elements the real `zoom_shift` reads, recovered with one-hot arrays).
  kind=spline  len= mxs=<ints, one horizon per pole>   -> `ok= n= term= sum=`; one line of `spline_filter1d`
  kind=haar n1= | kind=wavelet n1= nc= | kind=iwavelet n1= nc= step= | kind=ihaar n1= step=  -> `ok= n= term= sum=`
  kind=integral n0= n1=   -> `ok= n= term= sum=`
  kind=graham  n= [pop1=<ints>] [pop2=<ints>]
      -> `ok= n= term= sum= h=`; `inPlaceGraham` on n points; the `isLeft(..) >= 0` test of scan s at `(i,h)` is
         TRUE (pop) iff pop<s>[(i+h) % len] != 0 (empty list: never).
  kind=thin    rows= cols= img=<0/1 flat, C order>
      -> `ok= n= term= sum= frame=`; one `fast_hitmiss` sweep (all eight elements); `frame=1` iff no set pixel
         lies on the one-pixel frame.
  kind=cwnb    shape=<ints> bshape=<ints>
      -> `ok= n= term= sum=`; `cwatershed`: every neighbour access `pos + delta` that passes the margin test.
  any other kind -> `error=unknown-kind-<k>`

`term=1` means every `for (…; i != stop; ++i)` loop of the model left through its test within the
step budget (budget = buffer length + 1, so a run-away loop shows up as `term=0` and `ok=0`).
-/
import Mahotas.Model.Border
import Mahotas.Model.C04
import Mahotas.Generated.Tables
import Mahotas.Model.C10Misc
import Mahotas.Model.C10Surf
import Mahotas.Model.C10Labeled
import Mahotas.Model.C10Flood
import Mahotas.Model.C10Feat
import Mahotas.Model.C10Conv
import Mahotas.Model.C10Alloc
namespace Mahotas.C10
open Mahotas

/-! ## accesses -/

/-- one dereference: index `i` applied to a buffer (or an axis) whose valid indices are `0 … size-1` -/
structure Acc where
  i : Int
  size : Int
deriving Repr, DecidableEq

def Acc.ok (a : Acc) : Bool := decide (0 ≤ a.i) && decide (a.i < a.size)

def allOk (l : List Acc) : Bool := l.all Acc.ok

/-- `for (i = 0; i < n; ++i)` (also `i != n` when `n ≥ 0` is known syntactically, e.g. a size) -/
def rangeI (n : Int) : List Int := (List.range n.toNat).map Int.ofNat

/-- `for (x = start; x != stop; ++x)` with a step budget: such a loop runs away when `start > stop`. -/
def iterNe (x stop : Int) : Nat → List Int
  | 0 => []
  | f + 1 => if x = stop then [] else x :: iterNe (x + 1) stop f

/-- did the `!=` loop leave through its test within the budget? -/
def iterNeDone (x stop : Int) : Nat → Bool
  | 0 => decide (x = stop)
  | f + 1 => if x = stop then true else iterNeDone (x + 1) stop f

/-- signed C-order flat index `Σ p_d · cstride_d` -/
def ravelZ : List Nat → List Int → Int
  | _ :: ds, p :: ps => p * (shapeSize ds : Int) + ravelZ ds ps
  | _, _ => 0

/-- `Σ stride_d · c_d` (element strides, any sign) -/
def dot : List Int → List Int → Int
  | s :: ss, c :: cs => s * c + dot ss cs
  | _, _ => 0

/-! ## B1 — the filter iterator (`_filters.cpp: init_filter_offsets`, `_filters.h: retrieve/set`) -/

/-- `orgn = fshape[ii]/2` (no `origins` argument is ever passed by mahotas) -/
def origin (f : Nat) : Int := Int.ofNat (f / 2)

/-- coordinates of the element read at array position `p` for filter coordinate `k`
    (`cc = coordinates[ii] - orgn + position[ii]; cc = fix_offset(mode, cc, ashape[ii])`,
    `orgn = fshape[ii]/2`); `none` = `border_flag_value`. -/
def neighbourIndex (m : Mode) : List Nat → List Nat → List Int → List Int → Option (List Int)
  | a :: as, f :: fs, p :: ps, k :: ks =>
    match fixOffset m (k - origin f + p) a, neighbourIndex m as fs ps ks with
    | some c, some cs => some (c :: cs)
    | _, _ => none
  | _, _, _, _ => some []

/-- the entry of the offset table (`_filters.cpp` lines 101-123): on every axis
    `cc = fix_offset(..)`; flag → the entry is the flag; else `cc -= position; offset += astride*cc`. -/
def tableOffset (m : Mode) : List Nat → List Int → List Nat → List Int → List Int → Option Int
  | a :: as, s :: ss, f :: fs, p :: ps, k :: ks =>
    match fixOffset m (k - origin f + p) a with
    | none => none
    | some cc =>
      match tableOffset m as ss fs ps ks with
      | none => none
      | some off => some (s * (cc - p) + off)
  | _, _, _, _, _ => some 0

/-- everything a filter iterator over `shape` with a filter of shape `fshape` reads:
    array positions in C scan order (outer), filter coordinates in C scan order (inner). -/
def filterReads (m : Mode) (shape fshape : List Nat) : List (Option (List Int)) :=
  (allPos shape).flatMap fun p => (allPos fshape).map fun k => neighbourIndex m shape fshape p k

def filterIdx (m : Mode) (shape fshape : List Nat) : List Int :=
  (filterReads m shape fshape).map fun
    | some q => ravelZ shape q
    | none => -1

def filterOk (m : Mode) (shape fshape : List Nat) : Bool :=
  (filterReads m shape fshape).all fun
    | some q => inside shape q
    | none => true

/-! ### B1, regions: the table holds one set of offsets per border REGION, computed at the region's
representative `position[]`, and `retrieve` adds it to the pointer at the actual position. -/

/-- `iterate_both` along one axis: moving from coordinate `p` to `p+1` advances the offsets pointer
    iff `p < minbound (= orgn)` or `p >= maxbound (= ashape - fshape + orgn)`. The region index at `p`. -/
def regionIndex (a f : Nat) : Nat → Nat
  | 0 => 0
  | p + 1 =>
    regionIndex a f p +
      (if (p : Int) < origin f ∨ (p : Int) ≥ (a : Int) - f + origin f then 1 else 0)

/-- "move to the next array region" of `init_filter_offsets` along one axis (lines 131-138):
    `if (position == orgn) { position += ashape - fshape + 1; if (position <= orgn) position = orgn + 1; } else position++;` -/
def nextRegionPos (a f : Nat) (pos : Int) : Int :=
  if pos = origin f then
    let q := pos + ((a : Int) - f + 1)
    if q ≤ origin f then origin f + 1 else q
  else pos + 1

/-- `position[ii]` of the `r`-th region along one axis -/
def regionPos (a f : Nat) : Nat → Int
  | 0 => 0
  | r + 1 => nextRegionPos a f (regionPos a f r)

/-- the representative position the table entry used at array position `p` was computed at -/
def repPos : List Nat → List Nat → List Int → List Int
  | a :: as, f :: fs, p :: ps => regionPos a f (regionIndex a f p.toNat) :: repPos as fs ps
  | _, _, _ => []

/-- `offsets_size` factors: `ashape[ii] < fshape[ii] ? ashape[ii] : fshape[ii]` per axis
    (also the `step` of `init_filter_iterator`) -/
def minShape : List Nat → List Nat → List Nat
  | a :: as, f :: fs => min a f :: minShape as fs
  | _, _ => []

/-- per-axis region indices at array position `p` -/
def regionIdxPos : List Nat → List Nat → List Int → List Int
  | a :: as, f :: fs, p :: ps => (regionIndex a f p.toNat : Int) :: regionIdxPos as fs ps
  | _, _, _ => []

/-- the row of the offsets table in use at `p`: region indices weighted by the table strides
    `strides[d] = Π_{e>d} step_e` (times `filter_size`, the row length) — a C-order flat index over `minShape`. -/
def tableRow (ashape fshape : List Nat) (p : List Int) : Nat :=
  ravelI (minShape ashape fshape) (regionIdxPos ashape fshape p)

/-- `++iterator` of the array iterator (`numpypp/array.hpp`): C-order odometer on the coordinates;
    `none` = past the last element. -/
def succPos : List Nat → List Int → Option (List Int)
  | a :: as, p :: ps =>
    match succPos as ps with
    | some ps' => some (p :: ps')
    | none => if p < (a : Int) - 1 then some ((p + 1) :: ps.map (fun _ => 0)) else none
  | _, _ => none

/-- `filter_iterator::iterate_both` (`_filters.h`), in units of table rows: from the last axis
    backwards, `if (p < dim-1) { if (p < minbound || p >= maxbound) idx += strides[d]; break; }
    idx -= backstrides[d];` with `strides[d] = Π_{e>d} step_e`, `backstrides[d] = (step_d-1)·strides[d]`,
    `step = min(ashape, fshape)`, `minbound = orgn`, `maxbound = ashape - fshape + orgn`.
    Returns the change of the row pointer and whether every axis wrapped (end of the array). -/
def iterateBothDelta : List Nat → List Nat → List Int → Int × Bool
  | a :: as, f :: fs, p :: ps =>
    let r := iterateBothDelta as fs ps
    if !r.2 then (r.1, false)
    else
      let stride : Int := (shapeSize (minShape as fs) : Int)
      if p < (a : Int) - 1 then
        (r.1 + (if p < origin f ∨ p ≥ (a : Int) - f + origin f then stride else 0), false)
      else (r.1 - (((min a f : Nat) : Int) - 1) * stride, true)
  | _, _, _ => (0, true)

/-- the scan of a kernel: `n` times `iterate_both` from the first element; position of the array
    iterator and row pointer of the filter iterator. -/
def scanState (ashape fshape : List Nat) : Nat → Option (List Int × Int)
  | 0 => some (ashape.map (fun _ => 0), 0)
  | n + 1 =>
    match scanState ashape fshape n with
    | some (p, row) =>
      match succPos ashape p with
      | some p' => some (p', row + (iterateBothDelta ashape fshape p).1)
      | none => none
    | none => none

/-- the odometer "move to the next array region" of `init_filter_offsets` over all axes
    (lines 129-146): from the last axis backwards `position[ii] = next; if (position[ii] < ashape[ii])
    break; else position[ii] = 0;`. `none` = every axis wrapped. -/
def nextRegionPositions : List Nat → List Nat → List Int → Option (List Int)
  | a :: as, f :: fs, pos :: rest =>
    match nextRegionPositions as fs rest with
    | some rest' => some (pos :: rest')
    | none =>
      let q := nextRegionPos a f pos
      if q < (a : Int) then some (q :: rest.map (fun _ => 0)) else none
  | _, _, _ => none

/-- `position[]` while row `ll` of the offsets table is being filled -/
def fillPos (ashape fshape : List Nat) : Nat → Option (List Int)
  | 0 => some (ashape.map fun _ => 0)
  | n + 1 => (fillPos ashape fshape n).bind (nextRegionPositions ashape fshape)

/-! ## B2 — `fast_binary_dilate_erode_2d` (`_morph.cpp`) -/

/-- lines 181-182: `if (dx > Nx) dx = Nx; if (dx < -Nx) dx = -Nx;` -/
def fbClampDx (nx dx : Int) : Int :=
  let dx := if dx > nx then nx else dx
  if dx < -nx then -nx else dx

/-- lines 200-203: `if ((y + dy) < 0) dy = -y; if ((y + dy) >= Ny) dy = -y+(Ny-1);` -/
def fbRowDy (ny y dy : Int) : Int :=
  let dy := if y + dy < 0 then -y else dy
  if y + dy ≥ ny then -y + (ny - 1) else dy

/-- row `y`, raw row offset `dy0`, column offset `dx` (as stored in `positions`):
    row indices (`res.data(y)`, `array.data(y+dy)`) and all column indices of the border loop and of
    the main loop (`n = Nx - |dx|` iterations from the shifted pointers). -/
def fbAccesses (ny nx y dy0 dx : Int) (erosion : Bool) : List Acc :=
  let dy := fbRowDy ny y dy0
  let fuel := nx.toNat + 1
  let n := nx - (dx.natAbs : Int)
  let col (c : Int) := Acc.mk c nx
  let rows := [Acc.mk y ny, Acc.mk (y + dy) ny]
  let border : List Acc :=
    if dx > 0 then
      (iterNe 0 dx fuel).flatMap fun i =>
        if erosion then [col (nx - i - 1), col (nx - 1)] else [col (nx - 1), col (nx - i - 1)]
    else if dx < 0 then
      (iterNe 0 (-dx) fuel).flatMap fun i =>
        if erosion then [col i, col 0] else [col 0, col i]
    else []
  let outShift : Int := if erosion then (if dx < 0 then -dx else 0) else (if dx > 0 then dx else 0)
  let inShift : Int := if erosion then (if dx > 0 then dx else 0) else (if dx < 0 then -dx else 0)
  rows ++ border ++ (iterNe 0 n fuel).flatMap fun i => [col (outShift + i), col (inShift + i)]

def fbDone (nx dx : Int) : Bool :=
  let fuel := nx.toNat + 1
  (if dx > 0 then iterNeDone 0 dx fuel else if dx < 0 then iterNeDone 0 (-dx) fuel else true) &&
    iterNeDone 0 (nx - (dx.natAbs : Int)) fuel

/-! ## B3 — `convolve1d` fast path, `find2d` (`_convolve.cpp`), `majority_filter` (`_morph.cpp`) -/

/-- one row of `convolve1d`: columns read and written, `N1 = n1`, `Nf = nf`, `centre = Nf/2`.
    The first loop is `for (x = centre; x != N1 - centre; ++x)` behind `if (centre >= N1) break;`;
    the second `for (x_ = 0; x_ != 2*centre && x_ < N1; ++x_)` ranges over `[0, min(2 centre, N1))`. -/
def conv1dAccesses (m : Mode) (n1 nf : Int) : List Acc :=
  let c := nf / 2
  let fuel := n1.toNat + 1
  let first : List Acc :=
    if c ≥ n1 then [] else
      (iterNe c (n1 - c) fuel).flatMap fun x =>
        (rangeI nf).map (fun j => Acc.mk (x + j - c) n1) ++ [Acc.mk (c + (x - c)) n1]
  let second : List Acc :=
    (rangeI (min (2 * c) n1)).flatMap fun x_ =>
      let x := if x_ < c then x_ else (n1 - 1) - (x_ - c)
      ((rangeI nf).filterMap fun j => (fixOffset m (x + (j - c)) n1).map fun o => Acc.mk o n1)
        ++ [Acc.mk x n1]
  first ++ second

def conv1dDone (n1 nf : Int) : Bool :=
  let c := nf / 2
  if c ≥ n1 then true else iterNeDone c (n1 - c) (n1.toNat + 1)

/-- `find2d`: reads `array.at(y+sy, x+sx)`, `target.at(sy,sx)`, writes `out.at(y,x)`;
    `incl = false`: loops `y < N0-Nt0`, `x < N1-Nt1` (the tree as it is), `true`: `<=`. -/
def find2dAccesses (n0 n1 t0 t1 : Int) (incl : Bool) : List Acc :=
  let e : Int := if incl then 1 else 0
  (rangeI (n0 - t0 + e)).flatMap fun y => (rangeI (n1 - t1 + e)).flatMap fun x =>
    ((rangeI t0).flatMap fun sy => (rangeI t1).flatMap fun sx =>
      [Acc.mk (y + sy) n0, Acc.mk (x + sx) n1, Acc.mk sy t0, Acc.mk sx t1])
    ++ [Acc.mk y n0, Acc.mk x n1]

/-- `majority_filter`: `if (rows < N || cols < N) return;` then `y != rows-N`, `x != cols-N`,
    `dy != N`, `dx != N`; reads `input.at(y+dy,x+dx)`, writes the C-contiguous output at
    `(y+N/2)*stride0 + N/2 + x` with `stride0 = cols`. -/
def majorityAccesses (rows cols n : Int) : List Acc :=
  if rows < n ∨ cols < n then [] else
  let fr := rows.toNat + 1
  let fc := cols.toNat + 1
  (iterNe 0 (rows - n) fr).flatMap fun y => (iterNe 0 (cols - n) fc).flatMap fun x =>
    ((iterNe 0 n fr).flatMap fun dy => (iterNe 0 n fc).flatMap fun dx =>
      [Acc.mk (y + dy) rows, Acc.mk (x + dx) cols])
    ++ [Acc.mk ((y + n / 2) * cols + n / 2 + x) (rows * cols)]

def majorityDone (rows cols n : Int) : Bool :=
  if rows < n ∨ cols < n then true else
  iterNeDone 0 (rows - n) (rows.toNat + 1) && iterNeDone 0 (cols - n) (cols.toNat + 1) &&
    iterNeDone 0 n (rows.toNat + 1) && iterNeDone 0 n (cols.toNat + 1)

/-! ## B4 — `hitmiss` (`_morph.cpp`) -/

/-- `delta = input.pos_to_flat(Bi.position() - centre)` for every coordinate of `Bc` in scan order
    (`pos_to_flat` is the signed C-order dot product `ravelZ`; `centre = Bc.dim/2`; entries equal to 2
    are dropped by the code, the model keeps all). -/
def hmDeltas (shape bshape : List Nat) : List Int :=
  (allPos bshape).map fun k => ravelZ shape (subPos k (bshape.map origin))

/-- the margin test of the `while (!slack)` body on `cur = flat_to_pos(i)`: the first axis `d` with
    `min(cur[d], dim(d) - cur[d] - 1) < Bc.dim(d)/2` and the number of elements `size` to skip. -/
def hmFirstFail : List Nat → List Nat → List Int → Option Nat
  | a :: as, b :: bs, c :: cs =>
    if min c ((a : Int) - c - 1) < origin b then some (shapeSize as) else hmFirstFail as bs cs
  | _, _, _ => none

/-- the main loop, one step per `while` round / per processed pixel, with a step budget.
    State `(i, slack)`. `slack0 = dim(last) - Bc.dim(last) + 1`. Accesses: `res.at_flat(i)` when
    skipping, `input.at_flat(i + delta)` for every neighbour and `res.at_flat(i)` when processing
    (`at_flat(p)` needs `0 ≤ p < N`: it is `data()[p]` for C arrays, else the C-order position of `p`).
    The Boolean is `true` when the loop ended through `i == N`. `margin = false` removes the test. -/
def hmLoop (shape bshape : List Nat) (deltas : List Int) (margin : Bool) (N : Nat) (slack0 : Int) :
    Nat → Nat → Int → List Acc × Bool
  | 0, i, _ => ([], decide (i = N))
  | f + 1, i, slack =>
    if i = N then ([], true) else
    if slack = 0 then
      match (if margin then hmFirstFail shape bshape (unravelI shape i) else none) with
      | some size =>
        let cnt := min size (N - i)
        let w := (List.range cnt).map fun j => Acc.mk ((i + j : Nat) : Int) N
        let r := hmLoop shape bshape deltas margin N slack0 f (i + cnt) 0
        (w ++ r.1, r.2)
      | none => hmLoop shape bshape deltas margin N slack0 f i slack0
    else
      let here := deltas.map (fun δ => Acc.mk ((i : Int) + δ) N) ++ [Acc.mk (i : Int) N]
      let r := hmLoop shape bshape deltas margin N slack0 f (i + 1) (slack - 1)
      (here ++ r.1, r.2)

def hmRun (shape bshape : List Nat) (margin : Bool) : List Acc × Bool :=
  let N := shapeSize shape
  hmLoop shape bshape (hmDeltas shape bshape) margin N
    ((shape.getLastD 0 : Int) - (bshape.getLastD 0 : Int) + 1) (2 * N + 2) 0 0

/-! ## B6 — `dist_transform` (`_distance.cpp`): `z[n+1]`, `v[n]`, `f[n]`, `Df[n]` -/

/-- the do-while of the first loop at `(q, k)`; `cmp q k` abstracts the float test `s > z[k]`
    (`true` = break). `vs` is the content of `v[0..k]`, top first. Returns the accesses and, unless
    `k` would become `-1` (then `v[-1]` is recorded and the model stops), the `k` at `break`. -/
def dtPop (cmp : Nat → Nat → Bool) (n q : Nat) : Nat → List Int → List Acc × Option (Nat × List Int)
  | 0, vs =>
    let here := [Acc.mk 0 n, Acc.mk 0 (n + 1), Acc.mk q n, Acc.mk (vs.headD 0) n]
    if cmp q 0 then (here, some (0, vs)) else (here ++ [Acc.mk (-1) n], none)
  | k + 1, vs =>
    let here := [Acc.mk (k + 1 : Nat) n, Acc.mk (k + 1 : Nat) (n + 1), Acc.mk q n, Acc.mk (vs.headD 0) n]
    if cmp q (k + 1) then (here, some (k + 1, vs))
    else let r := dtPop cmp n q k vs.tail; (here ++ r.1, r.2)

/-- `cnt` iterations of `for (q = 1; q != n; ++q)` starting at `q` with state `(k, v[0..k])`:
    after the do-while `++k; v[k] = q; z[k] = s; z[k+1] = inf;`. -/
def dtFirst (cmp : Nat → Nat → Bool) (n : Nat) : Nat → Nat → Nat → List Int → List Acc × Option (Nat × List Int)
  | 0, _, k, vs => ([], some (k, vs))
  | c + 1, q, k, vs =>
    match dtPop cmp n q k vs with
    | (a, none) => (a, none)
    | (a, some (kb, vs')) =>
      let k' := kb + 1
      let w := [Acc.mk (k' : Nat) n, Acc.mk (k' : Nat) (n + 1), Acc.mk ((k' : Nat) + 1) (n + 1)]
      let r := dtFirst cmp n c (q + 1) k' ((q : Int) :: vs')
      (a ++ w ++ r.1, r.2)

/-- `while (z[k+1] < q) ++k;` with `lt2 q k` abstracting the float test; budget `fuel`. -/
def dtAdvance (lt2 : Nat → Nat → Bool) (n q : Nat) : Nat → Nat → List Acc × Nat
  | 0, k => ([], k)
  | f + 1, k =>
    let a := Acc.mk ((k : Int) + 1) (n + 1)
    if lt2 q k then let r := dtAdvance lt2 n q f (k + 1); (a :: r.1, r.2) else ([a], k)

/-- `cnt` iterations of the second loop starting at `q`; `v` is the final content of `v[0..kmax]`
    (bottom first). Accesses `z[k+1]`, `v[k]`, `Df[q]`, `f[v[k]]`. -/
def dtSecond (lt2 : Nat → Nat → Bool) (n : Nat) (v : List Int) : Nat → Nat → Nat → List Acc
  | 0, _, _ => []
  | c + 1, q, k =>
    let r := dtAdvance lt2 n q (n + 2) k
    r.1 ++ [Acc.mk (r.2 : Nat) n, Acc.mk q n, Acc.mk (v.getD r.2 0) n] ++ dtSecond lt2 n v c (q + 1) r.2

/-- the largest `k` the first loop leaves behind (`z[kmax+1] = inf`) -/
def dtKmax (cmp : Nat → Nat → Bool) (n : Nat) : Nat :=
  match (dtFirst cmp n (n - 1) 1 0 [0]).2 with
  | some (k, _) => k
  | none => 0

def dtAccesses (cmp lt2 : Nat → Nat → Bool) (n : Nat) : List Acc :=
  let init := [Acc.mk 0 n, Acc.mk 0 (n + 1), Acc.mk 1 (n + 1)]
  let r := dtFirst cmp n (n - 1) 1 0 [0]
  init ++ r.1 ++
    match r.2 with
    | none => []
    | some (_, vs) => dtSecond lt2 n vs.reverse n 0 0

/-! ## B7 — label-indexed tables -/

/-- `bbox_labeled`: `base = extrema + (*pos) * 2 * nd; base[2*j], base[2*j+1]`, `j < nd`;
    `labeled.bbox` allocates `f.ndim * 2 * (n+1)` with `n = f.max()`. -/
def bboxAccesses (nd maxlabel label : Int) : List Acc :=
  (rangeI nd).flatMap fun j =>
    [Acc.mk (label * 2 * nd + 2 * j) (nd * 2 * (maxlabel + 1)),
     Acc.mk (label * 2 * nd + (2 * j + 1)) (nd * 2 * (maxlabel + 1))]

/-- `labeled_foldl`: `if ((*literator >= 0) && (*literator < maxlabel)) result[*literator] = …` -/
def foldlAccesses (maxi label : Int) : List Acc :=
  if label ≥ 0 ∧ label < maxi then [Acc.mk label maxi] else []

/-- `center_of_mass` with labels at flat position `i`: `labels[i]` (buffer of `lsize` elements),
    `totals[label]` (`max_label+1`), `centers[label*nd + j]` (`nd*(max_label+1)`), `j < nd`. -/
def comAccessesAt (nd maxlabel label lsize i : Int) : List Acc :=
  [Acc.mk i lsize, Acc.mk label (maxlabel + 1)] ++
    (rangeI nd).map fun j => Acc.mk (label * nd + j) (nd * (maxlabel + 1))

def comAccesses (nd maxlabel label size lsize : Int) : List Acc :=
  (rangeI size).flatMap fun i => comAccessesAt nd maxlabel label lsize i

/-- `cooccurence` (`features/_texture.cpp:37`): `++res.at(val, val2)` on a result of shape `(m0, m1)`,
    reached only when `val >= 0 && val2 >= 0`. -/
def coocAccesses (m0 m1 v v2 : Int) : List Acc :=
  if v < 0 ∨ v2 < 0 then [] else [Acc.mk v m0, Acc.mk v2 m1]

/-- `compute_plus_minus` (`features/_texture.cpp:94-99`): `px_plus_y.at(i+j)`, `px_minus_y.at(|i-j|)`,
    `p.at(i,j)` for `i, j < N`. -/
def plusMinusAccesses (n plus minus : Int) : List Acc :=
  (rangeI n).flatMap fun i => (rangeI n).flatMap fun j =>
    [Acc.mk (i + j) plus, Acc.mk ((i - j).natAbs : Int) minus, Acc.mk i n, Acc.mk j n]


/-! ## B8 — `zoom_shift`, `spline_filter1d` (`_interpolate.cpp`) -/

/-- the folding of an edge sample index (`zoom_shift`, "precalculate offsets at the edge"):
    `if (len <= 1) idx = 0; else { s2 = 2*len-2; if (idx < 0) { idx = s2*(int)(-idx/s2) + idx;
    idx = idx <= 1-len ? idx+s2 : -idx; } else if (idx >= len) { idx -= s2*(int)(idx/s2);
    if (idx >= len) idx = s2-idx; } }` -/
def zsFold (len idx : Int) : Int :=
  if len ≤ 1 then 0 else
    let s2 := 2 * len - 2
    if idx < 0 then
      let idx := s2 * ((-idx).tdiv s2) + idx
      if idx ≤ 1 - len then idx + s2 else -idx
    else if idx ≥ len then
      let idx := idx - s2 * (idx.tdiv s2)
      if idx ≥ len then s2 - idx else idx
    else idx

/-- the coordinate after the border rule: `if (cc < 0 || cc > dim-1) cc = fix_offset(mode, round(cc), dim)`;
    `c` is `round(cc)` for a coordinate outside the array and `floor(cc)` (odd orders) resp.
    `floor(cc + 0.5)` (even orders) for one inside `[0, dim-1]`; `none` = `border_flag_value`. -/
def zsBase (m : Mode) (len c : Int) : Option Int :=
  if c < 0 ∨ c > len - 1 then fixOffset m c len else some c

/-- `start = int(floor(..) - order/2)` -/
def zsStart (order : Nat) (b : Int) : Int := b - ((order / 2 : Nat) : Int)

/-- `if (start < 0 || start + order >= array.dim(r))`: the position has `edge_offsets` -/
def zsEdge (len : Int) (order : Nat) (start : Int) : Bool :=
  decide (start < 0 ∨ start + (order : Int) ≥ len)

/-- the sample coordinate along one axis for filter coordinate `f` -/
def zsCoord (len : Int) (order : Nat) (start f : Int) : Int :=
  if zsEdge len order start then zsFold len (start + f) else start + f

def zsCoords : List Nat → Nat → List Int → List Int → List Int
  | a :: as, order, st :: sts, f :: fs => zsCoord a order st f :: zsCoords as order sts fs
  | _, _, _, _ => []

def zsAnyEdge : List Nat → Nat → List Int → Bool
  | a :: as, order, st :: sts => zsEdge a order st || zsAnyEdge as order sts
  | _, _, _ => false

/-- the `on_edge` sum: `edge_offsets[r][kk][ff[r]] = stride(r) * (fold(start+ff[r]) - start)` on the axes
    that have edge offsets, `ff[r] * stride(r)` on the others -/
def zsEdgeSum : List Nat → List Int → Nat → List Int → List Int → Int
  | a :: as, s :: ss, order, st :: sts, f :: fs =>
    (if zsEdge a order st then s * (zsFold a (st + f) - st) else f * s) + zsEdgeSum as ss order sts fs
  | _, _, _, _, _ => 0

/-- one step of the odometer that fills `fcoordinates` / `foffsets`: from the last axis backwards
    `if (ftmp[r] < order) { ftmp[r]++; off += stride(r); break; } else { ftmp[r] = 0; off -= stride(r)*order; }`.
    Returns the new `ftmp`, the change of `off`, and whether every axis wrapped. -/
def zsOdoStep (order : Int) : List Int → List Int → List Int × Int × Bool
  | s :: ss, f :: fs =>
    let r := zsOdoStep order ss fs
    if !r.2.2 then (f :: r.1, r.2.1, false)
    else if f < order then ((f + 1) :: r.1, r.2.1 + s, false)
    else (0 :: r.1, r.2.1 - s * order, true)
  | _, _ => ([], 0, true)

/-- `(ftmp, off)` when entry `hh` of `fcoordinates` / `foffsets` is written -/
def zsOdo (order : Int) (strides : List Int) : Nat → List Int × Int
  | 0 => (strides.map (fun _ => 0), 0)
  | n + 1 =>
    let st := zsOdo order strides n
    let r := zsOdoStep order strides st.1
    (r.1, st.2 + r.2.1)

/-- `idxs[fi]` for the filter entry `(ff, foff) = (fcoordinates[fi], foffsets[fi])`:
    `oo = Σ offsets[r] = Σ stride(r)*start_r`; on an edge `Σ edge/normal offsets + oo`, else `oo + foffsets[fi]` -/
def zsIdx (shape : List Nat) (strides : List Int) (order : Nat) (starts : List Int) (e : List Int × Int) : Int :=
  let oo := dot strides starts
  if zsAnyEdge shape order starts then zsEdgeSum shape strides order starts e.1 + oo else oo + e.2

/-- C-order element strides of a shape -/
def cStrides : List Nat → List Int
  | _ :: ds => (shapeSize ds : Int) :: cStrides ds
  | [] => []

/-- all `array.data()[idxs[fi]]`, `fi < filter_size = (order+1)^rank`, for one output position whose
    per-axis `start`s are given -/
def zsAccesses (shape : List Nat) (strides : List Int) (order : Nat) (starts : List Int) : List Int :=
  (List.range ((order + 1) ^ shape.length)).map fun fi =>
    zsIdx shape strides order starts (zsOdo order strides fi)

/-- per-axis bases after the border rule; `none` when some axis is flagged (`*io = cval; continue`) -/
def zsStarts (m : Mode) (order : Nat) : List Nat → List Int → Option (List Int)
  | a :: as, c :: cs =>
    match zsBase m a c, zsStarts m order as cs with
    | some b, some r => some (zsStart order b :: r)
    | _, _ => none
  | _, _ => some []

/-- one line of `spline_filter1d` of length `len` (`line[stride*ll]` recorded as the axis coordinate `ll`);
    `mxs` = for every pole the horizon `max = (int)ceil(log_tolerance / log|p|)` of the initial causal sum.
    Loops: weights `ll < len`; per pole: `max < len`: `line[0]`, `ll = 1 … max-1`, else `line[0]`, `line[len-1]`,
    `ll = 1 … len-2`; store `line[0]`; causal `ll = 1 … len-1` (`ll`, `ll-1`); `line[len-1]`, `line[len-2]`;
    anticausal `ll = len-2 … 0` (`ll+1`, `ll`). -/
def splineAccesses (len : Int) (mxs : List Int) : List Acc :=
  if len ≤ 1 then [] else
  let at_ (ll : Int) := Acc.mk ll len
  (rangeI len).map at_ ++
  mxs.flatMap fun mx =>
    (if mx < len then at_ 0 :: (rangeI (mx - 1)).map (fun j => at_ (j + 1))
     else [at_ 0, at_ (len - 1)] ++ (rangeI (len - 2)).map (fun j => at_ (j + 1))) ++ [at_ 0] ++
    ((rangeI (len - 1)).flatMap fun j => [at_ (j + 1), at_ (j + 1 - 1)]) ++
    [at_ (len - 1), at_ (len - 1), at_ (len - 2)] ++
    ((rangeI (len - 1)).flatMap fun j => [at_ (len - 2 - j), at_ (len - 2 - j + 1), at_ (len - 2 - j)])

/-! ## B8 — `haar`, `wavelet`, `iwavelet`, `ihaar` (`_convolve.cpp`), one row of `N1` columns -/

/-- `haar`: reads `data[2x*step]`, `data[(2x+1)*step]`, writes `low[x]`, `high[x] = buffer[N1/2 + x]` for
    `x != N1/2`; then `data[step*x] = buffer[x]` for `x != N1`. Columns against `N1`, buffer indices against
    the `bufdata.resize(N1)` allocation. -/
def haarAccesses (n1 : Int) : List Acc :=
  let h := n1 / 2
  let fuel := n1.toNat + 1
  ((iterNe 0 h fuel).flatMap fun x =>
    [Acc.mk (2 * x) n1, Acc.mk (2 * x + 1) n1, Acc.mk x n1, Acc.mk (h + x) n1]) ++
  (iterNe 0 n1 fuel).flatMap fun x => [Acc.mk x n1, Acc.mk x n1]

def haarDone (n1 : Int) : Bool :=
  iterNeDone 0 (n1 / 2) (n1.toNat + 1) && iterNeDone 0 n1 (n1.toNat + 1)

/-- `_access(data, N, p, step)`: `if (p < 0) return 0; if (p >= N) return 0; return data[p*step];` -/
def guardedAccess (n p : Int) : List Acc := if p < 0 then [] else if p ≥ n then [] else [Acc.mk p n]

/-- `wavelet`: for `x < N1/2`, `ci != ncoeffs`: `_access(data, N1, 2x+ci, step)`, `coeffs[ncoeffs-ci-1]`,
    `coeffs[ci]`; `low[x]`, `high[x]`; then the copy loop. -/
def waveletAccesses (n1 nc : Int) : List Acc :=
  let h := n1 / 2
  ((rangeI h).flatMap fun x =>
    ((iterNe 0 nc (nc.toNat + 1)).flatMap fun ci =>
      guardedAccess n1 (2 * x + ci) ++ [Acc.mk (nc - ci - 1) nc, Acc.mk ci nc]) ++
    [Acc.mk x n1, Acc.mk (h + x) n1]) ++
  (iterNe 0 n1 (n1.toNat + 1)).flatMap fun x => [Acc.mk x n1, Acc.mk x n1]

def waveletDone (n1 nc : Int) : Bool :=
  iterNeDone 0 nc (nc.toNat + 1) && iterNeDone 0 n1 (n1.toNat + 1)

/-- `iwavelet` on a row whose columns are `step ≥ 1` elements apart; recorded are ELEMENT offsets from
    `data = array.data(y)` against the extent `(N1-1)*step + 1` of the row. `low = data`,
    `high = data + step*N1/2` (for odd `step*N1` this is NOT a column of the row, but inside its extent);
    for `x < N1`, `ci != ncoeffs`: `xmap2 = x+ci-ncoeffs+2`; when odd `xmap = xmap2/2` (C division, towards 0),
    `coeffs[ci]`, `coeffs[ncoeffs-ci-1]`, `_access(low, N1/2, xmap, step)`, `_access(high, N1/2, xmap, step)`;
    `buffer[x]`; copy loop. -/
def iwaveletAccesses (n1 nc step : Int) : List Acc :=
  let h := n1 / 2
  let ext := (n1 - 1) * step + 1
  let hi := (step * n1).tdiv 2
  ((rangeI n1).flatMap fun x =>
    ((iterNe 0 nc (nc.toNat + 1)).flatMap fun ci =>
      let xmap2 := x + ci - nc + 2
      if xmap2 % 2 = 0 then [] else
        let xmap := xmap2.tdiv 2
        [Acc.mk ci nc, Acc.mk (nc - ci - 1) nc] ++
        (guardedAccess h xmap).map (fun a => Acc.mk (a.i * step) ext) ++
        (guardedAccess h xmap).map (fun a => Acc.mk (hi + a.i * step) ext)) ++
    [Acc.mk x n1]) ++
  (iterNe 0 n1 (n1.toNat + 1)).flatMap fun x => [Acc.mk (step * x) ext, Acc.mk x n1]

/-- `ihaar`: `high[x*step]`, `low[x*step]`, `buffer[2x]`, `buffer[2x+1]` for `x != N1/2`; copy loop.
    Element offsets against the row extent as in `iwaveletAccesses`. -/
def ihaarAccesses (n1 step : Int) : List Acc :=
  let h := n1 / 2
  let ext := (n1 - 1) * step + 1
  let hi := (step * n1).tdiv 2
  ((iterNe 0 h (n1.toNat + 1)).flatMap fun x =>
    [Acc.mk (hi + x * step) ext, Acc.mk (x * step) ext, Acc.mk (2 * x) n1, Acc.mk (2 * x + 1) n1]) ++
  (iterNe 0 n1 (n1.toNat + 1)).flatMap fun x => [Acc.mk (step * x) ext, Acc.mk x n1]

/-! ## B8 — `integral` (`features/_surf.cpp`) -/

/-- `integral`: behind `if (N0 == 0 || N1 == 0) return;` the first row `at(0,j) += at(0,j-1)`, `j = 1 … N1-1`,
    then `at(i,0) += at(i-1,0)` and `at(i,j) += at(i-1,j) + at(i,j-1) - at(i-1,j-1)`; every `at(r,c)` is
    recorded as a row index against `N0` and a column index against `N1`. -/
def integralAccesses (n0 n1 : Int) : List Acc :=
  if n0 = 0 ∨ n1 = 0 then [] else
  let f0 := n0.toNat + 1
  let f1 := n1.toNat + 1
  let at_ (r c : Int) := [Acc.mk r n0, Acc.mk c n1]
  ((iterNe 1 n1 f1).flatMap fun j => at_ 0 j ++ at_ 0 (j - 1)) ++
  (iterNe 1 n0 f0).flatMap fun i =>
    at_ i 0 ++ at_ (i - 1) 0 ++
    (iterNe 1 n1 f1).flatMap fun j => at_ i j ++ at_ (i - 1) j ++ at_ i (j - 1) ++ at_ (i - 1) (j - 1)

def integralDone (n0 n1 : Int) : Bool :=
  if n0 = 0 ∨ n1 = 0 then true else
  iterNeDone 1 n1 (n1.toNat + 1) && iterNeDone 1 n0 (n0.toNat + 1)

/-! ## B8 — Graham scan (`_convex.cpp`) -/

/-- `while (h >= 2 && isLeft(P[h-2],P[h-1],P[i]) >= 0) --h;` with the test abstracted as an oracle of `(i, h)`
    (a pair is tested at most once per scan since `h` decreases); `P = Pv + base`, `Pv` has `size` points. -/
def ghPop (cmp : Nat → Nat → Bool) (base size : Int) (i : Nat) : Nat → List Acc × Nat
  | h + 2 =>
    let here := [Acc.mk (base + (h : Nat)) size, Acc.mk (base + ((h + 1 : Nat) : Int)) size,
                 Acc.mk (base + (i : Int)) size]
    if cmp i (h + 2) then
      let r := ghPop cmp base size i (h + 1)
      (here ++ r.1, r.2)
    else (here, h + 2)
  | h => ([], h)

/-- `cnt` rounds of `for (i = 1; i != N; ++i) { while …; std::swap(P[h],P[i]); ++h; }` from `(i, h)` -/
def ghScan (cmp : Nat → Nat → Bool) (base size : Int) : Nat → Nat → Nat → List Acc × Nat
  | 0, _, h => ([], h)
  | c + 1, i, h =>
    let r := ghPop cmp base size i h
    let sw := [Acc.mk (base + (r.2 : Int)) size, Acc.mk (base + (i : Int)) size]
    let rest := ghScan cmp base size c (i + 1) (r.2 + 1)
    (r.1 ++ sw ++ rest.1, rest.2)

/-- `inPlaceGraham`: `if (N <= 3) return N; h = scan(P, N); for (i = 0; i != h-1; ++i) swap(P[i],P[i+1]);
    h_ = scan(P+h-2, N-h+2); return h + h_ - 2;` and then `Pv[i]`, `i != h + h_ - 2`, of the caller.
    Returns the accesses, the returned hull size and whether the `!=` loop left through its test. -/
def grahamRun (cmp1 cmp2 : Nat → Nat → Bool) (n : Nat) : List Acc × Int × Bool :=
  if n ≤ 3 then ((rangeI n).map (fun i => Acc.mk i n), n, true) else
  let s1 := ghScan cmp1 0 n (n - 1) 1 1
  let h : Int := s1.2
  let sw := (iterNe 0 (h - 1) (n + 1)).flatMap fun i => [Acc.mk i n, Acc.mk (i + 1) n]
  let s2 := ghScan cmp2 (h - 2) n (((n : Int) - h + 2).toNat - 1) 1 1
  let res : Int := h + s2.2 - 2
  (s1.1 ++ sw ++ s2.1 ++ (rangeI res).map (fun i => Acc.mk i n), res, iterNeDone 0 (h - 1) (n + 1))

/-! ## B5 — `thin` (`_thin.cpp: match / fast_hitmiss` on the zero-framed image built by `thin.py`) -/

/-- `elem.offset[j] = coordinates_delta(array, delta0[j], delta1[j]) = d0*cols + d1` for the C-contiguous
    `rows × cols` image, for the eight elements in pass order (tables extracted from the source) -/
def thinOffsets (cols : Int) : List Int :=
  Generated.thinElems.flatMap fun e => e.map fun t => t.1 * cols + t.2.1

/-- `match(first, elem)` at flat index `i` for all eight elements: `*array` always; the six neighbours
    `*(array + elem.offset[j])` only when the pixel is set (`if (!*array) return false;`). The model records
    all six (the code stops at the first mismatch). -/
def thinAccessesAt (rows cols : Int) (i : Int) (set : Bool) : List Acc :=
  Acc.mk i (rows * cols) :: (if set then (thinOffsets cols).map fun d => Acc.mk (i + d) (rows * cols) else [])

/-- is flat index `i` on the one-pixel frame of the `rows × cols` image? -/
def thinOnFrame (rows cols : Int) (i : Int) : Bool :=
  decide (i / cols = 0) || decide (i / cols = rows - 1) || decide (i % cols = 0) || decide (i % cols = cols - 1)

/-- all dereferences of one `fast_hitmiss` sweep over the image `img` (flat, C order) -/
def thinSweep (rows cols : Int) (img : List Bool) : List Acc :=
  img.zipIdx.flatMap fun bi => thinAccessesAt rows cols (bi.2 : Int) bi.1

/-- the update after each element: `if (*pb && *pa) *pa = false;` -/
def thinUpdate (img buf : List Bool) : List Bool := List.zipWith (fun a b => a && !b) img buf

/-- no set pixel on the frame -/
def thinFrameClear (rows cols : Int) (img : List Bool) : Bool :=
  img.zipIdx.all fun bi => !(bi.1 && thinOnFrame rows cols (bi.2 : Int))

/-! ## B4 — `cwatershed`: the neighbour accesses behind the margin test (definitions of `Model/C04.lean`) -/

/-- for every flat position `i` and every offset `o` of the neighbourhood: when the bounds decision
    `nbCheck` (started from the exact margin) lets the neighbour through, the access `npos = i + delta`
    against the image size -/
def cwAccesses (shape : List Nat) (offs : List (List Int)) : List Acc :=
  (List.range (shapeSize shape)).flatMap fun i =>
    offs.flatMap fun o =>
      match C04.nbCheck shape i (C04.marginOf shape (unravelI shape i)) ⟨C04.posToFlat shape o, C04.chebStep o, o⟩ with
      | none => []
      | some _ => [Acc.mk ((i : Int) + C04.posToFlat shape o) (shapeSize shape)]

/-! ## protocol -/

def b2s (b : Bool) : String := if b then "1" else "0"

def report (l : List Acc) (term : Bool := true) : String :=
  s!"ok={b2s (allOk l && term)} n={l.length} term={b2s term}"

/-- as `report`, plus the sum of all indices (a cheap fingerprint of the index list) -/
def report2 (l : List Acc) (term : Bool := true) : String :=
  report l term ++ s!" sum={(l.map (·.i)).foldl (· + ·) 0}"

def handle (a : Args) : String :=
  match a.str "kind" with
  | "filter" =>
    match Mode.ofCode (a.nat "mode") with
    | none => "error=bad-mode"
    | some m =>
      let shape := a.nats "shape"
      let fshape := a.nats "fshape"
      let idx := filterIdx m shape fshape
      let rows := (List.range (shapeSize shape)).map fun n =>
        match scanState shape fshape n with
        | some (_, row) => row
        | none => -1
      let fill := (List.range (shapeSize (minShape shape fshape))).map fun n =>
        match fillPos shape fshape n with
        | some pos => ravelZ shape pos
        | none => -1
      s!"fill={showInts fill} idx={showInts idx} ok={b2s (filterOk m shape fshape)} n={idx.length} rows={showInts rows} nrows={shapeSize (minShape shape fshape)}"
  | "region" =>
    let a' := a.nat "a"; let f := a.nat "f"
    let idx := (List.range a').map (regionIndex a' f)
    s!"idx={showNats idx} rep={showInts (idx.map (regionPos a' f))} pos={showInts ((List.range (min a' f)).map (regionPos a' f))}"
  | "fastbin" =>
    let ny := a.int "ny"; let nx := a.int "nx"
    let dx := if a.int "clamp" 1 = 0 then a.int "dx" else fbClampDx nx (a.int "dx")
    let er := a.int "erosion" ≠ 0
    report ((rangeI ny).flatMap fun y => fbAccesses ny nx y (a.int "dy") dx er) (fbDone nx dx)
  | "conv1d" =>
    match Mode.ofCode (a.nat "mode") with
    | none => "error=bad-mode"
    | some m => report (conv1dAccesses m (a.int "n1") (a.int "nf")) (conv1dDone (a.int "n1") (a.int "nf"))
  | "find2d" =>
    report (find2dAccesses (a.int "n0") (a.int "n1") (a.int "t0") (a.int "t1") (a.int "incl" ≠ 0))
  | "majority" =>
    report (majorityAccesses (a.int "rows") (a.int "cols") (a.int "n"))
      (majorityDone (a.int "rows") (a.int "cols") (a.int "n"))
  | "hitmiss" =>
    let r := hmRun (a.nats "shape") (a.nats "bshape") (a.int "margin" 1 ≠ 0)
    report r.1 r.2
  | "dt" =>
    let n := a.nat "n"
    let pop := a.ints "pop"
    let adv := if a.has "adv" then a.ints "adv" else [1]
    let guard := a.int "guard" 1 ≠ 0
    let cmp : Nat → Nat → Bool := fun q k =>
      (guard && k == 0) || pop.getD ((q + k) % pop.length) 0 == 0
    let kmax := dtKmax cmp n
    let lt2 : Nat → Nat → Bool := fun q k =>
      (!guard || k < kmax) && adv.getD ((q + k) % adv.length) 0 != 0
    let l := dtAccesses cmp lt2 n
    report l ((dtFirst cmp n (n - 1) 1 0 [0]).2.isSome)
  | "bbox" => report (bboxAccesses (a.int "ndim") (a.int "maxlabel") (a.int "label"))
  | "foldl" => report (foldlAccesses (a.int "maxi") (a.int "label"))
  | "com" =>
    report (comAccesses (a.int "ndim") (a.int "maxlabel") (a.int "label") (a.int "size") (a.int "lsize"))
  | "cooc" => report (coocAccesses (a.int "m0") (a.int "m1") (a.int "v") (a.int "v2"))
  | "plusminus" => report (plusMinusAccesses (a.int "n") (a.int "plus") (a.int "minus"))
  | "zoomshift" =>
    match Mode.ofCode (a.nat "mode") with
    | none => "error=bad-mode"
    | some m =>
      let shape := a.nats "shape"
      let order := a.nat "order"
      match zsStarts m order shape (a.ints "coord") with
      | none => report2 [] ++ " flag=1 idx=-"
      | some starts =>
        let n : Int := shapeSize shape
        let idx := zsAccesses shape (cStrides shape) order starts
        report2 (idx.map fun i => Acc.mk i n) ++ s!" flag=0 idx={showInts idx}"
  | "spline" => report2 (splineAccesses (a.int "len") (a.ints "mxs"))
  | "haar" => report2 (haarAccesses (a.int "n1")) (haarDone (a.int "n1"))
  | "wavelet" => report2 (waveletAccesses (a.int "n1") (a.int "nc")) (waveletDone (a.int "n1") (a.int "nc"))
  | "iwavelet" =>
    report2 (iwaveletAccesses (a.int "n1") (a.int "nc") (a.int "step")) (waveletDone (a.int "n1") (a.int "nc"))
  | "ihaar" => report2 (ihaarAccesses (a.int "n1") (a.int "step")) (haarDone (a.int "n1"))
  | "integral" => report2 (integralAccesses (a.int "n0") (a.int "n1")) (integralDone (a.int "n0") (a.int "n1"))
  | "graham" =>
    let p1 := a.ints "pop1"; let p2 := a.ints "pop2"
    let c1 : Nat → Nat → Bool := fun i h => p1.getD ((i + h) % p1.length) 0 != 0
    let c2 : Nat → Nat → Bool := fun i h => p2.getD ((i + h) % p2.length) 0 != 0
    let r := grahamRun c1 c2 (a.nat "n")
    report2 r.1 r.2.2 ++ s!" h={r.2.1}"
  | "thin" =>
    let rows := a.int "rows"; let cols := a.int "cols"
    let img := (a.ints "img").map (· != 0)
    report2 (thinSweep rows cols img) ++ s!" frame={b2s (thinFrameClear rows cols img)}"
  | "cwnb" =>
    let shape := a.nats "shape"; let bshape := a.nats "bshape"
    report2 (cwAccesses shape ((allPos bshape).map fun k => subPos k (bshape.map origin)))
  | k =>
    match Mahotas.C10Misc.handleMisc a with
    | some r => r
    | none =>
    match Mahotas.C10Surf.handleSurf a with
    | some r => r
    | none =>
    -- round 4: further model files, each answers its own kinds
    let r4 : List (Args → Option String) := [Mahotas.C10Labeled.handleLabeled, Mahotas.C10Flood.handleFlood,
      Mahotas.C10Feat.handleFeat, Mahotas.C10Conv.handleConv, Mahotas.C10Alloc.handleAlloc]
    (r4.findSome? (· a)).getD s!"error=unknown-kind-{k}"

end Mahotas.C10
