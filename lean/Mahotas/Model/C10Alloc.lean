/-
C10 (round 4) — result buffers: write sets of the code that runs between an allocation of UNINITIALISED memory
(`PyArray_SimpleNew`, `PyArray_EMPTY`, `numpy::new_array`, `new T[n]`, `np.empty`, `np.empty_like`, `_get_output` with
`out=None`) and the first read / the return of that buffer. `translator/allocs.py` enumerates those allocation sites from
the current sources (`Generated.allocSiteTable`); every site is filled by one of the few loop shapes ("mechanisms")
transliterated below, and `Properties/C10.lean` proves for each mechanism, for ALL sizes, that its writes stay inside the
buffer and that EVERY cell is written (`covers`), and decides that every generated site is classified.
Import-free (linked into the driver).

Protocol (`c10 kind=alloc mech=<m> a=<nat> b=<nat> [mask=<0/1 list>]`) -> `ok= n= term=1 sum= covers= size=`
  `ok` = every write index inside `[0,size)`, `n` = number of writes, `sum` = Σ indices, `covers` = every cell written.
  mech = fill | pixel | rows | pairs | records | bboxinit | complexhalves | compress | gm | hitmissbuf | window
  mech=dtscratch n=<nat> cmp=<0/1 n×n: s > z[k] at (q,k)> lt2=<0/1 n×n: z[k+1] < q> -> `ok= n= term= sum= k=`: the reads of the scratch
         arrays `v`, `z` of `dist_transform`, each against the number of cells stored so far (`ok` = every read cell was stored)
-/
import Mahotas.Model.Basic
namespace Mahotas.C10Alloc
open Mahotas

/-- every write index of `ws` is a cell of a buffer of `n` cells -/
def within (n : Nat) (ws : List Int) : Bool := ws.all fun i => decide (0 ≤ i) && decide (i < (n : Int))

/-- every cell `0 … n-1` of the buffer occurs among the write indices -/
def covers (n : Nat) (ws : List Int) : Bool := (List.range n).all fun i => ws.contains (Int.ofNat i)

/-- `std::fill(p, p + n, v)`, `std::fill_n(p, n, v)`, `PyArray_FILLWBYTE(a, 0)`, `a.fill(v)`, `a[...] = v`:
    `for (; first != last; ++first) *first = v` -/
def fillWrites (n : Nat) : List Int := (List.range n).map Int.ofNat

/-- the pixel loop shared by `convolve`, `rank_filter`, `mean_filter`, `template_match`, `erode`, `dilate`, `borders`,
    `zoom_shift`, `fast_hitmiss`, …: `T* rpos = res.data(); for (i = 0; i != N; ++i, ++rpos, …) { …; *rpos = value; }` —
    ONE unconditional store per iteration through a pointer that starts at the first cell and is advanced once per iteration.
    (`pixelGo k rpos` = the remaining `k` iterations with the pointer at offset `rpos`.) -/
def pixelGo : Nat → Int → List Int
  | 0, _ => []
  | k + 1, rpos => rpos :: pixelGo k (rpos + 1)

def pixelWrites (n : Nat) : List Int := pixelGo n 0

/-- two nested counted loops over a C-contiguous 2-D result, `for y < N0: for x < N1: out[y*N1 + x] = …`
    (`convolve1d` fast path: `result.data(y)[x]`; `integral`; `disk_2d`'s running pointer is the pixel loop) -/
def rowsWrites (n0 n1 : Nat) : List Int :=
  (List.range n0).flatMap fun y => (List.range n1).map fun x => Int.ofNat y * Int.ofNat n1 + Int.ofNat x

/-- `_convex.cpp: convexhull`: `oiter = data(output); for (i = 0; i != h; ++i) { *oiter++ = P[i].y; *oiter++ = P[i].x; }`
    into the `(h, 2)` result of `PyArray_SimpleNew` -/
def pairsGo : Nat → Int → List Int
  | 0, _ => []
  | k + 1, o => o :: (o + 1) :: pairsGo k (o + 2)

def pairsWrites (h : Nat) : List Int := pairsGo h 0

/-- `_surf.cpp: py_surf / py_descriptors / py_interest_points`: `for (i = 0; i != n; ++i) points[i].dump(arr.data(i))` where
    `dump` stores `out[0] … out[k-1]` (`k = ndoubles`: five assignments, resp. `interest_point::dump`, `out[5] = angle` and a
    `memcpy` of 64 doubles) and `arr.data(i)` is row `i` of the C-contiguous `(n, k)` array -/
def recordsWrites (n k : Nat) : List Int :=
  (List.range n).flatMap fun i => (List.range k).map fun j => Int.ofNat i * Int.ofNat k + Int.ofNat j

/-- `_bbox.cpp: py_bbox`: `for (j = 0; j != nd; ++j) { extrema_v[2*j] = DIM(array, j); extrema_v[2*j+1] = 0; }` into the
    `2*nd` cells of `PyArray_SimpleNew` (all later accesses of `bbox`/`carray2_bbox` read-modify-write these cells) -/
def bboxInitWrites (nd : Nat) : List Int :=
  (List.range nd).flatMap fun j => [2 * Int.ofNat j, 2 * Int.ofNat j + 1]

/-- `zernike.py`: `An = np.empty(shape, complex128); An.real = …; An.imag = …` — a complex buffer of `n` elements seen as
    `2n` doubles: the first assignment stores every even cell, the second every odd cell -/
def complexHalvesWrites (n : Nat) : List Int :=
  (List.range n).map (fun i => 2 * Int.ofNat i) ++ (List.range n).map (fun i => 2 * Int.ofNat i + 1)

/-- `_filters.h: filter_iterator` with `compress`: `footprint[i] = !!(*fiter)` for every `i < filter_size` (pixel loop), then
    `size_` = number of set footprint cells (what `init_filter_offsets` returns), `new_filter_data = new T[size_]` and
    `j = 0; for (i …) if (*fiter) new_filter_data[j++] = *fiter;` — the write indices for a filter whose non-zero mask is `mask` -/
def compressGo : List Bool → Int → List Int
  | [], _ => []
  | true :: ms, j => j :: compressGo ms (j + 1)
  | false :: ms, j => compressGo ms j

def compressWrites (mask : List Bool) : List Int := compressGo mask 0

/-- the `size_` the buffer is allocated with -/
def compressSize (mask : List Bool) : Nat := (mask.filter id).length

/-- `_zernike.cpp: py_znl`: `g_m = new double[int((n-l)/2) + 1]; for (m = 0; m <= (n-l)/2; m++) g_m[m] = …` and then, per
    element, `for (m = 0; m <= (n-l)/2; m++) Vnl += g_m[m] * …` (C division truncates towards zero). Writes resp. reads. -/
def gmSize (n l : Int) : Int := Int.tdiv (n - l) 2 + 1

def gmIndices (n l : Int) : List Int := (List.range (Int.tdiv (n - l) 2 + 1).toNat).map Int.ofNat

/-- `majority_filter` / `find2d`: the whole result is filled first (`PyArray_FILLWBYTE`, `std::fill`), the window loops only
    overwrite: fill followed by the `(rows-N) × (cols-N)` stores at `(y + N/2) * cols + N/2 + x` (majority; taken when
    `rows ≥ N` and `cols ≥ N`) -/
def windowWrites (rows cols win : Nat) : List Int :=
  fillWrites (rows * cols) ++
  (if rows < win ∨ cols < win then [] else
    (List.range (rows - win)).flatMap fun y => (List.range (cols - win)).map fun x =>
      (Int.ofNat y + Int.ofNat (win / 2)) * Int.ofNat cols + Int.ofNat (win / 2) + Int.ofNat x)

/-- a read list is defined by a write list: every read index was written (order: all the writes precede the reads) -/
def readsDefined (ws rs : List Int) : Bool := rs.all fun i => ws.contains i

/-- `_thin.cpp`: one round `fast_hitmiss(array, elem, buffer)` (pixel loop over the `N` cells of the `np.empty` scratch
    `imagebuf`) followed by `for (j = 0; j != N; ++j) { if (*pb && *pa) …; ++pa; ++pb; }`: (writes, reads) of the buffer -/
def hitmissBufRound (n : Nat) : List Int × List Int := (pixelWrites n, pixelWrites n)


/-! ## `_distance.cpp: dist_transform` — the scratch arrays `v` (`new int[n]`) and `z` (`new double[n+1]`) of `py_dt`

The Felzenszwalb–Huttenlocher pass stores `v[0]`, `z[0]`, `z[1]` first; each round of the first loop pops (`--k` while
`s <= z[k]`, reading `v[k]`, `z[k]`), then `++k; v[k] = q; z[k] = s; z[k+1] = inf`. `W` = "the cells `v[0 … W)` and
`z[0 … W]` have been stored" (cells above the current `k` keep earlier values: stored, merely stale). The float tests are
oracles as in `Model/C10.lean`: `cmp q k` = `s > z[k]` (break), `lt2 q k` = `z[k+1] < q`. -/

/-- a read of a scratch cell: its index and the number of leading cells stored at that moment -/
structure DRead where
  idx : Nat
  stored : Nat
deriving Repr, DecidableEq

def DRead.ok (r : DRead) : Bool := decide (r.idx < r.stored)

/-- the do-while of one round at `k` with watermark `W`: reads of `v[k]` (against `W`) and `z[k]` (against `W + 1`) until
    `cmp q k`; the `k` at `break` (`none`: `k` would become `-1`) -/
def dtPopD (cmp : Nat → Nat → Bool) (q W : Nat) : Nat → List DRead × Option Nat
  | 0 => ([⟨0, W⟩, ⟨0, W + 1⟩], if cmp q 0 then some 0 else none)
  | k + 1 =>
    if cmp q (k + 1) then ([⟨k + 1, W⟩, ⟨k + 1, W + 1⟩], some (k + 1))
    else let r := dtPopD cmp q W k; (⟨k + 1, W⟩ :: ⟨k + 1, W + 1⟩ :: r.1, r.2)

/-- `cnt` rounds of `for (q = 1; q != n; ++q)` from state `(q, k, W)`: after the do-while `++k; v[k] = q; z[k] = s; z[k+1] = inf`
    raises the watermark to `max W (k + 1)`. Returns all reads and the final `(k, W)`. -/
def dtFirstD (cmp : Nat → Nat → Bool) : Nat → Nat → Nat → Nat → List DRead × Option (Nat × Nat)
  | 0, _, k, W => ([], some (k, W))
  | c + 1, q, k, W =>
    match dtPopD cmp q W k with
    | (a, none) => (a, none)
    | (a, some kb) =>
      let r := dtFirstD cmp c (q + 1) (kb + 1) (max W (kb + 2))
      (a ++ r.1, r.2)

/-- second loop, one `q`: `while (z[k+1] < q) ++k;` then `v[k]` — reads `z[k+1]` (against `W + 1`), finally `v[k]` (against `W`) -/
def dtAdvanceD (lt2 : Nat → Nat → Bool) (q W : Nat) : Nat → Nat → List DRead × Nat
  | 0, k => ([], k)
  | f + 1, k =>
    if lt2 q k then let r := dtAdvanceD lt2 q W f (k + 1); (⟨k + 1, W + 1⟩ :: r.1, r.2)
    else ([⟨k + 1, W + 1⟩, ⟨k, W⟩], k)

def dtSecondD (lt2 : Nat → Nat → Bool) (n W : Nat) : Nat → Nat → Nat → List DRead
  | 0, _, _ => []
  | c + 1, q, k => let r := dtAdvanceD lt2 q W (n + 2) k; r.1 ++ dtSecondD lt2 n W c (q + 1) r.2

/-- all reads of `v` and `z` in one call of `dist_transform` on a line of `n ≥ 1` cells (initial stores `v[0]`, `z[0]`, `z[1]`:
    `k = 0`, `W = 1`), and the final `k` of the first loop -/
def dtScratchReads (cmp lt2 : Nat → Nat → Bool) (n : Nat) : List DRead × Option Nat :=
  match dtFirstD cmp (n - 1) 1 0 1 with
  | (a, none) => (a, none)
  | (a, some (k, W)) => (a ++ dtSecondD lt2 n W n 0 0, some k)

/-! ## driver -/

def sI (l : List Int) : Int := l.foldl (· + ·) 0

def report (size : Nat) (ws : List Int) : String :=
  s!"ok={if within size ws then 1 else 0} n={ws.length} term=1 sum={sI ws} covers={if covers size ws then 1 else 0} size={size}"

def handleAlloc (a : Args) : Option String :=
  match a.str "kind" with
  | "alloc" =>
    let x := a.nat "a"; let y := a.nat "b"; let z := a.nat "c"
    match a.str "mech" with
    | "fill" => some (report x (fillWrites x))
    | "pixel" => some (report x (pixelWrites x))
    | "rows" => some (report (x * y) (rowsWrites x y))
    | "pairs" => some (report (x * 2) (pairsWrites x))
    | "records" => some (report (x * y) (recordsWrites x y))
    | "bboxinit" => some (report (2 * x) (bboxInitWrites x))
    | "complexhalves" => some (report (2 * x) (complexHalvesWrites x))
    | "compress" =>
      let mask := (a.ints "mask").map (· != 0)
      some (report (compressSize mask) (compressWrites mask))
    | "gm" =>
      let n := a.int "n"; let l := a.int "l"
      some (report (gmSize n l).toNat (gmIndices n l) ++ s!" reads={if readsDefined (gmIndices n l) (gmIndices n l) then 1 else 0}")
    | "hitmissbuf" =>
      let r := hitmissBufRound x
      some (report x r.1 ++ s!" reads={if readsDefined r.1 r.2 then 1 else 0}")
    | "window" => some (report (x * y) (windowWrites x y z))
    | "dtscratch" =>
      let n := a.nat "n"
      let cm := a.ints "cmp"; let l2 := a.ints "lt2"
      let r := dtScratchReads (fun q k => cm.getD (q * n + k) 0 != 0) (fun q k => l2.getD (q * n + k) 0 != 0) n
      some s!"ok={if r.1.all DRead.ok && r.2.isSome then 1 else 0} n={r.1.length} term={if r.2.isSome then 1 else 0} sum={r.1.foldl (fun acc d => acc + d.idx) 0} k={r.2.getD 0}"
    | m => some s!"error=unknown-mech-{m}"
  | _ => none

end Mahotas.C10Alloc
