/-
C10 (round 4) — index models: result buffers: write sets of the kernels whose result is allocated uninitialised.
Import-free (linked into the driver). Protocol kinds are answered by `handleAlloc` (`none` = not one of mine), which the
fallback arm of `Mahotas.C10.handle` consults.
-/
import Mahotas.Model.Basic
namespace Mahotas.C10Alloc
open Mahotas

def handleAlloc (a : Args) : Option String :=
  match a.str "kind" with
  | _ => none

end Mahotas.C10Alloc
