/-
C10 (round 4) — index models: `_convolve.cpp` (convolve, rank_filter, mean_filter, template_match, daubechies coefficient tables) .
Import-free (linked into the driver). Protocol kinds are answered by `handleConv` (`none` = not one of mine), which the
fallback arm of `Mahotas.C10.handle` consults.
-/
import Mahotas.Model.Basic
namespace Mahotas.C10Conv
open Mahotas

def handleConv (a : Args) : Option String :=
  match a.str "kind" with
  | _ => none

end Mahotas.C10Conv
