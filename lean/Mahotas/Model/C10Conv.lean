/-
C10 (round 4) — index models of `_convolve.cpp` kernels not covered before: the scratch vector of `rank_filter`
(`neighbours[n++]`, the `std::nth_element` range, `neighbours[currank]`), the divisor of `mean_filter`, and the
Daubechies coefficient tables selected by `dcoeffs(code)`.
Import-free (linked into the driver). Protocol kinds are answered by `handleConv` (`none` = not one of mine), which the
fallback arm of `Mahotas.C10.handle` consults.

  kind=rankpixel n2=<N2> rank=<int> const=<0|1> retr=<0/1 list of length N2>
      -> `ok= n= term=1 sum= cnt= currank= nthok= fresh=`: one pixel of `rank_filter`: the stores `neighbours[n++]`
         (index against the `N2` cells of `n_data`), the read `neighbours[currank]`; `cnt` = the final `n`,
         `nthok` = `0 ≤ currank ≤ n` (a valid `nth_element` range), `fresh` = `currank < n` (the value read was stored
         for THIS pixel); `rank` outside `[0, N2)`: the kernel returns before any access (`n=0`).
  kind=daubcode code=<int>   -> `ok= n= term=1 sum= null=`: the reads `coeffs[j]`, `j < 2*(code+1)`, against the table `dcoeffs(code)` selects
-/
import Mahotas.Model.Basic
import Mahotas.Generated.Tables
namespace Mahotas.C10Conv
open Mahotas

/-- one dereference: index `i` applied to a buffer whose valid indices are `0 … size-1` -/
structure CAcc where
  i : Int
  size : Int
deriving Repr, DecidableEq

def CAcc.ok (a : CAcc) : Bool := decide (0 ≤ a.i) && decide (a.i < a.size)

def allOk (l : List CAcc) : Bool := l.all CAcc.ok

/-- `_convolve.cpp: rank_filter`, inner loop of one pixel:
    `n = 0; for (j = 0; j != N2; ++j) { if (fiter.retrieve(iter, j, val)) neighbours[n++] = val;
                                        else if (mode == ExtendConstant) neighbours[n++] = cval; }`
    `retr[j]` = whether `retrieve` succeeded (it fails only for a neighbour outside the image in `ignore`/`constant` mode).
    Returns the store indices (in order) and the final `n`. -/
def rankStores (isConst : Bool) : List Bool → Int → List Int × Int
  | [], n => ([], n)
  | r :: rs, n =>
    if r || isConst then
      let t := rankStores isConst rs (n + 1)
      (n :: t.1, t.2)
    else rankStores isConst rs n

/-- `currank = rank; if (n != N2) currank = npy_intp(n * rank / double(N2));` (exact for the sizes of the documented domain:
    the conversion truncates the quotient of two non-negative integers) -/
def curRank (n2 n rank : Int) : Int := if n ≠ n2 then Int.tdiv (n * rank) n2 else rank

/-- all dereferences of the scratch vector `n_data` (`resize(N2)`) for one pixel: the stores, then `neighbours[currank]`;
    nothing when `rank < 0 || rank >= N2` (the kernel returns at once) -/
def rankPixelAccesses (n2 rank : Int) (isConst : Bool) (retr : List Bool) : List CAcc :=
  if rank < 0 ∨ rank ≥ n2 then [] else
    let s := rankStores isConst retr 0
    s.1.map (fun i => CAcc.mk i n2) ++ [CAcc.mk (curRank n2 s.2 rank) n2]

/-- `mean_filter`: the divisor. `constant`/other modes divide by `N2` (checked non-zero by the wrapper: a footprint without a
    set cell raises), `ignore` divides by the number `n` of retrieved neighbours when `n > 0` -/
def meanDivisor (n2 n : Int) (isIgnore : Bool) : Int := if isIgnore then n else n2


/-- `py_daubechies` / `py_idaubechies`: `coeffs = dcoeffs(code); ncoeffs = 2*(code + 1); if (!coeffs) return NULL;` then the kernels read
    `coeffs[j]`, `j < ncoeffs`. `dcoeffs` is a `switch` over `0 … 9` returning the table `D2 … D20` (`Generated.dcoeffs`, extracted from
    the source), `NULL` otherwise: the reads `coeffs[j]` against the length of the selected table; `none` = the entry point returns -/
def daubCoeffReads (code : Int) : Option (List CAcc) :=
  if 0 ≤ code ∧ code < Int.ofNat Generated.dcoeffs.length then
    let tab := Generated.dcoeffs.getD code.toNat []
    some ((List.range (2 * (code + 1)).toNat).map fun j => CAcc.mk (Int.ofNat j) (Int.ofNat tab.length))
  else none

def sI (l : List Int) : Int := l.foldl (· + ·) 0
def b2s (b : Bool) : String := if b then "1" else "0"

def handleConv (a : Args) : Option String :=
  match a.str "kind" with
  | "rankpixel" =>
    let n2 := a.int "n2"; let rank := a.int "rank"
    let isConst := a.int "const" != 0
    let retr := (a.ints "retr").map (· != 0)
    let acc := rankPixelAccesses n2 rank isConst retr
    let s := rankStores isConst retr 0
    let cr := curRank n2 s.2 rank
    let run := !(decide (rank < 0) || decide (rank ≥ n2))
    some (s!"ok={b2s (allOk acc)} n={acc.length} term=1 sum={sI (acc.map (·.i))} cnt={if run then s.2 else 0} " ++
          s!"currank={if run then cr else 0} nthok={b2s (!run || (decide (0 ≤ cr) && decide (cr ≤ s.2)))} " ++
          s!"fresh={b2s (run && decide (cr < s.2))}")
  | "daubcode" =>
    match daubCoeffReads (a.int "code") with
    | some l => some s!"ok={b2s (allOk l)} n={l.length} term=1 sum={sI (l.map (·.i))} null=0"
    | none => some "ok=1 n=0 term=1 sum=0 null=1"
  | _ => none

end Mahotas.C10Conv
