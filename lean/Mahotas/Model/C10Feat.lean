/-
C10 (round 4) — index models of small entry points that had none: `_histogram.otsu`, `_zernike.znl` (`fact` and its
static table, the three element arrays), the paired scans of `_labeled.is_same_labeling` and `_morph.subm`,
`_morph.disk_2d`, and the sliding window of SURF's `compute_dominant_angle` (the index `j` that wraps at `Nsamples`).
Import-free (linked into the driver). Protocol kinds are answered by `handleFeat` (`none` = not one of mine), which the
fallback arm of `Mahotas.C10.handle` consults. Every answer starts `ok= n= term= sum=` (all accesses in range, number of
accesses, loops ended, Σ indices).

  kind=otsu n=<int> hz=<0|1> nbz=<0/1 list> noz=<0/1 list> better=<0/1 list>
      `otsu(hist, n)`: `hz` = `Hsum == 0`, `nbz[T]` = `nB[T] == 0`, `noz[T]` = `nO[T] == 0`, `better[T]` = `sigma_between > best`
      (the floating-point decisions, as oracles indexed by `T`); extra `best=` (the returned `bestT`).
  kind=fact k=<int> [fuel=<nat>, default 100000]
      `fact(k)`: the recursion `k * fact(k-1)` down to the table; extra `depth=` (number of recursive calls).
  kind=znl n=<int> l=<int> nd=<nat> na=<nat> np=<nat>
      `py_znl`: `fact` of the four arguments for every `m` of the loop, `g_m[m]`, and `D[i]`, `A[i]`, `P[i]` for `i < nd`.
  kind=pairscan na=<nat> nb=<nat> [stop=<nat>]
      `is_same_labeling` / `subm`: `a[p]`, `b[p]` for `p < na` (is_same_labeling returns after the first mismatch at `stop`).
  kind=disk2d n0=<nat> n1=<nat> radius=<int>
      `py_disk_2d`: the running pointer `iter` at the cells it stores to; extra `cells=`.
  kind=poles order=<int>   `init_poles`: `pole[·]` against the 2 cells; extra `thrown=` (order outside 2..5: exception before any access)
  kind=splcoef order=<int> `spline_coefficients`: the stores `result[hh]`, `hh <= order`, into `order + 1` cells
  kind=domangle ns=<nat> btw=<0/1 list, row-major ns×ns: between_angles(samples[i], samples[j])>
      `compute_dominant_angle` after the sort: `samples[0]`, the first window loop, the update loop with `j` wrapping at `ns`;
      extra `early=` (returned from the first loop), `jend=`.
-/
import Mahotas.Model.Basic
import Mahotas.Generated.Tables
namespace Mahotas.C10Feat
open Mahotas

structure FAcc where
  i : Int
  size : Int
deriving Repr, DecidableEq

def FAcc.ok (a : FAcc) : Bool := decide (0 ≤ a.i) && decide (a.i < a.size)
def allOk (l : List FAcc) : Bool := l.all FAcc.ok

/-! ## `_histogram.cpp: otsu` -/

/-- the `T` loop: `for (T = 1; T != n; ++T) { if (nB[T] == 0) continue; if (nO[T] == 0) break; mu_B = (mu_B*nB[T-1] + T*hist[T])/nB[T];
    mu_O = (mu_O*nO[T-1] - T*hist[T])/nO[T]; sigma = nB[T]*nO[T]*…; if (sigma > best) { best = sigma; bestT = T; } }`
    (`k` = remaining iterations, all buffers have `n` cells). Returns the accesses and `bestT`. -/
def otsuLoop (n : Int) (nbz noz better : Nat → Bool) : Nat → Nat → Nat → List FAcc × Nat
  | 0, _, best => ([], best)
  | k + 1, t, best =>
    let T : Int := Int.ofNat t
    if nbz t then
      let r := otsuLoop n nbz noz better k (t + 1) best
      (FAcc.mk T n :: r.1, r.2)
    else if noz t then ([FAcc.mk T n, FAcc.mk T n], best)
    else
      let r := otsuLoop n nbz noz better k (t + 1) (if better t then t else best)
      ([FAcc.mk T n, FAcc.mk T n,                               -- nB[T] == 0, nO[T] == 0
        FAcc.mk (T - 1) n, FAcc.mk T n, FAcc.mk T n,            -- nB[T-1], hist[T], nB[T]
        FAcc.mk (T - 1) n, FAcc.mk T n, FAcc.mk T n,            -- nO[T-1], hist[T], nO[T]
        FAcc.mk T n, FAcc.mk T n] ++ r.1, r.2)                  -- nB[T], nO[T]

/-- all dereferences of `hist` (n cells), `nB`, `nO` (`resize(n)`) in `otsu(hist, n)`, and the value returned -/
def otsuRun (n : Int) (hz : Bool) (nbz noz better : Nat → Bool) : List FAcc × Nat :=
  if n ≤ 1 then ([], 0) else
    let m := (n - 1).toNat
    let accum := (List.range m).map fun i => FAcc.mk (Int.ofNat i + 1) n                  -- std::accumulate(hist + 1, hist + n)
    if hz then (accum, 0) else
      let a1 := [FAcc.mk 0 n, FAcc.mk 0 n] ++                                               -- nB[0] = hist[0]
        (List.range m).flatMap fun i => [FAcc.mk (Int.ofNat i + 1) n, FAcc.mk (Int.ofNat i + 1) n, FAcc.mk (Int.ofNat i) n]
      let a2 := (List.range n.toNat).flatMap fun i => [FAcc.mk (Int.ofNat i) n, FAcc.mk (n - 1) n, FAcc.mk (Int.ofNat i) n]
      let a3 := (List.range m).map fun i => FAcc.mk (Int.ofNat i + 1) n                     -- mu_O += i*hist[i]
      let a4 := [FAcc.mk 0 n, FAcc.mk 0 n]                                                  -- best = nB[0]*nO[0]*…
      let r := otsuLoop n nbz noz better m 1 0
      (accum ++ a1 ++ a2 ++ a3 ++ a4 ++ r.1, r.2)

/-! ## `_zernike.cpp: fact`, `py_znl` -/

/-- `sizeof(_factorialtable)/sizeof(double)`: the length of the extracted table -/
def factTableLen : Int := Int.ofNat Generated.factorialTable.length

/-- `double fact(int n) { if (unsigned(n) < 13) return _factorialtable[n]; return double(n) * fact(n - 1); }`
    (`unsigned(n) < 13` ⇔ `0 ≤ n < 13` for an `int`): the one table access at the bottom of the recursion and the number of
    recursive calls; `none` when the fuel runs out (a negative argument recurses until `INT_MIN`: stack overflow) -/
def factRun : Nat → Int → Option (FAcc × Nat)
  | 0, _ => none
  | f + 1, k =>
    if 0 ≤ k ∧ k < factTableLen then some (FAcc.mk k factTableLen, 0)
    else (factRun f (k - 1)).map fun r => (r.1, r.2 + 1)

/-- the arguments of `fact(·)` for one `m`: `fact(n-m)`, `fact(m)`, `fact((n-2m+l)/2)`, `fact((n-2m-l)/2)` (C division) -/
def znlFactArgs (n l m : Int) : List Int := [n - m, m, Int.tdiv (n - 2 * m + l) 2, Int.tdiv (n - 2 * m - l) 2]

/-- `py_znl`: table accesses of the `fact` calls and `g_m[m]` (against `int((n-l)/2) + 1` cells) for `m = 0 … (n-l)/2`, then
    `D[i]`, `A[i]`, `P[i]` for `i < Nelems = SIZE(Da)` against the sizes of the three arrays; `term = false` when a `fact` call
    does not come back within the fuel -/
def znlRun (fuel : Nat) (n l : Int) (nd na np : Nat) : List FAcc × Bool :=
  let lim := Int.tdiv (n - l) 2
  let ms := (List.range (lim + 1).toNat).map Int.ofNat
  let facts := ms.flatMap fun m => (znlFactArgs n l m).map (factRun fuel)
  let fa := facts.filterMap fun r => r.map (·.1)
  let gm := ms.map fun m => FAcc.mk m (lim + 1)
  let el := (List.range nd).flatMap fun i =>
    [FAcc.mk (Int.ofNat i) (Int.ofNat nd), FAcc.mk (Int.ofNat i) (Int.ofNat na), FAcc.mk (Int.ofNat i) (Int.ofNat np)] ++
      ms.map fun m => FAcc.mk m (lim + 1)
  (fa ++ gm ++ el, facts.all Option.isSome)

/-! ## paired scans: `is_same_labeling`, `subm` -/

/-- `for (p = 0; p < N; ++p, ++a, ++b) { … *a … *b …; if (mismatch) return false; }` with `N = labeled0.size()`; `b` has `nb` cells.
    `stop = some s`: the scan returns in iteration `s` (after reading `a[s]`, `b[s]`) -/
def pairScan (na nb : Nat) (stop : Option Nat) : List FAcc :=
  let upto := match stop with | some s => min na (s + 1) | none => na
  (List.range upto).flatMap fun p => [FAcc.mk (Int.ofNat p) (Int.ofNat na), FAcc.mk (Int.ofNat p) (Int.ofNat nb)]

/-! ## `_morph.cpp: py_disk_2d` -/

/-- `iter = data(array); for (x0 = 0; x0 != N0; ++x0) for (x1 = 0; x1 != N1; ++x1, ++iter)
      if ((x0-c0)*(x0-c0) + (x1-c1)*(x1-c1) < radius2) *iter = true;` with `c0 = N0/2`, `c1 = N1/2`, `radius2 = radius*radius`:
    the offsets of `iter` at the stores -/
def diskStores (n0 n1 : Nat) (radius : Int) : List FAcc :=
  let c0 : Int := Int.ofNat (n0 / 2); let c1 : Int := Int.ofNat (n1 / 2)
  (List.range n0).flatMap fun x0 => (List.range n1).filterMap fun x1 =>
    let d0 := Int.ofNat x0 - c0; let d1 := Int.ofNat x1 - c1
    if d0 * d0 + d1 * d1 < radius * radius then
      some (FAcc.mk (Int.ofNat x0 * Int.ofNat n1 + Int.ofNat x1) (Int.ofNat (n0 * n1)))
    else none

/-! ## SURF `compute_dominant_angle`: the window over the sorted samples -/

/-- first loop: `for (j = 1; j != Nsamples && between_angles(samples[0].first, samples[j].first); ++j) vect += samples[j].second;`
    (`k` = fuel = remaining possible values of `j`). Returns accesses and the final `j`. -/
def angleFirst (ns : Nat) (btw : Nat → Nat → Bool) : Nat → Nat → List FAcc × Nat
  | 0, j => ([], j)
  | k + 1, j =>
    if j = ns then ([], j)
    else if btw 0 j then
      let r := angleFirst ns btw k (j + 1)
      ([FAcc.mk 0 ns, FAcc.mk j ns, FAcc.mk j ns] ++ r.1, r.2)
    else ([FAcc.mk 0 ns, FAcc.mk j ns], j)

/-- `while (j != i && between_angles(samples[i].first, samples[j].first)) { vect += samples[j].second; ++j; if (j == Nsamples) j = 0; }`
    Returns accesses, the final `j`, and whether the loop ended within the fuel. -/
def angleWhile (ns i : Nat) (btw : Nat → Nat → Bool) : Nat → Nat → List FAcc × Nat × Bool
  | 0, j => ([], j, false)
  | f + 1, j =>
    if j = i then ([], j, true)
    else if btw i j then
      let j1 := if j + 1 = ns then 0 else j + 1
      let r := angleWhile ns i btw f j1
      ([FAcc.mk i ns, FAcc.mk j ns, FAcc.mk j ns] ++ r.1, r.2.1, r.2.2)
    else ([FAcc.mk i ns, FAcc.mk j ns], j, true)

/-- `for (i = 1; i < Nsamples; ++i) { vect -= samples[i].second; while … }` (`k` = remaining iterations) -/
def angleOuter (ns : Nat) (btw : Nat → Nat → Bool) : Nat → Nat → Nat → List FAcc × Nat × Bool
  | 0, _, j => ([], j, true)
  | k + 1, i, j =>
    let w := angleWhile ns i btw ns j
    let r := angleOuter ns btw k (i + 1) w.2.1
    (FAcc.mk i ns :: w.1 ++ r.1, r.2.1, w.2.2 && r.2.2)

/-- everything after `std::sort`: `samples[0]`, the first loop, the early return when `j == Nsamples`, the update loop.
    Returns (accesses, early return?, final j, terminated) -/
def angleRun (ns : Nat) (btw : Nat → Nat → Bool) : List FAcc × Bool × Nat × Bool :=
  let f := angleFirst ns btw ns 1
  if f.2 = ns then (FAcc.mk 0 ns :: f.1, true, f.2, true)
  else
    let o := angleOuter ns btw (ns - 1) 1 f.2
    (FAcc.mk 0 ns :: f.1 ++ o.1, false, o.2.1, o.2.2)

/-- the number of samples `compute_dominant_angle` collects: the `(r, c)` with `-6 ≤ r, c ≤ 6` and `r*r + c*c < 36` -/
def angleSampleCount : Nat :=
  ((List.range 13).flatMap fun r => (List.range 13).filter fun c =>
    decide ((Int.ofNat r - 6) * (Int.ofNat r - 6) + (Int.ofNat c - 6) * (Int.ofNat c - 6) < 36)).length


/-! ## `_interpolate.cpp`: the small tables of the spline code -/

/-- `init_poles(FT pole[2], npoles, weight, order)`: the stores `pole[0]` (orders 2, 3) resp. `pole[0]`, `pole[1]` (orders 4, 5), then
    `for (pi = 0; pi < npoles; ++pi) … pole[pi] …` (and the same loop over `pole[pi]` in `spline_filter1d`); any other order throws
    before an access (`none`) -/
def polesAccesses (order : Int) : Option (List FAcc) :=
  let np : Option Nat := if order = 2 ∨ order = 3 then some 1 else if order = 4 ∨ order = 5 then some 2 else none
  np.map fun n => ((List.range n).map fun i => FAcc.mk (Int.ofNat i) 2) ++ ((List.range n).map fun i => FAcc.mk (Int.ofNat i) 2)

/-- `spline_coefficients(x, order, result)` with `result` = `splvals[r][kk]` after `resize(order + 1)`:
    `for (hh = 0; hh <= order; hh++) result[hh] = …` -/
def splineCoeffStores (order : Int) : List FAcc :=
  (List.range (order + 1).toNat).map fun hh => FAcc.mk (Int.ofNat hh) (order + 1)

/-! ## driver -/

def sI (l : List Int) : Int := l.foldl (· + ·) 0
def b2s (b : Bool) : String := if b then "1" else "0"
def report (l : List FAcc) (term : Bool := true) : String :=
  s!"ok={b2s (allOk l && term)} n={l.length} term={b2s term} sum={sI (l.map (·.i))}"

def bitAt (l : List Int) (i : Nat) : Bool := l.getD i 0 != 0

def handleFeat (a : Args) : Option String :=
  match a.str "kind" with
  | "otsu" =>
    let r := otsuRun (a.int "n") (a.int "hz" != 0) (bitAt (a.ints "nbz")) (bitAt (a.ints "noz")) (bitAt (a.ints "better"))
    some (report r.1 ++ s!" best={r.2}")
  | "fact" =>
    match factRun (a.nat "fuel" 100000) (a.int "k") with
    | some r => some (report [r.1] ++ s!" depth={r.2}")
    | none => some (report [] false ++ " depth=-")
  | "znl" =>
    let r := znlRun 100000 (a.int "n") (a.int "l") (a.nat "nd") (a.nat "na") (a.nat "np")
    some (report r.1 r.2)
  | "pairscan" =>
    some (report (pairScan (a.nat "na") (a.nat "nb") (if a.has "stop" then some (a.nat "stop") else none)))
  | "disk2d" =>
    let l := diskStores (a.nat "n0") (a.nat "n1") (a.int "radius")
    some (report l ++ s!" cells={l.length}")
  | "poles" =>
    match polesAccesses (a.int "order") with
    | some l => some (report l ++ " thrown=0")
    | none => some (report [] ++ " thrown=1")
  | "splcoef" => some (report (splineCoeffStores (a.int "order")))
  | "domangle" =>
    let ns := a.nat "ns"
    let m := a.ints "btw"
    let r := angleRun ns (fun i j => m.getD (i * ns + j) 0 != 0)
    some (report r.1 r.2.2.2 ++ s!" early={b2s r.2.1} jend={r.2.2.1}")
  | _ => none

end Mahotas.C10Feat
