/-
C10 (round 4) — index models: feature kernels (`_zernike` znl, SURF `compute_dominant_angle`, `_texture`, `_convex` entry point, `_histogram` otsu, `_interpolate` remaining pieces).
Import-free (linked into the driver). Protocol kinds are answered by `handleFeat` (`none` = not one of mine), which the
fallback arm of `Mahotas.C10.handle` consults.
-/
import Mahotas.Model.Basic
namespace Mahotas.C10Feat
open Mahotas

def handleFeat (a : Args) : Option String :=
  match a.str "kind" with
  | _ => none

end Mahotas.C10Feat
