/-
C10 (round 4) — the stack / queue kernels of `_morph.cpp`: the containers `numpy::position_stack` / `position_queue`
(`numpypp/array.hpp`: `store_[next_*size_ + d]`, the `erase` at `next_ == 512`), the border seeding odometer of `close_holes`,
and the stack flood shared by `close_holes` and `remove_fake_regmin_max` — its accesses and its TERMINATION.
The flood step is `Mahotas.C14.floodVisit`, the very definition C14's correctness theorems are about.
Import-free (linked into the driver). Protocol kinds are answered by `handleFlood` (`none` = not one of mine).

  kind=pqueue size=<nd> ops=<list: 1 = push, 0 = `if (!empty()) top_pop()`> [limit=<nat>, default 512]
      -> `ok= n= term=1 sum= len= next= pops=`: every `store_[…]` index of `top()` and the last index of every `erase`
         against `store_.size()`; `len` = final `store_.size()`, `next` = final `next_`. `limit` = the compaction constant.
  kind=pstack size=<nd> ops=<list>      -> same for `position_stack` (`top_pop` reads `store_[size()-size_ …]`)
  kind=chseed shape=<ints>
      -> `ok= n= term=1 sum=`: the positions `ref.at(pos)`/`f.at(pos)` of the seeding loops of `close_holes` (`sum` = Σ of the
         C-order flat indices `ravelZ`; a position outside the box makes `ok=0`: happens for rank ≥ 3)
  kind=flood shape=<ints> avail=<0/1 flat> stack=<flat list of positions> bshape=<ints> bimg=<0/1> [fuel=<nat>]
      -> `ok= n= term= sum= pops= left=`: the stack flood from the given stack over the available pixels: dereferenced positions
         (all behind `validposition`), `term` = the stack was drained within the fuel (default: stack length + number of
         available pixels + 1), `pops`, `left` = number of still available pixels.
  kind=regscan shape=<ints> marks=<0/1 flat> wit=<0/1 flat: the pixel has a fake-extremum witness> bshape= bimg=
      -> `ok= n= term= sum= left=`: the outer scan of `remove_fake_regmin_max` over all positions with its floods.
-/
import Mahotas.Model.Basic
import Mahotas.Model.C14
namespace Mahotas.C10Flood
open Mahotas

/-- one dereference of `store_` (a `std::vector<npy_intp>`): index against `store_.size()` -/
structure VAcc where
  i : Int
  size : Int
deriving Repr, DecidableEq

def VAcc.ok (a : VAcc) : Bool := decide (0 ≤ a.i) && decide (a.i < a.size)
def vAllOk (l : List VAcc) : Bool := l.all VAcc.ok

/-! ## `position_queue` / `position_stack`: only the lengths matter for the index arithmetic -/

/-- state of a `position_queue`: `store_.size()`, `next_` -/
structure QState where
  len : Nat
  next : Nat
deriving Repr, DecidableEq

/-- `push(p)`: `for (d = 0; d != size_; ++d) store_.push_back(p[d])` -/
def qPush (sz : Nat) (s : QState) : QState := { s with len := s.len + sz }

/-- `empty()`: `store_.size()/size_ - next_ == 0` (unsigned arithmetic: the subtraction wraps when `next_` is larger) -/
def qEmpty (sz : Nat) (s : QState) : Bool := decide ((s.len / sz : Int) - s.next = 0)

/-- `top_pop()`: `position p(&store_[next_*size_], size_)` reads `store_[next_*size_ + d]`, `d < size_`; then `++next_` and, when
    `next_ == limit` (512), `store_.erase(begin, begin + next_*size_); next_ = 0`: the erased range must lie inside the vector
    (its last index is listed). Returns the accesses and the new state. -/
def qTopPop (limit sz : Nat) (s : QState) : List VAcc × QState :=
  let reads := (List.range sz).map fun d => VAcc.mk (Int.ofNat (s.next * sz + d)) (Int.ofNat s.len)
  let n1 := s.next + 1
  if n1 = limit then
    (reads ++ (if n1 * sz = 0 then [] else [VAcc.mk (Int.ofNat (n1 * sz) - 1) (Int.ofNat s.len)]), { len := s.len - n1 * sz, next := 0 })
  else (reads, { s with next := n1 })

/-- a run of the callers' protocol: `true` = `push`, `false` = `if (!empty()) top_pop()` -/
def qRun (limit sz : Nat) : List Bool → QState → List VAcc × QState × Nat
  | [], s => ([], s, 0)
  | true :: ops, s => qRun limit sz ops (qPush sz s)
  | false :: ops, s =>
    if qEmpty sz s then qRun limit sz ops s
    else
      let r := qTopPop limit sz s
      let t := qRun limit sz ops r.2
      (r.1 ++ t.1, t.2.1, t.2.2 + 1)

/-- `position_stack::top_pop()`: `position res(&store_[store_.size() - size_], size_)` then `erase(end - size_, end)` -/
def sTopPop (sz len : Nat) : List VAcc × Nat :=
  ((List.range sz).map fun d => VAcc.mk (Int.ofNat len - Int.ofNat sz + Int.ofNat d) (Int.ofNat len), len - sz)

def sRun (sz : Nat) : List Bool → Nat → List VAcc × Nat × Nat
  | [], len => ([], len, 0)
  | true :: ops, len => sRun sz ops (len + sz)
  | false :: ops, len =>
    if len = 0 then sRun sz ops len                         -- `empty()` = `store_.empty()`
    else
      let r := sTopPop sz len
      let t := sRun sz ops r.2
      (r.1 ++ t.1, t.2.1, t.2.2 + 1)

/-! ## `close_holes`: the border seeding loops -/

/-- one dereference through a `numpy::position` -/
structure PAcc where
  pos : List Int
  shape : List Nat
deriving Repr, DecidableEq

def PAcc.ok (a : PAcc) : Bool := inside a.shape a.pos
def pAllOk (l : List PAcc) : Bool := l.all PAcc.ok

def setAt (p : List Int) (j : Nat) (v : Int) : List Int := p.set j v

/-- `for (j = 0; j != nd - 1; ++j) { if (j == d) ++j; if (pos[j] < dim(j)) { ++pos[j]; break; } pos[j] = 0; }`
    (`k` = fuel for the counter; beyond the rank `pos[j]`/`dim(j)` read unrelated memory: modelled as `0 < 0`, i.e. reset) -/
def chAdvance (shape : List Nat) (d : Nat) : Nat → Nat → List Int → List Int
  | 0, _, pos => pos
  | k + 1, j, pos =>
    if j = shape.length - 1 then pos else
      let j' := if j = d then j + 1 else j
      if pos.getD j' 0 < Int.ofNat (shape.getD j' 0) then setAt pos j' (pos.getD j' 0 + 1)
      else chAdvance shape d k (j' + 1) (setAt pos j' 0)

/-- the `i` loop for one axis `d`: per iteration `pos[d] = 0` (two reads), `pos[d] = dim(d) - 1` (two reads), advance -/
def chSeedAxis (shape : List Nat) (d : Nat) : Nat → List Int → List PAcc
  | 0, _ => []
  | k + 1, pos =>
    let p0 := setAt pos d 0
    let p1 := setAt pos d (Int.ofNat (shape.getD d 0) - 1)
    [PAcc.mk p0 shape, PAcc.mk p1 shape] ++ chSeedAxis shape d k (chAdvance shape d (shape.length + 1) 0 p1)

/-- all positions dereferenced by the seeding: `for d: if (dim(d) == 0) continue; pos = 0; for (i = 0; i != N/dim(d); ++i) …` -/
def chSeedAccesses (shape : List Nat) : List PAcc :=
  (List.range shape.length).flatMap fun d =>
    if shape.getD d 0 = 0 then [] else
      chSeedAxis shape d (shapeSize shape / shape.getD d 0) (shape.map fun _ => 0)

/-! ## the stack flood (`close_holes`, `remove_fake_regmin_max`) -/

/-- positions dereferenced while one popped position `p` is processed: `npos = p + delta` for every neighbour, dereferenced
    (`ref.at(npos)`, `f.at(npos)`, `regmin.at(npos)`) only behind `validposition(npos)` -/
def visitAccesses (shape : List Nat) (nb : List (List Int)) (p : List Int) : List PAcc :=
  (nb.map fun k => addPos p k).filterMap fun q => if inside shape q then some (PAcc.mk q shape) else none

/-- `while (!stack.empty()) { pos = stack.top_pop(); for every neighbour … }` with fuel: the step is `C14.floodVisit` (the
    neighbours of `p` that are inside and still available are taken and pushed). Returns the dereferenced positions, whether
    the stack was drained, the number of pops, the largest stack length seen, and the final availability flags. -/
def floodRun (shape : List Nat) (nb : List (List Int)) :
    Nat → Array Bool → List (List Int) → List PAcc × Bool × Nat × Nat × Array Bool
  | 0, av, st => ([], st.isEmpty, 0, st.length, av)
  | _ + 1, av, [] => ([], true, 0, 0, av)
  | fuel + 1, av, p :: st =>
    let s := C14.floodVisit shape nb p (av, st)
    let r := floodRun shape nb fuel s.1 s.2
    (visitAccesses shape nb p ++ r.1, r.2.1, r.2.2.1 + 1, max (st.length + 1) r.2.2.2.1, r.2.2.2.2)

/-- number of set flags -/
def cntTrue (av : Array Bool) : Nat := av.toList.countP id


/-! ## `remove_fake_regmin_max`: the outer scan with its floods -/

/-- `for (i = 0; i != N; ++i, ++riter) { if (!*riter) continue; pos = riter.position(); for every neighbour: npos = pos + delta;
    if (f.validposition(npos) && !regmin.at(npos) && f.at(npos) <=/>= val) { regmin.at(pos) = false; stack.push(pos); flood; break; } }`.
    `witness p av` abstracts the value test on the neighbours of `p` (any outcome). The positions visited are the iterator's
    (inside by construction); the neighbour probes are `visitAccesses`; a marked pixel with a witness is cleared and flooded
    with fuel `1 + #marked`. Returns all dereferenced positions, "every flood drained its stack", and the final marks. -/
def regScan (shape : List Nat) (nb : List (List Int)) (witness : List Int → Array Bool → Bool) :
    List (List Int) → Array Bool → List PAcc × Bool × Array Bool
  | [], av => ([], true, av)
  | p :: ps, av =>
    if av.getD (ravelI shape p) false then
      let probes := PAcc.mk p shape :: visitAccesses shape nb p
      if witness p av then
        let av' := av.setIfInBounds (ravelI shape p) false
        let r := floodRun shape nb (1 + cntTrue av') av' [p]
        let t := regScan shape nb witness ps r.2.2.2.2
        (probes ++ r.1 ++ t.1, r.2.1 && t.2.1, t.2.2)
      else
        let t := regScan shape nb witness ps av
        (probes ++ t.1, t.2.1, t.2.2)
    else regScan shape nb witness ps av

/-! ## driver -/

def sI (l : List Int) : Int := l.foldl (· + ·) 0
def b2s (b : Bool) : String := if b then "1" else "0"
def ravelZ (shape : List Nat) (p : List Int) : Int :=
  (List.zip shape p).foldl (fun acc dp => acc * Int.ofNat dp.1 + dp.2) 0

def chunks (n : Nat) : Nat → List Int → List (List Int)
  | 0, _ => []
  | k + 1, l => if l.isEmpty then [] else l.take n :: chunks n k (l.drop n)

def handleFlood (a : Args) : Option String :=
  match a.str "kind" with
  | "pqueue" =>
    let r := qRun (a.nat "limit" 512) (a.nat "size") ((a.ints "ops").map (· != 0)) ⟨0, 0⟩
    some s!"ok={b2s (vAllOk r.1)} n={r.1.length} term=1 sum={sI (r.1.map (·.i))} len={r.2.1.len} next={r.2.1.next} pops={r.2.2}"
  | "pstack" =>
    let r := sRun (a.nat "size") ((a.ints "ops").map (· != 0)) 0
    some s!"ok={b2s (vAllOk r.1)} n={r.1.length} term=1 sum={sI (r.1.map (·.i))} len={r.2.1} pops={r.2.2}"
  | "chseed" =>
    let shape := a.nats "shape"
    let l := chSeedAccesses shape
    some s!"ok={b2s (pAllOk l)} n={l.length} term=1 sum={sI (l.map fun x => ravelZ shape x.pos)}"
  | "flood" =>
    let shape := a.nats "shape"
    let bshape := a.nats "bshape"
    let bimg := a.ints "bimg"
    let centre := bshape.map fun d => Int.ofNat (d / 2)
    let nb := ((allPos bshape).zip bimg).filterMap fun kb =>
      if kb.2 != 0 && kb.1 != centre then some (subPos kb.1 centre) else none
    let av := ((a.ints "avail").map (· != 0)).toArray
    let st := chunks shape.length ((a.ints "stack").length + 1) (a.ints "stack")
    let fuel := a.nat "fuel" (st.length + cntTrue av + 1)
    let r := floodRun shape nb fuel av st
    some (s!"ok={b2s (pAllOk r.1 && r.2.1)} n={r.1.length} term={b2s r.2.1} sum={sI (r.1.map fun x => ravelZ shape x.pos)} " ++
          s!"pops={r.2.2.1} maxstack={r.2.2.2.1} left={cntTrue r.2.2.2.2}")
  | "regscan" =>
    let shape := a.nats "shape"
    let bshape := a.nats "bshape"
    let bimg := a.ints "bimg"
    let centre := bshape.map fun d => Int.ofNat (d / 2)
    let nb := ((allPos bshape).zip bimg).filterMap fun kb =>
      if kb.2 != 0 && kb.1 != centre then some (subPos kb.1 centre) else none
    let av := ((a.ints "marks").map (· != 0)).toArray
    let wit := a.ints "wit"
    let r := regScan shape nb (fun p _ => wit.getD (ravelI shape p) 0 != 0) (allPos shape) av
    some (s!"ok={b2s (pAllOk r.1 && r.2.1)} n={r.1.length} term={b2s r.2.1} sum={sI (r.1.map fun x => ravelZ shape x.pos)} " ++
          s!"left={cntTrue r.2.2}")
  | _ => none

end Mahotas.C10Flood
