/-
C10 (round 4) — index models: `_morph.cpp` flood/queue kernels (close_holes, regmin_max, locmin_max, distance_multi position_queue, subm, disk_2d, majority_filter) and the `_thin` full pass.
Import-free (linked into the driver). Protocol kinds are answered by `handleFlood` (`none` = not one of mine), which the
fallback arm of `Mahotas.C10.handle` consults.
-/
import Mahotas.Model.Basic
namespace Mahotas.C10Flood
open Mahotas

def handleFlood (a : Args) : Option String :=
  match a.str "kind" with
  | _ => none

end Mahotas.C10Flood
