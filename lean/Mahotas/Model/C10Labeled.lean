/-
C10 (round 4) — index models: `_labeled.cpp` (label union-find, borders, slic, is_same_labeling), `_center_of_mass` label path, `_bbox` labeled n-D path.
Import-free (linked into the driver). Protocol kinds are answered by `handleLabeled` (`none` = not one of mine), which the
fallback arm of `Mahotas.C10.handle` consults.
-/
import Mahotas.Model.Basic
namespace Mahotas.C10Labeled
open Mahotas

def handleLabeled (a : Args) : Option String :=
  match a.str "kind" with
  | _ => none

end Mahotas.C10Labeled
