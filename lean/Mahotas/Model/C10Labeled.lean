/-
C10 (round 4) — `_labeled.cpp: label`: every access of the union–find array (`data = labeled.data()`, which doubles as the
parent array) made by `find` / `compress` / `join` during the scan and the final compression, traced ALONGSIDE the very state
transitions `Mahotas.C03` is proved about (`C03.find`, `C03.join`, `C03.compress`, `C03.neighbours`, `C03.initParents`).
Import-free (linked into the driver). Protocol kinds are answered by `handleLabeled` (`none` = not one of mine).

  kind=labeluf shape=<ints> data=<ints flat> bshape=<ints> bc=<ints flat> [mode=<name>, default constant] [fuel=<nat>, default N+1]
      -> `ok= n= term= sum= parents=`: the indices `data[·]` dereferenced by every `find` (one read per call, one write per
         unwinding step) and by the root update of every `join`; `term` = no `find` recursion went deeper than the fuel;
         `parents` = the parent array after the compression loop (= `C03.parents`).
  kind=finduf par=<ints> i=<int> [fuel=<nat>, default size+1]
      -> `ok= n= term= sum=`: one `find(data, i)` on an arbitrary array (a cycle or an out-of-range parent shows as `term=0`/`ok=0`).
-/
import Mahotas.Model.Basic
import Mahotas.Model.C03
import Mahotas.Model.C10Slic
namespace Mahotas.C10Labeled
open Mahotas

/-- `int find(It data, int i) { if (data[i] == i) return i; int j = find(data, data[i]); data[i] = j; return j; }`:
    the indices dereferenced (the read `data[i]` of every call; the write `data[i] = j` of every call that recursed) and whether
    the recursion ended within `fuel` calls. A dereference outside the array ends the trace (the list then contains it). -/
def findAcc : Nat → Array Int → Int → List Int × Bool
  | 0, _, i => ([i], false)
  | f + 1, par, i =>
    if i < 0 ∨ (par.size : Int) ≤ i then ([i], true)
    else
      let p := par.getD i.toNat (-1)
      if p = i then ([i], true)
      else
        let r := findAcc f par p
        (i :: r.1 ++ [i], r.2)

/-- `join(data, i, j)`: `i = find(data, i); j = find(data, j); data[i] = j;` — the second `find` runs on the array the first one
    has compressed (`C03.find` is the state transition) -/
def joinAcc (fuel : Nat) (par : Array Int) (i v : Int) : List Int × Bool :=
  let a := findAcc fuel par i
  let r1 := C03.find fuel par i.toNat
  let b := findAcc fuel r1.1 v
  (a.1 ++ b.1 ++ [(r1.2 : Int)], a.2 && b.2)

/-- state of the trace: the parent array, the indices dereferenced so far, "every recursion ended" -/
abbrev Trace := Array Int × List Int × Bool

/-- the inner loop of the scan for a foreground pixel `i`: `if (retrieve(…, arr_val) && arr_val != -1) join(data, i, arr_val)` -/
def innerAcc (fuel : Nat) (i : Nat) (st : Trace) (nb : Nat) : Trace :=
  let v := st.1.getD nb (-1)
  if v = -1 then st
  else
    let a := joinAcc fuel st.1 (i : Int) v
    (C03.join fuel st.1 i v.toNat, st.2.1 ++ a.1, st.2.2 && a.2)

def scanPixelAcc (m : Mode) (shape : List Nat) (offs : List (List Int)) (fuel : Nat) (st : Trace) (i : Nat) : Trace :=
  if st.1.getD i (-1) = -1 then st
  else (C03.neighbours m shape offs (unravelI shape i)).foldl (innerAcc fuel i) st

/-- `for (i …) if (data[i] != -1) compress(data, i);` -/
def compressAcc (fuel : Nat) (st : Trace) (i : Nat) : Trace :=
  if st.1.getD i (-1) = -1 then st
  else
    let a := findAcc fuel st.1 (i : Int)
    (C03.compress fuel st.1 i, st.2.1 ++ a.1, st.2.2 && a.2)

/-- the whole union–find part of `label` (initialisation `data[i] = data[i] ? i : -1`, scan, compression) -/
def labelUF (m : Mode) (shape : List Nat) (data : List Int) (offs : List (List Int)) (fuel : Nat) : Trace :=
  let n := data.length
  let s1 := (List.range n).foldl (scanPixelAcc m shape offs fuel) (C03.initParents data, [], true)
  (List.range n).foldl (compressAcc fuel) s1

def sI (l : List Int) : Int := l.foldl (· + ·) 0
def b2s (b : Bool) : String := if b then "1" else "0"
def inRange (n : Nat) (l : List Int) : Bool := l.all fun x => decide (0 ≤ x) && decide (x < (n : Int))

def handleLabeled (a : Args) : Option String :=
  match a.str "kind" with
  | "labeluf" =>
    let shape := a.nats "shape"
    let data := a.ints "data"
    let m := if a.str "mode" == "nearest" then Mode.nearest else Mode.constant
    let offs := C03.offsets (a.nats "bshape") (a.ints "bc").toArray
    let r := labelUF m shape data offs (a.nat "fuel" (data.length + 1))
    some s!"ok={b2s (inRange data.length r.2.1 && r.2.2)} n={r.2.1.length} term={b2s r.2.2} sum={sI r.2.1} parents={showInts r.1.toList}"
  | "finduf" =>
    let par := (a.ints "par").toArray
    let r := findAcc (a.nat "fuel" (par.size + 1)) par (a.int "i")
    some s!"ok={b2s (inRange par.size r.1 && r.2)} n={r.1.length} term={b2s r.2} sum={sI r.1}"
  | _ => Mahotas.C10Slic.handleSlic a          -- the slic index model lives in its own file

end Mahotas.C10Labeled
