/-
C10 (round 3) — index models of five small kernels: `_histogram.histogram`, `_lbp.map`, `_bbox.bbox`
(the 2-D C-contiguous fast path with its skip-ahead, and the generic path), `_labeled.relabel` /
`_labeled.remove_regions` (the `std::binary_search` over the sorted `regions`), `_morph.distance_multi`.
As in `Model/C10.lean` every definition enumerates the indices the loops of the real C++ dereference,
each paired with the number of valid indices of the buffer it is applied to; the theorems at the end of
`Properties/C10.lean` show that they are in range on the documented domain. Import-free (linked into the driver).

Protocol (`c10 kind=<k> …`, dispatched from `Mahotas.C10.handle` for the kinds below):

  kind=histogram vals=<ints> [type=<numpy type number>, default 6 = NPY_UINT] [guard=<0|1>, default 1]
                 [hsize=<int>, default: the wrapper's `int(img.max()) + 1`]
      -> `ok= n= term= sum= rejected= hsize= hist=`; `compute_histogram`: `data[i]`, `histogram[data[i]]`.
         `rejected=1`: the type switch of `py_histogram` does not admit the dtype (no access); `guard=0` removes
         that switch (what would happen if a signed dtype were let through). `hist` = the bin counts.
  kind=lbpmap    points= codes=<ints>
      -> `ok= n= term= sum= map=`; `py_map`: `data[i]`, for every rotation the shift count `points-1` against the
         word size 32, and the mapped code against the `2^points` entries of the pivot table of `lbp.py`.
  kind=bboxfast  n0= n1= img=<0/1 flat, C order> [e3=<int>, default 0: the initial `extrema[3]`]
      -> `ok= n= term= sum= ext=`; `carray2_bbox` incl. the skip-ahead; `ext` = the four extrema returned.
  kind=bboxgen   shape=<ints> img=<0/1 flat>
      -> `ok= n= term= sum= ext=`; generic `bbox`: `where[j]`, `extrema[2j]`, `extrema[2j+1]`.
  kind=removeregions regions=<ints> labeled=<ints>
      -> `ok= n= term= sum= out=`; `remove_regions`: `data[i]`, every `*middle` of `std::lower_bound`, `*i` of
         `std::binary_search`; `out` = the labels afterwards.
  kind=relabel   labeled=<ints>
      -> `ok= n= term= sum= out= count=`; `relabel`: `data[i]`; `out` = the new labels, `count` = returned number.
  kind=distmulti shape=<ints> img=<0/1 flat> res=<ints flat> bshape=<ints> bimg=<0/1 flat> [guard=<0|1>] [fuel=<n>]
      -> `ok= n= term= sum= nbok= out=`; `distance_multi`: `nbok=0` when `neighbours_delta` reads `rs[0]` of an
         empty vector (nothing else is run then); `guard=0` removes `validposition`; `sum` = Σ of the C-order flat
         indices of the dereferenced positions (`ravelZ`), `out` = the distances afterwards.
-/
import Mahotas.Model.Basic
namespace Mahotas.C10Misc
open Mahotas

/-! ## accesses -/

/-- one dereference: index `i` applied to a buffer (or an axis) whose valid indices are `0 … size-1` -/
structure MAcc where
  i : Int
  size : Int
deriving Repr, DecidableEq

def MAcc.ok (a : MAcc) : Bool := decide (0 ≤ a.i) && decide (a.i < a.size)

def allOk (l : List MAcc) : Bool := l.all MAcc.ok

/-- `for (i = 0; i != n; ++i)` for a size `n ≥ 0` -/
def rangeI (n : Int) : List Int := (List.range n.toNat).map Int.ofNat

/-- one dereference of an n-D array through a `numpy::position` (`array.at(pos)`, `res.data(pos)` =
    `PyArray_GetPtr(array, pos.position_)`): valid iff the position is inside the box -/
structure PAcc where
  pos : List Int
  shape : List Nat
deriving Repr, DecidableEq

def PAcc.ok (a : PAcc) : Bool := inside a.shape a.pos

/-! ## 1 — `_histogram.cpp: compute_histogram` behind `histogram.py: fullhistogram` -/

/-- the `switch (PyArray_TYPE(array))` of `py_histogram`: the numpy type numbers it admits (NPY_UBYTE, NPY_USHORT,
    NPY_UINT, NPY_ULONG, NPY_ULONGLONG) with the value range of the C type (LP64); everything else is
    `RuntimeError("Cannot handle type.")` before any access. -/
def histTypeRange : Nat → Option (Int × Int)
  | 2 => some (0, 255)
  | 4 => some (0, 65535)
  | 6 => some (0, 4294967295)
  | 8 => some (0, 18446744073709551615)
  | 10 => some (0, 18446744073709551615)
  | _ => none

/-- `np.zeros(int(img.max()) + 1, np.uintc)`: the number of bins `fullhistogram` allocates
    (`max()` of an empty array raises: `none`) -/
def histWrapperSize : List Int → Option Int
  | [] => none
  | v :: vs => some (vs.foldl max v + 1)

/-- `for (int i = 0; i != N; ++i) { ++histogram[*data]; ++data; }`: `data[i]` against `N`, `histogram[v]` against
    the number of bins; `vals` are the (mathematical) values of the elements. -/
def histAccesses (vals : List Int) (hsize : Int) : List MAcc :=
  vals.zipIdx.flatMap fun vi => [MAcc.mk (vi.2 : Int) (vals.length : Int), MAcc.mk vi.1 hsize]

def histCounts (vals : List Int) (hsize : Int) : List Nat :=
  (rangeI hsize).map fun b => vals.count b

/-! ## 2 — `features/_lbp.cpp: roll_right, map, py_map` behind `features/lbp.py` -/

/-- truncation to `npy_uint32` -/
def u32 (x : Nat) : Nat := x % 4294967296

/-- `roll_right(v, points) = (v >> 1) | ((v & 1) << (points-1))` in `npy_uint32` arithmetic. A shift count outside
    `[0, 32)` is undefined in C; the model then takes the count modulo 32 (what x86 does) — such a count is
    recorded as a failing access by `lbpAccesses`. -/
def rollRight32 (points : Int) (v : Nat) : Nat :=
  u32 ((v >>> 1) ||| u32 ((v &&& 1) <<< ((points - 1) % 32).toNat))

/-- `for (int i = 0; i != points; ++i) { v = roll_right(v, points); if (v < min) min = v; }` -/
def lbpMapLoop (points : Int) : Nat → Nat → Nat → Nat
  | 0, _, mn => mn
  | f + 1, v, mn =>
    let v' := rollRight32 points v
    lbpMapLoop points f v' (if v' < mn then v' else mn)

/-- `map(v, points)` -/
def lbpMap32 (points : Int) (v : Nat) : Nat := lbpMapLoop points points.toNat v v

/-- `py_map` on the codes `codes` (an `npy_uint32` array): per element `data[i]` (read), one shift by `points-1`
    per rotation — recorded as an index against the word size 32 —, `data[i]` (write), and the mapped code
    against the `2^points` entries of `pivots` / the codes table `np.arange(2**points)` of `lbp.py`
    (`final[pivots[:len(final)]]` needs `len(final) = max code + 1 ≤ 2^points`). -/
def lbpAccesses (points : Int) (codes : List Nat) : List MAcc :=
  codes.zipIdx.flatMap fun vi =>
    [MAcc.mk (vi.2 : Int) (codes.length : Int)] ++
    (rangeI points).map (fun _ => MAcc.mk (points - 1) 32) ++
    [MAcc.mk (vi.2 : Int) (codes.length : Int), MAcc.mk (lbpMap32 points vi.1 : Int) ((2 ^ points.toNat : Nat) : Int)]

/-- the `i != points` loop leaves through its test iff `points ≥ 0` -/
def lbpDone (points : Int) : Bool := decide (0 ≤ points)

/-! ## 3 — `_bbox.cpp: carray2_bbox` (2-D C-contiguous fast path) and `bbox` (generic) -/

/-- `extrema[0..3] = [min_0, max_0, min_1, max_1]` -/
structure Ext4 where
  e0 : Int
  e1 : Int
  e2 : Int
  e3 : Int
deriving Repr, DecidableEq

/-- the inner loop `for (int x = 0; x < N1; ++x, ++array)` of row `y`, from the state `(x, ptr, extrema)`;
    `ptr` is the offset of the running pointer `array` from the start of the buffer of `size` elements and `px`
    the truth value of the element it points at. Per iteration: `*array` (`ptr` against `size`; the column `x`
    against `N1`), and for a set pixel `extrema[0..3]` and
    `if (x+1 < extrema[3]) { step = extrema[3]-x-1; x += step; array += step; } else extrema[3] = x+1;`.
    Returns the accesses, the final pointer offset, the extrema and whether the loop left through its test
    within the budget. -/
def bfRow (px : Int → Bool) (size n1 y : Int) : Nat → Int → Int → Ext4 → List MAcc × Int × Ext4 × Bool
  | 0, x, ptr, e => ([], ptr, e, decide (¬ x < n1))
  | f + 1, x, ptr, e =>
    if x < n1 then
      let here := [MAcc.mk ptr size, MAcc.mk x n1]
      if px ptr then
        let e' : Ext4 := ⟨min e.e0 y, max e.e1 (y + 1), min e.e2 x, e.e3⟩
        let ex := [MAcc.mk 0 4, MAcc.mk 1 4, MAcc.mk 2 4, MAcc.mk 3 4]
        if x + 1 < e.e3 then
          let step := e.e3 - x - 1
          let r := bfRow px size n1 y f (x + step + 1) (ptr + step + 1) e'
          (here ++ ex ++ r.1, r.2)
        else
          let r := bfRow px size n1 y f (x + 1) (ptr + 1) ⟨e'.e0, e'.e1, e'.e2, x + 1⟩
          (here ++ ex ++ r.1, r.2)
      else
        let r := bfRow px size n1 y f (x + 1) (ptr + 1) e
        (here ++ r.1, r.2)
    else ([], ptr, e, true)

/-- `cnt` rounds of `for (int y = 0; y != N0; ++y)` from `(y, ptr, extrema)` -/
def bfRows (px : Int → Bool) (size n1 : Int) : Nat → Int → Int → Ext4 → List MAcc × Ext4 × Bool
  | 0, _, _, e => ([], e, true)
  | c + 1, y, ptr, e =>
    let r := bfRow px size n1 y (n1.toNat + 1) 0 ptr e
    let rest := bfRows px size n1 c (y + 1) r.2.1 r.2.2.1
    (r.1 ++ rest.1, rest.2.1, r.2.2.2 && rest.2.2)

/-- `py_bbox` on a C-contiguous `n0 × n1` array: `extrema = [N0, 0, N1, 0]` (`e3` = the initial `extrema[3]`, 0 in
    the code), `carray2_bbox`, then `if (extrema_v[1] == 0) PyArray_FILLWBYTE(extrema, 0)`. -/
def bboxFast (px : Int → Bool) (n0 n1 : Nat) (e3 : Int := 0) : List MAcc × Ext4 × Bool :=
  let r := bfRows px ((n0 : Int) * (n1 : Int)) n1 n0 0 0 ⟨n0, 0, n1, e3⟩
  (r.1, if r.2.1.e1 = 0 then ⟨0, 0, 0, 0⟩ else r.2.1, r.2.2)

/-- generic `bbox` at a set element: `where[j]`, `extrema[2*j]`, `extrema[2*j+1]`, `j != ndims` -/
def bboxGenAt (nd : Int) : List MAcc :=
  (rangeI nd).flatMap fun j => [MAcc.mk j nd, MAcc.mk (2 * j) (2 * nd), MAcc.mk (2 * j + 1) (2 * nd)]

/-- `extrema[2*j] = min(extrema[2*j], where[j]); extrema[2*j+1] = max(extrema[2*j+1], where[j]+1)` -/
def updExt : List Int → List Int → List Int
  | mn :: mx :: rest, w :: ws => min mn w :: max mx (w + 1) :: updExt rest ws
  | _, _ => []

/-- `py_bbox`, generic path: the initialisation `extrema_v[2*j] = dim(j); extrema_v[2*j+1] = 0` (`j != nd`), the
    scan with the array iterator, the final zero fill when nothing is set. -/
def bboxGen (shape : List Nat) (img : List Bool) : List MAcc × List Int :=
  let nd : Int := shape.length
  let accs := bboxGenAt nd ++ img.zipIdx.flatMap fun bi => if bi.1 then bboxGenAt nd else []
  let ext := (img.zipIdx.filter (·.1)).foldl (fun e bi => updExt e (unravelI shape bi.2))
    (shape.flatMap fun (d : Nat) => [(d : Int), (0 : Int)])
  (accs, if ext.getD 1 0 = 0 then ext.map (fun _ => 0) else ext)

/-! ## 4 — `_labeled.cpp: remove_regions` (`std::binary_search`), `relabel` -/

/-- `std::lower_bound(first, first + len, val)` (libstdc++ `__lower_bound`) on a buffer of `size` elements:
    `while (len > 0) { half = len >> 1; middle = first + half; if (*middle < val) { first = middle + 1;
    len = len - half - 1; } else len = half; } return first;` — `lt m` abstracts the comparison `*middle < val` at
    index `m` (no assumption: the array need not be sorted for the indices to be in range).
    Returns the accesses, the returned index and whether the loop ended within the budget. -/
def lowerBound (lt : Int → Bool) (size : Int) : Nat → Int → Int → List MAcc × Int × Bool
  | 0, first, len => ([], first, decide (¬ len > 0))
  | f + 1, first, len =>
    if len > 0 then
      let half := len / 2
      let mid := first + half
      if lt mid then
        let r := lowerBound lt size f (mid + 1) (len - half - 1)
        (MAcc.mk mid size :: r.1, r.2)
      else
        let r := lowerBound lt size f first half
        (MAcc.mk mid size :: r.1, r.2)
    else ([], first, true)

/-- `std::binary_search(r_start, r_end, val)`: `i = lower_bound(..); return i != last && !(val < *i);` -/
def binarySearch (regions : List Int) (val : Int) : List MAcc × Bool × Bool :=
  let n : Int := regions.length
  let r := lowerBound (fun m => decide (regions.getD m.toNat 0 < val)) n (regions.length + 1) 0 n
  if r.2.1 ≠ n then (r.1 ++ [MAcc.mk r.2.1 n], !decide (val < regions.getD r.2.1.toNat 0), r.2.2)
  else (r.1, false, r.2.2)

/-- `for (i = 0; i != N; ++i) if (data[i] && std::binary_search(r_start, r_end, data[i])) data[i] = 0;` -/
def removeRegions (regions labeled : List Int) : List MAcc × List Int × Bool :=
  let N : Int := labeled.length
  let rs := labeled.zipIdx.map fun vi =>
    if vi.1 ≠ 0 then
      let b := binarySearch regions vi.1
      ([MAcc.mk (vi.2 : Int) N] ++ b.1 ++ (if b.2.1 then [MAcc.mk (vi.2 : Int) N] else []),
        (if b.2.1 then 0 else vi.1), b.2.2)
    else ([MAcc.mk (vi.2 : Int) N], vi.1, true)
  (rs.flatMap (·.1), rs.map (·.2.1), rs.all (·.2.2))

/-- `seen.find(val)` on the `std::map<int,int>` kept as an association list -/
def seenFind (v : Int) : List (Int × Int) → Option Int
  | [] => none
  | kw :: t => if kw.1 = v then some kw.2 else seenFind v t

/-- `relabel`: `seen[0] = 0; next = 1; for i: where = seen.find(data[i]); if (where == end) { data[i] = next;
    seen[val] = next; ++next; } else data[i] = where->second;` — returns the new labels and the final `next`. -/
def relabelLoop : List Int → List (Int × Int) → Int → List Int × Int
  | [], _, next => ([], next)
  | v :: rest, seen, next =>
    match seenFind v seen with
    | some w => let r := relabelLoop rest seen next; (w :: r.1, r.2)
    | none => let r := relabelLoop rest ((v, next) :: seen) (next + 1); (next :: r.1, r.2)

/-- accesses `data[i]` (read, write), the relabelled array and the returned `next - 1` -/
def relabel (labeled : List Int) : List MAcc × List Int × Int :=
  let r := relabelLoop labeled [(0, 0)] 1
  ((rangeI labeled.length).flatMap fun i => [MAcc.mk i labeled.length, MAcc.mk i labeled.length], r.1, r.2 - 1)

/-! ## 5 — `_morph.cpp: distance_multi` (`neighbours`, `neighbours_delta`, `validposition`) -/

/-- `array.validposition(pos)`: `if (ndims() != pos.nd_) return false; for i: if (pos[i] < 0 || pos[i] >= dim(i))
    return false; return true;` -/
def validLoop : List Nat → List Int → Bool
  | d :: ds, p :: ps => if p < 0 ∨ p ≥ (d : Int) then false else validLoop ds ps
  | _, _ => true

def validPosition (shape : List Nat) (pos : List Int) : Bool :=
  if shape.length ≠ pos.length then false else validLoop shape pos

/-- `a += b` on `numpy::position`: `for (i = 0; i != a.nd_; ++i) a.position_[i] += b.position_[i]` — the rank of
    `a` is kept. (When `b` has fewer components the C++ adds uninitialised entries of `b.position_`; the model
    adds 0 — the bounds theorem is quantified over ALL delta lists, so it covers whatever those entries hold.) -/
def posAdd : List Int → List Int → List Int
  | a :: as, b :: bs => (a + b) :: posAdd as bs
  | as, [] => as
  | [], _ => []

/-- `compute_euc2_dist` (integer valued, exact in `double` below 2^53) -/
def euc2 : List Int → List Int → Int
  | a :: as, b :: bs => (a - b) * (a - b) + euc2 as bs
  | _, _ => 0

/-- `neighbours(Bc)`: for every set element of `Bc` other than the centre `dims/2` its offset from the centre -/
def neighbours (bshape : List Nat) (bimg : List Bool) : List (List Int) :=
  ((List.range (shapeSize bshape)).filter fun i =>
      bimg.getD i false && (unravelI bshape i != centreOf bshape)).map fun i =>
    subPos (unravelI bshape i) (centreOf bshape)

def nbDeltaLoop : List (List Int) → List Int → List (List Int)
  | [], _ => []
  | r :: rs, acc => subPos r acc :: nbDeltaLoop rs (addPos acc (subPos r acc))

/-- `neighbours_delta`: `accumulated = rs[0]` — UNCONDITIONALLY: the access `rs[0]` against `rs.size()` —,
    `for (i = 1; i < rs.size(); ++i) { rs[i] -= accumulated; accumulated += rs[i]; }`. -/
def neighboursDelta (rs : List (List Int)) : List MAcc × List (List Int) :=
  (MAcc.mk 0 rs.length :: (rangeI ((rs.length : Int) - 1)).map (fun i => MAcc.mk (i + 1) rs.length),
   match rs with
   | [] => []
   | r0 :: rest => r0 :: nbDeltaLoop rest r0)

/-- queue entry: `(cur_q, orig_q, dist_q)` -/
abbrev DmEntry := List Int × List Int × Int

/-- the loop `for (j = 0; j != N2; ++j) { next += Bcs[j]; … }` of both phases from the position `next`;
    `first = true`: `if (array.validposition(next) && array.at(next))`, `first = false`: `if (array.validposition(next))`;
    then `rpos = res.data(next); if (*rpos > dist) { *rpos = dist; push }`. `guard = false` removes `validposition`.
    Returns the dereferenced positions, the distances and the pushed entries. -/
def dmScan (guard first : Bool) (shape : List Nat) (img : List Bool) (orig : List Int) :
    List (List Int) → List Int → List Int → List PAcc × List Int × List DmEntry
  | [], _, res => ([], res, [])
  | d :: ds, nxt, res =>
    let next := posAdd nxt d
    if !guard || validPosition shape next then
      let k := ravelI shape next
      let a1 := if first then [PAcc.mk next shape] else []
      if !first || img.getD k false then
        let dist := euc2 next orig
        if res.getD k 0 > dist then
          let r := dmScan guard first shape img orig ds next (res.set k dist)
          (a1 ++ [PAcc.mk next shape, PAcc.mk next shape] ++ r.1, r.2.1, (next, orig, dist) :: r.2.2)
        else
          let r := dmScan guard first shape img orig ds next res
          (a1 ++ [PAcc.mk next shape] ++ r.1, r.2)
      else
        let r := dmScan guard first shape img orig ds next res
        (a1 ++ r.1, r.2)
    else dmScan guard first shape img orig ds next res

/-- the first phase over the flat indices `is` (scan order): `*aiter`; for a background pixel `*riter = 0` and
    the neighbour loop from `p = aiter.position()` -/
def dmFirst (guard : Bool) (shape : List Nat) (img : List Bool) (deltas : List (List Int)) :
    List Nat → List Int → List PAcc × List Int × List DmEntry
  | [], res => ([], res, [])
  | i :: is, res =>
    let p := unravelI shape i
    if !(img.getD i false) then
      let s := dmScan guard true shape img p deltas p (res.set i 0)
      let r := dmFirst guard shape img deltas is s.2.1
      (PAcc.mk p shape :: PAcc.mk p shape :: s.1 ++ r.1, r.2.1, s.2.2 ++ r.2.2)
    else
      let r := dmFirst guard shape img deltas is res
      (PAcc.mk p shape :: r.1, r.2)

/-- the second phase with a step budget: `next = cur_q.top_pop(); … if (res.at(next) < dist) continue;` — this
    `res.at(next)` is NOT preceded by `validposition` — then the neighbour loop. The Boolean says whether the queue
    ran empty within the budget. -/
def dmSecond (guard : Bool) (shape : List Nat) (img : List Bool) (deltas : List (List Int)) :
    Nat → List DmEntry → List Int → List PAcc × List Int × Bool
  | 0, q, res => ([], res, q.isEmpty)
  | _ + 1, [], res => ([], res, true)
  | f + 1, (cur, orig, dist) :: q, res =>
    if res.getD (ravelI shape cur) 0 < dist then
      let r := dmSecond guard shape img deltas f q res
      (PAcc.mk cur shape :: r.1, r.2)
    else
      let s := dmScan guard false shape img orig deltas cur res
      let r := dmSecond guard shape img deltas f (q ++ s.2.2) s.2.1
      (PAcc.mk cur shape :: s.1 ++ r.1, r.2)

/-- `distance_multi` after `neighbours_delta`: both phases -/
def dmRun (guard : Bool) (shape : List Nat) (img : List Bool) (res : List Int) (deltas : List (List Int))
    (fuel : Nat) : List PAcc × List Int × Bool :=
  let a := dmFirst guard shape img deltas (List.range (shapeSize shape)) res
  let b := dmSecond guard shape img deltas fuel a.2.2 a.2.1
  (a.1 ++ b.1, b.2)

/-! ## protocol -/

def b2s (b : Bool) : String := if b then "1" else "0"

def report (l : List MAcc) (term : Bool := true) : String :=
  s!"ok={b2s (allOk l && term)} n={l.length} term={b2s term} sum={(l.map (·.i)).foldl (· + ·) 0}"

/-- signed C-order flat index of a position (any rank; missing axes count 0) -/
def flatZ : List Nat → List Int → Int
  | _ :: ds, p :: ps => p * (shapeSize ds : Int) + flatZ ds ps
  | _, _ => 0

def showExt (e : Ext4) : String := showInts [e.e0, e.e1, e.e2, e.e3]

/-- lists are printed as `-` when empty -/
def sI (xs : List Int) : String := if xs.isEmpty then "-" else showInts xs
def sN (xs : List Nat) : String := if xs.isEmpty then "-" else showNats xs

/-- `none` = not a kind of this file -/
def handleMisc (a : Args) : Option String :=
  match a.str "kind" with
  | "histogram" =>
    let vals := a.ints "vals"
    let guard := a.int "guard" 1 ≠ 0
    if guard && (histTypeRange (a.nat "type" 6)).isNone then
      some (report [] ++ " rejected=1 hsize=- hist=-")
    else
      match (if a.has "hsize" then some (a.int "hsize") else histWrapperSize vals) with
      | none => some "error=empty-array"
      | some s =>
        some (report (histAccesses vals s) ++ s!" rejected=0 hsize={s} hist={sN (histCounts vals s)}")
  | "lbpmap" =>
    let p := a.int "points"
    let codes := a.nats "codes"
    some (report (lbpAccesses p codes) (lbpDone p) ++ s!" map={sN (codes.map (lbpMap32 p))}")
  | "bboxfast" =>
    let img := a.ints "img"
    let r := bboxFast (fun k => img.getD k.toNat 0 != 0) (a.nat "n0") (a.nat "n1") (a.int "e3")
    some (report r.1 r.2.2 ++ s!" ext={showExt r.2.1}")
  | "bboxgen" =>
    let r := bboxGen (a.nats "shape") ((a.ints "img").map (· != 0))
    some (report r.1 ++ s!" ext={sI r.2}")
  | "removeregions" =>
    let r := removeRegions (a.ints "regions") (a.ints "labeled")
    some (report r.1 r.2.2 ++ s!" out={sI r.2.1}")
  | "relabel" =>
    let r := relabel (a.ints "labeled")
    some (report r.1 ++ s!" out={sI r.2.1} count={r.2.2}")
  | "distmulti" =>
    let shape := a.nats "shape"
    let nb := neighboursDelta (neighbours (a.nats "bshape") ((a.ints "bimg").map (· != 0)))
    if !allOk nb.1 then some (s!"ok=0 n={nb.1.length} term=1 sum=0 nbok=0 out=-")
    else
      let r := dmRun (a.int "guard" 1 ≠ 0) shape ((a.ints "img").map (· != 0)) (a.ints "res") nb.2
        (a.nat "fuel" 1000000)
      let ok := r.1.all PAcc.ok && r.2.2
      some (s!"ok={b2s ok} n={r.1.length} term={b2s r.2.2} " ++
        s!"sum={(r.1.map fun p => flatZ p.shape p.pos).foldl (· + ·) 0} nbok=1 out={sI r.2.1}")
  | _ => none

end Mahotas.C10Misc
