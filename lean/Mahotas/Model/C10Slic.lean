/-
C10 (round 4) — `_labeled.cpp: slic`: the index arithmetic that keeps the kernel inside its buffers.
  * the seeds are `C11.seeds S N` per axis (`for (y = S/2; y < Ny; y += S)`), `K` = number of centroids;
  * the assignment windows `[max(0, cy - 2S), min(Ny, cy + 2S)) × [max(0, cx - 2S), min(Nx, cx + 2S))` around a centroid at the
    (truncated) position `(cy, cx)`: `pos = y*Nx + x` indexes `distance`, `nlabels`, and `array.at(y, x, ·)`; the loops are
    `for (y = start_y; y != end_y; ++y)`: they only end when `start ≤ end`;
  * COVERAGE: in the first iteration the windows of the seeds cover every pixel, so every `nlabels[pos]` is overwritten with a
    centroid index before `labels[p] = nlabels[p]` (afterwards `nlabels` is never reset: a label stays in `[0, K)`); this is
    what makes `centroid_counts[labels[pos]]`, `centroids[labels[pos]]`, `centroids[alabels.at(y,x)]` valid — with no seed
    (the defect repaired by dbab495) or a pixel outside all windows the label `-1` would be used as an index;
  * the post-pass `j = cy*Nx + cx` for a centroid inside the image.
Floating point: centroid coordinates are means of pixel coordinates, hence inside `[0, Ny-1] × [0, Nx-1]`; `int(max(0.f, c.y - 2*S))`
= `max(0, ⌊c.y⌋ - 2S)` and `int(min(Ny, c.y + 2*S))` = `min(Ny, ⌊c.y⌋ + 2S)` because `2S` is an integer: the model takes `⌊c.y⌋`,
`⌊c.x⌋` as ARBITRARY integers inside the image. Assumed (documented domain): finite pixel values with `D2 < 10e20`, so that the
first candidate of a pixel wins against the initial distance.
Import-free (linked into the driver).

  kind=slicwin ny= nx= s= cy= cx=     -> `ok= n= term= sum= lo= hi=` one assignment window (`term=0`: `start > end`, the `!=` loop runs away)
  kind=sliccover ny= nx= s=           -> `ok= n= term=1 sum= k= covered=`: the windows of all seeds; `covered=1` iff every pixel is in one
-/
import Mahotas.Model.Basic
import Mahotas.Model.C11
namespace Mahotas.C10Slic
open Mahotas

/-- `start = int(std::max<float>(0.0, c - 2*S))` -/
def winLo (c S : Int) : Int := max 0 (c - 2 * S)
/-- `end = int(std::min<float>(N, c + 2*S))` -/
def winHi (n c S : Int) : Int := min n (c + 2 * S)

/-- `for (v = lo; v != hi; ++v)` as a list; `none` when `lo > hi` (the loop does not end) -/
def neRange (lo hi : Int) : Option (List Int) :=
  if lo ≤ hi then some ((List.range (hi - lo).toNat).map fun k => lo + Int.ofNat k) else none

/-- the `pos = y*Nx + x` of one window (index into `distance`/`nlabels`, `N = Ny*Nx` cells; `array.at(y,x,c)` is cell `3*pos + c`) -/
def windowPositions (ny nx S cy cx : Int) : Option (List Int) :=
  match neRange (winLo cy S) (winHi ny cy S), neRange (winLo cx S) (winHi nx cx S) with
  | some ys, some xs => some (ys.flatMap fun y => xs.map fun x => y * nx + x)
  | _, _ => none

/-- the centroids of the seeding loops, in order: `(y, x)` for `y` in `seeds S Ny`, `x` in `seeds S Nx` -/
def seedCentroids (S ny nx : Nat) : List (Nat × Nat) :=
  (C11.seeds S ny).flatMap fun y => (C11.seeds S nx).map fun x => (y, x)

/-- is pixel `(y, x)` inside the window of the centroid `(cy, cx)`? -/
def inWindow (ny nx S : Int) (c : Nat × Nat) (y x : Int) : Bool :=
  decide (winLo c.1 S ≤ y) && decide (y < winHi ny c.1 S) && decide (winLo c.2 S ≤ x) && decide (x < winHi nx c.2 S)

/-- first iteration: every pixel lies in the window of some seed -/
def covered (S ny nx : Nat) : Bool :=
  (List.range ny).all fun y => (List.range nx).all fun x =>
    (seedCentroids S ny nx).any fun c => inWindow ny nx S c y x

def sI (l : List Int) : Int := l.foldl (· + ·) 0
def b2s (b : Bool) : String := if b then "1" else "0"
def inN (n : Int) (l : List Int) : Bool := l.all fun p => decide (0 ≤ p) && decide (p < n)

def handleSlic (a : Args) : Option String :=
  match a.str "kind" with
  | "slicwin" =>
    let ny := a.int "ny"; let nx := a.int "nx"; let s := a.int "s"; let cy := a.int "cy"; let cx := a.int "cx"
    match windowPositions ny nx s cy cx with
    | some l => some s!"ok={b2s (inN (ny * nx) l)} n={l.length} term=1 sum={sI l} lo={winLo cy s},{winLo cx s} hi={winHi ny cy s},{winHi nx cx s}"
    | none => some s!"ok=0 n=0 term=0 sum=0 lo={winLo cy s},{winLo cx s} hi={winHi ny cy s},{winHi nx cx s}"
  | "sliccover" =>
    let ny := a.nat "ny"; let nx := a.nat "nx"; let s := a.nat "s"
    let cs := seedCentroids s ny nx
    let ws := cs.map fun c => windowPositions ny nx s c.1 c.2
    let all := ws.flatMap fun w => w.getD []
    some s!"ok={b2s (inN (ny * nx : Nat) all && ws.all Option.isSome)} n={all.length} term={b2s (ws.all Option.isSome)} sum={sI all} k={cs.length} covered={b2s (covered s ny nx)}"
  | _ => none

end Mahotas.C10Slic
