/-
C10 / B9 — the SURF loops of `mahotas/features/_surf.cpp` as index models (import-free; linked into the driver).

Every definition enumerates, for concrete parameters, the coordinates the named C++ loop passes to
`integral.at(r,c)` / `pyr[o].at(i,r,c)`, each paired with the length of the axis it indexes (`SAcc`).
The theorems at the end of `Properties/C10.lean` ("Round 3 — B9 SURF") are about these very definitions.

Protocol (`c10 kind=<k> …`, answered by `handleSurf`; `Model/C10.lean` offers every kind it does not know itself):

  kind=sumrect n0= n1= y0= x0= y1= x1=
      -> `ok= n= term= sum=`; the four reads of `sum_rect` (the entry point `_surf.sum_rect`: the decrements `y0-1`, …
         are taken in 32-bit two's complement as the build's `-fno-strict-overflow` does).
  kind=csumrect n0= n1= y= x= dy= dx= h= w=
      -> the same for `csum_rect`.
  kind=surfhaar n0= n1= y= x= w=
      -> `ok= n= term= sum=`; `haar_x(integral, y, x, w)` followed by `haar_y(integral, y, x, w)` (16 reads).
  kind=surfpyramid n0= n1= noct= nint= init= [noguard=<0|1>, default 0]
      -> `guard=<0|1> ok= n= term= sum= dims=<d1,d2 per octave> wsum=<sum of the written pyramid coordinates>
         imax= imin=` (largest / smallest of the `int`s of `pyramidInts` over all octaves and intervals, folded from 0 / 1);
         `build_pyramid` behind `check_pyramid_parameters` (guard=0: the entry point raises ValueError, nothing is
         accessed: `n=0`); `noguard=1` evaluates the loops regardless (a step of 0 shows as `term=0`).
  kind=ipscan nint= nr= nc= bs=
      -> `ok= n= term= sum=`; one octave of `get_interest_points` (plane count `nint`, plane size `nr x nc`,
         `bs = get_border_size(o, nint)`), every block element taken as candidate maximum
         (`is_maximum_in_region` + `interpolate_point` reads).
  kind=surfdesc
      -> `ok= n= term= sum=`; the indices `des[count++]` of `compute_surf_descriptor` against 64.
  kind=descsample n0= n1= cy= cx= s= sn= cs= x= y=   (each of cy,cx,s,sn,cs a pair `num,den`)
      -> `guard=<0|1> py= px= w= ok= n= term= sum=`; the border test of `compute_descriptors` and ONE sample position
         of `compute_surf_descriptor` (grid point `(x,y)`, rotation `(sn,cs)`), both in exact rational arithmetic
         instead of doubles, followed by `haar_x`/`haar_y` at `(int(p.y), int(p.x), int(2*s+.5))`.
-/
import Mahotas.Model.Basic
namespace Mahotas.C10Surf
open Mahotas

/-! ## accesses -/

/-- one coordinate of an `at(…)` call: index `i` against an axis with valid indices `0 … size-1` -/
structure SAcc where
  i : Int
  size : Int
deriving Repr, DecidableEq

def SAcc.ok (a : SAcc) : Bool := decide (0 ≤ a.i) && decide (a.i < a.size)

def sAllOk (l : List SAcc) : Bool := l.all SAcc.ok

/-- `for (i = 0; i < n; ++i)` -/
def sRangeI (n : Int) : List Int := (List.range n.toNat).map Int.ofNat

/-- `for (v = lo; v < hi; v += step)`; `step ≥ 1` (for `step ≤ 0` the C loop does not terminate: the models report
    `term=0` and enumerate nothing). -/
def sRangeStep (lo hi step : Int) : List Int :=
  if step ≤ 0 then [] else
  (List.range ((hi - lo + step - 1) / step).toNat).map fun (k : Nat) => lo + step * (k : Int)

/-- `integral.at(r, c)` on an `n0 x n1` array -/
def at2 (n0 n1 r c : Int) : List SAcc := [⟨r, n0⟩, ⟨c, n1⟩]

/-- `pyr[o].at(i, r, c)` on an `nint x nr x nc` array -/
def at3 (nint nr nc i r c : Int) : List SAcc := [⟨i, nint⟩, ⟨r, nr⟩, ⟨c, nc⟩]

/-! ## `sum_rect`, `csum_rect`, `haar_x`, `haar_y` -/

/-- `sum_rect(integral, y0, x0, y1, x1)` as repaired by 6faa5ae:
    `if (N0 <= 0 || N1 <= 0) return 0.;` then ALL FOUR corners are clamped into the image,
    `y0 = min(max(y0-1, 0), N0-1); x0 = min(max(x0-1, 0), N1-1); y1 = min(max(y1-1, 0), N0-1); x1 = min(max(x1-1, 0), N1-1);`
    then `A = at(y0,x0); B = at(y0,x1); C = at(y1,x0); D = at(y1,x1)`. -/
def sumRectAccesses (n0 n1 y0 x0 y1 x1 : Int) : List SAcc :=
  if n0 ≤ 0 ∨ n1 ≤ 0 then [] else
  let a := min (max (y0 - 1) 0) (n0 - 1)
  let b := min (max (x0 - 1) 0) (n1 - 1)
  let c := min (max (y1 - 1) 0) (n0 - 1)
  let d := min (max (x1 - 1) 0) (n1 - 1)
  at2 n0 n1 a b ++ at2 n0 n1 a d ++ at2 n0 n1 c b ++ at2 n0 n1 c d

/-- the clamps of the PINNED tree (before 6faa5ae), kept only to state what was wrong with them: one-sided,
    `y0 = max(y0-1, 0); x0 = max(x0-1, 0); y1 = min(y1-1, N0-1); x1 = min(x1-1, N1-1);` and no test for an empty image.
    Not reachable from the driver; the current code is `sumRectAccesses`. -/
def sumRectPinnedAccesses (n0 n1 y0 x0 y1 x1 : Int) : List SAcc :=
  let a := max (y0 - 1) 0
  let b := max (x0 - 1) 0
  let c := min (y1 - 1) (n0 - 1)
  let d := min (x1 - 1) (n1 - 1)
  at2 n0 n1 a b ++ at2 n0 n1 a d ++ at2 n0 n1 c b ++ at2 n0 n1 c d

/-- `haar_x` followed by `haar_y` over the PINNED `sum_rect` (see `sumRectPinnedAccesses`) -/
def haarPinnedAccesses (n0 n1 y x w : Int) : List SAcc :=
  let h := Int.tdiv w 2
  sumRectPinnedAccesses n0 n1 (y - h) (x - h) ((y - h) + w) x ++
  sumRectPinnedAccesses n0 n1 (y - h) x ((y - h) + w) ((x - h) + w) ++
  sumRectPinnedAccesses n0 n1 (y - h) (x - h) y ((x - h) + w) ++
  sumRectPinnedAccesses n0 n1 y (x - h) ((y - h) + w) ((x - h) + w)

/-- 32-bit two's complement wrap (what `int` arithmetic does under `-fno-strict-overflow`) -/
def wrap32 (v : Int) : Int := (v + 2147483648) % 4294967296 - 2147483648

/-- `sum_rect` as reached through the entry point `py_sum_rect` (four arbitrary C `int`s): the decrement wraps at `INT_MIN`
    (to `INT_MAX`, which the upper clamp then maps to the last row/column). -/
def sumRectEntry (n0 n1 y0 x0 y1 x1 : Int) : List SAcc :=
  if n0 ≤ 0 ∨ n1 ≤ 0 then [] else
  let a := min (max (wrap32 (y0 - 1)) 0) (n0 - 1)
  let b := min (max (wrap32 (x0 - 1)) 0) (n1 - 1)
  let c := min (max (wrap32 (y1 - 1)) 0) (n0 - 1)
  let d := min (max (wrap32 (x1 - 1)) 0) (n1 - 1)
  at2 n0 n1 a b ++ at2 n0 n1 a d ++ at2 n0 n1 c b ++ at2 n0 n1 c d

/-- `csum_rect(integral, y, x, dy, dx, h, w)`: `y0 = y + dy - h/2; x0 = x + dx - w/2; y1 = y0 + h; x1 = x0 + w` (C division). -/
def csumRectAccesses (n0 n1 y x dy dx h w : Int) : List SAcc :=
  let y0 := y + dy - Int.tdiv h 2
  let x0 := x + dx - Int.tdiv w 2
  sumRectAccesses n0 n1 y0 x0 (y0 + h) (x0 + w)

/-- `haar_x(integral, y, x, w)`: `left = sum_rect(y - w/2, x - w/2, (y - w/2) + w, x)`,
    `right = sum_rect(y - w/2, x, (y - w/2) + w, (x - w/2) + w)`. -/
def haarXAccesses (n0 n1 y x w : Int) : List SAcc :=
  let h := Int.tdiv w 2
  sumRectAccesses n0 n1 (y - h) (x - h) ((y - h) + w) x ++
  sumRectAccesses n0 n1 (y - h) x ((y - h) + w) ((x - h) + w)

/-- `haar_y(integral, y, x, w)`: `top = sum_rect(y - w/2, x - w/2, y, (x - w/2) + w)`,
    `bottom = sum_rect(y, x - w/2, (y - w/2) + w, (x - w/2) + w)`. -/
def haarYAccesses (n0 n1 y x w : Int) : List SAcc :=
  let h := Int.tdiv w 2
  sumRectAccesses n0 n1 (y - h) (x - h) y ((x - h) + w) ++
  sumRectAccesses n0 n1 y (x - h) ((y - h) + w) ((x - h) + w)

/-- one gradient sample of `compute_dominant_angle` / `compute_surf_descriptor`: `haar_x` and `haar_y` at the same `(y, x, w)` -/
def haarAccesses (n0 n1 y x w : Int) : List SAcc := haarXAccesses n0 n1 y x w ++ haarYAccesses n0 n1 y x w

/-- all samples of one interest point: positions (float-derived, so arbitrary integers here) and one window size -/
def descWindowAccesses (n0 n1 : Int) (pts : List (Int × Int)) (w : Int) : List SAcc :=
  pts.flatMap fun p => haarAccesses n0 n1 p.1 p.2 w

/-! ## `build_pyramid` behind `check_pyramid_parameters` -/

def pow2 (k : Nat) : Int := (2 : Int) ^ k

/-- `get_step_size(initial_step_size, o) = initial_step_size * int(pow(2.0, o) + 0.5)` -/
def stepSize (init : Int) (o : Nat) : Int := init * pow2 o

/-- `get_border_size(o, nr_intervals) = int(ceil(3*(pow(2.0, o+1)*(nr_intervals+1) + 1) / 2.0))` (exact in doubles below 2^52) -/
def borderSize (o : Nat) (nint : Int) : Int := (3 * (pow2 (o + 1) * (nint + 1) + 1) + 1) / 2

/-- `lobe_size = int(pow(2.0, o+1.0) + 0.5)*(i+1) + 1` -/
def lobeSize (o : Nat) (i : Int) : Int := pow2 (o + 1) * (i + 1) + 1

/-- `check_pyramid_parameters`: `0 < nr_octaves <= 30`, `nr_intervals > 0`, `initial_step_size > 0` and
    `max_step * max_border < INT_MAX` with `max_step = init * 2^(noct-1)`, `max_border = 1.5*(2^noct*(nint+1) + 1) + 1`;
    the product is compared here after multiplying by 2 (the doubles are exact: both factors are below 2^33 and a
    product that needs rounding is ≥ 2^52 > INT_MAX on either side of the rounding). -/
def checkPyramidParameters (noct nint init : Int) : Bool :=
  decide (0 < noct) && decide (noct ≤ 30) && decide (0 < nint) && decide (0 < init) &&
  decide (init * pow2 (noct.toNat - 1) * (3 * (pow2 noct.toNat * (nint + 1) + 1) + 2) < 2 * 2147483647)

/-- the eight `csum_rect` windows of one pyramid sample `(y, x)` for lobe size `l` (Dxx, Dyy, Dxy in source order) -/
def pyramidSampleReads (n0 n1 y x l : Int) : List SAcc :=
  let off := Int.tdiv l 2 + 1
  csumRectAccesses n0 n1 y x 0 0 (2 * l - 1) (3 * l) ++
  csumRectAccesses n0 n1 y x 0 0 (2 * l - 1) l ++
  csumRectAccesses n0 n1 y x 0 0 (3 * l) (2 * l - 1) ++
  csumRectAccesses n0 n1 y x 0 0 l (2 * l - 1) ++
  csumRectAccesses n0 n1 y x (-off) off l l ++
  csumRectAccesses n0 n1 y x off (-off) l l ++
  csumRectAccesses n0 n1 y x off off l l ++
  csumRectAccesses n0 n1 y x (-off) (-off) l l

/-- shape `(nr_intervals, N0/step_size, N1/step_size)` of `pyramid[o]` -/
def pyramidDims (n0 n1 nint init : Int) (o : Nat) : Int × Int × Int :=
  (nint, Int.tdiv n0 (stepSize init o), Int.tdiv n1 (stepSize init o))

/-- the write `cur_data.at(i, y/step_size, x/step_size)` -/
def pyramidWrite (n0 n1 nint init : Int) (o : Nat) (i y x : Int) : List SAcc :=
  let step := stepSize init o
  let d := pyramidDims n0 n1 nint init o
  at3 d.1 d.2.1 d.2.2 i (Int.tdiv y step) (Int.tdiv x step)

/-- octave `o` of the fill loop of `build_pyramid`:
    `for i < nr_intervals; for (y = border; y < N0 - border; y += step) for (x = border; x < N1 - border; x += step)`
    with `border = get_border_size(o, nr_intervals)*step`: eight `csum_rect`s, then the write. -/
def pyramidOctave (n0 n1 nint init : Int) (o : Nat) : List SAcc :=
  let step := stepSize init o
  let border := borderSize o nint * step
  (sRangeI nint).flatMap fun i =>
    (sRangeStep border (n0 - border) step).flatMap fun y =>
      (sRangeStep border (n1 - border) step).flatMap fun x =>
        pyramidSampleReads n0 n1 y x (lobeSize o i) ++ pyramidWrite n0 n1 nint init o i y x

/-- all octaves `o < nr_octaves` (`pyramid[o]` itself: the vector has `nr_octaves` elements) -/
def pyramidAccesses (n0 n1 noct nint init : Int) : List SAcc :=
  (List.range noct.toNat).flatMap fun (o : Nat) => (⟨(o : Int), noct⟩ : SAcc) :: pyramidOctave n0 n1 nint init o

/-- every `y += step_size` loop terminates iff the steps are positive -/
def pyramidDone (noct init : Int) : Bool :=
  (List.range noct.toNat).all fun (o : Nat) => decide (0 < stepSize init o)

/-- the `int` values `build_pyramid` computes for octave `o`, interval `i` before it looks at the image:
    `step_size`, `get_border_size`, `border_size`, `lobe_size`, `lobe_offset` -/
def pyramidInts (nint init : Int) (o : Nat) (i : Int) : List Int :=
  let l := lobeSize o i
  [stepSize init o, borderSize o nint, borderSize o nint * stepSize init o, l, Int.tdiv l 2 + 1]

/-! ## `get_interest_points` -/

/-- offsets `(di, dr, dc)` read by `interpolate_point` around `(i, r, c)`, in source order -/
def ipInterpOffsets : List (Int × Int × Int) :=
  [(0,0,0),
   (0,0,1),(0,0,-1), (0,1,0),(0,-1,0), (1,0,0),(-1,0,0),
   (0,1,1),(0,-1,-1),(0,-1,1),(0,1,-1),
   (1,0,1),(-1,0,-1),(-1,0,1),(1,0,-1),
   (1,1,0),(-1,-1,0),(-1,1,0),(1,-1,0),
   (0,1,0),(0,-1,0), (0,0,1),(0,0,-1), (1,0,0),(-1,0,0),
   (0,0,0),(0,0,0)]

/-- `is_maximum_in_region(pyr, o, i, r, c)` followed (when it could return true) by `interpolate_point`:
    behind `if (i <= 0 || i+1 >= nr_intervals) return false;` the value at `(i,r,c)`, the 27 values at
    `(i-1..i+1, r-1..r+1, c-1..c+1)` and the reads of the interpolation. -/
def ipCandidate (nint nr nc i r c : Int) : List SAcc :=
  if i ≤ 0 ∨ i + 1 ≥ nint then [] else
  at3 nint nr nc i r c ++
  ((sRangeStep (i - 1) (i + 2) 1).flatMap fun ii =>
    (sRangeStep (r - 1) (r + 2) 1).flatMap fun rr =>
      (sRangeStep (c - 1) (c + 2) 1).flatMap fun cc => at3 nint nr nc ii rr cc) ++
  ipInterpOffsets.flatMap fun d => at3 nint nr nc (i + d.1) (r + d.2.1) (c + d.2.2)

/-- one 3x3x3 block starting at `(i, r, c)`: `max_val = get_value(o,i,r,c)`, then
    `for (ii = i; ii < min(i+3, nr_intervals-1); ++ii) for (rr = r; rr < min(r+3, nr-border-1); ++rr) for (cc …)`
    reads `(ii,rr,cc)`; the float comparisons decide which element becomes `(max_i,max_r,max_c)`: every element of the
    block is taken as a candidate (a superset of what one run does). -/
def ipBlock (nint nr nc bs i r c : Int) : List SAcc :=
  at3 nint nr nc i r c ++
  (sRangeStep i (min (i + 3) (nint - 1)) 1).flatMap fun ii =>
    (sRangeStep r (min (r + 3) (nr - bs - 1)) 1).flatMap fun rr =>
      (sRangeStep c (min (c + 3) (nc - bs - 1)) 1).flatMap fun cc =>
        at3 nint nr nc ii rr cc ++ ipCandidate nint nr nc ii rr cc

/-- one octave of `get_interest_points`:
    `for (i = 1; i < nr_intervals-1; i += 3) for (r = border+1; r < nr-border-1; r += 3) for (c = border+1; c < nc-border-1; c += 3)` -/
def ipScanAccesses (nint nr nc bs : Int) : List SAcc :=
  (sRangeStep 1 (nint - 1) 3).flatMap fun i =>
    (sRangeStep (bs + 1) (nr - bs - 1) 3).flatMap fun r =>
      (sRangeStep (bs + 1) (nc - bs - 1) 3).flatMap fun c => ipBlock nint nr nc bs i r c

/-! ## `compute_surf_descriptor`: the descriptor vector and the sample positions -/

/-- `des[count++]` four times per cell of `for (r = -10; r < 10; r += 5) for (c = -10; c < 10; c += 5)`; `des` has 64 elements -/
def descIndexAccesses : List SAcc :=
  let cells := (sRangeStep (-10) 10 5).flatMap fun r => (sRangeStep (-10) 10 5).map fun c => (r, c)
  (List.range cells.length).flatMap fun (k : Nat) =>
    [⟨4 * (k : Int), 64⟩, ⟨4 * (k : Int) + 1, 64⟩, ⟨4 * (k : Int) + 2, 64⟩, ⟨4 * (k : Int) + 3, 64⟩]

/-- the grid points `(r, c)`, `-6 ≤ r, c ≤ 6`, `r*r + c*c < 36`, at which `compute_dominant_angle` takes a sample
    (`samples[0]` exists: the list is not empty) -/
def angleGrid : List (Int × Int) :=
  (sRangeStep (-6) 7 1).flatMap fun r => ((sRangeStep (-6) 7 1).filter fun c => decide (r * r + c * c < 36)).map fun c => (r, c)

/-- C cast `int(q)` of an exact rational: truncation towards zero -/
def ratTrunc (q : Rat) : Int := if 0 ≤ q then q.floor else -((-q).floor)

/-- the border test of `compute_descriptors` in exact arithmetic:
    `border_size = static_cast<unsigned long>(31*scale)/2;`
    `border_size <= p.y() && p.y() + border_size < N0 && border_size <= p.x() && p.x() + border_size < N1` (for `scale ≥ 0`) -/
def descGuard (n0 n1 : Int) (cy cx s : Rat) : Bool :=
  let bs : Int := (31 * s).floor / 2
  decide ((bs : Rat) ≤ cy) && decide (cy + (bs : Rat) < (n0 : Rat)) &&
  decide ((bs : Rat) ≤ cx) && decide (cx + (bs : Rat) < (n1 : Rat))

/-- sample position of `compute_surf_descriptor` for the grid point `(x, y)`:
    `p = rotate_point((x*scale, y*scale), sin, cos) + center`, i.e. (`double_v2(a, b)` stores `y = a, x = b`) `p.y = cos*(y*scale) - sin*(x*scale) + center.y`,
    `p.x = sin*(y*scale) + cos*(x*scale) + center.x`, then `(int(p.y), int(p.x))`. -/
def descSample (cy cx s sn cs : Rat) (x y : Int) : Int × Int :=
  let vy : Rat := (x : Rat) * s       -- double_v2(x*scale, y*scale).y()
  let vx : Rat := (y : Rat) * s       -- … .x()
  (ratTrunc (cs * vx - sn * vy + cy), ratTrunc (sn * vx + cs * vy + cx))

/-- `static_cast<int>(2*scale + 0.5)` -/
def descWindow (s : Rat) : Int := ratTrunc (2 * s + 1 / 2)

/-! ## protocol -/

def b2s (b : Bool) : String := if b then "1" else "0"

def sReport (l : List SAcc) (term : Bool := true) : String :=
  s!"ok={b2s (sAllOk l && term)} n={l.length} term={b2s term} sum={(l.map (·.i)).foldl (· + ·) 0}"

def ratArg (a : Args) (k : String) : Rat :=
  match a.ints k with
  | [n, d] => (n : Rat) / (d : Rat)
  | [n] => (n : Rat)
  | _ => 0

/-- `none`: not a SURF kind -/
def handleSurf (a : Args) : Option String :=
  match a.str "kind" with
  | "sumrect" =>
    some (sReport (sumRectEntry (a.int "n0") (a.int "n1") (a.int "y0") (a.int "x0") (a.int "y1") (a.int "x1")))
  | "csumrect" =>
    some (sReport (csumRectAccesses (a.int "n0") (a.int "n1") (a.int "y") (a.int "x") (a.int "dy") (a.int "dx") (a.int "h") (a.int "w")))
  | "surfhaar" => some (sReport (haarAccesses (a.int "n0") (a.int "n1") (a.int "y") (a.int "x") (a.int "w")))
  | "surfpyramid" =>
    let n0 := a.int "n0"; let n1 := a.int "n1"
    let noct := a.int "noct"; let nint := a.int "nint"; let init := a.int "init"
    let g := checkPyramidParameters noct nint init
    if !g && a.int "noguard" = 0 then some ("guard=0 " ++ sReport [] ++ " dims=- wsum=0 imax=0 imin=1") else
    let l := pyramidAccesses n0 n1 noct nint init
    let dims := (List.range noct.toNat).flatMap fun (o : Nat) =>
      let d := pyramidDims n0 n1 nint init o
      [d.2.1, d.2.2]
    let writes := (List.range noct.toNat).flatMap fun (o : Nat) =>
      let step := stepSize init o
      let border := borderSize o nint * step
      (sRangeI nint).flatMap fun i =>
        (sRangeStep border (n0 - border) step).flatMap fun y =>
          (sRangeStep border (n1 - border) step).flatMap fun x => pyramidWrite n0 n1 nint init o i y x
    let ints := (List.range noct.toNat).flatMap fun (o : Nat) => (sRangeI nint).flatMap fun i => pyramidInts nint init o i
    some (s!"guard={b2s g} " ++ sReport l (pyramidDone noct init) ++
      s!" dims={showInts dims} wsum={(writes.map (·.i)).foldl (· + ·) 0} imax={ints.foldl max 0} imin={ints.foldl min 1}")
  | "ipscan" => some (sReport (ipScanAccesses (a.int "nint") (a.int "nr") (a.int "nc") (a.int "bs")))
  | "surfdesc" => some (sReport descIndexAccesses ++ s!" nangle={angleGrid.length}")
  | "descsample" =>
    let n0 := a.int "n0"; let n1 := a.int "n1"
    let cy := ratArg a "cy"; let cx := ratArg a "cx"; let s := ratArg a "s"
    let p := descSample cy cx s (ratArg a "sn") (ratArg a "cs") (a.int "x") (a.int "y")
    let w := descWindow s
    some (s!"guard={b2s (descGuard n0 n1 cy cx s)} py={p.1} px={p.2} w={w} " ++ sReport (haarAccesses n0 n1 p.1 p.2 w))
  | _ => none

end Mahotas.C10Surf
