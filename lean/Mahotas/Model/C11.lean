/-
C11 — executable model: interpreter of the guards extracted from the current source (Generated/Guards.lean),
kernel preconditions `Pre_K`, and the seeding loop of `slic` (the one loop whose bound depends on a parameter that
the repaired wrapper now guards).

Driver protocol:  `c11 kind=guards fn=<short name> <param>=<kind,ndim,dcls,flags,ival,shape…> [<param>.x=<tnum>,<nnz>] …`
                  → `verdict=accept|reject|unknown-fn atom=<index of the first rejecting atom or -1> n=<number of atoms>`
                  `c11 kind=nguards fn=<_module.name> <C variable>=<descriptor> [<C variable>.x=<tnum>,<nnz>] …`
                  → the same for the guards of the native entry point, plus `action=<code of the rejecting atom>`
                  `c11 kind=seeds s=<S> n=<N>` → `seeds=<positions> count=<k>`  (transliteration of `for (y = S/2; y < N; y += S)`)
-/
import Mahotas.Model.C11Base
import Mahotas.Generated.Guards
namespace Mahotas.C11
open Mahotas

def descOfInts : List Int → Desc
  | k :: nd :: dc :: fl :: iv :: sh => { kind := k.toNat, ndim := nd.toNat, dcls := dc.toNat, flags := fl.toNat, ival := iv, shape := sh.map Int.toNat }
  | _ => {}

/-- `<param>=<kind,ndim,dcls,flags,ival,shape…>` and optionally `<param>.x=<tnum>,<nnz>` -/
def envOfArgs (a : Args) : Env := fun name =>
  if a.has name then
    let d := descOfInts (a.ints name)
    match a.ints (name ++ ".x") with
    | t :: z :: _ => { d with tnum := t.toNat, nnz := z.toNat }
    | [t] => { d with tnum := t.toNat }
    | [] => d
  else {}

def nativeGuardsOf (full : String) : Option (List NAtom) :=
  (Generated.nativeGuardTable.find? (fun e => e.1 == full)).map (·.2.2)

def actionsOf (key : String) : List Nat :=
  ((Generated.guardActionTable.find? (fun e => e.1 == key)).map (·.2.2)).getD []

def guardsOf (short : String) : Option (List Atom) :=
  (Generated.wrapperGuards.find? (fun e => e.2.1 == short)).map (·.2.2)

/-- the seeding loop of `slic`: `for (y = S/2; y < N; y += S)`, with explicit fuel -/
def seedLoop (S N : Nat) : Nat → Nat → List Nat
  | 0, _ => []
  | fuel + 1, y => if y < N then y :: seedLoop S N fuel (y + S) else []

/-- seeds along one axis (fuel `N` suffices when `S ≥ 1`) -/
def seeds (S N : Nat) : List Nat := seedLoop S N N (S / 2)

/-! ### kernel preconditions -/

/-- `slic`: an (h, w, 3) array, a positive seed spacing for which at least one seed exists on each axis, at least one iteration -/
def PreSlic (env : Env) : Prop :=
  (env "array").ndim = 3 ∧ (env "array").shape.getD 2 0 = 3 ∧ 1 ≤ (env "spacer").ival ∧ 1 ≤ (env "max_iters").ival ∧
  (env "spacer").ival / 2 < ((env "array").shape.getD 0 0 : Int) ∧ (env "spacer").ival / 2 < ((env "array").shape.getD 1 0 : Int)

/-- 2-D kernels (`find2d`, `close_holes`, `convexhull`): the array is a matrix -/
def Pre2D (name : String) (env : Env) : Prop := (env name).ndim = 2

/-- `cwatershed`: markers are read at the flat positions of the surface -/
def PreCwatershed (env : Env) : Prop := (env "surface").shape = (env "markers").shape

/-- `disk`: a positive dimension -/
def PreDisk (env : Env) : Prop := 1 ≤ (env "dim").ival

def handle (a : Args) : String :=
  match a.str "kind" with
  | "guards" =>
    match guardsOf (a.str "fn") with
    | none => "verdict=unknown-fn atom=-1 n=0"
    | some gs =>
      let env := envOfArgs a
      match firstReject gs env with
      | some i => s!"verdict=reject atom={i} n={gs.length}"
      | none => s!"verdict=accept atom=-1 n={gs.length}"
  | "nguards" =>
    match nativeGuardsOf (a.str "fn") with
    | none => "verdict=unknown-fn atom=-1 n=0 action=-1"
    | some gs =>
      let env := envOfArgs a
      match nfirstReject gs env with
      | some i => s!"verdict=reject atom={i} n={gs.length} action={(actionsOf ("n:" ++ a.str "fn")).getD i 9}"
      | none => s!"verdict=accept atom=-1 n={gs.length} action=-1"
  | "seeds" =>
    let s := seeds (a.nat "s") (a.nat "n")
    s!"seeds={showNats s} count={s.length}"
  | k => s!"error=unknown-kind-{k}"

end Mahotas.C11
