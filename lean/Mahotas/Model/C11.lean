/-
C11 — executable model: interpreter of the guards extracted from the current source (Generated/Guards.lean),
kernel preconditions `Pre_K`, and the seeding loop of `slic` (the one loop whose bound depends on a parameter that
the repaired wrapper now guards).

Driver protocol:  `c11 kind=guards fn=<short name> <param>=<kind,ndim,dcls,flags,ival,shape…> …`
                  → `verdict=accept|reject|unknown-fn atom=<index of the first rejecting atom or -1> n=<number of atoms>`
                  `c11 kind=seeds s=<S> n=<N>` → `seeds=<positions> count=<k>`  (transliteration of `for (y = S/2; y < N; y += S)`)
-/
import Mahotas.Model.C11Base
import Mahotas.Generated.Guards
namespace Mahotas.C11
open Mahotas

def descOfInts : List Int → Desc
  | k :: nd :: dc :: fl :: iv :: sh => { kind := k.toNat, ndim := nd.toNat, dcls := dc.toNat, flags := fl.toNat, ival := iv, shape := sh.map Int.toNat }
  | _ => {}

def envOfArgs (a : Args) : Env := fun name => if a.has name then descOfInts (a.ints name) else {}

def guardsOf (short : String) : Option (List Atom) :=
  (Generated.wrapperGuards.find? (fun e => e.2.1 == short)).map (·.2.2)

/-- the seeding loop of `slic`: `for (y = S/2; y < N; y += S)`, with explicit fuel -/
def seedLoop (S N : Nat) : Nat → Nat → List Nat
  | 0, _ => []
  | fuel + 1, y => if y < N then y :: seedLoop S N fuel (y + S) else []

/-- seeds along one axis (fuel `N` suffices when `S ≥ 1`) -/
def seeds (S N : Nat) : List Nat := seedLoop S N N (S / 2)

/-! ### kernel preconditions -/

/-- `slic`: an (h, w, 3) array, a positive seed spacing for which at least one seed exists on each axis, at least one iteration -/
def PreSlic (env : Env) : Prop :=
  (env "array").ndim = 3 ∧ (env "array").shape.getD 2 0 = 3 ∧ 1 ≤ (env "spacer").ival ∧ 1 ≤ (env "max_iters").ival ∧
  (env "spacer").ival / 2 < ((env "array").shape.getD 0 0 : Int) ∧ (env "spacer").ival / 2 < ((env "array").shape.getD 1 0 : Int)

/-- 2-D kernels (`find2d`, `close_holes`, `convexhull`): the array is a matrix -/
def Pre2D (name : String) (env : Env) : Prop := (env name).ndim = 2

/-- `cwatershed`: markers are read at the flat positions of the surface -/
def PreCwatershed (env : Env) : Prop := (env "surface").shape = (env "markers").shape

/-- `disk`: a positive dimension -/
def PreDisk (env : Env) : Prop := 1 ≤ (env "dim").ival

def handle (a : Args) : String :=
  match a.str "kind" with
  | "guards" =>
    match guardsOf (a.str "fn") with
    | none => "verdict=unknown-fn atom=-1 n=0"
    | some gs =>
      let env := envOfArgs a
      match firstReject gs env with
      | some i => s!"verdict=reject atom={i} n={gs.length}"
      | none => s!"verdict=accept atom=-1 n={gs.length}"
  | "seeds" =>
    let s := seeds (a.nat "s") (a.nat "n")
    s!"seeds={showNats s} count={s.length}"
  | k => s!"error=unknown-kind-{k}"

end Mahotas.C11
