/-
C11 — executable model: interpreter of the guards extracted from the current source (Generated/Guards.lean),
kernel preconditions `Pre_K`, and the seeding loop of `slic` (the one loop whose bound depends on a parameter that
the repaired wrapper now guards).

Driver protocol:  `c11 kind=guards fn=<short name> <param>=<kind,ndim,dcls,flags,ival,shape…> [<param>.x=<tnum>,<nnz>] …`
                  → `verdict=accept|reject|unknown-fn atom=<index of the first rejecting atom or -1> n=<number of atoms>`
                  `c11 kind=nguards fn=<_module.name> <C variable>=<descriptor> [<C variable>.x=<tnum>,<nnz>] …`
                  → the same for the guards of the native entry point, plus `action=<code of the rejecting atom>`
                  `c11 kind=seeds s=<S> n=<N>` → `seeds=<positions> count=<k>`  (transliteration of `for (y = S/2; y < N; y += S)`)
-/
import Mahotas.Model.C11Base
import Mahotas.Generated.Guards
namespace Mahotas.C11
open Mahotas

def descOfInts : List Int → Desc
  | k :: nd :: dc :: fl :: iv :: sh => { kind := k.toNat, ndim := nd.toNat, dcls := dc.toNat, flags := fl.toNat, ival := iv, shape := sh.map Int.toNat }
  | _ => {}

/-- `<param>=<kind,ndim,dcls,flags,ival,shape…>` and optionally `<param>.x=<tnum>,<nnz>` -/
def envOfArgs (a : Args) : Env := fun name =>
  if a.has name then
    let d := descOfInts (a.ints name)
    match a.ints (name ++ ".x") with
    | t :: z :: _ => { d with tnum := t.toNat, nnz := z.toNat }
    | [t] => { d with tnum := t.toNat }
    | [] => d
  else {}

def nativeGuardsOf (full : String) : Option (List NAtom) :=
  (Generated.nativeGuardTable.find? (fun e => e.1 == full)).map (·.2.2)

def actionsOf (key : String) : List Nat :=
  ((Generated.guardActionTable.find? (fun e => e.1 == key)).map (·.2.2)).getD []

def guardsOf (short : String) : Option (List Atom) :=
  (Generated.wrapperGuards.find? (fun e => e.2.1 == short)).map (·.2.2)

/-- the seeding loop of `slic`: `for (y = S/2; y < N; y += S)`, with explicit fuel -/
def seedLoop (S N : Nat) : Nat → Nat → List Nat
  | 0, _ => []
  | fuel + 1, y => if y < N then y :: seedLoop S N fuel (y + S) else []

/-- seeds along one axis (fuel `N` suffices when `S ≥ 1`) -/
def seeds (S N : Nat) : List Nat := seedLoop S N N (S / 2)

/-! ### kernel preconditions -/

/-- `slic`: an (h, w, 3) array, a positive seed spacing for which at least one seed exists on each axis, at least one iteration -/
def PreSlic (env : Env) : Prop :=
  (env "array").ndim = 3 ∧ (env "array").shape.getD 2 0 = 3 ∧ 1 ≤ (env "spacer").ival ∧ 1 ≤ (env "max_iters").ival ∧
  (env "spacer").ival / 2 < ((env "array").shape.getD 0 0 : Int) ∧ (env "spacer").ival / 2 < ((env "array").shape.getD 1 0 : Int)

/-- 2-D kernels (`find2d`, `close_holes`, `convexhull`): the array is a matrix -/
def Pre2D (name : String) (env : Env) : Prop := (env name).ndim = 2

/-- `cwatershed`: markers are read at the flat positions of the surface -/
def PreCwatershed (env : Env) : Prop := (env "surface").shape = (env "markers").shape

/-- `disk`: a positive dimension -/
def PreDisk (env : Env) : Prop := 1 ≤ (env "dim").ival

/-! ### kernel preconditions, round 2: each is the hypothesis of the bounds theorem of the kernel (Properties/C10.lean) read off
the descriptors. Native names are the C variables of the entry point, wrapper names the Python parameters. -/

/-- `_convolve.template_match`: image and template have the same rank (the filter iterator walks both with one
    position vector); the output has the shape of the image and is written through a raw pointer -/
def PreTemplateMatch (env : Env) : Prop :=
  (env "array").ndim = (env "template_").ndim ∧ (env "output").shape = (env "array").shape ∧ (env "output").isCArray = true

/-- `_convolve.find2d`: `array.dim(1)`, `target.dim(1)` exist; `out` has `N0*N1` elements in C order -/
def PreFind2d (env : Env) : Prop :=
  (env "array").ndim = 2 ∧ (env "target").ndim = 2 ∧ (env "output").shape = (env "array").shape ∧ (env "output").isCArray = true

/-- `hitmiss` (wrapper): equal rank, at least 1 (`shape ≠ []`, `bshape.length = shape.length` of `C10_hitmiss_in_bounds`) -/
def PreHitmissW (env : Env) : Prop := (env "input").ndim = (env "Bc").ndim ∧ 1 ≤ (env "input").ndim
/-- `_morph.hitmiss` (native): the result has the shape of the array and is a C array (`res.at_flat(i)`, `i < N`) -/
def PreHitmissN (env : Env) : Prop := (env "res_a").shape = (env "array").shape ∧ (env "res_a").isCArray = true

/-- `majority_filter` (wrapper): a matrix and a window `N ≥ 2` (so `0 ≤ N`, the hypothesis of `C10_majority_in_bounds`) -/
def PreMajorityW (env : Env) : Prop := (env "img").ndim = 2 ∧ 2 ≤ (env "N").ival
/-- `_morph.majority_filter` (native): a matrix, the result of the same shape and a C array (flat output index) -/
def PreMajorityN (env : Env) : Prop :=
  (env "array").ndim = 2 ∧ (env "res_a").shape = (env "array").shape ∧ (env "res_a").isCArray = true

/-- `_distance.dt`: the loops (with `size/n`) are reached only with a 2-D array without a zero-length axis -/
def PreDt (env : Env) : Prop := (env "f").ndim = 2 ∧ (env "f").size ≠ 0
/-- `distance` (wrapper): at least one axis, no zero-length axis -/
def PreDistance (env : Env) : Prop := 1 ≤ (env "bw").ndim ∧ 0 < (env "bw").size

/-- `_center_of_mass.center_of_mass`: when labels are given they are an int32 C array of the shape of the image, hence
    `labels[i]`, `i < img.size`, is inside the labels buffer (`hs` of `C10_center_of_mass_in_bounds`) -/
def PreCenterOfMass (env : Env) : Prop :=
  (env "labels_obj").kind ≠ 0 →
    (env "labels_obj").kind = 1 ∧ (env "labels_obj").shape = (env "array").shape ∧ (env "labels_obj").isCArrayRO = true ∧
      ((env "array").size : Int) ≤ ((env "labels_obj").size : Int)

/-- `labeled.bbox`: no negative label (`0 ≤ label` of `C10_bbox_labeled_in_bounds`) -/
def PreBbox (env : Env) : Prop := (env "f").hasNeg = false

/-- `cooccurence` with a caller-supplied 2-D `output`: both dimensions exceed the largest pixel value
    (`hm0`, `hm1` of `C10_cooccurence_in_bounds`; the maximum of `f` is `(env "f").ival`) -/
def PreCooccurence (env : Env) : Prop :=
  (env "f").ival < ((env "output").shape.getD 0 0 : Int) ∧ (env "f").ival < ((env "output").shape.getD 1 0 : Int)

/-- `rank_filter` / `median_filter`: the rank selects an element of the neighbourhood -/
def PreRank (env : Env) : Prop := 0 ≤ (env "rank").ival ∧ (env "rank").ival < ((env "Bc").nnz : Int)

/-- `convolve1d` fast path: fewer weights than the length of the filtered axis (`hg` of `C10_convolve1d_python_guard`) -/
def PreConv1dFast (env : Env) : Prop :=
  ((env "weights").shape.getD 0 0 : Int) < ((env "f").shape.getD (env "axis").ival.toNat 0 : Int)

/-- `interpolate.shift` (wrapper): every shift is finite (the kernel turns coordinates into indices) -/
def PreShift (env : Env) : Prop := (env "shift").hasNonFinite = false
/-- `_interpolate.zoom_shift` (native): image and output are C arrays of one type; a `shifts`/`zooms` array is a C
    array with one entry per axis of the image (the kernel reads `shifts[d]`, `zooms[d]` for `d < ndim`) -/
def PreZoomShift (env : Env) : Prop :=
  (env "array").isCArray = true ∧ (env "output").isCArray = true ∧
  ((env "shifts").kind = 1 → (env "shifts").isCArray = true ∧ (1 ≤ (env "shifts").shape.length → (env "shifts").shape.getD 0 0 = (env "array").ndim)) ∧
  ((env "zooms").kind = 1 → (env "zooms").isCArray = true ∧ (1 ≤ (env "zooms").shape.length → (env "zooms").shape.getD 0 0 = (env "array").ndim))

/-- `get_structuring_elem` with an ndarray `Bc`: the rank of the image and at least one element -/
def PreStructElem (env : Env) : Prop := (env "A").ndim = (env "Bc").ndim ∧ 0 < (env "Bc").size

/-! ### round 3: argument links, more kernel preconditions -/

def linksOf (w n : String) (i : Nat) : Option (List (String × Link)) :=
  (Generated.argLinkTable.find? (fun e => e.1 == w && e.2.1 == n && e.2.2.1 == i)).map (·.2.2.2)

def flowsOf (w h n : String) (i : Nat) : Option (List (String × String × Nat)) :=
  (Generated.checkFlowTable.find? (fun e => e.1 == w && e.2.1 == h && e.2.2.1 == n && e.2.2.2.1 == i)).map (·.2.2.2.2)

/-- `<prefix><param>=<descriptor>`: the environment of the names carrying the prefix (`W.` wrapper, `N.` native) -/
def envOfArgsP (pre : String) (a : Args) : Env := fun name =>
  if a.has (pre ++ name) then
    let d := descOfInts (a.ints (pre ++ name))
    match a.ints (pre ++ name ++ ".x") with
    | t :: z :: _ => { d with tnum := t.toNat, nnz := z.toNat }
    | [t] => { d with tnum := t.toNat }
    | [] => d
  else {}

/-- the border mode handed to a filter kernel is one of the six `ExtendMode` values -/
def modeInRange (d : Desc) : Prop := 0 ≤ d.ival ∧ d.ival ≤ 5

/-- `_convolve.convolve`: image and weights have the same rank; a given output is a C array of the shape of the image -/
def PreConvolve (env : Env) : Prop :=
  (env "array").ndim = (env "filter").ndim ∧
  ((env "output").kind ≠ 0 → (env "output").shape = (env "array").shape ∧ (env "output").isCArray = true)

/-- `_morph.erode` / `_morph.dilate`: structuring element of the rank of the image, output of its shape, one element type -/
def PreMorph (env : Env) : Prop :=
  (env "array").ndim = (env "Bc").ndim ∧ (env "output").shape = (env "array").shape ∧
  canonT (env "Bc").tnum = canonT (env "array").tnum ∧ canonT (env "output").tnum = canonT (env "array").tnum

/-- `_labeled.label`: the array that is labeled in place is an int32 C array; the element has its type -/
def PreLabel (env : Env) : Prop :=
  canonT (env "array").tnum = 5 ∧ (env "array").isCArray = true ∧ canonT (env "filter").tnum = canonT (env "array").tnum

/-- `_convolve.rank_filter` (native part): same rank, one element type, C-array output -/
def PreRankN (env : Env) : Prop :=
  (env "array").ndim = (env "Bc").ndim ∧ canonT (env "Bc").tnum = canonT (env "array").tnum ∧
  canonT (env "output").tnum = canonT (env "array").tnum ∧ (env "output").isCArray = true

/-- SURF pyramid parameters (`check_pyramid_parameters`): octaves in [1, 30], at least one interval, a positive step -/
def PreSurf (env : Env) : Prop :=
  (env "array").ndim = 2 ∧ 1 ≤ (env "nr_octaves").ival ∧ (env "nr_octaves").ival ≤ 30 ∧ 1 ≤ (env "nr_intervals").ival ∧
  1 ≤ (env "initial_step_size").ival

/-- spline order accepted by `_check_interpolate` -/
def PreOrder (env : Env) : Prop := 1 ≤ (env "order").ival ∧ (env "order").ival ≤ 4

/-- wavelet entry points: a matrix (rows of `N1 = shape[1]` columns; odd `N1` is allowed) -/
def PreWavelet (env : Env) : Prop := (env "array").ndim = 2

/-- `_thin.thin`: Boolean contiguous image and buffer of one shape -/
def PreThin (env : Env) : Prop :=
  canonT (env "array").tnum = 0 ∧ canonT (env "buffer").tnum = 0 ∧ (env "array").shape = (env "buffer").shape ∧
  (env "array").isContig = true ∧ (env "buffer").isContig = true

/-- `_texture.cooccurence`: int32 result -/
def PreCoocN (env : Env) : Prop := (env "result").tnum = 5

/-- `_lbp.map`: a contiguous 1-D uint32 array (mapped in place, `data[i]`, `i < dim(0)`) -/
def PreLbp (env : Env) : Prop := (env "array").tnum = 6 ∧ (env "array").ndim = 1 ∧ (env "array").isContig = true

/-- `_zernike.znl`: the three arrays have the element types the raw pointers are cast to -/
def PreZnl (env : Env) : Prop := (env "Da").tnum = 12 ∧ (env "Aa").tnum = 15 ∧ (env "Pa").tnum = 12

/-- the (n, l) pairs for which `zernike_moments` calls `_zernike.znl`:
    `for n in range(degree + 1): for l in range(n + 1): if (n - l) % 2 == 0` (`degree + 1 ≤ 0` gives no call) -/
def znlPairs (degree : Int) : List (Nat × Nat) :=
  (List.range (degree + 1).toNat).flatMap fun n => ((List.range (n + 1)).filter fun l => (n - l) % 2 == 0).map fun l => (n, l)

/-- the arguments of `fact(·)` and the index into `g_m` (allocated with `(n-l)/2 + 1` entries) in `py_znl`, for one `m` -/
def znlFactArgs (n l m : Int) : List Int := [n - m, m, (n - 2 * m + l) / 2, (n - 2 * m - l) / 2]

def handle (a : Args) : String :=
  match a.str "kind" with
  | "links" =>
    match linksOf (a.str "w") (a.str "n") (a.nat "i") with
    | none => "verdict=unknown-site at=-1 n=0"
    | some ls =>
      let envW := envOfArgsP "W." a
      let envN := envOfArgsP "N." a
      match firstUnlinked Generated.lookupTables ls envW envN with
      | some i => s!"verdict=violated at={i} n={ls.length}"
      | none => s!"verdict=linked at=-1 n={ls.length} known={(ls.filter fun pl => match pl.2 with | .other _ => false | _ => true).length}"
  | "flows" =>
    match flowsOf (a.str "w") (a.str "h") (a.str "n") (a.nat "i") with
    | none => "verdict=unknown-flow n=0"
    | some fs =>
      let envH := envOfArgsP "H." a
      let envN := envOfArgsP "N." a
      s!"verdict={if Flows fs envH envN then "flows" else "violated"} n={fs.length}"
  | "guards" =>
    match guardsOf (a.str "fn") with
    | none => "verdict=unknown-fn atom=-1 n=0"
    | some gs =>
      let env := envOfArgs a
      match firstReject gs env with
      | some i => s!"verdict=reject atom={i} n={gs.length}"
      | none => s!"verdict=accept atom=-1 n={gs.length}"
  | "nguards" =>
    match nativeGuardsOf (a.str "fn") with
    | none => "verdict=unknown-fn atom=-1 n=0 action=-1"
    | some gs =>
      let env := envOfArgs a
      match nfirstReject gs env with
      | some i => s!"verdict=reject atom={i} n={gs.length} action={(actionsOf ("n:" ++ a.str "fn")).getD i 9}"
      | none => s!"verdict=accept atom=-1 n={gs.length} action=-1"
  | "seeds" =>
    let s := seeds (a.nat "s") (a.nat "n")
    s!"seeds={showNats s} count={s.length}"
  | k => s!"error=unknown-kind-{k}"

end Mahotas.C11
