/-
C11 — argument descriptors and the guard DSL (import-free; shared by Generated/Guards.lean and Model/C11.lean).

A descriptor abstracts one actual argument of a call: what kind of object it is, and for arrays the rank, shape,
dtype class and flags, for integers the value. A guard atom is one disjunct of an `if … : raise` test of a Python
wrapper (or of a native `if (…) { PyErr…; return NULL; }`), as extracted by translator/guards.py.
-/
import Mahotas.Model.Basic
namespace Mahotas.C11
open Mahotas

/-- kind: 0 None, 1 ndarray, 2 integer (bool/int), 3 anything else.
    dcls: 0 other, 1 bool, 2 integer, 3 float32/64/128, 4 float16. flags: bit0 C-contiguous, bit1 writeable, bit2 aligned. -/
structure Desc where
  kind  : Nat := 0
  ndim  : Nat := 0
  dcls  : Nat := 0
  flags : Nat := 0
  ival  : Int := 0
  shape : List Nat := []
deriving Repr, Inhabited

abbrev Env := String → Desc

inductive Atom
  | intLt (a : String) (c : Int)            -- `a < c`
  | intLe (a : String) (c : Int)            -- `a <= c`
  | ndimNe (a : String) (n : Nat)           -- `a.ndim != n`
  | dimNe (a : String) (axis n : Nat)       -- `a.shape[axis] != n`
  | ndimsDiffer (a b : String)              -- `a.ndim != b.ndim`
  | shapesDiffer (a b : String)             -- `a.shape != b.shape`
  | minDim2LeHalf (a s : String)            -- `min(a.shape[:2]) <= s // 2`
  | opaque (txt : String)                   -- a test the DSL does not interpret (never rejects in the model)
deriving Repr, Inhabited

def isArr (d : Desc) : Bool := d.kind == 1
def isInt (d : Desc) : Bool := d.kind == 2

/-- does the guard atom raise on these arguments? Atoms about arguments that are not of the expected kind are
    not interpreted (the wrapper converts them first): the model then makes no claim. -/
def Atom.rejects (env : Env) : Atom → Bool
  | .intLt a c => isInt (env a) && decide ((env a).ival < c)
  | .intLe a c => isInt (env a) && decide ((env a).ival ≤ c)
  | .ndimNe a n => isArr (env a) && decide ((env a).ndim ≠ n)
  | .dimNe a ax n => isArr (env a) && decide ((env a).shape.getD ax 0 ≠ n) && decide (ax < (env a).shape.length)
  | .ndimsDiffer a b => isArr (env a) && isArr (env b) && decide ((env a).ndim ≠ (env b).ndim)
  | .shapesDiffer a b => isArr (env a) && isArr (env b) && decide ((env a).shape ≠ (env b).shape)
  | .minDim2LeHalf a s =>
      isArr (env a) && isInt (env s) && decide (2 ≤ (env a).shape.length) &&
      decide ((min ((env a).shape.getD 0 0) ((env a).shape.getD 1 0) : Int) ≤ (env s).ival / 2)
  | .opaque _ => false

/-- all guards pass (no atom raises) -/
def passes (gs : List Atom) (env : Env) : Bool := gs.all (fun g => !g.rejects env)

/-- index of the first atom that raises -/
def firstReject (gs : List Atom) (env : Env) : Option Nat :=
  (gs.zipIdx.find? (fun gi => gi.1.rejects env)).map (·.2)

end Mahotas.C11
