/-
C11 — argument descriptors and the guard DSL (import-free; shared by Generated/Guards.lean and Model/C11.lean).

A descriptor abstracts one actual argument of a call: what kind of object it is, and for arrays the rank, shape,
dtype class and flags, for integers the value. A guard atom is one disjunct of an `if … : raise` test of a Python
wrapper (or of a native `if (…) { PyErr…; return NULL; }`), as extracted by translator/guards.py.
-/
import Mahotas.Model.Basic
namespace Mahotas.C11
open Mahotas

/-- kind: 0 None, 1 ndarray, 2 integer (bool/int), 3 anything else.
    dcls: 0 other, 1 bool, 2 integer, 3 float32/64/128, 4 float16. flags: bit0 C-contiguous, bit1 writeable, bit2 aligned,
    bit3 byte-swapped (not native byte order), bit4 some element is negative, bit5 some element is not finite.
    ival: the value of an integer; for an array of integers its largest element (0 when empty or not integer).
    tnum: numpy type number (`PyArray_TYPE`, `dtype.num`) of an array; nnz: number of non-zero elements of an array. -/
structure Desc where
  kind  : Nat := 0
  ndim  : Nat := 0
  dcls  : Nat := 0
  flags : Nat := 0
  ival  : Int := 0
  shape : List Nat := []
  tnum  : Nat := 0
  nnz   : Nat := 0
deriving Repr, Inhabited

abbrev Env := String → Desc

inductive Atom
  | intLt (a : String) (c : Int)            -- `a < c`
  | intLe (a : String) (c : Int)            -- `a <= c`
  | ndimNe (a : String) (n : Nat)           -- `a.ndim != n`
  | dimNe (a : String) (axis n : Nat)       -- `a.shape[axis] != n`
  | ndimsDiffer (a b : String)              -- `a.ndim != b.ndim`
  | shapesDiffer (a b : String)             -- `a.shape != b.shape`
  | minDim2LeHalf (a s : String)            -- `min(a.shape[:2]) <= s // 2`
  | opaque (txt : String)                   -- a test the DSL does not interpret (never rejects in the model)
  | ndimEq (a : String) (n : Nat)           -- `a.ndim == n`
  | sizeZero (a : String)                   -- `a.size == 0`
  | minNeg (a : String)                     -- `a.min() < 0`
  | notAllFinite (a : String)               -- `not np.all(np.isfinite(a))`
  | lenNeNdim (z a : String)                -- `len(z) != a.ndim`
  | rankOutside (r bc : String)             -- `not (0 <= r < np.count_nonzero(bc))`
  | minDimLeMax (o f : String)              -- `np.min(o.shape) <= f.max()`  (the maximum of `f` is `(env f).ival`)
  | lenGeDimAt (w f ax : String)            -- negation of `len(w) < f.shape[ax]`
  | whenArr (x : String) (inner : Atom)     -- `inner`, met only on a path every ndarray `x` takes
deriving Repr, Inhabited

def isArr (d : Desc) : Bool := d.kind == 1
def isInt (d : Desc) : Bool := d.kind == 2
def Desc.size (d : Desc) : Nat := shapeSize d.shape
def Desc.hasNeg (d : Desc) : Bool := d.flags / 16 % 2 == 1
def Desc.hasNonFinite (d : Desc) : Bool := d.flags / 32 % 2 == 1
/-- `PyArray_ISCARRAY`: C-contiguous, writeable, aligned, native byte order -/
def Desc.isCArray (d : Desc) : Bool := d.flags % 8 == 7 && d.flags / 8 % 2 == 0
/-- `PyArray_ISCARRAY_RO`: C-contiguous, aligned, native byte order -/
def Desc.isCArrayRO (d : Desc) : Bool := d.flags % 2 == 1 && d.flags / 4 % 2 == 1 && d.flags / 8 % 2 == 0
def Desc.isContig (d : Desc) : Bool := d.flags % 2 == 1
/-- a descriptor is well formed when its rank is the length of its shape -/
def Desc.wf (d : Desc) : Prop := d.ndim = d.shape.length

/-- does the guard atom raise on these arguments? Atoms about arguments that are not of the expected kind are
    not interpreted (the wrapper converts them first): the model then makes no claim. -/
def Atom.rejects (env : Env) : Atom → Bool
  | .intLt a c => isInt (env a) && decide ((env a).ival < c)
  | .intLe a c => isInt (env a) && decide ((env a).ival ≤ c)
  | .ndimNe a n => isArr (env a) && decide ((env a).ndim ≠ n)
  | .dimNe a ax n => isArr (env a) && decide ((env a).shape.getD ax 0 ≠ n) && decide (ax < (env a).shape.length)
  | .ndimsDiffer a b => isArr (env a) && isArr (env b) && decide ((env a).ndim ≠ (env b).ndim)
  | .shapesDiffer a b => isArr (env a) && isArr (env b) && decide ((env a).shape ≠ (env b).shape)
  | .minDim2LeHalf a s =>
      isArr (env a) && isInt (env s) && decide (2 ≤ (env a).shape.length) &&
      decide ((min ((env a).shape.getD 0 0) ((env a).shape.getD 1 0) : Int) ≤ (env s).ival / 2)
  | .opaque _ => false
  | .ndimEq a n => isArr (env a) && decide ((env a).ndim = n)
  | .sizeZero a => isArr (env a) && decide ((env a).size = 0)
  | .minNeg a => isArr (env a) && (env a).hasNeg
  | .notAllFinite a => (env a).hasNonFinite
  | .lenNeNdim z a => isArr (env z) && isArr (env a) && decide ((env z).ndim = 1) && decide ((env z).shape.getD 0 0 ≠ (env a).ndim)
  | .rankOutside r bc => isInt (env r) && isArr (env bc) && !(decide (0 ≤ (env r).ival) && decide ((env r).ival < ((env bc).nnz : Int)))
  | .minDimLeMax o f => isArr (env o) && isArr (env f) && decide ((env o).shape.length = 2) &&
      decide ((min ((env o).shape.getD 0 0) ((env o).shape.getD 1 0) : Int) ≤ (env f).ival)
  | .lenGeDimAt w f ax =>
      !(isArr (env w) && isArr (env f) && isInt (env ax) && decide (0 ≤ (env ax).ival) &&
        decide ((env ax).ival.toNat < (env f).shape.length) &&
        decide ((env w).shape.getD 0 0 < (env f).shape.getD (env ax).ival.toNat 0))
  | .whenArr x inner => isArr (env x) && inner.rejects env

/-- all guards pass (no atom raises) -/
def passes (gs : List Atom) (env : Env) : Bool := gs.all (fun g => !g.rejects env)

/-- index of the first atom that raises -/
def firstReject (gs : List Atom) (env : Env) : Option Nat :=
  (gs.zipIdx.find? (fun gi => gi.1.rejects env)).map (·.2)

/-! ### native entry points (`py_*`): the tests of `if (…) { PyErr_SetString(…); return NULL; }` at the head of the
function, split at the top-level `||`. Names are the C variables filled by `PyArg_ParseTuple`. The integer type numbers
are numpy's `NPY_TYPES`; `canonT` identifies the numbers `PyArray_EquivTypenums` identifies on LP64 Linux
(`NPY_LONGLONG` = `NPY_LONG`, `NPY_ULONGLONG` = `NPY_ULONG`). -/

inductive NAtom
  | parse (fmt : String)                     -- `!PyArg_ParseTuple(args, fmt, …)` (sets the error itself; not interpreted)
  | notArrays (as : List String)             -- `!numpy::are_arrays(a, b, …)` / `!PyArray_Check(a)`
  | shapesDiffer (a b : String)              -- `!numpy::same_shape(a, b)`
  | typesDiffer (as : List String)           -- `!numpy::equiv_typenums(a, b, …)` (every one against the first)
  | typeNotEquiv (a : String) (t : Nat)      -- `!numpy::check_type<T>(a)` / `!PyArray_EquivTypenums(PyArray_TYPE(a), NPY_X)`
  | typeNe (a : String) (t : Nat)            -- `PyArray_TYPE(a) != NPY_X` (exact number)
  | ndimNe (a : String) (n : Nat)            -- `PyArray_NDIM(a) != n`
  | ndimEq (a : String) (n : Nat)            -- `PyArray_NDIM(a) == n`
  | ndimsDiffer (a b : String)               -- `PyArray_NDIM(a) != PyArray_NDIM(b)`
  | notCArray (a : String)                   -- `!PyArray_ISCARRAY(a)` / `!numpy::is_carray(a)`
  | notCArrayRO (a : String)                 -- `!PyArray_ISCARRAY_RO(a)`
  | notContig (a : String)                   -- `!PyArray_ISCONTIGUOUS(a)`
  | sizeZero (a : String)                    -- `PyArray_SIZE(a) == 0`
  | dimsDiffer (a : String) (i : Nat) (b : String) (j : Nat)   -- `PyArray_DIM(a,i) != PyArray_DIM(b,j)`
  | dimNeNdim (a : String) (i : Nat) (b : String)              -- `PyArray_DIM(a,i) != PyArray_NDIM(b)`
  | dimNe (a : String) (i n : Nat)           -- `PyArray_DIM(a,i) != n`
  | intLt (x : String) (c : Int)             -- `x < c`
  | intLe (x : String) (c : Int)             -- `x <= c`
  | intGt (x : String) (c : Int)             -- `x > c`
  | intGe (x : String) (c : Int)             -- `x >= c`
  | opaque (txt : String)                    -- not interpreted (never rejects in the model)
  | whenArr (x : String) (inner : NAtom)     -- `inner`, on the branch taken exactly when `PyArray_Check(x)`
  | whenNotNone (x : String) (inner : NAtom) -- `inner`, on the branch taken exactly when `x != Py_None`
deriving Repr, Inhabited

def canonT (t : Nat) : Nat := if t == 9 then 7 else if t == 10 then 8 else t

/-- does the native guard atom take the error exit? Atoms after the `are_arrays` test of the same chain dereference
    their arguments as arrays; on a non-array the model makes no claim (the earlier atom has already rejected). -/
def NAtom.rejects (env : Env) : NAtom → Bool
  | .parse _ => false
  | .notArrays as => as.any (fun a => !isArr (env a))
  | .shapesDiffer a b => isArr (env a) && isArr (env b) && decide ((env a).shape ≠ (env b).shape)
  | .typesDiffer as => as.all (fun a => isArr (env a)) &&
      (match as with | [] => false | a :: rest => rest.any (fun b => canonT (env b).tnum != canonT (env a).tnum))
  | .typeNotEquiv a t => isArr (env a) && canonT (env a).tnum != canonT t
  | .typeNe a t => isArr (env a) && (env a).tnum != t
  | .ndimNe a n => isArr (env a) && decide ((env a).ndim ≠ n)
  | .ndimEq a n => isArr (env a) && decide ((env a).ndim = n)
  | .ndimsDiffer a b => isArr (env a) && isArr (env b) && decide ((env a).ndim ≠ (env b).ndim)
  | .notCArray a => isArr (env a) && !(env a).isCArray
  | .notCArrayRO a => isArr (env a) && !(env a).isCArrayRO
  | .notContig a => isArr (env a) && !(env a).isContig
  | .sizeZero a => isArr (env a) && decide ((env a).size = 0)
  | .dimsDiffer a i b j => isArr (env a) && isArr (env b) && decide (i < (env a).shape.length) && decide (j < (env b).shape.length) &&
      decide ((env a).shape.getD i 0 ≠ (env b).shape.getD j 0)
  | .dimNeNdim a i b => isArr (env a) && isArr (env b) && decide (i < (env a).shape.length) && decide ((env a).shape.getD i 0 ≠ (env b).ndim)
  | .dimNe a i n => isArr (env a) && decide (i < (env a).shape.length) && decide ((env a).shape.getD i 0 ≠ n)
  | .intLt x c => isInt (env x) && decide ((env x).ival < c)
  | .intLe x c => isInt (env x) && decide ((env x).ival ≤ c)
  | .intGt x c => isInt (env x) && decide ((env x).ival > c)
  | .intGe x c => isInt (env x) && decide ((env x).ival ≥ c)
  | .opaque _ => false
  | .whenArr x inner => isArr (env x) && inner.rejects env
  | .whenNotNone x inner => (env x).kind != 0 && inner.rejects env

/-- no native guard takes its exit -/
def npasses (gs : List NAtom) (env : Env) : Bool := gs.all (fun g => !g.rejects env)

def nfirstReject (gs : List NAtom) (env : Env) : Option Nat :=
  (gs.zipIdx.find? (fun gi => gi.1.rejects env)).map (·.2)

/-! ### what a guard does when its test holds (T3) -/
/-- 0 `raise` (Python); 1 sets a Python error (`PyErr_SetString`/`PyErr_NoMemory`/`PyErr_Format`/`throw PythonException`)
    and returns NULL; 2 `!PyArg_ParseTuple` (sets the error itself) and returns NULL; 3 returns NULL/0 WITHOUT setting an
    error (CPython turns it into `SystemError: NULL result without error`); 4 returns a value (an early successful exit:
    the kernel is not reached; not an exception). -/
def actionIsException (a : Nat) : Bool := a == 0 || a == 1 || a == 2
def actionIsEarlyReturn (a : Nat) : Bool := a == 4

end Mahotas.C11
