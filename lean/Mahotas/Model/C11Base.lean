/-
C11 — argument descriptors and the guard DSL (import-free; shared by Generated/Guards.lean and Model/C11.lean).

A descriptor abstracts one actual argument of a call: what kind of object it is, and for arrays the rank, shape,
dtype class and flags, for integers the value. A guard atom is one disjunct of an `if … : raise` test of a Python
wrapper (or of a native `if (…) { PyErr…; return NULL; }`), as extracted by translator/guards.py.
-/
import Mahotas.Model.Basic
namespace Mahotas.C11
open Mahotas

/-- kind: 0 None, 1 ndarray, 2 integer (bool/int), 3 anything else.
    dcls: 0 other, 1 bool, 2 integer, 3 float32/64/128, 4 float16. flags: bit0 C-contiguous, bit1 writeable, bit2 aligned,
    bit3 byte-swapped (not native byte order), bit4 some element is negative, bit5 some element is not finite.
    ival: the value of an integer; for an array of integers its largest element (0 when empty or not integer).
    tnum: numpy type number (`PyArray_TYPE`, `dtype.num`) of an array; nnz: number of non-zero elements of an array. -/
structure Desc where
  kind  : Nat := 0
  ndim  : Nat := 0
  dcls  : Nat := 0
  flags : Nat := 0
  ival  : Int := 0
  shape : List Nat := []
  tnum  : Nat := 0
  nnz   : Nat := 0
deriving Repr, Inhabited, DecidableEq

abbrev Env := String → Desc

inductive Atom
  | intLt (a : String) (c : Int)            -- `a < c`
  | intLe (a : String) (c : Int)            -- `a <= c`
  | ndimNe (a : String) (n : Nat)           -- `a.ndim != n`
  | dimNe (a : String) (axis n : Nat)       -- `a.shape[axis] != n`
  | ndimsDiffer (a b : String)              -- `a.ndim != b.ndim`
  | shapesDiffer (a b : String)             -- `a.shape != b.shape`
  | minDim2LeHalf (a s : String)            -- `min(a.shape[:2]) <= s // 2`
  | opaque (txt : String)                   -- a test the DSL does not interpret (never rejects in the model)
  | ndimEq (a : String) (n : Nat)           -- `a.ndim == n`
  | sizeZero (a : String)                   -- `a.size == 0`
  | minNeg (a : String)                     -- `a.min() < 0`
  | notAllFinite (a : String)               -- `not np.all(np.isfinite(a))`
  | lenNeNdim (z a : String)                -- `len(z) != a.ndim`
  | rankOutside (r bc : String)             -- `not (0 <= r < np.count_nonzero(bc))`
  | minDimLeMax (o f : String)              -- `np.min(o.shape) <= f.max()`  (the maximum of `f` is `(env f).ival`)
  | lenGeDimAt (w f ax : String)            -- negation of `len(w) < f.shape[ax]`
  | whenArr (x : String) (inner : Atom)     -- `inner`, met only on a path every ndarray `x` takes
  | intGe (a : String) (c : Int)            -- `a >= c`
deriving Repr, Inhabited

def isArr (d : Desc) : Bool := d.kind == 1
def isInt (d : Desc) : Bool := d.kind == 2
def Desc.size (d : Desc) : Nat := shapeSize d.shape
def Desc.hasNeg (d : Desc) : Bool := d.flags / 16 % 2 == 1
def Desc.hasNonFinite (d : Desc) : Bool := d.flags / 32 % 2 == 1
/-- `PyArray_ISCARRAY`: C-contiguous, writeable, aligned, native byte order -/
def Desc.isCArray (d : Desc) : Bool := d.flags % 8 == 7 && d.flags / 8 % 2 == 0
/-- `PyArray_ISCARRAY_RO`: C-contiguous, aligned, native byte order -/
def Desc.isCArrayRO (d : Desc) : Bool := d.flags % 2 == 1 && d.flags / 4 % 2 == 1 && d.flags / 8 % 2 == 0
def Desc.isContig (d : Desc) : Bool := d.flags % 2 == 1
/-- a descriptor is well formed when its rank is the length of its shape -/
def Desc.wf (d : Desc) : Prop := d.ndim = d.shape.length

/-- does the guard atom raise on these arguments? Atoms about arguments that are not of the expected kind are
    not interpreted (the wrapper converts them first): the model then makes no claim. -/
def Atom.rejects (env : Env) : Atom → Bool
  | .intLt a c => isInt (env a) && decide ((env a).ival < c)
  | .intLe a c => isInt (env a) && decide ((env a).ival ≤ c)
  | .ndimNe a n => isArr (env a) && decide ((env a).ndim ≠ n)
  | .dimNe a ax n => isArr (env a) && decide ((env a).shape.getD ax 0 ≠ n) && decide (ax < (env a).shape.length)
  | .ndimsDiffer a b => isArr (env a) && isArr (env b) && decide ((env a).ndim ≠ (env b).ndim)
  | .shapesDiffer a b => isArr (env a) && isArr (env b) && decide ((env a).shape ≠ (env b).shape)
  | .minDim2LeHalf a s =>
      isArr (env a) && isInt (env s) && decide (2 ≤ (env a).shape.length) &&
      decide ((min ((env a).shape.getD 0 0) ((env a).shape.getD 1 0) : Int) ≤ (env s).ival / 2)
  | .opaque _ => false
  | .ndimEq a n => isArr (env a) && decide ((env a).ndim = n)
  | .sizeZero a => isArr (env a) && decide ((env a).size = 0)
  | .minNeg a => isArr (env a) && (env a).hasNeg
  | .notAllFinite a => (env a).hasNonFinite
  | .lenNeNdim z a => isArr (env z) && isArr (env a) && decide ((env z).ndim = 1) && decide ((env z).shape.getD 0 0 ≠ (env a).ndim)
  | .rankOutside r bc => isInt (env r) && isArr (env bc) && !(decide (0 ≤ (env r).ival) && decide ((env r).ival < ((env bc).nnz : Int)))
  | .minDimLeMax o f => isArr (env o) && isArr (env f) && decide ((env o).shape.length = 2) &&
      decide ((min ((env o).shape.getD 0 0) ((env o).shape.getD 1 0) : Int) ≤ (env f).ival)
  | .lenGeDimAt w f ax =>
      !(isArr (env w) && isArr (env f) && isInt (env ax) && decide (0 ≤ (env ax).ival) &&
        decide ((env ax).ival.toNat < (env f).shape.length) &&
        decide ((env w).shape.getD 0 0 < (env f).shape.getD (env ax).ival.toNat 0))
  | .whenArr x inner => isArr (env x) && inner.rejects env
  | .intGe a c => isInt (env a) && decide ((env a).ival ≥ c)

/-- all guards pass (no atom raises) -/
def passes (gs : List Atom) (env : Env) : Bool := gs.all (fun g => !g.rejects env)

/-- index of the first atom that raises -/
def firstReject (gs : List Atom) (env : Env) : Option Nat :=
  (gs.zipIdx.find? (fun gi => gi.1.rejects env)).map (·.2)

/-! ### native entry points (`py_*`): the tests of `if (…) { PyErr_SetString(…); return NULL; }` at the head of the
function, split at the top-level `||`. Names are the C variables filled by `PyArg_ParseTuple`. The integer type numbers
are numpy's `NPY_TYPES`; `canonT` identifies the numbers `PyArray_EquivTypenums` identifies on LP64 Linux
(`NPY_LONGLONG` = `NPY_LONG`, `NPY_ULONGLONG` = `NPY_ULONG`). -/

inductive NAtom
  | parse (fmt : String)                     -- `!PyArg_ParseTuple(args, fmt, …)` (sets the error itself; not interpreted)
  | notArrays (as : List String)             -- `!numpy::are_arrays(a, b, …)` / `!PyArray_Check(a)`
  | shapesDiffer (a b : String)              -- `!numpy::same_shape(a, b)`
  | typesDiffer (as : List String)           -- `!numpy::equiv_typenums(a, b, …)` (every one against the first)
  | typeNotEquiv (a : String) (t : Nat)      -- `!numpy::check_type<T>(a)` / `!PyArray_EquivTypenums(PyArray_TYPE(a), NPY_X)`
  | typeNe (a : String) (t : Nat)            -- `PyArray_TYPE(a) != NPY_X` (exact number)
  | ndimNe (a : String) (n : Nat)            -- `PyArray_NDIM(a) != n`
  | ndimEq (a : String) (n : Nat)            -- `PyArray_NDIM(a) == n`
  | ndimsDiffer (a b : String)               -- `PyArray_NDIM(a) != PyArray_NDIM(b)`
  | notCArray (a : String)                   -- `!PyArray_ISCARRAY(a)` / `!numpy::is_carray(a)`
  | notCArrayRO (a : String)                 -- `!PyArray_ISCARRAY_RO(a)`
  | notContig (a : String)                   -- `!PyArray_ISCONTIGUOUS(a)`
  | sizeZero (a : String)                    -- `PyArray_SIZE(a) == 0`
  | dimsDiffer (a : String) (i : Nat) (b : String) (j : Nat)   -- `PyArray_DIM(a,i) != PyArray_DIM(b,j)`
  | dimNeNdim (a : String) (i : Nat) (b : String)              -- `PyArray_DIM(a,i) != PyArray_NDIM(b)`
  | dimNe (a : String) (i n : Nat)           -- `PyArray_DIM(a,i) != n`
  | intLt (x : String) (c : Int)             -- `x < c`
  | intLe (x : String) (c : Int)             -- `x <= c`
  | intGt (x : String) (c : Int)             -- `x > c`
  | intGe (x : String) (c : Int)             -- `x >= c`
  | opaque (txt : String)                    -- not interpreted (never rejects in the model)
  | whenArr (x : String) (inner : NAtom)     -- `inner`, on the branch taken exactly when `PyArray_Check(x)`
  | whenNotNone (x : String) (inner : NAtom) -- `inner`, on the branch taken exactly when `x != Py_None`
deriving Repr, Inhabited

def canonT (t : Nat) : Nat := if t == 9 then 7 else if t == 10 then 8 else t

/-- does the native guard atom take the error exit? Atoms after the `are_arrays` test of the same chain dereference
    their arguments as arrays; on a non-array the model makes no claim (the earlier atom has already rejected). -/
def NAtom.rejects (env : Env) : NAtom → Bool
  | .parse _ => false
  | .notArrays as => as.any (fun a => !isArr (env a))
  | .shapesDiffer a b => isArr (env a) && isArr (env b) && decide ((env a).shape ≠ (env b).shape)
  | .typesDiffer as => as.all (fun a => isArr (env a)) &&
      (match as with | [] => false | a :: rest => rest.any (fun b => canonT (env b).tnum != canonT (env a).tnum))
  | .typeNotEquiv a t => isArr (env a) && canonT (env a).tnum != canonT t
  | .typeNe a t => isArr (env a) && (env a).tnum != t
  | .ndimNe a n => isArr (env a) && decide ((env a).ndim ≠ n)
  | .ndimEq a n => isArr (env a) && decide ((env a).ndim = n)
  | .ndimsDiffer a b => isArr (env a) && isArr (env b) && decide ((env a).ndim ≠ (env b).ndim)
  | .notCArray a => isArr (env a) && !(env a).isCArray
  | .notCArrayRO a => isArr (env a) && !(env a).isCArrayRO
  | .notContig a => isArr (env a) && !(env a).isContig
  | .sizeZero a => isArr (env a) && decide ((env a).size = 0)
  | .dimsDiffer a i b j => isArr (env a) && isArr (env b) && decide (i < (env a).shape.length) && decide (j < (env b).shape.length) &&
      decide ((env a).shape.getD i 0 ≠ (env b).shape.getD j 0)
  | .dimNeNdim a i b => isArr (env a) && isArr (env b) && decide (i < (env a).shape.length) && decide ((env a).shape.getD i 0 ≠ (env b).ndim)
  | .dimNe a i n => isArr (env a) && decide (i < (env a).shape.length) && decide ((env a).shape.getD i 0 ≠ n)
  | .intLt x c => isInt (env x) && decide ((env x).ival < c)
  | .intLe x c => isInt (env x) && decide ((env x).ival ≤ c)
  | .intGt x c => isInt (env x) && decide ((env x).ival > c)
  | .intGe x c => isInt (env x) && decide ((env x).ival ≥ c)
  | .opaque _ => false
  | .whenArr x inner => isArr (env x) && inner.rejects env
  | .whenNotNone x inner => (env x).kind != 0 && inner.rejects env

/-- no native guard takes its exit -/
def npasses (gs : List NAtom) (env : Env) : Bool := gs.all (fun g => !g.rejects env)

def nfirstReject (gs : List NAtom) (env : Env) : Option Nat :=
  (gs.zipIdx.find? (fun gi => gi.1.rejects env)).map (·.2)

/-! ### what a guard does when its test holds (T3) -/
/-- 0 `raise` (Python); 1 sets a Python error (`PyErr_SetString`/`PyErr_NoMemory`/`PyErr_Format`/`throw PythonException`)
    and returns NULL; 2 `!PyArg_ParseTuple` (sets the error itself) and returns NULL; 3 returns NULL/0 WITHOUT setting an
    error (CPython turns it into `SystemError: NULL result without error`); 4 returns a value (an early successful exit:
    the kernel is not reached; not an exception). -/
def actionIsException (a : Nat) : Bool := a == 0 || a == 1 || a == 2
def actionIsEarlyReturn (a : Nat) : Bool := a == 4

/-! ### wrapper → native argument links (round 3; extracted by translator/links.py into `Generated.argLinkTable`)

What a Python wrapper passes for one parameter of a native entry point, relative to the wrapper's OWN parameters (the
caller's arguments). `Link.holds` is the meaning of each class: what is known about the descriptor `d` of the object the
native entry point receives, given the descriptors `envW` of the caller's arguments. The meanings of the conversion
classes are facts about numpy (`astype`, `np.asarray`, `np.asanyarray`, `np.array` without `ndmin`, `np.require`, `.copy`
keep rank and shape; `np.ascontiguousarray`/`np.asfortranarray` keep them for rank ≥ 1; `.view(dtype)` keeps the rank) and
about two helpers (`_get_output`: the given `out`, checked to have the shape of the reference array and to be
contiguous, else `np.empty(shape, dtype)`; `get_structuring_elem`: an ndarray of the rank of the reference array with at
least one element). They are tied to the real code by the `links` cases of harness/props/c11.py, which capture the
arguments the real wrappers hand to the entry points. -/

inductive Link
  | pass (p : String)              -- the caller's argument itself, not stored into before the call
  | norm (p : String)              -- a conversion/copy of it (or the object itself after a store) with the same rank and shape
  | norm1 (p : String)             -- `np.ascontiguousarray`/`np.asfortranarray`: the same shape for rank ≥ 1
  | view (p : String)              -- `.view(dtype)` (possibly after conversions): the same rank
  | output (like out : String)     -- `_get_output(X, out, …)`, X a pass/norm of `like`
  | fresh (like : String)          -- `np.empty/zeros(X.shape, …)`, `np.empty_like/zeros_like(X)`
  | structElem (a bc : String)     -- `get_structuring_elem(X, bc)`, X of the shape of `a`
  | const (v : Int)                -- an integer / Boolean literal
  | noneLit                        -- the literal `None`
  | intOf (p : String)             -- `int(p)`
  | lookup (table p : String)      -- `table[p]` for a module-level dictionary of integers (`mode2int[mode]`)
  | zeroFrame (r c : String)       -- `np.zeros((r + 2, c + 2), bool)` into which only `[1:r + 1, 1:c + 1]` has been stored
  | other (txt : String)           -- anything else: nothing is known
deriving Repr, Inhabited, DecidableEq

/-- the meaning of a link (decidable, so that the driver can evaluate it on the descriptors of real arguments) -/
def Link.holds (tables : List (String × List Int)) (envW : Env) (d : Desc) : Link → Bool
  | .pass p => decide (d = envW p)
  | .norm p => !isArr (envW p) || (isArr d && decide (d.ndim = (envW p).ndim) && decide (d.shape = (envW p).shape))
  | .norm1 p => !isArr (envW p) ||
      (isArr d && (!decide (1 ≤ (envW p).ndim) || (decide (d.ndim = (envW p).ndim) && decide (d.shape = (envW p).shape))))
  | .view p => !isArr (envW p) || (isArr d && decide (d.ndim = (envW p).ndim))
  | .output l _ => !isArr (envW l) ||
      (isArr d && decide (d.ndim = (envW l).ndim) && decide (d.shape = (envW l).shape) && d.isContig)
  | .fresh l => !isArr (envW l) ||
      (isArr d && decide (d.ndim = (envW l).ndim) && decide (d.shape = (envW l).shape) && d.isCArray)
  | .structElem a _ => !isArr (envW a) ||
      (isArr d && decide (d.ndim = (envW a).ndim) && decide (d.ndim = d.shape.length) && decide (0 < d.size))
  | .const v => isInt d && decide (d.ival = v)
  | .noneLit => d.kind == 0
  | .intOf p => !isInt (envW p) || (isInt d && decide (d.ival = (envW p).ival))
  | .lookup t _ => isInt d && tables.any (fun e => e.1 == t && e.2.contains d.ival)
  | .zeroFrame _ _ => isArr d && decide (d.ndim = 2) && decide (d.shape.length = 2) &&
      decide (2 ≤ d.shape.getD 0 0) && decide (2 ≤ d.shape.getD 1 0)
  | .other _ => true

/-- the native environment `envN` is linked to the wrapper environment `envW` by the extracted links of one call site -/
def Linked (tables : List (String × List Int)) (links : List (String × Link)) (envW envN : Env) : Bool :=
  links.all fun pl => pl.2.holds tables envW (envN pl.1)

/-- index of the first native parameter whose link does not hold -/
def firstUnlinked (tables : List (String × List Int)) (links : List (String × Link)) (envW envN : Env) : Option Nat :=
  (links.zipIdx.find? (fun pl => !pl.1.2.holds tables envW (envN pl.1.1))).map (·.2)

/-- a value a guard helper has checked (its parameter `h`, descriptor in `envH`) reaches the native parameter `n`
    (descriptor in `envN`): kind 0 the very object, kind 1 `int(·)` of it -/
def flowHolds (envH envN : Env) (f : String × String × Nat) : Bool :=
  if f.2.2 == 0 then decide (envN f.2.1 = envH f.1)
  else !isInt (envH f.1) || (isInt (envN f.2.1) && decide ((envN f.2.1).ival = (envH f.1).ival))

def Flows (flows : List (String × String × Nat)) (envH envN : Env) : Bool := flows.all (flowHolds envH envN)

end Mahotas.C11
