/-
C12 — executable model: threads as lists of atomic steps over a memory `Loc → Val`
(interleaving semantics), the control skeletons of the three GIL-release idioms of the code
base as event traces, and the checker for the lock discipline.

Import-free (only `Mahotas.Model.Basic`): linked into the native driver.
-/
import Mahotas.Model.Basic
namespace Mahotas.C12
open Mahotas

/-! ## Part 1 — memory, steps, schedules -/

/-- classification of memory: `sharedRO` = input arrays several calls read (never written),
`priv t` = everything call/thread `t` owns (its outputs, queues, offset tables, PRNG state, locals),
`interp` = interpreter state (reference counts, error indicator, allocator) — touched only
while holding the interpreter lock, never by a kernel step. -/
inductive Region where
  | sharedRO
  | priv (t : Nat)
  | interp
  deriving DecidableEq, Repr

structure Loc where
  region : Region
  idx : Nat
  deriving DecidableEq, Repr

abbrev Val := Int
/-- the memory: a total function from locations to values. It is wrapped in a structure only so that
the compiled driver evaluates a memory update when the step runs (a bare function type would make
`Step.exec s m` a partial application that is re-run at every later read). -/
structure Mem where
  get : Loc → Val

instance : CoeFun Mem (fun _ => Loc → Val) := ⟨Mem.get⟩

/-- one atomic step of a kernel: `dst := op (values at srcs)`. The result depends on the memory
only through `srcs` and only `dst` changes — by construction. `op` is an arbitrary function. -/
structure Step where
  dst : Loc
  srcs : List Loc
  op : List Val → Val

/-- memory update `m[l := v]` -/
def Mem.set (m : Mem) (l : Loc) (v : Val) : Mem := ⟨fun x => if x = l then v else m.get x⟩

theorem Mem.set_apply (m : Mem) (l : Loc) (v : Val) (x : Loc) :
    (m.set l v).get x = if x = l then v else m.get x := rfl

def Step.exec (s : Step) (m : Mem) : Mem := m.set s.dst (s.op (s.srcs.map m.get))

/-- thread id ↦ its program (threads without a program have the empty list) -/
abbrev Progs := Nat → List Step

/-- global state of the interleaved execution: a program counter per thread and the memory -/
structure State where
  pc : Nat → Nat
  mem : Mem

def init (m : Mem) : State := ⟨fun _ => 0, m⟩

/-- the scheduler picks thread `t`: it executes its next pending step (nothing if it has finished) -/
def stepThread (progs : Progs) (t : Nat) (s : State) : State :=
  match (progs t)[s.pc t]? with
  | none => s
  | some st => { pc := fun u => if u = t then s.pc t + 1 else s.pc u, mem := st.exec s.mem }

/-- run a schedule (list of thread ids, any length, any order) -/
def run (progs : Progs) : List Nat → State → State
  | [], s => s
  | t :: sched, s => run progs sched (stepThread progs t s)

/-- thread `t` alone, scheduled `k` times, from memory `m` -/
def soloSteps (progs : Progs) (t k : Nat) (m : Mem) : State :=
  run progs (List.replicate k t) (init m)

/-- thread `t` alone to completion -/
def solo (progs : Progs) (t : Nat) (m : Mem) : Mem :=
  (soloSteps progs t (progs t).length m).mem

/-- the confinement discipline for one step of thread `t`: writes go to `priv t`,
reads come from `priv t` or from shared read-only memory -/
def Step.Confined (t : Nat) (s : Step) : Prop :=
  s.dst.region = .priv t ∧ ∀ l ∈ s.srcs, l.region = .priv t ∨ l.region = .sharedRO

def Confined (progs : Progs) : Prop := ∀ t, ∀ s ∈ progs t, s.Confined t

/-- a schedule is complete when every thread gets at least as many turns as it has steps -/
def Complete (progs : Progs) (sched : List Nat) : Prop := ∀ t, (progs t).length ≤ sched.count t

/-- executable version of `Step.Confined` -/
def Step.confinedB (t : Nat) (s : Step) : Bool :=
  decide (s.dst.region = .priv t) &&
    s.srcs.all (fun l => decide (l.region = .priv t) || decide (l.region = .sharedRO))

/-! ## Part 2 — control skeletons of a native call and the lock discipline -/

/-- observable events of one native call, as far as the interpreter lock is concerned -/
inductive Ev where
  | validate      -- argument parsing and checks (touch Python objects)
  | release       -- PyEval_SaveThread (constructor of `gil_release`)
  | kernelStep    -- pure C++ work on the arrays
  | throw         -- a C++ exception (PythonException / std::bad_alloc) leaves the kernel
  | acquire       -- PyEval_RestoreThread (destructor of `gil_release`, or `restore()`)
  | interpAccess  -- PyErr_*, allocation of the result, reference counts, building the return value
  | ret           -- the entry point returns to the interpreter
  deriving DecidableEq, Repr

/-- how control leaves a region of C++ code -/
inductive Exit where
  | normal | thrown | returned
  deriving DecidableEq, Repr

/-- a region of code that has run: the events it emitted, how it was left, and whether a
`gil_release` object declared in the enclosing scope is still active (`restore()` clears it) -/
structure Region.Out where
  evs : List Ev
  exit : Exit
  active : Bool

/-- what the kernel does: `finish` = all `n` steps; `throwAt k` = a C++ exception after `k` steps;
`errorAt k` = an error *detected by the code itself* after `k` steps, handled in place
(`nogil.restore(); PyErr_Format(...); return NULL;` — only idiom (b) has such a path) -/
inductive Outcome where
  | finish
  | throwAt (k : Nat)
  | errorAt (k : Nat)
  deriving DecidableEq, Repr

def steps (k : Nat) : List Ev := List.replicate k .kernelStep

/-- the body of a kernel with `n` steps; `wrap` = an array wrapper (`numpy::aligned_array`) is
constructed *inside* the released region, which touches the reference count of the array
(an interpreter access) at the beginning and at the end of its life time -/
def kernelBody (n : Nat) (wrap : Bool) : Outcome → Region.Out
  | .finish => ⟨(if wrap then [.interpAccess] else []) ++ steps n ++ (if wrap then [.interpAccess] else []),
                .normal, true⟩
  | .throwAt k => ⟨(if wrap then [.interpAccess] else []) ++ steps (min k n) ++ [.throw] ++
                    (if wrap then [.interpAccess] else []), .thrown, true⟩
  | .errorAt k => ⟨(if wrap then [.interpAccess] else []) ++ steps (min k n) ++
                    [.acquire, .interpAccess] ++ (if wrap then [.interpAccess] else []), .returned, false⟩

/-- a C++ scope whose first declaration is `gil_release nogil;`: the constructor releases the
lock, the body runs, and however control leaves the scope (falling through, `return`, exception
unwinding) the destructor runs and re-acquires iff the object is still active -/
def gilScope (body : Region.Out) : Region.Out :=
  ⟨[.release] ++ body.evs ++ (if body.active then [.acquire] else []), body.exit, false⟩

/-- `try { body } catch (...) { handler; return NULL; }` — the handler runs after unwinding -/
def tryCatchRegion (body : Region.Out) (handler : List Ev) : Region.Out :=
  match body.exit with
  | .thrown => ⟨body.evs ++ handler, .returned, body.active⟩
  | _ => body

/-- the rest of the entry point after a region: `rest` runs only when the region was left normally;
a `return` inside the region returns to the interpreter; an uncaught exception leaves the entry point
without returning -/
def andThen (r : Region.Out) (rest : List Ev) : List Ev :=
  match r.exit with
  | .normal => r.evs ++ rest
  | .returned => r.evs ++ [.ret]
  | .thrown => r.evs

/-- the three idioms.
 (a) `py_f` validates, then `SAFE_SWITCH_ON_TYPES_OF` = `try { kernel<T>(…) } CATCH_PYTHON_EXCEPTIONS`;
     the template kernel's first statement is `gil_release nogil;`.
 (b) `py_f` validates, then `{ gil_release nogil; … }` with `nogil.restore()` before `PyErr_*` on the
     error path; no handler (a C++ exception would leave the entry point).
 (c) `try { gil_release nogil; … } catch (const std::bad_alloc&) { PyErr_NoMemory(); return NULL; }`. -/
inductive Idiom where
  | a | b | c
  deriving DecidableEq, Repr

def skeleton (i : Idiom) (n : Nat) (wrap : Bool) (o : Outcome) : List Ev :=
  let body := gilScope (kernelBody n wrap o)
  let guarded := match i with
    | .a => tryCatchRegion body [.interpAccess]
    | .b => body
    | .c => tryCatchRegion body [.interpAccess]
  .validate :: andThen guarded [.interpAccess, .ret]

/-- the path on which validation fails: `PyErr_SetString(...); return NULL;` before any release -/
def skeletonInvalid : List Ev := [.validate, .interpAccess, .ret]

/-- which outcomes an idiom's code can exhibit -/
def Outcome.possible : Idiom → Outcome → Bool
  | _, .finish => true
  | .a, .throwAt _ => true
  | .c, .throwAt _ => true
  | .b, .errorAt _ => true
  | _, _ => false

/-- is the lock held after the events `tr`, starting from `held`? -/
def heldAfter : Bool → List Ev → Bool
  | h, [] => h
  | _, .release :: r => heldAfter false r
  | _, .acquire :: r => heldAfter true r
  | h, _ :: r => heldAfter h r

/-- the discipline, as a checker run along the trace (`held` = lock state before the first event):
`release` only while holding, `acquire` only while not holding (strict alternation),
`validate`, `interpAccess` and `ret` only while holding, `ret` is the last event, and the trace ends
with a `ret` (so the call returns, holding the lock). -/
def disciplined : Bool → List Ev → Bool
  | _, [] => false
  | h, [.ret] => h
  | h, .ret :: _ => h && false
  | h, .release :: r => h && disciplined false r
  | h, .acquire :: r => !h && disciplined true r
  | h, .validate :: r => h && disciplined h r
  | h, .interpAccess :: r => h && disciplined h r
  | h, .kernelStep :: r => disciplined h r
  | h, .throw :: r => disciplined h r

/-! ## Part 3 — protocol -/

def Ev.code : Ev → String
  | .validate => "v" | .release => "r" | .kernelStep => "k" | .throw => "t"
  | .acquire => "a" | .interpAccess => "i" | .ret => "x"

def showTrace (tr : List Ev) : String := ",".intercalate (tr.map Ev.code)

/-- operations available to generated programs (the theorems hold for every function) -/
def opOf (code : Int) (c : Int) : List Val → Val :=
  match code with
  | 0 => fun vs => vs.foldl (· + ·) c                  -- sum + c
  | 1 => fun vs => vs.foldl (fun a b => if a < b then b else a) c   -- max
  | 2 => fun vs => vs.foldl (fun a b => (a * 31 + b) % 1000003) c   -- hash chain (order sensitive)
  | _ => fun _ => c                                    -- constant

def regionOf (code : Int) : Region :=
  if code < 0 then (if code = -1 then .sharedRO else .interp) else .priv code.toNat

/-- decode a flat list of integers into programs:
    `nsteps, (thread, dstRegion, dstIdx, opcode, const, nsrc, (srcRegion, srcIdx)*)*` -/
def decodePairs : List Int → List Loc
  | r :: i :: more => ⟨regionOf r, i.toNat⟩ :: decodePairs more
  | _ => []

def decodeStepsAux : Nat → List Int → List (Nat × Step)
  | 0, _ => []
  | fuel + 1, t :: dr :: di :: oc :: c :: ns :: rest =>
    let k := ns.toNat
    (t.toNat, ⟨⟨regionOf dr, di.toNat⟩, decodePairs (rest.take (2 * k)), opOf oc c⟩) ::
      decodeStepsAux fuel (rest.drop (2 * k))
  | _, _ => []

def decodeSteps (xs : List Int) : List (Nat × Step) := decodeStepsAux xs.length xs

def progsOf (steps : List (Nat × Step)) : Progs :=
  fun t => (steps.filter (fun p => p.1 == t)).map (·.2)

/-- initial memory of generated cases: a fixed mixing function of the location -/
def initMem (seed : Int) : Mem := ⟨fun l =>
  let r : Int := match l.region with
    | .sharedRO => 1 | .interp => 2 | .priv t => 3 + t
  (seed * 7919 + r * 104729 + (l.idx : Int) * 1299709) % 1000⟩

def dumpPriv (m : Mem) (nthreads nloc : Nat) : List Int :=
  (List.range nthreads).flatMap fun t => (List.range nloc).map fun i => m ⟨.priv t, i⟩

def dumpShared (m : Mem) (nloc : Nat) : List Int :=
  (List.range nloc).map fun i => m ⟨.sharedRO, i⟩

def outcomeOf (a : Args) : Outcome :=
  let k := a.int "throwat" (-1)
  let e := a.int "errat" (-1)
  if 0 ≤ k then .throwAt k.toNat else if 0 ≤ e then .errorAt e.toNat else .finish

def idiomOf (s : String) : Idiom :=
  if s == "b" then .b else if s == "c" then .c else .a

def handle (a : Args) : String :=
  match a.str "kind" with
  | "sched" =>
    let nth := a.nat "nthreads"
    let nloc := a.nat "nloc"
    let st := decodeSteps (a.ints "progs")
    let progs := progsOf st
    let m0 := initMem (a.int "seed")
    let sched := a.nats "sched"
    let fin := run progs sched (init m0)
    let inter := dumpPriv fin.mem nth nloc
    -- thread t alone, scheduled as often as in `sched`
    let soloM := (List.range nth).flatMap fun t =>
      let s := soloSteps progs t (sched.count t) m0
      (List.range nloc).map fun i => s.mem ⟨.priv t, i⟩
    let conf := (List.range nth).all fun t => (progs t).all (Step.confinedB t)
    let compl := (List.range nth).all fun t => decide ((progs t).length ≤ sched.count t)
    let sharedSame := dumpShared fin.mem nloc == dumpShared m0 nloc
    s!"inter={showInts inter} solo={showInts soloM} equal={if inter == soloM then 1 else 0} " ++
    s!"confined={if conf then 1 else 0} complete={if compl then 1 else 0} " ++
    s!"shared={showInts (dumpShared fin.mem nloc)} sharedsame={if sharedSame then 1 else 0} " ++
    s!"pcs={showNats ((List.range nth).map fin.pc)}"
  | "skeleton" =>
    let i := idiomOf (a.str "idiom")
    let o := outcomeOf a
    let tr := if a.nat "invalid" == 1 then skeletonInvalid
              else skeleton i (a.nat "steps") (a.nat "wrap" == 1) o
    s!"trace={showTrace tr} ok={if disciplined true tr then 1 else 0} " ++
    s!"possible={if Outcome.possible i o then 1 else 0} held={if heldAfter true tr then 1 else 0}"
  | k => s!"error=unknown-kind-{k}"

end Mahotas.C12
