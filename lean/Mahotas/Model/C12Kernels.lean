/-
C12 (T4) — address-level access programs of the kernels, compiled into the thread programs of
`Model/C12.lean`.

Vocabulary.  An *array id* is a `Nat`; a kernel location `KLoc` is (array id, element offset : Int)
— the offsets are the addresses of the C08 accessor layer (`C08.View.addr`, the iterator's `data_`,
`at_flat`).  A `Call` names the arrays a native call may only READ (`inputs`: the numpy arguments)
and the arrays it OWNS (`outputs`: its result buffer(s) and every heap temporary / local: copied
filter, offset tables, priority queue, status array, union-find parents living in the result
buffer, `std::map seen`, registers).  A kernel is written ONCE as a *role-level* program
(`List RStep`): every step `own d [doff] := op (values at srcs)` names its destination by an index
into the call's OWNED arrays and its sources by `Role.inp i` / `Role.own i`.  `mkStep call`
resolves the roles to array ids; `compile` maps (array id, offset) injectively into `Loc`
(arrays owned by call `t` ↦ `Region.priv t`, all other arrays ↦ `Region.sharedRO`).

The five generators follow the existing models: `C08.Iter`/`C08.View.addr`/`C08.View.atFlat`
addresses, `fixPos` neighbour positions, `C01.support`, `C06.support`, `C03.find/join/scanPixel`,
`C04.modelVisit/extractMin/nbCheck`, `C08.readIter` labels.  erode / convolve / labeled fold are
REAL step programs (`op` computes the kernel's value from the values read; tied to
`C01.erodeModel`, `C06.convAcc`, `C08.labeledFoldView` in `Proofs/C12Kernels.lean`), and so is label
(addresses generated along the union-find run, values computed from the values read; tied to
`C03.labelModel` in `Proofs/C12Label.lean`) and cwatershed (addresses generated along the run of
`C04.modelRun`; the values stored into `res` are copies of values read, those stored into `status` /
`lines` are the constants the C++ stores; tied to `C04.cwatershedModel` in `Proofs/C12Cwatershed.lean`).

Import-free (only `Mahotas.Model.*`).
-/
import Mahotas.Model.C12
import Mahotas.Model.C08Base
import Mahotas.Model.C01
import Mahotas.Model.C06
import Mahotas.Model.C03
import Mahotas.Model.C04
namespace Mahotas.C12
open Mahotas

/-! ## vocabulary -/

/-- a kernel-level location: element `off` of array `arr` -/
structure KLoc where
  arr : Nat
  off : Int
  deriving DecidableEq, Repr

/-- one access step of a kernel at array level: `dst := op (values at srcs)` -/
structure KStep where
  dst : KLoc
  srcs : List KLoc
  op : List Val → Val

/-- the footprint a native call is allowed: arrays it may read, arrays it owns -/
structure Call where
  inputs : List Nat
  outputs : List Nat
  deriving Repr, DecidableEq

/-- the write set of a kernel program -/
def writeSet (p : List KStep) : List KLoc := p.map (·.dst)
/-- the read set of a kernel program (an over-approximation where the C++ exits a loop early) -/
def readSet (p : List KStep) : List KLoc := p.flatMap (·.srcs)

/-- the step stays inside the call's footprint: it writes an owned array and reads only argument or
owned arrays -/
def KStep.Within (c : Call) (s : KStep) : Prop :=
  s.dst.arr ∈ c.outputs ∧ ∀ l ∈ s.srcs, l.arr ∈ c.inputs ∨ l.arr ∈ c.outputs

/-- executable version of `KStep.Within` -/
def KStep.withinB (c : Call) (s : KStep) : Bool :=
  c.outputs.contains s.dst.arr && s.srcs.all fun l => c.inputs.contains l.arr || c.outputs.contains l.arr

/-! ## role-level programs -/

/-- the `i`-th argument array / the `i`-th owned array of the call -/
inductive Role where
  | inp (i : Nat)
  | own (i : Nat)
  deriving DecidableEq, Repr

structure RLoc where
  role : Role
  off : Int
  deriving DecidableEq, Repr

/-- a role-level step: the destination can only be named as an OWNED array -/
structure RStep where
  dst : Nat
  doff : Int
  srcs : List RLoc
  op : List Val → Val

/-- resolve a role (an index that does not exist falls back to the first owned array) -/
def Call.arrOf (c : Call) : Role → Nat
  | .own i => c.outputs.getD i (c.outputs.headD 0)
  | .inp i => c.inputs.getD i (c.outputs.headD 0)

def mkStep (c : Call) (r : RStep) : KStep :=
  ⟨⟨c.arrOf (.own r.dst), r.doff⟩, r.srcs.map (fun l => ⟨c.arrOf l.role, l.off⟩), r.op⟩

/-! ## compilation into `Progs` -/

/-- `Int → Nat`, injective (zig-zag) -/
def encInt : Int → Nat
  | .ofNat n => 2 * n
  | .negSucc n => 2 * n + 1

/-- `Nat × Nat → Nat`, injective (the square-shell pairing) -/
def pairNat (a b : Nat) : Nat := if a < b then b * b + a else a * a + a + b

def KLoc.idx (l : KLoc) : Nat := pairNat l.arr (encInt l.off)

/-- the first call (thread id counted from `t0`) that owns array `a` -/
def ownerFrom : List Call → Nat → Nat → Option Nat
  | [], _, _ => none
  | c :: cs, t, a => if a ∈ c.outputs then some t else ownerFrom cs (t + 1) a

/-- region assignment: arrays owned by call `t` are private to thread `t`, all others are shared
read-only -/
def regionOfArr (calls : List Call) (a : Nat) : Region :=
  match ownerFrom calls 0 a with
  | some t => .priv t
  | none => .sharedRO

def KLoc.toLoc (calls : List Call) (l : KLoc) : Loc := ⟨regionOfArr calls l.arr, l.idx⟩

def KStep.compile (calls : List Call) (s : KStep) : Step :=
  ⟨s.dst.toLoc calls, s.srcs.map (·.toLoc calls), s.op⟩

/-- a native call in flight: its footprint and its role-level program -/
structure KCall where
  call : Call
  raw : List RStep

def KCall.prog (kc : KCall) : List KStep := kc.raw.map (mkStep kc.call)

/-- thread `t` runs call number `t` -/
def compile (kcs : List KCall) : Progs := fun t =>
  match kcs[t]? with
  | some kc => kc.prog.map (KStep.compile (kcs.map (·.call)))
  | none => []

/-- "disjoint outputs": an array owned by one call is neither owned nor read by another call -/
def DisjointOutputs (calls : List Call) : Prop :=
  ∀ (i j : Nat) (ci cj : Call), calls[i]? = some ci → calls[j]? = some cj →
    ∀ a, a ∈ ci.outputs → (a ∈ cj.outputs ∨ a ∈ cj.inputs) → i = j

/-! ## shared pieces of the generators -/

/-- the address the iterator of view `v` points to after `k` increments (`C08.readIter` reads here) -/
def iterAddr (v : C08.View) (k : Nat) : Int := ((C08.Iter.begin v).incrN k).data

/-- address of the neighbour sample at (possibly outside) position `q` under border rule `m`:
`fixPos` then `C08.View.addr`; `none` = flagged (no read) -/
def nbrAddr (m : Mode) (v : C08.View) (q : List Int) : Option Int :=
  (fixPos m v.shape q).map fun q' => v.addr (q'.map Int.toNat)

/-- the constructor of `filter_iterator`: the filter (argument `inp fi`) is read through its iterator
and copied into the call's own `filter_data_` (`own 1`) -/
def filterCopyRaw (fi : Nat) (vF : C08.View) : List RStep :=
  (List.range (shapeSize vF.shape)).map fun (i : Nat) =>
    ⟨1, (i : Int), [⟨.inp fi, iterAddr vF i⟩], fun vs => vs.headD 0⟩

/-- log of a left fold whose states are computed by the model's own step function `f` -/
def logFold {σ ι : Type} (f : σ → ι → σ) (lg : σ → ι → List RStep) : σ → List ι → List RStep
  | _, [] => []
  | s, x :: xs => lg s x ++ logFold f lg (f s x) xs

/-! ## erode (`_morph.cpp` `erode<T>`): gather kernel

roles: `inp 0` = array, `inp 1` = Bc; `own 0` = result, `own 1` = `filter_data_`. -/

/-- the inner loop of `erode<T>` on the values read: running minimum of `erode_sub(value, height)`,
early exit at the dtype minimum -/
def erodeVals (dt : DT) : List Int → List Val → Int → Int
  | h :: hs, v :: vs, acc =>
    let v' := min acc (erodeSub dt v h)
    if v' = dt.lo then v' else erodeVals dt hs vs v'
  | _, _, acc => acc

/-- the step of output pixel number `k` (C order) -/
def erodePixel (dt : DT) (vA vOut : C08.View) (sup : List (List Int × Int)) (k : Nat) : RStep :=
  let p := unravelI vA.shape k
  { dst := 0, doff := iterAddr vOut k,
    srcs := sup.map (fun kh => ⟨.inp 0, (nbrAddr .nearest vA (addPos p kh.1)).getD vA.base⟩) ++
            (List.range sup.length).map (fun j => ⟨.own 1, (j : Int)⟩),
    op := fun vs => erodeVals dt (sup.map (·.2)) vs dt.hi }

def erodeRaw (dt : DT) (vA vOut vBc : C08.View) (bc : Array Int) : List RStep :=
  filterCopyRaw 1 vBc ++
  (List.range (shapeSize vA.shape)).map (erodePixel dt vA vOut (C01.support vBc.shape bc dt.isBool))

/-! ## convolve (`_convolve.cpp` `convolve<T>`): gather kernel, flagged samples skipped

roles: `inp 0` = array, `inp 1` = weights; `own 0` = result, `own 1` = `filter_data_`. -/

/-- `cur += value * weight` over the samples that are read -/
def convVals : List Int → List Val → Int → Int
  | w :: ws, v :: vs, cur => convVals ws vs (cur + v * w)
  | _, _, cur => cur

/-- the samples of pixel `p` that are really read: (address, weight) -/
def convLive (m : Mode) (vA : C08.View) (sup : List (List Int × Int)) (p : List Int) : List (Int × Int) :=
  sup.filterMap fun kw => (nbrAddr m vA (addPos p kw.1)).map fun a => (a, kw.2)

def convPixel (m : Mode) (vA vOut : C08.View) (sup : List (List Int × Int)) (k : Nat) : RStep :=
  let live := convLive m vA sup (unravelI vA.shape k)
  { dst := 0, doff := iterAddr vOut k,
    srcs := live.map (fun aw => ⟨.inp 0, aw.1⟩) ++
            (List.range sup.length).map (fun j => ⟨.own 1, (j : Int)⟩),
    op := fun vs => convVals (live.map (·.2)) vs 0 }

def convolveRaw (m : Mode) (vA vOut vW : C08.View) (w : Array Int) : List RStep :=
  filterCopyRaw 1 vW ++
  (List.range (shapeSize vA.shape)).map
    (convPixel m vA vOut (C06.support (fun (x : Int) => x == 0) vW.shape w))

/-! ## labeled folds (`_labeled.cpp` `labeled_foldl`: `labeled_sum/max/min`)

roles: `inp 0` = array, `inp 1` = labeled; `own 0` = `result[maxlabel]`, `own 1` = a register.
The address written depends on the label read: the generator takes the labels' memory `mL`. -/

/-- the step of element number `k`: `if (0 <= l && l < maxlabel) result[l] = f(*iterator, result[l])` -/
def foldStep (f : Val → Val → Val) (maxlabel : Nat) (vA vL : C08.View) (mL : Int → Int) (k : Nat) : RStep :=
  let l := C08.readIter mL vL k
  if 0 ≤ l ∧ l < (maxlabel : Int) then
    ⟨0, l, [⟨.inp 0, iterAddr vA k⟩, ⟨.own 0, l⟩, ⟨.inp 1, iterAddr vL k⟩],
      fun vs => match vs with | a :: r :: _ => f a r | _ => 0⟩
  else ⟨1, 0, [⟨.inp 1, iterAddr vL k⟩], fun vs => vs.headD 0⟩

def foldRaw (f : Val → Val → Val) (start : Val) (maxlabel : Nat) (vA vL : C08.View)
    (mL : Int → Int) : List RStep :=
  (List.range maxlabel).map (fun (j : Nat) => (⟨0, (j : Int), [], fun _ => start⟩ : RStep)) ++
  (List.range (shapeSize vA.shape)).map (foldStep f maxlabel vA vL mL)

/-! ## label (`_labeled.cpp` `label`): union-find inside the call's own buffer

roles: `inp 0` = Bc; `own 0` = `labeled` (the wrapper's fresh int32 buffer: input, union-find parents
and result in one), `own 1` = `filter_data_`, `own 2` = registers (`[0]` = the value last loaded / the
return value of `find`, `[1]` = `next`), `own 3` = `std::map seen` (cell `k` = `seen[k]`).
A REAL step program: the ADDRESSES are generated along the run of `C03.parents` / `C03.renumGo` (they
are data dependent: `find` follows the parent pointers), every VALUE stored is computed by the step from
the values it reads (`find` returns through the register, `join` stores the register, the renumbering
loop copies `next` / `seen[val]`). -/

/-- load `own a [i]` into the register -/
def rdS (reg a : Nat) (i : Int) : RStep := ⟨reg, 0, [⟨.own a, i⟩], fun vs => vs.headD 0⟩
/-- store the (model's) value `v` into `own a [i]` (used by the cwatershed trace replay) -/
def wrS (a : Nat) (i : Int) (v : Val) (srcs : List RLoc) : RStep := ⟨a, i, srcs, fun _ => v⟩
/-- store the register `own 2 [0]` into `own a [i]` -/
def stS (a : Nat) (i : Int) : RStep := ⟨a, i, [⟨.own 2, 0⟩], fun vs => vs.headD 0⟩

/-- accesses of `find(data, i)` on parent array `par`: load `data[i]`; at a root the loaded value is the
return value; otherwise recurse on it and, on the way back, `data[i] = j` with `j` still in the register.
(Exhausted fuel — `C03.find 0` returns `i` without reading; unreachable with the fuel `N + 1` used — is
modelled as loading the constant.) -/
def findLog : Nat → Array Int → Nat → List RStep
  | 0, _, i => [⟨2, 0, [], fun _ => (i : Int)⟩]
  | fuel + 1, par, i =>
    let p := par.getD i (-1)
    if p = (i : Int) then [rdS 2 0 i] else
    rdS 2 0 i :: findLog fuel par p.toNat ++ [stS 0 i]

/-- `join`: `i = find(i); j = find(j); data[i] = j` (`j` is in the register after the second `find`) -/
def joinLog (fuel : Nat) (par : Array Int) (i j : Nat) : List RStep :=
  let r1 := C03.find fuel par i
  findLog fuel par i ++ findLog fuel r1.1 j ++ [stS 0 r1.2]

/-- the state step of the neighbour loop of `C03.scanPixel` -/
def scanNbStep (fuel : Nat) (i : Nat) (par : Array Int) (nb : Nat) : Array Int :=
  let v := par.getD nb (-1)
  if v = -1 then par else C03.join fuel par i v.toNat

def scanPixelLog (m : Mode) (shape : List Nat) (offs : List (List Int)) (fuel : Nat)
    (par : Array Int) (i : Nat) : List RStep :=
  rdS 2 0 i ::
  (if par.getD i (-1) = -1 then [] else
    logFold (scanNbStep fuel i)
      (fun par nb => rdS 2 0 nb ::
        (let v := par.getD nb (-1); if v = -1 then [] else joinLog fuel par i v.toNat))
      par (C03.neighbours m shape offs (unravelI shape i)))

/-- the compression loop: `if (data[i] != -1) compress(data, i)` -/
def compressStep (fuel : Nat) (par : Array Int) (i : Nat) : Array Int :=
  if par.getD i (-1) = -1 then par else C03.compress fuel par i

def compressLog (fuel : Nat) (par : Array Int) (i : Nat) : List RStep :=
  rdS 2 0 i :: (if par.getD i (-1) = -1 then [] else findLog fuel par i)

/-- the renumbering loop along `C03.renumGo`: `val = data[i]`; known key: `data[i] = seen[val]`; new key:
`data[i] = next; seen[val] = next; ++next` -/
def renumLog (seen : List (Int × Int)) (next : Int) (i : Nat) : List Int → List RStep
  | [] => []
  | v :: vs =>
    rdS 2 0 i ::
    (match seen.lookup v with
     | some _ => (⟨0, (i : Int), [⟨.own 3, v⟩], fun xs => xs.headD 0⟩ : RStep) :: renumLog seen next (i + 1) vs
     | none =>
       [ (⟨0, (i : Int), [⟨.own 2, 1⟩], fun xs => xs.headD 0⟩ : RStep),
         ⟨3, v, [⟨.own 2, 1⟩], fun xs => xs.headD 0⟩,
         ⟨2, 1, [⟨.own 2, 1⟩], fun xs => xs.headD 0 + 1⟩ ] ++
       renumLog ((v, next) :: seen) (next + 1) (i + 1) vs)

def labelRaw (m : Mode) (shape : List Nat) (data : List Int) (vBc : C08.View) (bc : Array Int) :
    List RStep :=
  let n := data.length
  let fuel := n + 1
  let offs := C03.offsets vBc.shape bc
  let par0 := C03.initParents data
  let par1 := (List.range n).foldl (C03.scanPixel m shape offs fuel) par0
  let par2 := (List.range n).foldl (compressStep fuel) par1
  -- `data[i] = (data[i] ? i : -1)`
  (List.range n).map (fun (i : Nat) => (⟨0, (i : Int), [⟨.own 0, (i : Int)⟩],
      fun vs => if vs.headD 0 ≠ 0 then (i : Int) else -1⟩ : RStep)) ++
  filterCopyRaw 0 vBc ++
  logFold (C03.scanPixel m shape offs fuel) (scanPixelLog m shape offs fuel) par0 (List.range n) ++
  logFold (compressStep fuel) (compressLog fuel) par1 (List.range n) ++
  -- `int next = 1; seen[-1] = 0;` then the loop
  [ (⟨2, 1, [], fun _ => 1⟩ : RStep), ⟨3, -1, [], fun _ => 0⟩ ] ++
  renumLog [(-1, 0)] 1 0 par2.toList

/-! ## cwatershed (`_morph.cpp` `cwatershed<T>`)

roles: `inp 0` = surface, `inp 1` = markers, `inp 2` = Bc; `own 0` = `res` (C array, flat), `own 1` =
`status`, `own 2` = the priority queue (cell = insertion index), `own 3` = `lines`, `own 4` = the
neighbour table, `own 5` = a register.  Addresses along the run of `C04.modelRun`; `wrS` stores the same
constants the C++ stores (`white`/`grey`/`black`, `true`); `res` receives copies of values read. -/

/-- the marker scan step of `C04.modelInit` -/
def wsInitStep (surf markers : Img Int) (st : C04.MSt) (i : Nat) : C04.MSt :=
  let m := markers.data.getD i 0
  if m == 0 then st else
    let mpos := unravelI surf.shape i
    { st with queue := st.queue ++ [⟨surf.data.getD i 0, st.idx, i, C04.marginOf surf.shape mpos⟩],
              idx := st.idx + 1,
              res := st.res.setIfInBounds i m,
              status := st.status.setIfInBounds i 1 }

def wsInitLog (vS vM : C08.View) (markers : Img Int) (st : C04.MSt) (i : Nat) : List RStep :=
  let m := markers.data.getD i 0
  ⟨5, 0, [⟨.inp 1, iterAddr vM i⟩], fun vs => vs.headD 0⟩ ::
  (if m == 0 then [] else
    [ ⟨2, (st.idx : Int), [⟨.inp 0, vS.addr (unravel vS.shape i)⟩], fun vs => vs.headD 0⟩,
      ⟨0, (i : Int), [⟨.inp 1, iterAddr vM i⟩], fun vs => vs.headD 0⟩,
      wrS 1 i 1 [] ])

def wsVisitLog (vS : C08.View) (surf : Img Int) (next : C04.QE) (acc : C04.MSt × Int) (nb : C04.Nb) :
    List RStep :=
  let (st, margin) := acc
  match C04.nbCheck surf.shape next.pos margin nb with
  | none => []
  | some (_, _) =>
    let npos := ((next.pos : Int) + nb.delta).toNat
    rdS 5 1 npos ::
    (if st.status.getD npos 0 == 0 then
      [ ⟨2, (st.idx : Int), [⟨.inp 0, vS.atFlat npos⟩], fun vs => vs.headD 0⟩,
        ⟨0, (npos : Int), [⟨.own 0, (next.pos : Int)⟩], fun vs => vs.headD 0⟩,
        wrS 1 npos 1 [] ]
    else if st.status.getD npos 0 == 1 then
      (if st.res.getD next.pos 0 != st.res.getD npos 0
        then [wrS 3 npos 1 [⟨.own 0, (next.pos : Int)⟩, ⟨.own 0, (npos : Int)⟩]]
        else [⟨5, 0, [⟨.own 0, (next.pos : Int)⟩, ⟨.own 0, (npos : Int)⟩], fun vs => vs.headD 0⟩])
    else [])

def wsRunLog (vS : C08.View) (surf : Img Int) (nbs : List C04.Nb) : Nat → C04.MSt → List RStep
  | 0, _ => []
  | n + 1, st =>
    match C04.extractMin C04.QE.key st.queue with
    | none => []
    | some (e, rest) =>
      let st1 : C04.MSt := { st with queue := rest, status := st.status.setIfInBounds e.pos 2 }
      -- `top()`/`pop()` touch the queue cells, `status[next.position] = black`, the table is walked
      st.queue.map (fun q => rdS 5 2 q.idx) ++ [wrS 2 e.idx 0 [], wrS 1 e.pos 2 []] ++
      (List.range nbs.length).map (fun (j : Nat) => rdS 5 4 (j : Int)) ++
      logFold (C04.modelVisit surf e) (wsVisitLog vS surf e) (st1, e.margin) nbs ++
      (match C04.modelStep surf nbs st with
       | none => []
       | some st' => wsRunLog vS surf nbs n st')

def cwatershedRaw (vS vM vBc : C08.View) (surf markers : Img Int) (bc : Array Int) : List RStep :=
  let n := shapeSize surf.shape
  let nbs := C04.neighbours surf.shape (C04.offsets vBc.shape bc)
  let st0 : C04.MSt := { queue := [], idx := 0, status := Array.replicate n 0,
                          res := Array.replicate n 0, lines := Array.replicate n false }
  -- the neighbour table is built from Bc read through its iterator
  (List.range (shapeSize vBc.shape)).map (fun (j : Nat) =>
    (⟨4, (j : Int), [⟨.inp 2, iterAddr vBc j⟩], fun vs => vs.headD 0⟩ : RStep)) ++
  -- `std::vector<unsigned char> status(N, white)`
  (List.range n).map (fun (i : Nat) => wrS 1 (i : Int) 0 []) ++
  logFold (wsInitStep surf markers) (wsInitLog vS vM markers) st0 (List.range n) ++
  wsRunLog vS surf nbs (C04.fuelOf surf.shape) (C04.modelInit surf markers)

/-! ## the five kernels as calls -/

/-- a kernel invocation with everything its access trace depends on -/
inductive Kernel where
  | erode (dt : DT) (vA vOut vBc : C08.View) (bc : Array Int)
  | convolve (m : Mode) (vA vOut vW : C08.View) (w : Array Int)
  | label (m : Mode) (shape : List Nat) (data : List Int) (vBc : C08.View) (bc : Array Int)
  | cwatershed (vS vM vBc : C08.View) (surf markers : Img Int) (bc : Array Int)
  | fold (f : Val → Val → Val) (start : Val) (maxlabel : Nat) (vA vL : C08.View) (mL : Int → Int)

def Kernel.raw : Kernel → List RStep
  | .erode dt vA vOut vBc bc => erodeRaw dt vA vOut vBc bc
  | .convolve m vA vOut vW w => convolveRaw m vA vOut vW w
  | .label m shape data vBc bc => labelRaw m shape data vBc bc
  | .cwatershed vS vM vBc surf markers bc => cwatershedRaw vS vM vBc surf markers bc
  | .fold f start maxlabel vA vL mL => foldRaw f start maxlabel vA vL mL

/-- number of argument arrays and of owned arrays the kernel's roles refer to -/
def Kernel.arity : Kernel → Nat × Nat
  | .erode .. => (2, 2)
  | .convolve .. => (2, 2)
  | .label .. => (1, 4)
  | .cwatershed .. => (3, 6)
  | .fold .. => (2, 2)

/-- kernel `k` called on the arrays of `c` -/
def Kernel.call (k : Kernel) (c : Call) : KCall := ⟨c, k.raw⟩

/-- every role a step mentions exists in a call of this arity -/
def RStep.rolesOk (ar : Nat × Nat) (r : RStep) : Bool :=
  decide (r.dst < ar.2) && r.srcs.all fun l =>
    match l.role with
    | .inp i => decide (i < ar.1)
    | .own i => decide (i < ar.2)

end Mahotas.C12
